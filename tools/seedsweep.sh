#!/bin/bash
# tools/seedsweep.sh <tier> <seed>...: runall for several seeds; prints only non-clean lines plus a count
tier=$1; shift
d="$(dirname "$0")"
for s in "$@"; do
  echo "## seed $s"
  "$d/runall.sh" $tier $s | grep -v "exit=0" 
done
echo SWEEP-DONE
