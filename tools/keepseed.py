#!/usr/bin/env python3
"""tools/keepseed.py <summary file>: copy verified candidates (all four verification flags true) into /verif/seeded/<PROP>-<batch><mN>/
with meta.json extended by what was run and which check signatures caught it."""
import json, os, re, shutil, sys
txt = open(sys.argv[1]).read()
blocks = re.split(r"^=== ", txt, flags=re.M)[1:]
for b in blocks:
    lines = b.strip().splitlines()
    src = lines[0].strip()
    flags = {m.group(1): m.group(2) == "true" for m in re.finditer(r'"(\w+)": (true|false)', b)}
    ok = all(flags.get(k) for k in ("applies", "suite_passes_with_patch", "demo_fails_with_patch", "demo_passes_without_patch"))
    verdicts = re.findall(r"^m\d+ (C\d+): (\w+) (\[.*\])?", b, flags=re.M)
    if not ok:
        print("SKIP (not verified):", src, flags)
        continue
    meta = json.load(open(os.path.join(src, "meta.json")))
    batch = os.path.basename(os.path.dirname(src))
    name = "%s-%s%s" % (meta["property"], batch, os.path.basename(src))
    dst = os.path.join("/verif/seeded", name)
    os.makedirs(dst, exist_ok=True)
    for f in ("patch.diff", meta["demo_src"]):
        shutil.copy(os.path.join(src, f), dst)
    meta["verified"] = {"how": "tools/mutant.py verify: scratch worktree of /repo HEAD; patch applies, go build ./... ok, go test -vet=off -count=1 ./... passes with the patch, demo fails with it and passes without", **flags}
    meta["check_result"] = [{"property": p, "verdict": v, "signatures": s} for p, v, s in verdicts]
    meta["ran"] = "tools/mutant.py check <dir> (check.py %s --tier quick against the patched sources through a build overlay)" % meta["property"]
    json.dump(meta, open(os.path.join(dst, "meta.json"), "w"), indent=1)
    print("kept", name, [v for _, v, _ in verdicts])
