#!/usr/bin/env python3
"""tools/eqrun.py <root> <out>: for every property-preserving candidate <root>/*/e*/ (patch.diff + meta.json with "touches"),
run the touched properties' quick checks against the patched sources; any CAUGHT is a false-alarm candidate."""
import glob, json, os, subprocess, sys
root, out = sys.argv[1], sys.argv[2]
with open(out, "a") as fh:
    for d in sorted(glob.glob(os.path.join(root, "*", "e*"))):
        if not os.path.exists(os.path.join(d, "patch.diff")):
            continue
        meta = json.load(open(os.path.join(d, "meta.json")))
        meta.setdefault("property", meta["touches"][0])
        json.dump(meta, open(os.path.join(d, "meta.json"), "w"), indent=1)
        fh.write("=== %s touches=%s :: %s\n" % (d, meta["touches"], meta.get("what", "")[:150]))
        fh.flush()
        r = subprocess.run(["python3", "/verif/tools/mutant.py", "check", d] + meta["touches"], capture_output=True, text=True)
        for l in r.stdout.splitlines():
            if " C" in l and (": CAUGHT" in l or ": MISSED" in l or ": INCONCLUSIVE" in l):
                fh.write(l[:400] + "\n")
        if r.returncode != 0:
            fh.write("ERROR " + (r.stdout + r.stderr)[-400:] + "\n")
        fh.flush()
    fh.write("DONE\n")
