#!/bin/bash
# tools/coverage.sh: statement coverage of /repo's packages by the quick tier of all checks (experiment, not a check)
out=/verif/build/cover; rm -rf $out; mkdir -p $out
for i in $(seq -w 1 20); do mkdir -p $out/C$i; VERIF_COVER=$out/C$i python3 /verif/check.py C$i --tier quick >/dev/null 2>&1; done
echo "mode: set" > $out/all.cov; cat $out/C*/*.cov | grep -v "^mode:" >> $out/all.cov
cd /verif/harness && GOFLAGS=-mod=mod GOPROXY=off GOSUMDB=off GOTOOLCHAIN=local go tool cover -func=$out/all.cov > $out/func.txt
grep -E "^total" $out/func.txt
