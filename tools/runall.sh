#!/bin/bash
# tools/runall.sh [tier] [seed]: run every registered check on the current tree; summary on stdout
tier=${1:-quick}; seed=${2:-1}
for i in $(seq -w 1 20); do
  out=$(VERIF_SEED=$seed python3 "$(dirname "$0")/../check.py" C$i --tier $tier 2>&1)
  rc=$?
  echo "C$i exit=$rc $(echo "$out" | grep -E '^\[check\] C[0-9]+ tier' | cut -c1-160)"
  echo "$out" | grep -E "^VIOLATION|^INCONCLUSIVE" | cut -c1-200
done
