CHECK = {
    "level": "exploration",
    "engine": "ws-concurrency",
    "technique": "schedule exploration at run time: gated/yielding transport plus hooks at the write-lock points (tag verif), independent RFC 6455 wire parser over the transport log, porcupine close-latch linearizability check of the recorded API history, lock-discipline assertions from hook events, transport fault injection, delay injection at the latch mutex with spinning racers (closewindow), Go race detector",
    "level_text": "Held on the interleavings observed: hundreds (quick) to tens of thousands (thorough) of runs of one connection with a data writer (frames spanning two transport writes and several frames), a reader answering pings, 1-4 control senders and a closer, (a) free-running with PRNG yields at the lock hook points and inside the transport, (b) directed: every other actor launched while the data writer is parked at a chosen transport write, (c) closewindow: racing senders spinning at their lock-wait hook point until the closer's unlock hook point, with delay injection at the latch's mutex. Close frames go through WriteControl or the data writer's own APIs; pings/pongs with and without payload; client frames with 64-bit lengths; a third of the stress runs with an injected transport write fault (timeout/reset, 0..n-1 bytes accepted), after which nothing may follow a cut frame. Every run's transport log must parse as whole well-formed role-correct frames with control frames only between frames, data messages intact and in order, nothing after the Close frame; API results must agree with the wire and be linearizable under the close-latch model; hook events must show mutual exclusion and no leaked lock; zero race reports. Evidence reports distinct wire interleavings, hook events and how often actors were queued behind the parked writer. Not a proof.",
    "level_note": "Which queued actor is admitted next is the Go runtime's choice (observed, never required). After Close() of the underlying connection only wire integrity and the race verdict apply. Hooks: /repo commit listed in MANIFEST.hooks.",
    "parts": [
        {"name": "stress", "pkg": "websocket", "run": "^TestVerif_C15_Stress$", "race": True, "timeout": {"quick": 900, "thorough": 7200}},
        {"name": "closewindow", "pkg": "websocket", "run": "^TestVerif_C15_CloseWindow$", "race": True, "timeout": {"quick": 900, "thorough": 7200}},
        {"name": "deadlines", "pkg": "websocket", "run": "^TestVerif_C15_Deadlines$", "race": True, "timeout": {"quick": 900, "thorough": 3600}},
        {"name": "directed", "pkg": "websocket", "run": "^TestVerif_C15_Directed$", "race": True, "timeout": {"quick": 900, "thorough": 7200}},
    ],
    "assumptions": [
        "one goroutine writes data messages (the library's documented rule); control frames may come from any goroutine",
    ],
}
