// C02 — RTMP reader decodes every spec-conformant chunk stream (in-package; lock-step
// against the independent reference chunker).
package rtmp

import (
	"encoding/binary"
	"fmt"
	"io"
	"strings"
	"testing"

	oe "github.com/ossrs/go-oryx-lib/errors"
	"verifharness/lib/mon"
	"verifharness/lib/refrtmp"
	"verifharness/lib/vnet"
	"verifharness/lib/vrand"
)

// abstract alphabet ------------------------------------------------------------------------

type verifCsidClass struct {
	id   uint32
	form int
	name string
}

var verifCsidClasses = []verifCsidClass{
	{2, 1, "2"}, {63, 1, "63"}, {64, 2, "64/2B"}, {64, 3, "64/3B"}, {319, 3, "319/3B"}, {320, 3, "320"}, {65599, 3, "65599"},
}

// timestamp classes: absolute value for type 0, delta for types 1/2
var verifTsClasses = []struct {
	v    uint32
	name string
}{{1000, "small"}, {0xfffffe, "fffffe"}, {0xffffff, "ffffff"}, {0x1000000 + 12345, "ge1000000"}, {0x80000000 + 777, "ge2^31"}}

var verifLenClassNames = []string{"1", "c-1", "c", "c+1", "2c+1"}

func verifLenOf(class int, c uint32) int {
	cs := int(c)
	switch class {
	case 0:
		return 1
	case 1:
		if cs <= 1 {
			return 1
		}
		return cs - 1
	case 2:
		return cs
	case 3:
		return cs + 1
	}
	return 2*cs + 1
}

type verifStep struct {
	csid  int // index into verifCsidClasses
	fmt   int
	ts    int // class index
	len   int // class index (types 0/1 only)
	fault int // 0 none; 1 type-0 inside this unfinished message; 2 length change inside it; 3 fresh chunk stream started with fmt
}

type verifScript struct {
	chunk      uint32
	interleave bool
	steps      []verifStep
}

func (s verifScript) String() string {
	var sb strings.Builder
	fmt.Fprintf(&sb, "cs=%d il=%v", s.chunk, s.interleave)
	for _, st := range s.steps {
		fmt.Fprintf(&sb, " [csid=%s fmt=%d ts=%s len=%s", verifCsidClasses[st.csid].name, st.fmt, verifTsClasses[st.ts].name, verifLenClassNames[st.len])
		if st.fault != 0 {
			fmt.Fprintf(&sb, " FAULT%d", st.fault)
		}
		sb.WriteString("]")
	}
	return sb.String()
}

// outcome of building a script with the reference chunker
type verifWire struct {
	data     []byte
	expect   []verifMsg // specification model, completion order
	faulty   bool       // stream breaks a rule after expect
	extNon0  bool       // an extended timestamp occurred on a message started with type 1/2/3
	chunker  *refrtmp.Chunker
	describe string
}

// verifBuildScript turns a script into bytes.  ok=false when the script is not expressible
// (e.g. type 3 start needs an inherited delta; such combinations are simply skipped).
func verifBuildScript(s verifScript, r *vrand.Rand) (w verifWire, ok bool) {
	c := refrtmp.NewChunker()
	if s.chunk != 128 {
		c.WriteWhole(refrtmp.SetChunkSizeMsg(s.chunk, 0), 0, 1)
		c.ChunkSize = s.chunk
		w.expect = append(w.expect, verifFromRef(refrtmp.SetChunkSizeMsg(s.chunk, 0)))
	}
	type pend struct {
		p *refrtmp.Pending
		m refrtmp.Msg
	}
	var pending []pend
	finish := func(k int) {
		for !pending[k].p.NextChunk() {
		}
		w.expect = append(w.expect, verifFromRef(pending[k].m))
		pending = append(pending[:k], pending[k+1:]...)
	}
	finishAll := func() {
		// round-robin at chunk granularity: this is the interleaving
		for len(pending) > 0 {
			for k := 0; k < len(pending); {
				if pending[k].p.NextChunk() {
					w.expect = append(w.expect, verifFromRef(pending[k].m))
					pending = append(pending[:k], pending[k+1:]...)
				} else {
					k++
				}
			}
			if len(pending) > 1 {
				c.Interleaved++
			}
		}
	}
	for _, st := range s.steps {
		cc := verifCsidClasses[st.csid]
		// a message on a chunk stream that still has an unfinished message cannot start: finish that one first
		for k := range pending {
			if pending[k].m.Csid == cc.id {
				finish(k)
				break
			}
		}
		used, pts, pdelta, plen, ptyp, psid := c.Peek(cc.id)
		if st.fault == 3 {
			if used {
				return w, false
			}
			finishAll()
			c.FaultFreshNotType0(cc.id, st.fmt, cc.form)
			w.faulty = true
			break
		}
		m := refrtmp.Msg{Csid: cc.id}
		tv := verifTsClasses[st.ts].v
		switch st.fmt {
		case 0:
			m.Timestamp = tv
			m.Type = uint8(r.Pick(8, 9, 18, 22, 3, 6, 200))
			m.StreamID = uint32(r.PickU64(0, 1, 0xfffffffe, uint64(r.Uint32())))
			m.Payload = r.Bytes(verifLenOf(st.len, c.ChunkSize))
		case 1:
			if !used {
				return w, false
			}
			m.Timestamp = pts + tv
			m.Type = uint8(r.Pick(8, 9, 18, 22))
			m.StreamID = psid
			m.Payload = r.Bytes(verifLenOf(st.len, c.ChunkSize))
		case 2:
			if !used {
				return w, false
			}
			m.Timestamp = pts + tv
			m.Type, m.StreamID = ptyp, psid
			m.Payload = r.Bytes(int(plen))
		case 3:
			if !used {
				return w, false
			}
			m.Timestamp = pts + pdelta
			m.Type, m.StreamID = ptyp, psid
			m.Payload = r.Bytes(int(plen))
		}
		if len(m.Payload) == 0 {
			return w, false
		}
		if !c.CanFmt(m, st.fmt) {
			return w, false
		}
		p := c.Begin(m, st.fmt, cc.form)
		if st.fault == 1 || st.fault == 2 {
			if len(m.Payload) <= int(c.ChunkSize) {
				return w, false // needs an unfinished message
			}
			finishAll()
			p.NextChunk()
			if st.fault == 1 {
				c.FaultType0InsideMessage(p)
			} else {
				c.FaultLengthChanged(p)
			}
			w.faulty = true
			break
		}
		if s.interleave {
			pending = append(pending, pend{p, m})
			pending[len(pending)-1].p.NextChunk() // header chunk goes out now; the rest is interleaved
			if pending[len(pending)-1].p.Done() {
				w.expect = append(w.expect, verifFromRef(m))
				pending = pending[:len(pending)-1]
			}
		} else {
			for !p.NextChunk() {
			}
			w.expect = append(w.expect, verifFromRef(m))
		}
	}
	if !w.faulty {
		finishAll()
	}
	w.data = c.Out
	w.chunker = c
	w.describe = s.String()
	return w, true
}

// run the library reader over the bytes ---------------------------------------------------

type verifReadResult struct {
	msgs []verifMsg
	err  error
}

func verifReadAll(data []byte, seg vnet.Seg, max int) verifReadResult {
	rd := &vnet.CutReader{Data: data, Cut: len(data), Seg: seg}
	p := NewProtocol(vnet.RW{Reader: rd, Writer: io.Discard})
	var res verifReadResult
	for len(res.msgs) <= max {
		m, err := p.ReadMessage()
		if err != nil {
			res.err = err
			return res
		}
		res.msgs = append(res.msgs, verifFromLib(m))
	}
	return res
}

func verifCompareSeq(want, got []verifMsg) (bool, string) {
	if len(want) != len(got) {
		return false, fmt.Sprintf("%d messages expected, %d decoded", len(want), len(got))
	}
	for i := range want {
		if want[i].Cid != got[i].Cid {
			return false, fmt.Sprintf("message %d: chunk stream %d != %d", i, want[i].Cid, got[i].Cid)
		}
		if ok, why := verifSame(want[i], got[i]); !ok {
			return false, fmt.Sprintf("message %d: %s (want %v got %v)", i, why, want[i], got[i])
		}
	}
	return true, ""
}

// verifJudge applies the oracle (and the two-model rule) to one wire.
func verifJudge(m *mon.M, w verifWire, seg vnet.Seg, rep map[string]interface{}, scope string) {
	// self-test of the reference: its own receiver must read what its sender wrote
	d := refrtmp.NewDechunker()
	rm, ends, rerr := d.All(w.data)
	var refGot []verifMsg
	for _, x := range rm {
		refGot = append(refGot, verifFromRef(x))
	}
	if ok, why := verifCompareSeq(w.expect, refGot); !ok || (rerr != nil) != w.faulty {
		m.Violationf("c02:HARNESS-selftest", rep, "reference receiver disagrees with reference sender: %s err=%v faulty=%v", why, rerr, w.faulty)
		return
	}
	w.extNon0 = d.ExtOnNonType0Start > 0
	res := verifReadAll(w.data, seg, len(w.expect)+2)
	against := func(expect []verifMsg) (bool, string) {
		ok, why := verifCompareSeq(expect, res.msgs)
		if !ok {
			if res.err != nil {
				why += fmt.Sprintf("; reader stopped with: %.160v", res.err)
			}
			return false, why
		}
		if res.err == nil {
			return false, "no error after the last message"
		}
		c := oe.Cause(res.err)
		atEnd := c == io.EOF || c == io.ErrUnexpectedEOF
		if !w.faulty && !atEnd {
			return false, fmt.Sprintf("conformant stream rejected: %v", res.err)
		}
		if w.faulty && atEnd {
			return false, fmt.Sprintf("rule-breaking stream read to its end instead of being rejected (%v)", res.err)
		}
		return true, ""
	}
	okA, whyA := against(w.expect)
	if okA {
		m.Count("agree_with_specification", 1)
		if w.faulty {
			m.Count("fault_streams_rejected", 1)
			return
		}
		// the same wire delivered as a peer that waits for an answer delivers it: the bytes up to the end of message k,
		// then nothing until message k has been returned.  A reader that wants bytes of the next chunk before it hands
		// out a complete message (a read-ahead, a peek) hangs every request/response exchange on a real connection;
		// here the transport answers a read on the empty queue with an error instead of blocking.
		if len(ends) == len(w.expect) {
			q := vnet.NewQueue(seg)
			p := NewProtocol(vnet.RW{Reader: q, Writer: io.Discard})
			prev := 0
			for k, e := range ends {
				q.Write(w.data[prev:e])
				prev = e
				got, err := p.ReadMessage()
				if err != nil {
					m.Violationf("c02:message-not-delivered-when-its-bytes-arrived"+scope, rep, "message %d of %d is complete at wire offset %d, but ReadMessage wants more bytes before it returns it: %.200v; script: %s", k, len(ends), e, err, w.describe)
					return
				}
				if ok, why := verifSame(w.expect[k], verifFromLib(got)); !ok {
					m.Violationf("c02:messages-differ:incremental"+scope, rep, "message %d delivered incrementally: %s; script: %s", k, why, w.describe)
					return
				}
			}
			if q.EmptyReads != 0 {
				m.Violationf("c02:reader-reads-beyond-the-message"+scope, rep, "%d reads on the empty transport while every message's bytes were already there; script: %s", q.EmptyReads, w.describe)
				return
			}
			m.Count("wires_delivered_message_by_message", 1)
		}
		return
	}
	if w.extNon0 {
		// second model: specification + "extended timestamp on a type 1/2/3 message start is absolute"
		d2 := refrtmp.NewDechunker()
		d2.AbsExt = true
		rm2, _, _ := d2.All(w.data)
		var exp2 []verifMsg
		for _, x := range rm2 {
			exp2 = append(exp2, verifFromRef(x))
		}
		if okB, _ := against(exp2); okB {
			m.Violationf("c02:ext-timestamp-on-type123-start-read-as-absolute", rep, "%s", whyA)
			return
		}
	}
	sig := "c02:messages-differ" + scope
	if w.faulty {
		sig = "c02:fault-stream-misdecoded" + scope
	}
	m.Violationf(sig, rep, "%s; script: %s", whyA, w.describe)
}

func verifCountWire(m *mon.M, w verifWire) {
	c := w.chunker
	for a := 0; a < 4; a++ {
		for b := 0; b < 4; b++ {
			if c.Trans[a][b] > 0 {
				m.Count(fmt.Sprintf("fmt_transition_%d_%d", a, b), int64(c.Trans[a][b]))
			}
		}
	}
	for f := 1; f <= 3; f++ {
		if c.BasicForms[f] > 0 {
			m.Count(fmt.Sprintf("basic_header_form_%d", f), int64(c.BasicForms[f]))
		}
	}
	m.Count("ext_timestamp_headers", int64(c.ExtHeaders))
	m.Count("ext_timestamp_in_type3", int64(c.ExtInType3))
	m.Count("interleaved_rounds", int64(c.Interleaved))
	m.Count("chunks", int64(c.Chunks))
}

// bounded-exhaustive enumeration -----------------------------------------------------------

func verifEnumSteps(first bool, prev []verifStep, emit func(verifStep)) {
	for ci := range verifCsidClasses {
		sameAsPrev := false
		for _, p := range prev {
			if verifCsidClasses[p.csid].id == verifCsidClasses[ci].id {
				sameAsPrev = true
			}
		}
		for f := 0; f < 4; f++ {
			if f > 0 && !sameAsPrev {
				// fresh chunk stream with a non-zero type: the third fault mode (one representative per type)
				if ci == 1 || ci == 4 {
					emit(verifStep{csid: ci, fmt: f, fault: 3})
				}
				continue
			}
			nts, nlen := len(verifTsClasses), len(verifLenClassNames)
			if f == 3 {
				nts = 1
			}
			if f >= 2 {
				nlen = 1
			}
			for ts := 0; ts < nts; ts++ {
				for ln := 0; ln < nlen; ln++ {
					emit(verifStep{csid: ci, fmt: f, ts: ts, len: ln})
					if f == 0 && ts == 0 && ln == 4 {
						emit(verifStep{csid: ci, fmt: f, ts: ts, len: ln, fault: 1})
						emit(verifStep{csid: ci, fmt: f, ts: ts, len: ln, fault: 2})
					}
				}
			}
		}
	}
}

func TestVerif_C02_Exhaustive(t *testing.T) {
	m := mon.New("C02", "exhaustive")
	defer m.Finish(t)
	depth := m.N(2, 3)
	m.Rule(fmt.Sprintf("exhaustive: every script of %d message starts over header type x chunk stream class {2,63,64/2B,64/3B,319/3B,320,65599} x "+
		"timestamp/delta class {small,0xFFFFFE,0xFFFFFF,>=0x1000000,>=2^31} x length class {1,c-1,c,c+1,2c+1} x chunk size {128,1,4096} x "+
		"{sequential, chunk-interleaved}, inexpressible combinations skipped, the three rule-breaking forms as terminal steps; bytes produced by the "+
		"reference chunker, read by the library under a PRNG read segmentation; distinct = script", depth))
	m.Exhaustive(true)
	// materialise first-level and second-level steps; the scripts are indexed so that workers can split them
	var l1, l2all []verifStep
	verifEnumSteps(true, nil, func(s verifStep) { l1 = append(l1, s) })
	_ = l2all
	chunks := []uint32{128, 1, 4096}
	type job struct {
		chunk uint32
		il    bool
		s1    verifStep
	}
	var jobs []job
	for _, c := range chunks {
		for _, il := range []bool{false, true} {
			for _, s1 := range l1 {
				jobs = append(jobs, job{c, il, s1})
			}
		}
	}
	mon.Parallel(len(jobs), func(w, ji int) {
		j := jobs[ji]
		r := m.Rand("exh", ji)
		run := func(steps []verifStep) {
			sc := verifScript{chunk: j.chunk, interleave: j.il, steps: steps}
			wire, ok := verifBuildScript(sc, r)
			if !ok {
				m.Count("scripts_inexpressible", 1)
				return
			}
			m.Case()
			if len(steps) <= 2 {
				m.Class(sc.String())
			} else {
				m.DistinctN(1) // every enumerated script is generated exactly once; 10^7 signatures are not stored
				last := steps[len(steps)-1]
				m.Count(fmt.Sprintf("depth3_last:csid=%s,fmt=%d,fault%d", verifCsidClasses[last.csid].name, last.fmt, last.fault), 1)
			}
			verifCountWire(m, wire)
			if wire.faulty {
				m.Count(fmt.Sprintf("fault_mode_%d", steps[len(steps)-1].fault), 1)
			}
			rep := map[string]interface{}{"script": sc.String(), "wire_hex": mon.Hex(wire.data)}
			if m.WantSample() && len(steps) == depth {
				m.Sample(rep)
			}
			scope := ""
			for _, st := range steps {
				if verifCsidClasses[st.csid].form == 3 {
					scope = ":3byte-basic-header"
				}
			}
			m.Guard("rtmp.ReadMessage", wire.data, func() { verifJudge(m, wire, vnet.PickSeg(r), rep, scope) })
		}
		var rec func(steps []verifStep)
		rec = func(steps []verifStep) {
			run(steps)
			if len(steps) >= depth || steps[len(steps)-1].fault != 0 {
				return
			}
			verifEnumSteps(false, steps, func(s verifStep) {
				rec(append(append([]verifStep(nil), steps...), s))
			})
		}
		rec([]verifStep{j.s1})
	})
	m.Require("fault_mode_1", 10)
	m.Require("fault_mode_2", 10)
	m.Require("fault_mode_3", 10)
	m.Require("basic_header_form_2", 100)
	m.Require("basic_header_form_3", 100)
	m.Require("ext_timestamp_in_type3", 100)
	m.Require("interleaved_rounds", 100)
	for a := 0; a < 4; a++ {
		if a > 0 && depth < 3 {
			break // a previous non-zero type needs three message starts; the random part requires the whole matrix
		}
		for b := 0; b < 4; b++ {
			m.Require(fmt.Sprintf("fmt_transition_%d_%d", a, b), 1)
		}
	}
}

// random long traces ----------------------------------------------------------------------

func TestVerif_C02_Random(t *testing.T) {
	m := mon.New("C02", "random")
	defer m.Finish(t)
	m.Rule("random: <=200 messages over <=40 chunk streams (ids from all basic-header ranges), header type chosen among the legal ones " +
		"for the chunk stream's history, up to 4 messages in flight interleaved at chunk granularity, Set Chunk Size between messages, optional " +
		"librtmp ping form first, optional terminal rule break; distinct = (streams, max in flight, chunk sizes used, ext seen, terminal kind) bucket")
	n := m.N(2000, 100000)
	m.Require("evaluations", int64(n))
	m.Require("librtmp_ping_first", 20)
	for a := 0; a < 4; a++ {
		for b := 0; b < 4; b++ {
			m.Require(fmt.Sprintf("fmt_transition_%d_%d", a, b), 10)
		}
	}
	m.Require("basic_header_form_2", 100)
	m.Require("basic_header_form_3", 100)
	m.Require("interleaved_rounds", 0)
	// many chunk streams on one connection: 600..2000 distinct ids (a relay multiplexing hundreds of streams), each started with a
	// type-0 header and revisited later with type 1/2/3 headers that depend on what the reader remembers of that stream
	nmany := m.N(4, 40)
	m.Require("traces_with_600_or_more_chunk_streams", int64(nmany))
	mon.Parallel(nmany, func(w, i int) {
		r := m.Rand("manystreams", i)
		ns := r.Range(600, 2000)
		wire, desc := verifRandomTraceN(r, m, ns, 4*ns)
		m.Case()
		m.Count("traces_with_600_or_more_chunk_streams", 1)
		verifCountWire(m, wire)
		rep := map[string]interface{}{"case": i, "shape": "manystreams " + desc, "chunk_streams": ns}
		wire.describe = fmt.Sprintf("many-streams trace #%d (%d chunk streams) %s", i, ns, desc)
		m.Guard("rtmp.ReadMessage", nil, func() { verifJudge(m, wire, vnet.PickSeg(r), rep, ":manystreams") })
	})
	mon.Parallel(n, func(w, i int) {
		r := m.Rand("rand", i)
		wire, desc := verifRandomTrace(r, m)
		m.Case()
		m.Class(desc)
		verifCountWire(m, wire)
		rep := map[string]interface{}{"case": i, "shape": desc, "wire_hex": mon.Hex(wire.data)}
		wire.describe = fmt.Sprintf("random trace #%d %s:%s", i, desc, wire.describe)
		if m.WantSample() {
			m.Sample(rep)
		}
		m.Guard("rtmp.ReadMessage", wire.data, func() { verifJudge(m, wire, vnet.PickSeg(r), rep, ":random") })
	})
}

// verifPeerControl: the body of a User Control (4) or Window Acknowledgement Size (5) message as peers send them — the
// reader decodes these on arrival, so what servers and librtmp really emit must pass: the standard events with their 4- or
// 8-byte data, the FMS 0x1a event with one byte, librtmp's SWF verification request/response (0x1a / 0x1b with 42 bytes),
// events this library has no name for.  nil for every other message type.
func verifPeerControl(r *vrand.Rand, typ uint8) []byte {
	switch typ {
	case 5:
		b := make([]byte, 4)
		binary.BigEndian.PutUint32(b, uint32(r.Pick(1, 2500000, 5000000, 0x7fffffff)))
		return b
	case 4:
		ev := uint16(r.Pick(0, 1, 2, 3, 4, 6, 7, 0x1a, 0x1b, 0x1f, 0x20, 0x22))
		n := 4
		switch ev {
		case 3:
			n = 8
		case 0x1a:
			n = 1
		case 0x1b:
			n = 42
		}
		b := make([]byte, 2+n)
		binary.BigEndian.PutUint16(b, ev)
		r.Fill(b[2:])
		return b
	}
	return nil
}

func verifRandomTrace(r *vrand.Rand, m *mon.M) (verifWire, string) {
	return verifRandomTraceN(r, m, 0, 0)
}

// verifRandomTraceN: forceStreams/forceMsgs > 0 override the PRNG's choice of how many chunk streams / messages.
func verifRandomTraceN(r *vrand.Rand, m *mon.M, forceStreams, forceMsgs int) (verifWire, string) {
	c := refrtmp.NewChunker()
	var w verifWire
	nstreams := r.Range(1, 40)
	if forceStreams > 0 {
		nstreams = forceStreams
	}
	ids := make([]uint32, nstreams)
	forms := map[uint32]int{}
	for k := range ids {
		for {
			switch r.Intn(4) {
			case 0:
				ids[k] = uint32(r.Range(3, 63))
			case 1:
				ids[k] = uint32(r.Range(64, 319))
			case 2:
				ids[k] = uint32(r.Range(320, 65599))
			default:
				ids[k] = uint32(r.Pick(3, 63, 64, 319, 320, 65599))
			}
			if _, dup := forms[ids[k]]; !dup {
				break
			}
		}
		f := refrtmp.FormsFor(ids[k])
		forms[ids[k]] = f[r.Intn(len(f))]
	}
	ping := r.Chance(1, 10)
	if ping {
		pm := c.LibrtmpPing(r.Uint32())
		w.expect = append(w.expect, verifFromRef(pm))
		m.Count("librtmp_ping_first", 1)
	}
	type pend struct {
		p *refrtmp.Pending
		m refrtmp.Msg
	}
	var pending []pend
	maxFlight := r.Range(1, 4)
	seenFlight := 0
	nmsg := r.Range(1, 200)
	if r.Chance(1, 2) {
		nmsg = r.Range(1, 20)
	}
	if forceMsgs > 0 {
		nmsg = forceMsgs
	}
	sizes := map[uint32]bool{128: true}
	ext := false
	step := func() { // advance one pending by one chunk
		k := r.Intn(len(pending))
		if pending[k].p.NextChunk() {
			w.expect = append(w.expect, verifFromRef(pending[k].m))
			pending = append(pending[:k], pending[k+1:]...)
		}
	}
	busy := func(id uint32) bool {
		for _, p := range pending {
			if p.m.Csid == id {
				return true
			}
		}
		return false
	}
	for k := 0; k < nmsg; k++ {
		for len(pending) >= maxFlight {
			step()
		}
		if r.Chance(1, 12) {
			// Set Chunk Size between messages (pending messages continue with the new size, as the specification says)
			v := uint32(r.Pick(1, 2, 64, 128, 129, 1000, 4096, 65536))
			if !busy(2) {
				f := 0
				if used, pts, _, _, _, psid := c.Peek(2); used && psid == 0 && r.Bool() {
					f = 1
					scs := refrtmp.SetChunkSizeMsg(v, pts+uint32(r.Intn(50)))
					c.WriteWhole(scs, f, 1)
					w.expect = append(w.expect, verifFromRef(scs))
				} else {
					scs := refrtmp.SetChunkSizeMsg(v, uint32(r.Intn(1000)))
					c.WriteWhole(scs, 0, 1)
					w.expect = append(w.expect, verifFromRef(scs))
				}
				c.ChunkSize = v
				sizes[v] = true
			}
		}
		id := ids[r.Intn(nstreams)]
		for busy(id) {
			step()
		}
		used, pts, pdelta, plen, ptyp, psid := c.Peek(id)
		f := 0
		if used {
			f = r.Intn(4)
			if (ptyp == 4 || ptyp == 5) && f >= 2 {
				f = r.Intn(2) // a header that inherits type and length would carry a PRNG body: control messages stay well-formed
			}
		}
		msg := refrtmp.Msg{Csid: id}
		delta := uint32(r.Intn(100))
		switch r.Intn(14) {
		case 0:
			delta = 0xfffffe
		case 1:
			delta = 0xffffff
		case 2:
			delta = 0x1000000 + uint32(r.Intn(1000))
		case 3:
			delta = 0
		}
		genLen := func() int {
			cs := int(c.ChunkSize)
			switch r.Intn(8) {
			case 0:
				return 1
			case 1:
				return verifMax(1, cs-1)
			case 2:
				return cs
			case 3:
				return cs + 1
			case 4:
				return verifMin(3*cs+1, 70000)
			}
			return r.Range(1, 600)
		}
		switch f {
		case 0:
			msg.Timestamp = uint32(r.PickU64(0, uint64(r.Intn(100000)), 0xfffffe, 0xffffff, 0x1000000, 0x7fffffff, 0x80000000+uint64(r.Intn(1000)), 0xffffffff))
			msg.Type = uint8(r.Pick(8, 9, 18, 20, 22, 3, 6, 15, 17, 100, 4, 5))
			msg.StreamID = uint32(r.PickU64(0, 1, uint64(r.Uint32())))
			msg.Payload = r.Bytes(verifMin(genLen(), 70000))
			if b := verifPeerControl(r, msg.Type); b != nil {
				msg.Payload, msg.StreamID = b, 0
				m.Count("peer_control_messages_in_traces", 1)
			}
		case 1:
			msg.Timestamp = pts + delta
			msg.Type = uint8(r.Pick(8, 9, 18, 20, 4))
			msg.StreamID = psid
			msg.Payload = r.Bytes(verifMin(genLen(), 70000))
			if b := verifPeerControl(r, msg.Type); b != nil {
				msg.Payload = b
				m.Count("peer_control_messages_in_traces", 1)
			}
		case 2:
			msg.Timestamp = pts + delta
			msg.Type, msg.StreamID = ptyp, psid
			msg.Payload = r.Bytes(int(plen))
		case 3:
			msg.Timestamp = pts + pdelta
			msg.Type, msg.StreamID = ptyp, psid
			msg.Payload = r.Bytes(int(plen))
		}
		if len(msg.Payload) == 0 || !c.CanFmt(msg, f) {
			continue
		}
		if (f != 0 && delta >= 0xffffff) || msg.Timestamp >= 0xffffff {
			ext = true
		}
		if len(w.describe) < 4000 {
			w.describe += fmt.Sprintf(" [csid=%d/%dB fmt=%d ts=%d len=%d cs=%d]", id, forms[id], f, msg.Timestamp, len(msg.Payload), c.ChunkSize)
		}
		p := c.Begin(msg, f, forms[id])
		pending = append(pending, pend{p, msg})
		if len(pending) > seenFlight {
			seenFlight = len(pending)
		}
		// the first chunk goes out immediately, so that starts are ordered as generated
		if pending[len(pending)-1].p.NextChunk() {
			w.expect = append(w.expect, verifFromRef(msg))
			pending = pending[:len(pending)-1]
		}
	}
	terminal := "clean"
	if r.Chance(1, 6) {
		// terminal rule break
		switch r.Intn(3) {
		case 0:
			if len(pending) > 0 {
				k := r.Intn(len(pending))
				if r.Bool() {
					c.FaultType0InsideMessage(pending[k].p)
					terminal = "fault1"
				} else {
					c.FaultLengthChanged(pending[k].p)
					terminal = "fault2"
				}
				w.faulty = true
			}
		default:
			for len(pending) > 0 {
				step()
			}
			for _, cand := range []uint32{4, 70, 400, 65000, 7, 299} {
				if u, _, _, _, _, _ := c.Peek(cand); !u {
					f := r.Range(1, 3)
					if cand == 2 {
						continue
					}
					fm := refrtmp.FormsFor(cand)
					c.FaultFreshNotType0(cand, f, fm[r.Intn(len(fm))])
					w.faulty = true
					terminal = "fault3"
					break
				}
			}
		}
	}
	if !w.faulty {
		for len(pending) > 0 {
			step()
		}
	}
	w.data = c.Out
	w.chunker = c
	return w, fmt.Sprintf("streams<=%d/flight%d/sizes%d/ext%v/ping%v/%s", (nstreams+9)/10*10, seenFlight, len(sizes), ext, ping, terminal)
}
