// Package vkeys loads the fixed test keys under harness/testdata/keys (written once by
// cmd/genkeys) and offers deterministic key generators driven by the harness PRNG, for the
// "fresh keys per round" dimension of the thorough tier.
//
// Key names:
//
//	rsa2048-a, rsa2048-b        RSA-2048, e = 65537
//	rsa2048-e3                  RSA-2048, e = 3 (one-byte "e" member in a JWK)
//	p256-a, p256-b, p256-lzx, p256-lzy, p256-lzd   (same for p384-*, p521-*)
//	    lzx / lzy / lzd: searched so that X / Y / D has a leading zero byte at the curve's
//	    coordinate width (for P-521: the two leading bytes are zero, i.e. at most 64 significant bytes)
//	oct16-a, oct16-b, oct24-*, oct32-*, oct48-*, oct64-*   symmetric keys of 16..64 bytes
package vkeys

import (
	"crypto/ecdsa"
	"crypto/elliptic"
	"crypto/rsa"
	"crypto/x509"
	"encoding/hex"
	"encoding/json"
	"encoding/pem"
	"fmt"
	"math/big"
	"os"
	"path/filepath"
	"runtime"
	"sort"
	"strings"
	"sync"

	"verifharness/lib/vrand"
)

var (
	once sync.Once
	rsaK = map[string]*rsa.PrivateKey{}
	ecK  = map[string]*ecdsa.PrivateKey{}
	octK = map[string][]byte{}
)

// Dir returns the directory holding the key files.
func Dir() string {
	if d := os.Getenv("VERIF_KEYS"); d != "" {
		return d
	}
	if _, file, _, ok := runtime.Caller(0); ok {
		d := filepath.Join(filepath.Dir(file), "..", "..", "testdata", "keys")
		if st, err := os.Stat(d); err == nil && st.IsDir() {
			return d
		}
	}
	return "/verif/harness/testdata/keys"
}

func load() {
	dir := Dir()
	ents, err := os.ReadDir(dir)
	if err != nil {
		panic(fmt.Sprintf("vkeys: %v (run `go run ./cmd/genkeys` in /verif/harness)", err))
	}
	for _, e := range ents {
		name := e.Name()
		full := filepath.Join(dir, name)
		switch {
		case strings.HasSuffix(name, ".pem"):
			b, err := os.ReadFile(full)
			if err != nil {
				panic(err)
			}
			blk, _ := pem.Decode(b)
			if blk == nil {
				panic("vkeys: no PEM block in " + full)
			}
			base := strings.TrimSuffix(name, ".pem")
			switch blk.Type {
			case "RSA PRIVATE KEY":
				k, err := x509.ParsePKCS1PrivateKey(blk.Bytes)
				if err != nil {
					panic(fmt.Sprintf("vkeys: %s: %v", full, err))
				}
				rsaK[base] = k
			case "EC PRIVATE KEY":
				k, err := x509.ParseECPrivateKey(blk.Bytes)
				if err != nil {
					panic(fmt.Sprintf("vkeys: %s: %v", full, err))
				}
				ecK[base] = k
			default:
				panic("vkeys: unknown PEM type " + blk.Type + " in " + full)
			}
		case name == "oct.json":
			b, err := os.ReadFile(full)
			if err != nil {
				panic(err)
			}
			var m map[string]string
			if err := json.Unmarshal(b, &m); err != nil {
				panic(fmt.Sprintf("vkeys: %s: %v", full, err))
			}
			for k, v := range m {
				raw, err := hex.DecodeString(v)
				if err != nil {
					panic(fmt.Sprintf("vkeys: %s: %s: %v", full, k, err))
				}
				octK[k] = raw
			}
		}
	}
	if len(rsaK) == 0 || len(ecK) == 0 || len(octK) == 0 {
		panic("vkeys: key directory " + dir + " is incomplete")
	}
}

// RSA returns the named fixed RSA key (shared object: do not modify).
func RSA(name string) *rsa.PrivateKey {
	once.Do(load)
	k := rsaK[name]
	if k == nil {
		panic("vkeys: no RSA key " + name)
	}
	return k
}

// EC returns the named fixed EC key (shared object: do not modify).
func EC(name string) *ecdsa.PrivateKey {
	once.Do(load)
	k := ecK[name]
	if k == nil {
		panic("vkeys: no EC key " + name)
	}
	return k
}

// Oct returns a copy of the named symmetric key.
func Oct(name string) []byte {
	once.Do(load)
	k := octK[name]
	if k == nil {
		panic("vkeys: no symmetric key " + name)
	}
	return append([]byte{}, k...)
}

// OctN returns the symmetric key of n bytes, variant "a" or "b".
func OctN(n int, variant string) []byte { return Oct(fmt.Sprintf("oct%d-%s", n, variant)) }

func RSANames() []string {
	once.Do(load)
	var out []string
	for k := range rsaK {
		out = append(out, k)
	}
	sort.Strings(out)
	return out
}

// ECNames lists the EC key names with the given prefix ("p256", "p384", "p521" or "").
func ECNames(prefix string) []string {
	once.Do(load)
	var out []string
	for k := range ecK {
		if strings.HasPrefix(k, prefix) {
			out = append(out, k)
		}
	}
	sort.Strings(out)
	return out
}

func OctNames() []string {
	once.Do(load)
	var out []string
	for k := range octK {
		out = append(out, k)
	}
	sort.Strings(out)
	return out
}

// CoordSize is the fixed octet length of a coordinate / private scalar on the curve.
func CoordSize(c elliptic.Curve) int { return (c.Params().BitSize + 7) / 8 }

// LeadingZeros reports how many leading zero bytes v has when written at the given width.
func LeadingZeros(v *big.Int, width int) int { return width - len(v.Bytes()) }

// Describe tells which of X, Y, D have leading zero bytes (for evidence), e.g. "x1y0d0".
func Describe(k *ecdsa.PrivateKey) string {
	w := CoordSize(k.Curve)
	return fmt.Sprintf("x%dy%dd%d", LeadingZeros(k.X, w), LeadingZeros(k.Y, w), LeadingZeros(k.D, w))
}

// GenEC derives an EC key deterministically from r: D uniform in [1, n-1], Q = D*G.
func GenEC(c elliptic.Curve, r *vrand.Rand) *ecdsa.PrivateKey {
	n := c.Params().N
	buf := r.Bytes((n.BitLen()+7)/8 + 8)
	d := new(big.Int).SetBytes(buf)
	d.Mod(d, new(big.Int).Sub(n, big.NewInt(1)))
	d.Add(d, big.NewInt(1))
	// fixed-width scalar so that the result does not depend on how the curve treats short scalars
	sc := make([]byte, (n.BitLen()+7)/8)
	d.FillBytes(sc)
	x, y := c.ScalarBaseMult(sc)
	return &ecdsa.PrivateKey{PublicKey: ecdsa.PublicKey{Curve: c, X: x, Y: y}, D: d}
}

// SearchEC generates keys from r until the variant's condition holds: "a"/"b" = X, Y and D all
// full-width; "lzx"/"lzy"/"lzd" = that member has a leading zero byte at the coordinate width
// (P-521: at most 64 significant bytes).  Returns the key and the number of keys generated.
func SearchEC(curve, variant string, r *vrand.Rand) (*ecdsa.PrivateKey, int) {
	c := Curve(curve)
	w := CoordSize(c)
	lz := func(v *big.Int) bool {
		if w == 66 {
			return len(v.Bytes()) <= 64
		}
		return len(v.Bytes()) < w
	}
	for tries := 1; ; tries++ {
		k := GenEC(c, r)
		ok := false
		switch variant {
		case "lzx":
			ok = lz(k.X)
		case "lzy":
			ok = lz(k.Y)
		case "lzd":
			ok = lz(k.D)
		default:
			ok = len(k.X.Bytes()) == w && len(k.Y.Bytes()) == w && len(k.D.Bytes()) == w
		}
		if ok {
			return k, tries
		}
	}
}

// ECVariants are the EC key variants kept per curve.
var ECVariants = []string{"a", "b", "lzx", "lzy", "lzd"}

func genPrime(r *vrand.Rand, bits int) *big.Int {
	for {
		b := r.Bytes(bits / 8)
		b[0] |= 0xC0
		b[len(b)-1] |= 1
		p := new(big.Int).SetBytes(b)
		if p.ProbablyPrime(20) {
			return p
		}
	}
}

// GenRSA derives a two-prime RSA key of the given modulus size and public exponent
// deterministically from r (crypto/rsa.GenerateKey deliberately is not reproducible).
func GenRSA(r *vrand.Rand, bits, e int) *rsa.PrivateKey {
	one := big.NewInt(1)
	E := big.NewInt(int64(e))
	for {
		p := genPrime(r, bits/2)
		q := genPrime(r, bits/2)
		if p.Cmp(q) == 0 {
			continue
		}
		p1 := new(big.Int).Sub(p, one)
		q1 := new(big.Int).Sub(q, one)
		phi := new(big.Int).Mul(p1, q1)
		if new(big.Int).GCD(nil, nil, E, phi).Cmp(one) != 0 {
			continue
		}
		n := new(big.Int).Mul(p, q)
		if n.BitLen() != bits {
			continue
		}
		d := new(big.Int).ModInverse(E, phi)
		k := &rsa.PrivateKey{PublicKey: rsa.PublicKey{N: n, E: e}, D: d, Primes: []*big.Int{p, q}}
		k.Precompute()
		if err := k.Validate(); err != nil {
			continue
		}
		return k
	}
}

// Curve maps "p256"/"p384"/"p521" (or "P-256"...) to the curve.
func Curve(name string) elliptic.Curve {
	switch strings.ToLower(strings.ReplaceAll(name, "-", "")) {
	case "p256":
		return elliptic.P256()
	case "p384":
		return elliptic.P384()
	case "p521":
		return elliptic.P521()
	}
	panic("vkeys: unknown curve " + name)
}
