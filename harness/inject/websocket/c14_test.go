// C14 — WebSocket reader enforces framing rules and the read limit (in-package monitor).
//
// refws.Gen serialises abstract frame traces; the library endpoint (newConn over a
// byte reader, then EOF) reads them; everything it writes back is parsed by
// refws.Parser; the run is compared in lock-step with refws.Receiver.
package websocket

import (
	"unsafe"
	"bytes"
	"fmt"
	"hash/fnv"
	"io"
	"net"
	"os"
	"strconv"
	"sync"
	"testing"
	"time"

	"verifharness/lib/mon"
	"verifharness/lib/refws"
	"verifharness/lib/vrand"
)

// ---------------------------------------------------------------- transport

type verifC14Conn struct {
	r     *bytes.Reader
	chunk int // max bytes per Read (0 = unlimited)
	w     bytes.Buffer
}

func (c *verifC14Conn) Read(p []byte) (int, error) {
	if c.chunk > 0 && len(p) > c.chunk {
		p = p[:c.chunk]
	}
	return c.r.Read(p)
}
func (c *verifC14Conn) Write(p []byte) (int, error)        { return c.w.Write(p) }
func (c *verifC14Conn) Close() error                       { return nil }
func (c *verifC14Conn) LocalAddr() net.Addr                { return nil }
func (c *verifC14Conn) RemoteAddr() net.Addr               { return nil }
func (c *verifC14Conn) SetDeadline(t time.Time) error      { return nil }
func (c *verifC14Conn) SetReadDeadline(t time.Time) error  { return nil }
func (c *verifC14Conn) SetWriteDeadline(t time.Time) error { return nil }

// ---------------------------------------------------------------- run + observe

type verifC14Cfg struct {
	role    refws.Role // role of the library endpoint (the receiver)
	comp    bool
	limit   int64
	readBuf int
	chunk   int
	mode    int // 0 ReadMessage, 1 NextReader + small reads to EOF, 2 NextReader + io.ReadFull of exactly the message (no read that returns EOF), as ReadJSON or a length-prefixed consumer does
	exact   []int // mode 2: the lengths of the messages the model delivers, in order
}

type verifC14Msg struct {
	typ  int
	data []byte
}

type verifC14Obs struct {
	msgs      []verifC14Msg
	err       error   // first error
	later     []error // errors of the reads after the first failure
	lateMsgs  int     // messages delivered after the first failure
	out       []byte
	neverFail bool
	stalled   bool // a control write of the library gave up waiting for the (free) write lock: the process was stalled > 1 s
}

// The library gives its own replies (pong, close 1002/1009) a wall-clock deadline of one second for taking the write lock.
// In these runs nobody else ever holds that lock, so the deadline can only fire if the goroutine is stalled for more than a
// second between computing the deadline and the select (a machine at several times its capacity does that, rarely).  A reply
// that was given up for that reason is not a verdict on the reader: the hook below counts, per connection, control writes that
// started waiting for the lock and never got it; such a run is set aside (counted), not judged.
var verifC14HookOnce sync.Once

// per-connection counts {lockwait, locked} of control writes, touched only when the library writes a control frame; sharded by
// the connection's address so that 16 workers do not meet on one lock
var verifC14Shards [256]struct {
	mu sync.Mutex
	m  map[*Conn]*[2]int32
}

func verifC14Shard(c *Conn) int { return int(uintptr(unsafe.Pointer(c))>>6) & 255 }

func verifC14Hook(point string, c *Conn) {
	k := -1
	switch point {
	case "control.lockwait":
		k = 0
	case "control.locked":
		k = 1
	default:
		return
	}
	sh := &verifC14Shards[verifC14Shard(c)]
	sh.mu.Lock()
	if sh.m == nil {
		sh.m = map[*Conn]*[2]int32{}
	}
	v := sh.m[c]
	if v == nil {
		v = new([2]int32)
		sh.m[c] = v
	}
	v[k]++
	sh.mu.Unlock()
}

// verifC14Stalled reports whether a control write of c started waiting for the write lock and gave up, and forgets c.
func verifC14Stalled(c *Conn) bool {
	sh := &verifC14Shards[verifC14Shard(c)]
	sh.mu.Lock()
	v := sh.m[c]
	delete(sh.m, c)
	sh.mu.Unlock()
	return v != nil && v[0] != v[1]
}

func verifC14Run(cfg verifC14Cfg, wire []byte, maxMsgs int) *verifC14Obs {
	verifC14HookOnce.Do(func() { VerifHook = verifC14Hook })
	nc := &verifC14Conn{r: bytes.NewReader(wire), chunk: cfg.chunk}
	c := newConn(nc, cfg.role == refws.RoleServer, cfg.readBuf, 256)

	if cfg.comp { // what Upgrade / Dial do once permessage-deflate is agreed
		c.newCompressionWriter = compressNoContextTakeover
		c.newDecompressionReader = decompressNoContextTakeover
	}
	if cfg.limit > 0 {
		c.SetReadLimit(cfg.limit)
	}
	o := &verifC14Obs{}
	nread := 0
	read := func() (int, []byte, error) {
		if cfg.mode == 0 {
			return c.ReadMessage()
		}
		mt, r, err := c.NextReader()
		if err != nil {
			return mt, nil, err
		}
		if cfg.mode == 2 && nread < len(cfg.exact) {
			data := make([]byte, cfg.exact[nread])
			nread++
			if _, err := io.ReadFull(r, data); err != nil {
				return mt, data, err
			}
			return mt, data, nil // the reader is left exactly at the end of the message, EOF never seen
		}
		var data []byte
		buf := make([]byte, 1+len(wire)%17)
		for {
			n, err := r.Read(buf)
			data = append(data, buf[:n]...)
			if err == io.EOF {
				return mt, data, nil
			}
			if err != nil {
				return mt, data, err
			}
		}
	}
	for i := 0; ; i++ {
		if i > maxMsgs+2 {
			o.neverFail = true
			break
		}
		mt, p, err := read()
		if err != nil {
			o.err = err
			break
		}
		o.msgs = append(o.msgs, verifC14Msg{mt, p})
	}
	for k := 0; k < 3 && !o.neverFail; k++ {
		_, _, err := read()
		o.later = append(o.later, err)
		if err == nil {
			o.lateMsgs++
		}
	}
	o.out = nc.w.Bytes()
	o.stalled = verifC14Stalled(c)
	return o
}

// kind of terminal the library showed
func verifC14ObsKind(o *verifC14Obs, p *refws.Parser) (refws.TermKind, int) {
	if ce, ok := o.err.(*CloseError); ok && ce.Code != CloseAbnormalClosure {
		return refws.TermCloseReceived, ce.Code
	}
	if o.err == ErrReadLimit {
		return refws.TermLimit, 0
	}
	for _, e := range p.Controls(refws.OpClose) {
		if e.CloseCode == 1002 {
			return refws.TermProtocolError, 0
		}
	}
	return refws.TermCut, 0
}

func verifC14TopClass(frames []refws.Frame) string {
	for i := range frames {
		if frames[i].TopBit() {
			switch d := frames[i].DeclaredLen(); {
			case d == 1<<63:
				return "2^63"
			case d == 1<<64-256:
				return "2^64-256"
			default:
				return "other"
			}
		}
	}
	return "none"
}

var verifC14InflateCache sync.Map

func verifC14Inflate(wire []byte) ([]byte, error) {
	h := fnv.New64a()
	if len(wire) <= 256 {
		h.Write(wire)
	} else { // large payloads here all come from DeflateExact over one fill pattern: length + both ends identify them
		h.Write(wire[:128])
		h.Write(wire[len(wire)-128:])
	}
	key := [2]uint64{uint64(len(wire)), h.Sum64()}
	if v, ok := verifC14InflateCache.Load(key); ok {
		return v.([]byte), nil
	}
	out, err := refws.Inflate(wire)
	if err == nil {
		verifC14InflateCache.Store(key, out)
	}
	return out, err
}

// verifC14Acc collects counters locally (one per worker job) so that the monitor's mutex is not the bottleneck.
type verifC14Acc struct {
	m       *mon.M
	cases   int
	counts  map[string]int64
	classes map[verifC14Class]bool
}

type verifC14Class struct {
	role      refws.Role
	comp      bool
	term      refws.TermKind
	termFrame int
	reason    string
	lim, cut  bool
	top       string
}

func verifC14NewAcc(m *mon.M) *verifC14Acc {
	return &verifC14Acc{m: m, counts: map[string]int64{}, classes: map[verifC14Class]bool{}}
}
func (a *verifC14Acc) Count(k string, n int64) { a.counts[k] += n }
func (a *verifC14Acc) Flush() {
	a.m.Cases(a.cases)
	for k, v := range a.counts {
		a.m.Count(k, v)
	}
	for k := range a.classes {
		a.m.Classf("%s/c%v/%s@%d/%s/lim%v/cut%v/top-%s", k.role, k.comp, k.term, k.termFrame, k.reason, k.lim, k.cut, k.top)
	}
	a.cases, a.counts, a.classes = 0, map[string]int64{}, map[verifC14Class]bool{}
}

// verifC14Eval runs one (trace, cut, configuration) and compares with the model.
func verifC14Eval(acc *verifC14Acc, cfg verifC14Cfg, frames []refws.Frame, wire []byte, cut int, origin func() string) {
	m := acc.m
	acc.cases++
	exp := refws.Receive(refws.RecvConfig{Role: cfg.role, Limit: cfg.limit, Compression: cfg.comp, InflateFn: verifC14Inflate}, frames, cut)
	in := wire
	if cut >= 0 && cut < len(wire) {
		in = wire[:cut]
	}
	rep := func() interface{} {
		d := refws.Describe(frames)
		r := map[string]interface{}{"origin": origin(), "role": cfg.role.String(), "compression": cfg.comp, "limit": cfg.limit,
			"read_buf": cfg.readBuf, "chunk": cfg.chunk, "mode": cfg.mode, "cut": cut, "frames": d,
			"model": map[string]interface{}{"term": exp.Term.String(), "reason": exp.Reason, "term_frame": exp.TermFrame, "messages": len(exp.Messages), "pongs": len(exp.Pongs)}}
		if len(in) <= 600 {
			r["wire_hex"] = fmt.Sprintf("%x", in)
		} else {
			r["wire_hex_prefix"] = fmt.Sprintf("%x", in[:600])
			r["wire_len"] = len(in)
		}
		return r
	}
	if cfg.mode == 2 {
		cfg.exact = nil
		for _, d := range exp.Messages {
			cfg.exact = append(cfg.exact, len(d.Payload))
		}
		acc.Count("runs_reading_exactly_the_message_length", 1)
	}
	var o *verifC14Obs
	if m.Guard("ws.read", nil, func() { o = verifC14Run(cfg, in, len(frames)) }) {
		m.Violationf("c14:panic", rep(), "reader panicked")
		return
	}
	if o.stalled {
		acc.Count("runs_set_aside_after_a_stall_of_more_than_one_second", 1)
		return
	}
	top := verifC14TopClass(frames)
	acc.classes[verifC14Class{cfg.role, cfg.comp, exp.Term, exp.TermFrame, exp.Reason, cfg.limit > 0, cut >= 0, top}] = true
	acc.Count("term_"+exp.Term.String(), 1)
	if o.neverFail {
		m.Violationf("c14:reader-never-fails", rep(), "more messages returned than frames in the stream")
		return
	}
	p := refws.ParseLog(cfg.role, cfg.comp, o.out)
	if e := p.Finish(); e != nil {
		m.Violationf("c14:reply-unparseable:"+e.Code, rep(), "what the endpoint wrote back is not a sequence of valid frames: %v (out %x)", e, o.out)
		return
	}
	acc.Count("reply_frames_parsed", int64(len(p.Frames())))
	for _, e := range p.Events() {
		if e.Kind == refws.EvMessage || e.Opcode == refws.OpPing {
			m.Violationf("c14:unexpected-output", rep(), "the reader wrote a data message or ping")
			break
		}
	}
	pongs := p.Controls(refws.OpPong)
	kind, code := verifC14ObsKind(o, p)
	acc.Count("lib_"+kind.String(), 1)
	acc.Count("pongs_seen", int64(len(pongs)))
	acc.Count("messages_delivered", int64(len(o.msgs)))

	// messages: the common prefix is always asserted
	n := len(exp.Messages)
	if len(o.msgs) < n {
		n = len(o.msgs)
	}
	for i := 0; i < n; i++ {
		if o.msgs[i].typ != int(exp.Messages[i].Type) || !bytes.Equal(o.msgs[i].data, exp.Messages[i].Payload) {
			m.Violationf("c14:delivered-differs", rep(), "message %d: got type %d %s, model type %d %s", i, o.msgs[i].typ, mon.Hex(o.msgs[i].data), exp.Messages[i].Type, mon.Hex(exp.Messages[i].Payload))
			return
		}
	}
	np := len(exp.Pongs)
	if len(pongs) < np {
		np = len(pongs)
	}
	for i := 0; i < np; i++ {
		if !bytes.Equal(pongs[i].Payload, exp.Pongs[i]) {
			m.Violationf("c14:pong-payload-differs", rep(), "pong %d carries %x, ping carried %x", i, pongs[i].Payload, exp.Pongs[i])
			return
		}
	}
	if exp.Term == refws.TermUnasserted {
		// observation only: what does the library do where the statement is silent?
		acc.Count(fmt.Sprintf("obs:%s:lib-%s", exp.Reason, kind), 1)
		if os.Getenv("VERIF_C14_DEBUG_OBS") != "" && len(exp.Reason) > 30 {
			fmt.Printf("OBS %s %v %v lib=%v\n", exp.Reason, refws.Describe(frames), cfg, o.err)
		}
		if len(o.msgs) < len(exp.Messages) || len(pongs) < len(exp.Pongs) {
			m.Violationf("c14:message-not-delivered:before-unasserted", rep(), "only %d/%d messages, %d/%d pongs before the unasserted point", len(o.msgs), len(exp.Messages), len(pongs), len(exp.Pongs))
		}
		return
	}
	if len(o.msgs) < len(exp.Messages) {
		m.Violationf("c14:message-not-delivered:"+exp.Term.String(), rep(), "%d messages delivered, the model delivers %d before %s (library error: %v)", len(o.msgs), len(exp.Messages), exp.Term, o.err)
		return
	}
	extra := o.msgs[len(exp.Messages):]
	if len(extra) > 0 || o.lateMsgs > 0 {
		detail := fmt.Sprintf("%d message(s) delivered beyond the model's %d (terminal %s: %s at frame %d)", len(extra)+o.lateMsgs, len(exp.Messages), exp.Term, exp.Reason, exp.TermFrame)
		if len(extra) > 0 {
			detail += fmt.Sprintf("; first extra: type %d, %d bytes %s", extra[0].typ, len(extra[0].data), mon.Hex(extra[0].data))
		}
		switch exp.Term {
		case refws.TermTopBit:
			m.Violationf("c14:topbit-length-accepted:"+top, rep(), "%s", detail)
			if cfg.limit > 0 && !cfg.comp {
				for _, x := range extra {
					if int64(len(x.data)) > cfg.limit {
						m.Violationf("c14:readlimit-bypassed:negative-fragment", rep(), "limit %d, delivered a %d-byte message that follows a frame with a top-bit length", cfg.limit, len(x.data))
						break
					}
				}
			}
		case refws.TermLimit:
			m.Violationf("c14:readlimit-bypassed", rep(), "limit %d: %s", cfg.limit, detail)
		case refws.TermProtocolError:
			m.Violationf("c14:delivered-after-violation:"+exp.Reason, rep(), "%s", detail)
		case refws.TermCloseReceived:
			m.Violationf("c14:delivered-after-close", rep(), "%s", detail)
		default:
			m.Violationf("c14:short-message-on-cut", rep(), "%s", detail)
		}
		return
	}
	// permanence
	for k, e := range o.later {
		if e == nil {
			m.Violationf("c14:read-succeeds-after-failure", rep(), "read %d after the failure %v returned no error", k+1, o.err)
			return
		}
	}
	// pongs
	if len(pongs) < len(exp.Pongs) {
		m.Violationf("c14:ping-unanswered", rep(), "%d pongs written, %d pings were processed before %s", len(pongs), len(exp.Pongs), exp.Term)
		return
	}
	if len(pongs) > len(exp.Pongs) {
		if exp.Term == refws.TermTopBit {
			m.Violationf("c14:topbit-length-accepted:"+top, rep(), "a ping after the top-bit frame was answered: the frame was accepted and reading continued")
		} else {
			m.Violationf("c14:ping-answered-after-"+exp.Term.String(), rep(), "%d pongs written, only %d pings precede the terminal event (%s)", len(pongs), len(exp.Pongs), exp.Reason)
		}
		return
	}
	// terminal kind
	if exp.Term == refws.TermTopBit {
		return // any failure will do; the statement fixes no close code
	}
	if !exp.Accepts(kind) {
		m.Violationf(fmt.Sprintf("c14:terminal-mismatch:want-%s-got-%s:%s", exp.Term, kind, exp.Reason), rep(), "model: %s (%s) at frame %d; library: %s, error %v, wrote %x", exp.Term, exp.Reason, exp.TermFrame, kind, o.err, o.out)
		return
	}
	if kind == refws.TermCloseReceived && exp.Term == refws.TermCloseReceived && exp.CloseCode >= 0 && code != exp.CloseCode {
		m.Violationf("c14:close-code-differs", rep(), "close frame carried %d, CloseError says %d", exp.CloseCode, code)
	}
	if exp.MustSendClose1002() {
		acc.Count("close1002_seen", 1)
	}
}

// ---------------------------------------------------------------- alphabet

const (
	verifC14LcN = 8
)

var verifC14Lens = [verifC14LcN]uint64{0, 5, 125, 126, 65535, 65536, 1 << 63, 1<<64 - 256}

type verifC14Sym struct {
	op        byte
	fin       bool
	rsv       int // 0 none, 1..3
	wrongMask bool
	lc        int // length class, -1 when cv is used
	cv        int // close payload variant (-1: built from lc)
}

func (s verifC14Sym) big() bool { return s.lc == 4 || s.lc == 5 }

var verifC14CloseVars = [][]byte{
	{0x03, 0xe8},                // 1000
	{0x03, 0xe9, 'b', 'y', 'e'}, // 1001 + reason
	{0x0b, 0xb8},                // 3000
	{0x13, 0x87, 'x'},           // 4999
	{0x03, 0xe7},                // 999
	{0x03, 0xed},                // 1005
	{0x03, 0xee},                // 1006
	{0x03, 0xf7},                // 1015
	{0x13, 0x88},                // 5000
	{0x00, 0x00},                // 0
	{0x03, 0xec},                // 1004
	{0x0b, 0xb7},                // 2999
	{0x03, 0xe8, 0xff, 0xfe},    // bad UTF-8
	{0x03, 0xe8, 0xc3},          // truncated UTF-8
	{0x03},                      // one byte (either outcome)
}

var verifC14Fill = func() []byte {
	b := make([]byte, 70000)
	for i := range b {
		b[i] = byte('a' + (i*7+i>>9)%26)
	}
	return b
}()

func verifC14Alphabet() []verifC14Sym {
	var syms []verifC14Sym
	for _, op := range []byte{0, 1, 2, 8, 9, 10, 3, 11} {
		for _, fin := range []bool{true, false} {
			for rsv := 0; rsv < 4; rsv++ {
				for _, wm := range []bool{false, true} {
					for lc := 0; lc < verifC14LcN; lc++ {
						syms = append(syms, verifC14Sym{op, fin, rsv, wm, lc, -1})
					}
					if op == 8 {
						for cv := range verifC14CloseVars {
							syms = append(syms, verifC14Sym{op, fin, rsv, wm, -1, cv})
						}
					}
				}
			}
		}
	}
	return syms
}

func verifC14Frame(s verifC14Sym, role refws.Role, idx int) refws.Frame {
	f := refws.Frame{Fin: s.fin, Opcode: s.op, Rsv1: s.rsv == 1, Rsv2: s.rsv == 2, Rsv3: s.rsv == 3}
	f.Masked = (role == refws.RoleServer) != s.wrongMask
	f.Key = [4]byte{byte(0x37 + idx), 0xfa, byte(0x21 * idx), 0x3d}
	if s.cv >= 0 {
		f.Payload = verifC14CloseVars[s.cv]
		return f
	}
	n := verifC14Lens[s.lc]
	if n>>63 != 0 {
		f.Form, f.HasDeclared, f.Declared = refws.Form64, true, n
		return f
	}
	f.Payload = verifC14Fill[idx : idx+int(n)]
	if s.op == 8 && n >= 2 {
		p := append([]byte{0x03, 0xe8}, verifC14Fill[:n-2]...)
		f.Payload = p
	}
	return f
}

var verifC14DeflCache sync.Map // total wire length -> []byte

// verifC14Compress gives every complete RSV1 message (compression negotiated) a real deflate payload of the planned size.
func verifC14Compress(frames []refws.Frame) {
	for i := 0; i < len(frames); i++ {
		f := &frames[i]
		if !(f.Rsv1 && (f.Opcode == 1 || f.Opcode == 2)) || f.TopBit() {
			continue
		}
		// collect the data frames of this message (controls may be interleaved)
		idx := []int{i}
		done := f.Fin
		for j := i + 1; j < len(frames) && !done; j++ {
			g := &frames[j]
			if g.Opcode == 0 {
				if g.TopBit() || g.Rsv1 || g.Rsv2 || g.Rsv3 {
					break
				}
				idx = append(idx, j)
				done = g.Fin
			} else if g.Opcode < 8 {
				break
			}
		}
		total := 0
		for _, j := range idx {
			total += len(frames[j].Payload)
		}
		if total == 0 {
			continue
		}
		want := total
		if !done {
			want = total + 7 // an unfinished message carries the first bytes of a valid stream, not garbage
		}
		var w []byte
		if v, ok := verifC14DeflCache.Load(want); ok {
			w = v.([]byte)
		} else {
			var err error
			w, _, err = refws.DeflateExact(want, func(b []byte) { copy(b, verifC14Fill) })
			if err != nil {
				continue
			}
			verifC14DeflCache.Store(want, w)
		}
		for _, j := range idx {
			n := len(frames[j].Payload)
			frames[j].Payload = w[:n]
			w = w[n:]
		}
	}
}

// build the trace for a symbol sequence plus the sentinel suffix (a ping, then a message end / a message).
func verifC14Trace(syms []verifC14Sym, seq []int, role refws.Role, comp bool, suffix bool) []refws.Frame {
	frames := make([]refws.Frame, 0, len(seq)+2)
	open := false
	for i, si := range seq {
		s := syms[si]
		frames = append(frames, verifC14Frame(s, role, i))
		if s.op <= 2 {
			open = !s.fin
		}
	}
	if suffix {
		masked := role == refws.RoleServer
		frames = append(frames, refws.Frame{Fin: true, Opcode: refws.OpPing, Masked: masked, Key: [4]byte{9, 8, 7, 6}, Payload: []byte("sfx")})
		op := byte(refws.OpText)
		if open {
			op = refws.OpCont
		}
		frames = append(frames, refws.Frame{Fin: true, Opcode: op, Masked: masked, Key: [4]byte{1, 0, 0, 2}, Payload: []byte("tail")})
	}
	if comp {
		verifC14Compress(frames)
	}
	return frames
}

// limits relative to the trace: exact, exact-1, first data frame - 1, 1
func verifC14Limits(frames []refws.Frame) []int64 {
	var maxMsg, cur, first int64
	first = -1
	for i := range frames {
		f := &frames[i]
		if f.Opcode > 2 || f.TopBit() {
			continue
		}
		n := int64(len(f.Payload))
		if first < 0 {
			first = n
		}
		if f.Opcode != 0 {
			cur = 0
		}
		cur += n
		if cur > maxMsg {
			maxMsg = cur
		}
	}
	out := []int64{}
	add := func(v int64) {
		if v <= 0 {
			return
		}
		for _, x := range out {
			if x == v {
				return
			}
		}
		out = append(out, v)
	}
	add(maxMsg)
	add(maxMsg - 1)
	add(first - 1)
	add(1)
	return out
}

// ---------------------------------------------------------------- tests

func TestVerif_C14_Enum(t *testing.T) {
	m := mon.New("C14", "enum")
	defer m.Finish(t)
	depth := m.N(3, 4)
	bigDepth := m.N(1, 2) // quick: 65535/65536 payloads only in one-frame traces (+ sentinel); the random part fragments big messages
	sample := m.N(8, 6)
	m.Rule(fmt.Sprintf("bounded-exhaustive, prefix-closed: every trace of <= %d frames over opcode{0,1,2,8,9,10,3,11} x FIN x RSV{0,1,2,3} x mask{right,wrong} x "+
		"length{0,5,125,126,65535,65536,2^63,2^64-256} (+15 close payload variants) whose proper prefixes are violation-free (decided by refws.Receiver), at most one "+
		"65535/65536 payload per trace and only in traces of <= %d frames, each followed by a sentinel ping + message; x {client,server} x {compression off, negotiated} x read "+
		"limits {0, exact, exact-1, first-frame-1, 1} (non-zero limits: every trace of < %d frames; of the %d-frame traces 1/%d (by trace index) of those with a data frame, and "+
		"only limit 1 for the other %d-frame traces that carry a top-bit length on a data or continuation frame; with compression negotiated a %d-frame trace is run only if RSV1 occurs in it); distinct = role x compression x model terminal kind@frame x rule x limit? x top-bit class",
		depth, bigDepth, depth, depth, sample, depth, depth))
	m.Exhaustive(true)
	syms := verifC14Alphabet()
	// continuing symbols per (compression, message open?): decided by the model
	type stKey struct {
		comp bool
		open bool
	}
	cont := map[stKey][]int{}
	for _, comp := range []bool{false, true} {
		for _, open := range []bool{false, true} {
			for si := range syms {
				var fr []refws.Frame
				if open {
					fr = append(fr, refws.Frame{Opcode: refws.OpText, Masked: true, Payload: []byte("x")})
				}
				f := verifC14Frame(syms[si], refws.RoleServer, 0)
				if comp && f.Rsv1 && len(f.Payload) == 0 {
					continue // no deflate stream has zero bytes: never a continuing symbol
				}
				fr = append(fr, f)
				r := refws.Receive(refws.RecvConfig{Role: refws.RoleServer, Compression: comp, InflateFn: func(b []byte) ([]byte, error) { return b, nil }}, fr, -1)
				if r.Term == refws.TermCut && r.TermFrame == len(fr) {
					cont[stKey{comp, open}] = append(cont[stKey{comp, open}], si)
				}
			}
		}
	}
	m.Note("alphabet_size", len(syms))
	m.Note("continuing_symbols", map[string]int{"idle": len(cont[stKey{false, false}]), "open": len(cont[stKey{false, true}]),
		"idle_comp": len(cont[stKey{true, false}]), "open_comp": len(cont[stKey{true, true}])})
	type job struct {
		role   refws.Role
		comp   bool
		prefix []int
		bigs   int
		rsv1   bool // some prefix frame carries RSV1
	}
	quickPrune := true // both tiers prune at their own maximum depth (thorough is complete one level deeper than quick)
	var jobs []job
	for _, role := range []refws.Role{refws.RoleServer, refws.RoleClient} {
		for _, comp := range []bool{false, true} {
			var rec func(prefix []int, open bool, bigs int)
			rec = func(prefix []int, open bool, bigs int) {
				r1 := false
				for _, si := range prefix {
					r1 = r1 || syms[si].rsv == 1
				}
				jobs = append(jobs, job{role, comp, append([]int{}, prefix...), bigs, r1})
				if len(prefix) == depth-1 || (bigs > 0 && len(prefix) >= bigDepth-1) {
					return // full depth, or a big payload is on board and the trace may not grow beyond bigDepth frames
				}
				for _, si := range cont[stKey{comp, open}] {
					s := syms[si]
					b := bigs
					if s.big() {
						// the trace will have at least len(prefix)+2 frames
						if b > 0 || len(prefix)+2 > bigDepth {
							continue
						}
						b++
					}
					o := open
					if s.op <= 2 {
						o = !s.fin
					}
					rec(append(prefix, si), o, b)
				}
			}
			rec(nil, false, 0)
		}
	}
	if v := os.Getenv("VERIF_C14_DEBUG_JOBS"); v != "" { // profiling aid only
		k, _ := strconv.Atoi(v)
		var sub []job
		for i := 0; i < len(jobs); i += k {
			sub = append(sub, jobs[i])
		}
		jobs = sub
	}
	m.Note("prefix_jobs", len(jobs))
	m.Require("term_protocol-error", 1000)
	m.Require("term_close-received", 100)
	m.Require("term_limit", 100)
	m.Require("term_topbit", 100)
	m.Require("term_cut", 100)
	m.Require("close1002_seen", 1000)
	m.Require("pongs_seen", 1000)
	m.Require("messages_delivered", 1000)
	mon.Parallel(len(jobs), func(w, ji int) {
		j := jobs[ji]
		acc := verifC14NewAcc(m)
		defer acc.Flush()
		if os.Getenv("VERIF_C14_DEBUG_JOBS") != "" {
			t0 := time.Now()
			defer func() {
				fmt.Printf("JOB %d %v comp=%v prefix=%v cases=%d %.2fs\n", ji, j.role, j.comp, j.prefix, acc.cases, time.Since(t0).Seconds())
			}()
		}
		seq := make([]int, len(j.prefix)+1)
		copy(seq, j.prefix)
		for si := range syms {
			s := syms[si]
			if s.big() && (j.bigs > 0 || len(seq) > bigDepth) {
				continue
			}
			if quickPrune && j.comp && len(seq) == depth && !j.rsv1 && s.rsv != 1 {
				continue // with compression negotiated, full-depth traces only when RSV1 occurs in them
			}
			seq[len(seq)-1] = si
			frames := verifC14Trace(syms, seq, j.role, j.comp, true)
			wire, _ := refws.Gen(frames)
			tid := ji*len(syms) + si
			cfg := verifC14Cfg{role: j.role, comp: j.comp, readBuf: []int{256, 125, 256, 1024}[tid%4]}
			origin := func() string { return fmt.Sprintf("enum:%v", seq) }
			verifC14Eval(acc, cfg, frames, wire, -1, origin)
			acc.Count("traces", 1)
			hasData, hasTop := false, false // hasTop: a top-bit length on a data/continuation frame (on other opcodes another rule fires first)
			for i := 0; i < len(seq); i++ {
				if frames[i].Opcode <= 2 {
					hasData = true
					if frames[i].TopBit() {
						hasTop = true
					}
				}
			}
			if len(seq) == depth && !hasTop && (!hasData || tid%sample != 0) {
				continue
			}
			lims := verifC14Limits(frames[:len(seq)]) // relative to the enumerated frames; the sentinel message only gets limit 1
			if quickPrune && len(seq) == depth && hasTop && (!hasData || tid%sample != 0) {
				lims = []int64{1} // at full depth: the smallest limit only (the one a negative length slips under)
			}
			for _, l := range lims {
				cfg.limit = l
				verifC14Eval(acc, cfg, frames, wire, -1, origin)
			}
		}
	})
}

// random long traces, mostly valid, ending wherever the first violation falls
func verifC14RandTrace(r *vrand.Rand, role refws.Role, comp bool, maxFrames int) []refws.Frame {
	n := r.Range(1, maxFrames)
	frames := make([]refws.Frame, 0, n)
	masked := role == refws.RoleServer
	open := false
	violP := r.Pick(0, 0, 40, 15)
	bigLeft := 0
	if r.Chance(1, 8) {
		bigLeft = 1 // at most one 64 KiB payload, in one trace out of eight
	}
	pickLen := func(ctrl bool) int {
		if ctrl {
			return r.Pick(0, 1, 2, 5, 124, 125, r.Intn(126))
		}
		switch r.Intn(12) {
		case 0:
			if bigLeft > 0 && r.Chance(1, 3) {
				bigLeft--
				return r.Pick(65535, 65536, 65537)
			}
			return r.Range(0, 140)
		case 1:
			return r.Pick(125, 126, 127, 128)
		case 2:
			return r.Range(200, 5000)
		}
		return r.Range(0, 140)
	}
	ascii := func(n int) []byte {
		off := r.Intn(1000)
		return verifC14Fill[off : off+n]
	}
	for len(frames) < n {
		f := refws.Frame{Masked: masked}
		r.Fill(f.Key[:])
		switch k := r.Intn(10); {
		case k < 2: // ping
			f.Opcode, f.Fin, f.Payload = refws.OpPing, true, r.Bytes(pickLen(true))
		case k == 2: // pong
			f.Opcode, f.Fin, f.Payload = refws.OpPong, true, r.Bytes(pickLen(true))
		case k == 3 && r.Chance(1, 4): // close
			f.Opcode, f.Fin = refws.OpClose, true
			switch r.Intn(4) {
			case 0:
			case 1:
				f.Payload = verifC14CloseVars[r.Intn(len(verifC14CloseVars))]
			default:
				code := r.Pick(1000, 1001, 1002, 1003, 1007, 1008, 1009, 1010, 1011, 3000, 3999, 4000, 4999)
				f.Payload = append([]byte{byte(code >> 8), byte(code)}, ascii(r.Intn(124))...)
			}
		default:
			if open {
				f.Opcode = refws.OpCont
			} else {
				f.Opcode = byte(r.Pick(refws.OpText, refws.OpBinary))
				f.Rsv1 = comp && r.Chance(1, 2)
			}
			f.Fin = r.Chance(1, 2)
			f.Payload = ascii(pickLen(false))
			if f.Rsv1 && f.Fin && len(f.Payload) == 0 {
				f.Payload = ascii(1)
			}
			open = !f.Fin
		}
		if violP > 0 && r.Chance(1, violP) { // inject one violation kind
			switch r.Intn(9) {
			case 0:
				f.Rsv2 = true
			case 1:
				f.Rsv3 = true
			case 2:
				f.Masked = !f.Masked
			case 3:
				f.Opcode = byte(r.Pick(3, 4, 5, 6, 7, 11, 12, 13, 14, 15))
			case 4:
				if f.Opcode >= 8 {
					f.Fin = false
				} else {
					f.Opcode = byte(r.Pick(0, 1, 2)) // may break sequencing
				}
			case 5:
				if f.Opcode >= 8 {
					f.Payload = r.Bytes(r.Range(126, 300))
				} else {
					f.Rsv1 = true // not negotiated, or misplaced (observation)
				}
			case 6:
				f.Form, f.HasDeclared, f.Payload = refws.Form64, true, nil
				f.Declared = r.PickU64(1<<63, 1<<64-256, 1<<64-1, 1<<63+uint64(r.Intn(1000)), ^uint64(0)-uint64(r.Range(0, 70000)))
			case 7:
				f.Opcode, f.Fin = refws.OpClose, true
				f.Payload = verifC14CloseVars[r.Range(4, len(verifC14CloseVars)-1)]
			case 8: // non-minimal length form: observation only
				if len(f.Payload) <= 125 && r.Bool() {
					f.Form = refws.Form16
				} else if len(f.Payload) <= 65535 {
					f.Form = refws.Form64
				}
			}
		}
		frames = append(frames, f)
	}
	// close an open message most of the time so that the tail is delivered
	if open && r.Chance(3, 4) {
		f := refws.Frame{Masked: masked, Opcode: refws.OpCont, Fin: true, Payload: ascii(r.Intn(50))}
		r.Fill(f.Key[:])
		frames = append(frames, f)
	}
	if comp {
		verifC14Compress(frames)
	}
	return frames
}

// verifC14LongTrace: a conformant stream of n frames without a Close — a connection that stays up: fragmented messages
// of small frames, pings and pongs in between, every 5000th frame large.
func verifC14LongTrace(r *vrand.Rand, role refws.Role, comp bool, n int) []refws.Frame {
	frames := make([]refws.Frame, 0, n+1)
	masked := role == refws.RoleServer
	open := false
	for len(frames) < n {
		f := refws.Frame{Masked: masked}
		r.Fill(f.Key[:])
		switch k := r.Intn(10); {
		case k == 0:
			f.Opcode, f.Fin, f.Payload = refws.OpPing, true, r.Bytes(r.Pick(0, 1, 5, 125))
		case k == 1:
			f.Opcode, f.Fin, f.Payload = refws.OpPong, true, r.Bytes(r.Pick(0, 3, 125))
		default:
			if open {
				f.Opcode = refws.OpCont
			} else {
				f.Opcode = byte(r.Pick(refws.OpText, refws.OpBinary))
				f.Rsv1 = comp && r.Chance(1, 3)
			}
			f.Fin = r.Chance(2, 3)
			size := r.Pick(0, 1, 2, 17, 60, 125, 126, 140)
			if len(frames)%5000 == 4999 {
				size = r.Pick(65535, 65536, 70000)
			}
			off := r.Intn(1000)
			if off+size > len(verifC14Fill) {
				off = 0
			}
			f.Payload = verifC14Fill[off : off+size]
			if f.Rsv1 && f.Fin && len(f.Payload) == 0 {
				f.Payload = verifC14Fill[off : off+1]
			}
			open = !f.Fin
		}
		frames = append(frames, f)
	}
	if open {
		f := refws.Frame{Masked: masked, Opcode: refws.OpCont, Fin: true, Payload: verifC14Fill[:7]}
		r.Fill(f.Key[:])
		frames = append(frames, f)
	}
	if comp {
		verifC14Compress(frames)
	}
	return frames
}

func TestVerif_C14_Random(t *testing.T) {
	m := mon.New("C14", "random")
	defer m.Finish(t)
	m.Rule("PRNG traces of 1..40 frames (fragmented messages with interleaved pings/pongs, compressed messages when negotiated, random mask keys, one injected " +
		"violation with probability 0, 1/40 or 1/15 per frame incl. top-bit lengths 2^63, 2^64-256, 2^64-1, 2^63+k, 2^64-k), both roles, compression on/off, limit from " +
		"{0, exact, exact-1, first-frame-1, 1, random}, transport reads of 1/2/7/unbounded bytes, read buffer 125..4096, ReadMessage or NextReader with small reads; " +
		"plus every cut offset of selected short traces; distinct = role x compression x model terminal kind@frame x rule x limit? x cut? x top-bit class")
	n := m.N(24000, 1500000)
	ncut := m.N(400, 20000)
	m.Require("evaluations", int64(n))
	m.Require("cut_offsets", int64(ncut*20))
	m.Require("term_limit", 200)
	m.Require("term_topbit", 100)
	m.Require("term_protocol-error", 500)
	m.Require("term_close-received", 200)
	m.Require("pongs_seen", 2000)
	m.Require("messages_delivered", 5000)
	accs := make([]*verifC14Acc, 256)
	accFor := func(w int) *verifC14Acc {
		if accs[w] == nil {
			accs[w] = verifC14NewAcc(m)
		}
		return accs[w]
	}
	defer func() {
		for _, a := range accs {
			if a != nil {
				a.Flush()
			}
		}
	}()
	mon.Parallel(n, func(w, i int) {
		r := m.Rand("trace", i)
		role := refws.Role(r.Intn(2))
		comp := r.Bool()
		frames := verifC14RandTrace(r, role, comp, 40)
		wire, _ := refws.Gen(frames)
		cfg := verifC14Cfg{role: role, comp: comp, readBuf: r.Pick(1, 125, 126, 256, 1024, 4096), chunk: r.Pick(0, 0, 1, 2, 7), mode: r.Intn(3)}
		lims := append([]int64{0, 0}, verifC14Limits(frames)...)
		lims = append(lims, int64(r.Range(1, 300)))
		cfg.limit = lims[r.Intn(len(lims))]
		verifC14Eval(accFor(w), cfg, frames, wire, -1, func() string { return fmt.Sprintf("random:%d", i) })
		if i < 3 {
			exp := refws.Receive(refws.RecvConfig{Role: role, Limit: cfg.limit, Compression: comp}, frames, -1)
			m.Sample(map[string]interface{}{"trace": i, "role": role.String(), "compression": comp, "limit": cfg.limit, "frames": refws.Describe(frames), "wire_bytes": len(wire),
				"model": map[string]interface{}{"delivered": len(exp.Messages), "pongs": len(exp.Pongs), "terminal": exp.Term.String(), "rule": exp.Reason, "at_frame": exp.TermFrame}})
		}
	})
	// long connections: 70 000 conformant frames without a Close, everything must be delivered / answered
	nlong := m.N(4, 16)
	m.Require("long_traces", int64(nlong))
	mon.Parallel(nlong, func(w, i int) {
		r := m.Rand("long", i)
		role := refws.Role(i % 2)
		comp := i%4 >= 2
		frames := verifC14LongTrace(r, role, comp, 70000)
		wire, _ := refws.Gen(frames)
		cfg := verifC14Cfg{role: role, comp: comp, readBuf: r.Pick(125, 1024, 4096), chunk: r.Pick(0, 0, 7), mode: r.Intn(3)}
		if i%4 == 1 {
			cfg.limit = 100000 // above every message of the trace: the limit's bookkeeping runs, nothing may trip it
		}
		verifC14Eval(accFor(w), cfg, frames, wire, -1, func() string { return fmt.Sprintf("long:%d", i) })
		accFor(w).Count("long_traces", 1)
	})
	mon.Parallel(ncut, func(w, i int) {
		r := m.Rand("cut", i)
		role := refws.Role(r.Intn(2))
		comp := r.Chance(1, 3)
		var frames []refws.Frame
		for {
			frames = verifC14RandTrace(r, role, comp, 8)
			tot := 0
			for k := range frames {
				tot += frames[k].WireLen()
			}
			if tot <= 700 {
				break
			}
		}
		wire, _ := refws.Gen(frames)
		cfg := verifC14Cfg{role: role, comp: comp, readBuf: r.Pick(125, 256), chunk: r.Pick(0, 1, 3), mode: r.Intn(3)}
		lims := append([]int64{0, 0, 0}, verifC14Limits(frames)...)
		cfg.limit = lims[r.Intn(len(lims))]
		for cut := 0; cut <= len(wire); cut++ {
			verifC14Eval(accFor(w), cfg, frames, wire, cut, func() string { return fmt.Sprintf("cut:%d", i) })
			accFor(w).Count("cut_offsets", 1)
		}
	})
}
