// Package detviol makes the representative of a violation signature deterministic under
// mon.Parallel: mon.M keeps the first arrival per signature, which depends on goroutine
// scheduling; this collector keeps the witness with the lowest case index (for enumerated
// sweeps: the simplest case) and hands everything to mon.M at the end, with the counts intact.
package detviol

import (
	"fmt"
	"sort"
	"sync"

	"verifharness/lib/mon"
)

type entry struct {
	idx    int
	detail string
	replay interface{}
	count  int
}

type Collector struct {
	m  *mon.M
	mu sync.Mutex
	by map[string]*entry
}

func New(m *mon.M) *Collector { return &Collector{m: m, by: map[string]*entry{}} }

// Violationf records a violation found in case idx.  The detail is only formatted if this
// case becomes the signature's representative.
func (c *Collector) Violationf(idx int, sig string, replay interface{}, format string, a ...interface{}) {
	c.mu.Lock()
	e := c.by[sig]
	if e == nil {
		e = &entry{idx: idx + 1} // forces the assignment below
		c.by[sig] = e
	}
	e.count++
	if idx < e.idx {
		e.idx, e.detail, e.replay = idx, fmt.Sprintf(format, a...), replay
	}
	c.mu.Unlock()
}

// Total is the number of violations recorded so far.
func (c *Collector) Total() int {
	c.mu.Lock()
	defer c.mu.Unlock()
	n := 0
	for _, e := range c.by {
		n += e.count
	}
	return n
}

// Flush reports to mon.M, signatures ordered by their representative's case index.
func (c *Collector) Flush() {
	c.mu.Lock()
	defer c.mu.Unlock()
	sigs := make([]string, 0, len(c.by))
	for s := range c.by {
		sigs = append(sigs, s)
	}
	sort.Slice(sigs, func(i, j int) bool {
		a, b := c.by[sigs[i]], c.by[sigs[j]]
		if a.idx != b.idx {
			return a.idx < b.idx
		}
		return sigs[i] < sigs[j]
	})
	for _, s := range sigs {
		e := c.by[s]
		c.m.Violation(s, e.detail, e.replay)
		for k := 1; k < e.count; k++ {
			c.m.Violation(s, "", nil)
		}
	}
	c.by = map[string]*entry{}
}
