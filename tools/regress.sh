#!/bin/bash
# tools/regress.sh <out file>: run every kept seeded change (seeded/*/) against its property's quick check (must be CAUGHT)
# and every property-preserving patch (preserving/*/) against the checks it touches (must raise no alarm).  Sequential.
here=$(cd "$(dirname "$0")/.." && pwd)
out=$1; : > $out
for d in $(ls -d $here/seeded/*/ | sort); do
  python3 $here/tools/mutant.py check $d 2>&1 | grep -E "CAUGHT|MISSED|INCONCLUSIVE" | sed "s|^|$(basename $d) |" | cut -c1-300 >> $out
done
echo "SEEDED-DONE" >> $out
for d in $(ls -d $here/preserving/*/ | sort); do
  touches=$(python3 -c "import json,sys; print(' '.join(json.load(open('$d/meta.json'))['touches']))")
  python3 $here/tools/mutant.py check $d $touches 2>&1 | grep -E "CAUGHT|MISSED|INCONCLUSIVE" | sed "s|^|$(basename $d) |" | cut -c1-300 >> $out
done
echo "DONE" >> $out
