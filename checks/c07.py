_INSTR = ["rtmp", "amf0", "flv", "aac", "avc", "websocket", "https/jose", "https/jose/cipher", "https/crypto/ocsp", "json", "errors"]

CHECK = {
    "level": "exploration",
    "engine": "hostile-bytes",
    "technique": "hostile-input runtime monitoring: generated/mutated/grammar-derived byte strings into every decoder entry under the race detector (implies checkptr), recovered-panic and process-fatal monitors, plus a source-level step-counter pass (tick budget = 'returns', doubling families = growth law); exhaustive enum-helper sweeps; native coverage-guided fuzzing in the thorough tier",
    "level_text": "Held on the inputs observed: per decoder entry (RTMP chunk reader + message decoder + packet unmarshalers, AMF0, FLV demuxer and tag decoders, ADTS/ASC, AVC record/sample/NALU, WebSocket reader in both roles with/without compression and read limits, JWS/JWE/JWK parse+verify/decrypt with keyed derivations, OCSP, JSON+) tens of thousands (quick) to millions (thorough) of random, grammar-derived and mutated byte strings, none of which may panic, crash the process, exceed the deterministic tick budget B(n)=20000(n+4096) or show a super-linear tick growth law on the scalable adversarial families (4K..64K); every method of every exported enum type swept over its whole underlying range. Class counters show entry x input kind x outcome. Not a proof: unreached paths and time spent inside standard-library callees are not covered.",
    "level_note": "Ticks count executed function entries and loop iterations of the library's own code (instrumented copy generated per run from /repo's working tree); work inside standard-library callees is invisible to them. 'Always returns' is decided as 'returns within B(n) ticks'. Memory use is recorded, not judged.",
    "parts": [
        {"name": "hostile", "pkg": "verifharness/prop/c07", "run": "^TestVerif_C07_Hostile$", "race": True, "timeout": {"quick": 1200, "thorough": 10800}},
        {"name": "ticks", "pkg": "verifharness/prop/c07", "run": "^TestVerif_C07_Hostile$", "instrument": _INSTR, "checkptr": False, "env": {"VERIF_TICKS": "1"}, "timeout": {"quick": 1200, "thorough": 10800}},
        {"name": "rtmp", "pkg": "rtmp", "run": "^TestVerif_C07_Rtmp$", "race": True, "timeout": {"quick": 1200, "thorough": 10800}},
        {"name": "rtmpticks", "pkg": "rtmp", "run": "^TestVerif_C07_Rtmp$", "instrument": _INSTR, "checkptr": False, "env": {"VERIF_TICKS": "1"}, "timeout": {"quick": 1200, "thorough": 10800}},
        {"name": "ws", "pkg": "websocket", "run": "^TestVerif_C07_Ws$", "race": True, "timeout": {"quick": 1200, "thorough": 10800}},
        {"name": "wsticks", "pkg": "websocket", "run": "^TestVerif_C07_Ws$", "instrument": _INSTR, "checkptr": False, "env": {"VERIF_TICKS": "1"}, "timeout": {"quick": 1200, "thorough": 10800}},
        {"name": "jose", "pkg": "verifharness/prop/c07", "run": "^TestVerif_C07_Jose$", "race": True, "timeout": {"quick": 1200, "thorough": 10800}},
        {"name": "joseticks", "pkg": "verifharness/prop/c07", "run": "^TestVerif_C07_Jose$", "instrument": _INSTR, "checkptr": False, "env": {"VERIF_TICKS": "1"}, "timeout": {"quick": 1200, "thorough": 10800}},
        {"name": "enums", "pkg": "verifharness/prop/c07", "run": "^TestVerif_C07_Enums$", "timeout": {"quick": 600, "thorough": 1800}},
    ],
    "assumptions": [
        "decoders are driven single-threaded in the instrumented build (the tick counter is process-global)",
    ],
}
