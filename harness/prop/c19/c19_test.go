// C19 — HTTP API responses are a well-formed envelope the client half reads back (black-box).
//
// Every case is served twice: into an httptest.ResponseRecorder (exact status / headers / body) and,
// for a share of the cases, by a loopback httptest.Server whose answer is read by the library's
// own ApiRequest (no callback) or by a plain GET (callback).  The oracle parses the body with
// encoding/json on its own and compares JSON-normalised trees.
package c19

import (
	"bytes"
	stdjson "encoding/json"
	"errors"
	"fmt"
	"io"
	"io/ioutil"
	"math"
	"mime"
	"net/http"
	"net/http/httptest"
	"net/url"
	"os"
	"reflect"
	"sort"
	"strconv"
	"strings"
	"sync"
	"testing"

	oh "github.com/ossrs/go-oryx-lib/http"
	ol "github.com/ossrs/go-oryx-lib/logger"
	"verifharness/lib/mon"
	"verifharness/lib/vrand"
)

// ---------------------------------------------------------------------------------------------
// error kinds

type verifAppErr struct {
	code int
	msg  string
}

func (e verifAppErr) Code() int     { return e.code }
func (e verifAppErr) Error() string { return e.msg }

type verifAppErrPtr struct {
	code int
	msg  string
}

func (e *verifAppErrPtr) Code() int     { return e.code }
func (e *verifAppErrPtr) Error() string { return e.msg }

// errors of the kinds the statement names that ALSO expose a cause chain (Cause() as in oryx errors, Unwrap() as in the standard
// library) ending in an error of another kind with another code/status: the response carries the error's OWN code or status
type verifAppErrCause struct {
	code  int
	msg   string
	cause error
}

func (e *verifAppErrCause) Code() int     { return e.code }
func (e *verifAppErrCause) Error() string { return e.msg }
func (e *verifAppErrCause) Cause() error  { return e.cause }
func (e *verifAppErrCause) Unwrap() error { return e.cause }

type verifStatusErrCause struct {
	msg    string
	status int
	cause  error
}

func (e *verifStatusErrCause) Error() string { return e.msg }
func (e *verifStatusErrCause) Status() int   { return e.status }
func (e *verifStatusErrCause) Cause() error  { return e.cause }
func (e *verifStatusErrCause) Unwrap() error { return e.cause }

// verifOtherKind: an error of a code-carrying or status-carrying kind whose code/status differs from avoid
func verifOtherKind(r *vrand.Rand, avoid int) (error, string) {
	for {
		code := genCode(r)
		if code == avoid {
			continue
		}
		switch r.Intn(4) {
		case 0:
			return oh.SystemError(code), fmt.Sprintf("SystemError(%d)", code)
		case 1:
			return oh.SystemComplexError{Code: oh.SystemError(code), Message: "inner"}, fmt.Sprintf("SystemComplexError{%d}", code)
		case 2:
			return verifAppErr{code, "inner"}, fmt.Sprintf("AppError{%d}", code)
		default:
			st := r.Range(400, 599)
			if st == avoid {
				continue
			}
			return &verifStatusErr{"inner", st}, fmt.Sprintf("Status(%d)", st)
		}
	}
}

type verifPlainErr struct{ msg string }

func (e verifPlainErr) Error() string { return e.msg }

type verifStatusErr struct {
	msg    string
	status int
}

func (e *verifStatusErr) Error() string { return e.msg }
func (e *verifStatusErr) Status() int   { return e.status }

// ---------------------------------------------------------------------------------------------
// values

var strPool = []string{"", "a", "\"", "\\", "\"\\\"", "</script>", "<&>", "  ", "\x00", "\x01\x1f", "\t\r\n", "\x7f", "é", "漢字", "😀",
	"\xff", "\xc0\xaf", "\xe6\xbc", "a\xf0\x9f\x98z", "\xed\xa0\x80", "{\"code\":0}", "callback(", ")", "null", "true", "0", "//", "*/", "'", " "}

func genStr(r *vrand.Rand) string {
	n := 0
	switch x := r.Intn(20); {
	case x < 2:
		n = 0
	case x < 14:
		n = r.Range(1, 4)
	case x < 19:
		n = r.Range(5, 30)
	default:
		n = r.Range(31, 600)
	}
	var b strings.Builder
	for i := 0; i < n; i++ {
		if r.Chance(1, 6) {
			b.Write(r.Bytes(r.Range(1, 3))) // arbitrary bytes: mostly invalid UTF-8
		} else {
			b.WriteString(strPool[r.Intn(len(strPool))])
		}
	}
	return b.String()
}

type verifStruct struct {
	Name  string                 `json:"name"`
	N     int64                  `json:"n,omitempty"`
	F     float64                `json:"f"`
	Tags  []string               `json:"tags"`
	Extra map[string]interface{} `json:"extra,omitempty"`
	P     *int                   `json:"p"`
	skip  int
}

func genNumber(r *vrand.Rand) interface{} {
	switch r.Intn(12) {
	case 0:
		return 0
	case 1:
		return r.Intn(1000) - 500
	case 2:
		return int64(math.MaxInt64)
	case 3:
		return int64(math.MinInt64)
	case 4:
		return uint64(math.MaxUint64)
	case 5:
		return int64(1)<<53 + 1
	case 6:
		return float32(r.Intn(1000)) / 8
	case 7:
		return uint8(r.Intn(256))
	case 8:
		return 1e21
	case 9:
		return 5e-324
	default:
		for {
			f := r.FloatBits()
			if !math.IsNaN(f) && !math.IsInf(f, 0) {
				return f
			}
		}
	}
}

// genValue returns a JSON-marshalable value; shape collects what it is made of.
func genValue(r *vrand.Rand, depth int, shape map[string]bool) interface{} {
	x := r.Intn(100)
	if depth >= 4 && x >= 60 {
		x = r.Intn(60)
	}
	switch {
	case x < 8:
		shape["nil"] = true
		return nil
	case x < 14:
		shape["bool"] = true
		return r.Bool()
	case x < 30:
		shape["num"] = true
		return genNumber(r)
	case x < 55:
		s := genStr(r)
		shape["str"] = true
		if !stdValid(s) {
			shape["badutf8"] = true
		}
		return s
	case x < 60:
		shape["typed"] = true
		switch r.Intn(6) {
		case 0:
			return r.Bytes(r.Intn(20))
		case 1:
			return []int{1, -2, 3}
		case 2:
			return map[string]int{genStr(r): 1, "b": -1}
		case 3:
			var p *string
			return p
		case 4:
			return stdjson.RawMessage(`{"raw" : [1, 2.50, "x"]}`)
		default:
			n := r.Intn(100)
			v := &verifStruct{Name: genStr(r), N: int64(r.Intn(3)), F: float64(r.Intn(100)) / 4, P: &n}
			if r.Bool() {
				v.Tags = []string{genStr(r), "t"}
			}
			if r.Bool() {
				v.Extra = map[string]interface{}{"k": genValue(r, depth+1, shape)}
			}
			return v
		}
	case x < 80:
		shape["arr"] = true
		n := r.Range(0, 5)
		a := make([]interface{}, 0, n)
		for i := 0; i < n; i++ {
			a = append(a, genValue(r, depth+1, shape))
		}
		return a
	default:
		shape["map"] = true
		n := r.Range(0, 5)
		mp := map[string]interface{}{}
		for i := 0; i < n; i++ {
			k := genStr(r)
			if len(k) > 40 {
				k = k[:40]
			}
			if r.Chance(1, 4) {
				k = []string{"code", "data", "server", "callback", ""}[r.Intn(5)]
			}
			mp[k] = genValue(r, depth+1, shape)
		}
		return mp
	}
}

func stdValid(s string) bool {
	for _, c := range s {
		if c == 0xfffd {
			return false
		}
	}
	return true
}

type verifBadMarshaler struct{ mode int }

func (v verifBadMarshaler) MarshalJSON() ([]byte, error) {
	if v.mode == 0 {
		return nil, errors.New("verif: refuses to marshal")
	}
	return []byte(`{"truncated":`), nil
}

type verifCycle struct {
	Next *verifCycle `json:"next"`
}

// genUnmarshalable returns a value encoding/json.Marshal rejects, possibly buried in a marshalable tree.
func genUnmarshalable(r *vrand.Rand) (interface{}, string) {
	var bad interface{}
	var what string
	switch r.Intn(9) {
	case 0:
		bad, what = make(chan int), "chan"
	case 1:
		bad, what = math.NaN(), "nan"
	case 2:
		bad, what = math.Inf(1-2*r.Intn(2)), "inf"
	case 3:
		bad, what = func() {}, "func"
	case 4:
		bad, what = complex(1, 2), "complex"
	case 5:
		bad, what = map[int]chan int{1: nil}, "map-of-chan"
	case 6:
		bad, what = verifBadMarshaler{r.Intn(2)}, "marshaler"
	case 7:
		c := &verifCycle{}
		c.Next = c
		bad, what = c, "cycle"
	default:
		bad, what = float32(math.NaN()), "nan32"
	}
	switch r.Intn(4) {
	case 0:
		return bad, what + "/top"
	case 1:
		return []interface{}{1, "x", bad}, what + "/in-array"
	case 2:
		return map[string]interface{}{"a": "long prefix " + strings.Repeat("x", r.Intn(5000)), "z": bad}, what + "/in-map-last"
	default:
		return map[string]interface{}{"k": []interface{}{map[string]interface{}{"deep": bad}}}, what + "/deep"
	}
}

var codePool = []int{1, -1, 1 << 31, -(1 << 31), 1<<31 - 1, 1 << 53, -(1 << 53), 1<<53 + 1, math.MaxInt64, math.MinInt64, 100, 404, 500, 2, -2}

func genCode(r *vrand.Rand) int {
	if r.Chance(3, 5) {
		return codePool[r.Intn(len(codePool))]
	}
	for {
		var c int
		switch r.Intn(3) {
		case 0:
			c = int(int32(r.Uint32()))
		case 1:
			c = int(r.Uint64())
		default:
			c = r.Intn(2000) - 1000
		}
		if c != 0 {
			return c
		}
	}
}

var cbPool = []string{"cb", "callback", "_", "$", "jQuery18305_1700000000", "a.b.c", "window.cb1", "f$_9", "Z"}

// ---------------------------------------------------------------------------------------------
// cases

const (
	kSuccess = iota
	kSystem
	kComplex
	kApp
	kPlain
	kPlainStatus
	kUnmarshalable
)

var kindNames = []string{"success", "system-error", "complex-error", "app-error", "plain-error", "plain-error-status", "unmarshalable"}

type vcase struct {
	idx      int
	kind     int
	value    interface{} // success / unmarshalable
	err      error
	code     int // coded errors
	status   int // plain errors: expected HTTP status
	callback string
	huge     bool // a success value of a megabyte or more: always also sent over the loopback server
	postForm bool // the request is a POST whose urlencoded BODY has a callback field (not a query parameter)
	shape    string
	jsonMsg  bool // plain error whose message is itself a JSON text
	handler  http.Handler
	desc     string
}

var hugeEvery = 97 // one success value in hugeEvery is a megabyte or more (thorough: fewer, the run is 250x longer)

// the grid at the head of every run: plain errors carrying their own HTTP status x error texts that are themselves JSON
// (an upstream reply passed on verbatim) — every combination, always also over the loopback server through ApiRequest
var gridStatuses = []int{201, 202, 203, 206, 226, 300, 399, 400, 404, 500, 599}
var gridMessages = []string{`{"code":0}`, `{"code":0,"data":null}`, `{"code":0,"server":1,"data":"ok"}`, `{"code":100}`, `[]`, `null`, `"x"`, `{"data":1}`, `plain text`}

func genCase(r *vrand.Rand, i int) *vcase {
	c := &vcase{idx: i}
	if i < len(gridStatuses)*len(gridMessages) {
		c.kind, c.status, c.huge = kPlainStatus, gridStatuses[i/len(gridMessages)], true // huge: forces the loopback leg
		msg := gridMessages[i%len(gridMessages)]
		c.err = &verifStatusErr{msg, c.status}
		c.shape = "Status()"
		_, jerr := decodeNum([]byte(msg))
		c.jsonMsg = jerr == nil
		c.handler = oh.Error(nil, c.err)
		c.desc = fmt.Sprintf("Error(plain %s %q status=%d) [grid]", c.shape, msg, c.status)
		return c
	}
	x := r.Intn(100)
	switch {
	case x < 45:
		c.kind = kSuccess
	case x < 55:
		c.kind = kSystem
	case x < 65:
		c.kind = kComplex
	case x < 75:
		c.kind = kApp
	case x < 82:
		c.kind = kPlain
	case x < 90:
		c.kind = kPlainStatus
	default:
		c.kind = kUnmarshalable
	}
	if r.Chance(2, 5) {
		c.callback = cbPool[r.Intn(len(cbPool))]
	}
	c.postForm = r.Chance(1, 6)
	causeDesc := ""
	switch c.kind {
	case kSuccess:
		sh := map[string]bool{}
		c.value = genValue(r, 0, sh)
		var ks []string
		for _, k := range []string{"nil", "bool", "num", "str", "badutf8", "typed", "arr", "map"} {
			if sh[k] {
				ks = append(ks, k)
			}
		}
		c.shape = strings.Join(ks, "+")
		if i%hugeEvery == 0 {
			// a large document (a stream list, a log excerpt): the envelope has no size limit in the statement
			n := r.Pick(1<<20-64, 1<<20, 1<<20+1, 3<<20)
			if r.Bool() {
				c.value = map[string]interface{}{"log": strings.Repeat("0123456789abcdef", n/16), "n": n}
			} else {
				arr := make([]interface{}, n/8)
				for k := range arr {
					arr[k] = k % 1000
				}
				c.value = arr
			}
			c.shape, c.huge, c.callback = "huge", true, "" // through ApiRequest, the library's client
		}
		c.handler = oh.Data(nil, c.value)
		if c.huge {
			c.desc = "Data(a value of a megabyte or more)"
		} else {
			c.desc = fmt.Sprintf("Data(%s)", descr(c.value))
		}
	case kUnmarshalable:
		c.value, c.shape = genUnmarshalable(r)
		c.handler = oh.Data(nil, c.value)
		c.desc = "Data(unmarshalable " + c.shape + ")"
	case kSystem:
		c.code = genCode(r)
		c.err = oh.SystemError(c.code)
		c.handler = oh.Error(nil, c.err)
		c.desc = fmt.Sprintf("Error(SystemError(%d))", c.code)
	case kComplex:
		c.code = genCode(r)
		msg := genStr(r)
		if r.Bool() {
			c.err = oh.SystemComplexError{Code: oh.SystemError(c.code), Message: msg}
			c.handler = oh.Error(nil, c.err)
			c.shape = "Error"
		} else {
			c.handler = oh.CplxError(nil, oh.SystemError(c.code), msg)
			c.shape = "CplxError"
		}
		c.desc = fmt.Sprintf("%s(SystemComplexError{%d,%q})", c.shape, c.code, msg)
	case kApp:
		c.code = genCode(r)
		msg := genStr(r)
		if r.Chance(1, 3) {
			cause, cd := verifOtherKind(r, c.code)
			if r.Bool() {
				cause = &verifAppErrCause{c.code + 1, "middle", cause} // a chain of two
				cd = "AppError->" + cd
			}
			c.err = &verifAppErrCause{c.code, msg, cause}
			c.shape = "with-cause:" + strings.FieldsFunc(cd, func(x rune) bool { return x == '(' || x == '{' })[0]
			causeDesc = " cause=" + cd
		} else if r.Bool() {
			c.err = verifAppErr{c.code, msg}
			c.shape = "value"
		} else {
			c.err = &verifAppErrPtr{c.code, msg}
			c.shape = "pointer"
		}
		c.handler = oh.Error(nil, c.err)
		c.desc = fmt.Sprintf("Error(AppError{%d,%q}%s)", c.code, msg, causeDesc)
	case kPlain, kPlainStatus:
		msg := genStr(r)
		if r.Chance(1, 6) {
			// a message that is itself JSON text: e.g. an upstream reply passed on verbatim
			// (jsonMsg is decided below from the text the error really has)
			msg = []string{`{"code":0}`, `{"code":0,"data":null}`, `{"code":0,"server":1,"data":"ok"}`, `{"code":100}`, `[]`, `null`, `"x"`, `{"data":1}`}[r.Intn(8)]
		}
		c.status = 500
		if c.kind == kPlainStatus {
			c.status = r.Range(400, 599)
			if r.Chance(1, 6) {
				// an error may carry any status of its own; a non-200 status below 400 is still not a success
				c.status = r.Pick(201, 202, 203, 206, 226, 300, 399)
			}
			c.err = &verifStatusErr{msg, c.status}
			c.shape = "Status()"
			if r.Chance(1, 3) {
				cause, cd := verifOtherKind(r, c.status)
				c.err = &verifStatusErrCause{msg, c.status, cause}
				c.shape = "Status() with-cause:" + strings.FieldsFunc(cd, func(x rune) bool { return x == '(' || x == '{' })[0]
				causeDesc = " cause=" + cd
			}
		} else {
			switch r.Intn(4) {
			case 0:
				c.err = errors.New(msg)
				c.shape = "errors.New"
			case 1:
				c.err = verifPlainErr{msg}
				c.shape = "struct"
			case 2:
				c.err = fmt.Errorf("wrap: %w", errors.New(msg))
				c.shape = "wrapped"
			default:
				c.err = &os.PathError{Op: "open", Path: msg, Err: os.ErrNotExist}
				c.shape = "PathError"
			}
		}
		_, jerr := decodeNum([]byte(c.err.Error()))
		c.jsonMsg = jerr == nil
		c.handler = oh.Error(nil, c.err)
		c.desc = fmt.Sprintf("Error(plain %s %q status=%d%s)", c.shape, c.err.Error(), c.status, causeDesc)
	}
	// a third of the cases go through the direct-write wrappers (WriteData / Success / WriteError / WriteCplxError)
	if r.Chance(1, 3) {
		switch {
		case c.err != nil:
			e := c.err
			c.handler = http.HandlerFunc(func(w http.ResponseWriter, rq *http.Request) { oh.WriteError(nil, w, rq, e) })
			c.desc += " via WriteError"
		case c.kind == kComplex:
			code, msg := oh.SystemError(c.code), strings.TrimSuffix(strings.SplitN(c.desc, ",", 2)[1], "})")
			if um, err := strconv.Unquote(msg); err == nil {
				c.handler = http.HandlerFunc(func(w http.ResponseWriter, rq *http.Request) { oh.WriteCplxError(nil, w, rq, code, um) })
				c.desc += " via WriteCplxError"
			}
		case c.value == nil && c.kind != kUnmarshalable:
			c.handler = http.HandlerFunc(func(w http.ResponseWriter, rq *http.Request) { oh.Success(nil, w, rq) })
			c.desc += " via Success"
		default:
			v := c.value
			c.handler = http.HandlerFunc(func(w http.ResponseWriter, rq *http.Request) { oh.WriteData(nil, w, rq, v) })
			c.desc += " via WriteData"
		}
	}
	return c
}

func descr(v interface{}) string {
	s := fmt.Sprintf("%#v", v)
	if len(s) > 300 {
		s = s[:300] + "…"
	}
	return s
}

// ---------------------------------------------------------------------------------------------
// oracle helpers

func decodeNum(b []byte) (interface{}, error) {
	d := stdjson.NewDecoder(bytes.NewReader(b))
	d.UseNumber()
	var v interface{}
	if err := d.Decode(&v); err != nil {
		return nil, err
	}
	if _, err := d.Token(); err != io.EOF {
		return nil, fmt.Errorf("trailing data after the JSON value")
	}
	return v, nil
}

func mediaType(h http.Header) string {
	mt, _, err := mime.ParseMediaType(h.Get("Content-Type"))
	if err != nil {
		return h.Get("Content-Type")
	}
	return mt
}

// unwrapJSONP returns the text between "cb(" and ")" (a trailing ';' / whitespace is tolerated).
func unwrapJSONP(body []byte, cb string) ([]byte, bool) {
	s := strings.TrimRight(string(body), "; \r\n\t")
	if !strings.HasPrefix(s, cb+"(") || !strings.HasSuffix(s, ")") {
		return nil, false
	}
	return []byte(s[len(cb)+1 : len(s)-1]), true
}

type verdicts struct {
	m    *mon.M
	c    *vcase
	via  string
	srv  string
	list *[]vio
}

type vio struct {
	sig, detail string
	replay      interface{}
}

func (v *verdicts) add(sig, format string, a ...interface{}) {
	rep := map[string]interface{}{"case": v.c.idx, "kind": kindNames[v.c.kind], "via": v.via, "callback": v.c.callback, "what": v.c.desc, "server_header": v.srv}
	*v.list = append(*v.list, vio{sig, fmt.Sprintf(format, a...) + " :: " + v.c.desc + " via " + v.via + " callback=" + v.c.callback, rep})
}

// checkResponse judges one HTTP answer (from the recorder or from the wire).
func checkResponse(v *verdicts, status int, hdr http.Header, body []byte) {
	c := v.c
	jsonText := body
	wrapped := false
	if c.callback != "" {
		if in, ok := unwrapJSONP(body, c.callback); ok {
			jsonText, wrapped = in, true
		}
	}
	switch c.kind {
	case kSuccess:
		if status != 200 {
			v.add("c19:success-status-not-200", "status %d", status)
		}
		if hdr.Get("Server") != v.srv {
			v.add("c19:success-server-header", "Server header %q, configured %q", hdr.Get("Server"), v.srv)
		}
		if c.callback != "" {
			if !wrapped {
				v.add("c19:jsonp-not-callback-json", "body is not %s(<json>): %q", c.callback, clip(body))
				return
			}
			if mt := mediaType(hdr); mt != "application/javascript" {
				v.add("c19:jsonp-content-type", "Content-Type %q", hdr.Get("Content-Type"))
			}
			v.m.Count("jsonp_wrapped_ok", 1)
		} else if mt := mediaType(hdr); mt != "application/json" {
			v.add("c19:success-content-type", "Content-Type %q", hdr.Get("Content-Type"))
		}
		got, err := decodeNum(jsonText)
		if err != nil {
			v.add("c19:success-body-not-json", "%v: %q", err, clip(body))
			return
		}
		obj, ok := got.(map[string]interface{})
		if !ok {
			v.add("c19:success-body-not-object", "%q", clip(body))
			return
		}
		if n, ok := obj["code"].(stdjson.Number); !ok || n.String() != "0" {
			v.add("c19:success-code-not-0", "code=%v", obj["code"])
		}
		if n, ok := obj["server"].(stdjson.Number); !ok || n.String() != strconv.Itoa(os.Getpid()) {
			v.add("c19:success-server-not-pid", "server=%v pid=%d", obj["server"], os.Getpid())
		}
		exp, merr := stdjson.Marshal(c.value)
		if merr != nil {
			v.add("harness:c19:value-not-marshalable", "%v", merr)
			return
		}
		want, _ := decodeNum(exp)
		data, present := obj["data"]
		if !present {
			v.add("c19:success-data-missing", "%q", clip(body))
		} else if !reflect.DeepEqual(data, want) {
			v.add("c19:success-data-differs", "data=%s want=%s", clipS(fmt.Sprintf("%#v", data)), clipS(string(exp)))
		}
		if len(obj) != 3 {
			v.add("c19:success-envelope-extra-keys", "%d keys: %q", len(obj), clip(body))
		}
	case kSystem, kComplex, kApp:
		// the statement fixes the code; the status of coded errors is not asserted.  A coded error is emitted as a JSON
		// envelope like a success is, so "with a callback query parameter the same JSON is wrapped as callback(json) with the
		// JavaScript content type" is read as covering it too: a JSONP client can read nothing else (DESIGN.md 7.7).
		if c.callback != "" {
			if !wrapped {
				v.add("c19:jsonp-not-callback-json:"+kindNames[c.kind], "coded error for a request with callback=%s is not %s(<json>): %q", c.callback, c.callback, clip(body))
				return
			}
			if mt := mediaType(hdr); mt != "application/javascript" {
				v.add("c19:jsonp-content-type:"+kindNames[c.kind], "Content-Type %q", hdr.Get("Content-Type"))
			}
			v.m.Count("jsonp_wrapped_coded_error_ok", 1)
		}
		got, err := decodeNum(jsonText)
		if err != nil {
			v.add("c19:coded-error-body-not-json:"+kindNames[c.kind], "%v: %q", err, clip(body))
			return
		}
		obj, _ := got.(map[string]interface{})
		n, ok := obj["code"].(stdjson.Number)
		if !ok {
			v.add("c19:coded-error-no-code:"+kindNames[c.kind], "%q", clip(body))
			return
		}
		if n.String() != strconv.Itoa(c.code) {
			v.add("c19:coded-error-wrong-code:"+kindNames[c.kind], "code %s, the error's code is %d", n, c.code)
		}
		if n.String() == "0" {
			v.add("c19:error-answered-as-success:"+kindNames[c.kind], "%q", clip(body))
		} else if n.String() == strconv.Itoa(c.code) {
			v.m.Count("coded_error_code_ok", 1)
		}
	case kPlain, kPlainStatus:
		if status != c.status {
			v.add("c19:plain-error-status:"+kindNames[c.kind], "status %d, expected %d", status, c.status)
		} else {
			v.m.Count("plain_error_status_ok", 1)
		}
	case kUnmarshalable:
		// an error response: a 4xx/5xx status, or a complete JSON envelope with a non-zero code
		if status >= 400 {
			v.m.Count("unmarshalable_answered_with_error_status", 1)
			return
		}
		got, err := decodeNum(jsonText)
		if err != nil {
			v.add("c19:unmarshalable-truncated-body", "status %d with a body that is not JSON (%v): %q", status, err, clip(body))
			return
		}
		obj, _ := got.(map[string]interface{})
		if n, ok := obj["code"].(stdjson.Number); !ok || n.String() == "0" {
			v.add("c19:unmarshalable-answered-as-success", "status %d body %q", status, clip(body))
		}
	}
}

func clip(b []byte) string { return clipS(string(b)) }
func clipS(s string) string {
	if len(s) > 240 {
		return s[:200] + fmt.Sprintf("…(%d bytes)", len(s))
	}
	return s
}

// ---------------------------------------------------------------------------------------------

func TestVerif_C19_Envelope(t *testing.T) {
	m := mon.New("C19", "envelope")
	defer m.Finish(t)
	m.Rule("PRNG cases: Data(value tree: nil/bool/ints incl. int64 and uint64 extremes/floats/strings with quotes, controls, non-ASCII and invalid UTF-8/" +
		"nested maps and arrays/typed values) | Error(SystemError | SystemComplexError (also through CplxError) | AppError by value and by pointer) with codes from " +
		"{+-1, +-2^31, +-2^53, min/max int64, random != 0} | Error(plain error: errors.New, struct, wrapped, PathError; with Status() in 400..599; 1 in 6 with a message that is itself JSON text) | " +
		"Data(unmarshalable: chan, func, NaN, Inf, complex, failing/invalid Marshaler, cycle; at top level or buried in a tree); 40% with an identifier-shaped callback; " +
		"three Server header settings; every case into a ResponseRecorder, every second case also over a loopback httptest.Server read by ApiRequest (no callback) or a plain GET (callback). " +
		"distinct = kind x shape x callback x transport")
	ol.Switch(verifDiscard{}) // a Closer: otherwise the logger still writes colour codes to stdout for every error
	if tr, ok := http.DefaultTransport.(*http.Transport); ok {
		tr.MaxIdleConnsPerHost = 64
	}
	n := m.N(6000, 1500000)
	if !m.Quick() {
		hugeEvery = 1499
	}
	only := -1 // under `check.py --replay`: the recorded case only, no mandatory minimums
	if v, ok := m.ReplayField("case").(float64); ok {
		only = int(v)
	}
	require := func(name string, min int64) {
		if only == -1 {
			m.Require(name, min)
		}
	}
	require("evaluations", int64(n))
	require("loopback_client_success", int64(n/20))
	require("loopback_client_error_reported", int64(n/20))
	require("jsonp_wrapped_ok", int64(n/20))
	require("post_requests_with_callback_in_the_body", int64(n/10))
	require("huge_success_read_back_by_client", int64(n/hugeEvery/4))
	require("jsonp_wrapped_coded_error_ok", int64(n/40))
	require("coded_error_code_ok", int64(n/10))
	require("plain_error_status_ok", int64(n/20))
	require("unmarshalable_answered_with_error_status", int64(n/50))
	require("badutf8_values", int64(n/50))
	require("errors_with_a_cause_of_another_kind", int64(n/50))

	var cases sync.Map
	var loopViol sync.Map
	srv := httptest.NewServer(http.HandlerFunc(func(w http.ResponseWriter, r *http.Request) {
		id, _ := strconv.Atoi(strings.TrimPrefix(r.URL.Path, "/case/"))
		cv, ok := cases.Load(id)
		if !ok {
			http.NotFound(w, r)
			return
		}
		defer func() {
			if rec := recover(); rec != nil {
				loopViol.Store(id, fmt.Sprintf("%v @%s", rec, mon.LibFrame()))
				panic(http.ErrAbortHandler)
			}
		}()
		cv.(*vcase).handler.ServeHTTP(w, r)
	}))
	defer srv.Close()

	servers := []string{"Oryx", fmt.Sprintf("Verif-Server/1.0 (seed %d)", vrand.Seed()), "x"}
	// per signature: the witness of the lowest case index, and a count (deterministic, bounded memory)
	type entry struct {
		idx, seq, n int
		v           vio
	}
	var cmu sync.Mutex
	coll := map[string]*entry{}
	flush := func(idx int, list []vio) {
		cmu.Lock()
		defer cmu.Unlock()
		for seq, x := range list {
			e := coll[x.sig]
			if e == nil {
				coll[x.sig] = &entry{idx, seq, 1, x}
				continue
			}
			e.n++
			if idx < e.idx {
				e.idx, e.seq, e.v = idx, seq, x
			}
		}
	}
	per := (n + len(servers) - 1) / len(servers)
	for phase, srvName := range servers {
		oh.Server = srvName // a package variable: changed only between phases
		lo, hi := phase*per, (phase+1)*per
		if hi > n {
			hi = n
		}
		mon.Parallel(hi-lo, func(w, k int) {
			i := lo + k
			if only != -1 && i != only {
				return
			}
			var list []vio
			defer func() { flush(i, list) }()
			r := m.Rand("case", i)
			c := genCase(r, i)
			loop := i%2 == 0 || c.huge
			m.Case()
			m.Classf("%s/%s/cb%d/loop%d", kindNames[c.kind], c.shape, b2i(c.callback != ""), b2i(loop))
			m.Count("kind_"+kindNames[c.kind], 1)
			if strings.Contains(c.shape, "with-cause") {
				m.Count("errors_with_a_cause_of_another_kind", 1)
			}
			if strings.Contains(c.shape, "badutf8") {
				m.Count("badutf8_values", 1)
			}
			q := ""
			if c.callback != "" {
				q = "?" + url.Values{"callback": {c.callback}, "other": {"1"}}.Encode()
			}
			// (1) recorder
			var recBody []byte
			v := &verdicts{m: m, c: c, via: "recorder", srv: srvName, list: &list}
			m.Guard("http.handler:"+kindNames[c.kind], nil, func() {
				rec := httptest.NewRecorder()
				req := httptest.NewRequest("GET", "http://verif.test/case/"+strconv.Itoa(i)+q, nil)
				if c.postForm {
					// only a callback QUERY parameter selects JSONP: a form field of that name in a POST body does not
					req = httptest.NewRequest("POST", "http://verif.test/case/"+strconv.Itoa(i)+q, strings.NewReader("callback=fromBody&x=1"))
					req.Header.Set("Content-Type", "application/x-www-form-urlencoded")
					m.Count("post_requests_with_callback_in_the_body", 1)
				}
				c.handler.ServeHTTP(rec, req)
				res := rec.Result()
				recBody, _ = ioutil.ReadAll(res.Body)
				checkResponse(v, res.StatusCode, res.Header, recBody)
				if m.WantSample() && c.kind != kPlain && len(recBody) < 200 && c.idx%7 == 0 {
					m.Sample(map[string]interface{}{"what": c.desc, "callback": c.callback, "status": res.StatusCode, "content_type": res.Header.Get("Content-Type"), "body": string(recBody)})
				}
			})
			if !loop {
				return
			}
			// (2) loopback
			cases.Store(i, c)
			defer cases.Delete(i)
			u := srv.URL + "/case/" + strconv.Itoa(i) + q
			v = &verdicts{m: m, c: c, via: "loopback", srv: srvName, list: &list}
			if c.callback != "" {
				resp, err := http.Get(u)
				if err != nil {
					v.add("c19:loopback-get-failed", "%v", err)
					return
				}
				body, _ := ioutil.ReadAll(resp.Body)
				resp.Body.Close()
				m.Count("loopback_plain_get", 1)
				checkResponse(v, resp.StatusCode, resp.Header, body)
				if !bytes.Equal(body, recBody) {
					v.add("c19:wire-body-differs-from-recorded", "wire %q recorder %q", clip(body), clip(recBody))
				}
				return
			}
			var code int
			var body []byte
			var err error
			m.Guard("http.ApiRequest", nil, func() { code, body, err = oh.ApiRequest(u) })
			if pv, ok := loopViol.Load(i); ok {
				v.add("panic:http.handler:"+kindNames[c.kind], "handler panicked on the loopback server: %v", pv)
				return
			}
			switch c.kind {
			case kSuccess:
				if err != nil || code != 0 {
					v.add("c19:client-reports-error-for-success", "ApiRequest code=%d err=%v", code, err)
					return
				}
				m.Count("loopback_client_success", 1)
				if c.huge {
					m.Count("huge_success_read_back_by_client", 1)
				}
				checkResponse(v, 200, http.Header{"Server": {srvName}, "Content-Type": {"application/json"}}, body) // body as handed back by the client
			default:
				if err == nil {
					scope := strings.TrimSuffix(kindNames[c.kind], "-status") // plain errors with and without Status(): one scope
					if c.jsonMsg {
						scope += ":json-message"
					}
					v.add("c19:client-reports-success-for-error:"+scope, "ApiRequest code=%d err=nil body=%q", code, clip(body))
					return
				}
				m.Count("loopback_client_error_reported", 1)
				if c.kind == kSystem || c.kind == kComplex || c.kind == kApp {
					if code == 0 {
						v.add("c19:client-code-zero-for-error:"+kindNames[c.kind], "ApiRequest code=0 err=%v", err)
					}
					// observed, not asserted: whether the client hands back the very same code (float64 round trip)
					if code == c.code {
						m.Count("client_code_identical", 1)
					} else {
						m.Count("client_code_altered_by_float64", 1)
					}
				}
			}
		})
	}
	var es []*entry
	for _, e := range coll {
		es = append(es, e)
	}
	sort.Slice(es, func(i, j int) bool {
		if es[i].idx != es[j].idx {
			return es[i].idx < es[j].idx
		}
		return es[i].seq < es[j].seq
	})
	for _, e := range es {
		for k := 0; k < e.n; k++ {
			m.Violation(e.v.sig, e.v.detail, e.v.replay)
		}
	}
}

type verifDiscard struct{}

func (verifDiscard) Write(p []byte) (int, error) { return len(p), nil }
func (verifDiscard) Close() error                { return nil }

func b2i(b bool) int {
	if b {
		return 1
	}
	return 0
}
