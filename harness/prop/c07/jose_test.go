package c07

import (
	"sort"
	"crypto/ecdsa"
	"crypto/rsa"
	"encoding/base64"
	"encoding/json"
	"strings"
	"sync"
	"testing"

	"github.com/ossrs/go-oryx-lib/https/jose"
	"verifharness/lib/hostile"
	"verifharness/lib/mon"
	"verifharness/lib/vkeys"
	"verifharness/lib/vrand"
)

// ---- fixed keys of every kind -------------------------------------------------------------------

type joseKeys struct {
	rsa     *rsa.PrivateKey
	ec      []*ecdsa.PrivateKey
	oct     [][]byte
	verify  []interface{}
	decrypt []interface{}
}

var (
	jk     *joseKeys
	jkOnce sync.Once
	jwsCorpus, jweCorpus, jwkCorpus []string
)

func joseInit() {
	jkOnce.Do(func() {
		k := &joseKeys{rsa: vkeys.RSA("rsa2048-a")}
		for _, n := range []string{"p256-a", "p384-a", "p521-a", "p256-lzx"} {
			k.ec = append(k.ec, vkeys.EC(n))
		}
		for _, n := range []int{16, 24, 32, 48, 64} {
			k.oct = append(k.oct, vkeys.OctN(n, "a"))
		}
		k.verify = append(k.verify, &k.rsa.PublicKey, k.oct[2], k.oct[4])
		k.decrypt = append(k.decrypt, k.rsa)
		for _, e := range k.ec {
			k.verify = append(k.verify, &e.PublicKey)
			k.decrypt = append(k.decrypt, e)
		}
		for _, o := range k.oct {
			k.decrypt = append(k.decrypt, o)
		}
		k.verify = append(k.verify, &jose.JsonWebKey{Key: &k.rsa.PublicKey, KeyID: "k"})
		k.decrypt = append(k.decrypt, &jose.JsonWebKey{Key: k.ec[0], KeyID: "k"})
		jk = k
		buildCorpora()
	})
}

func buildCorpora() {
	payload := []byte(`{"hello":"world","n":1}`)
	addJWS := func(alg jose.SignatureAlgorithm, key interface{}) {
		s, err := jose.NewSigner(alg, key)
		if err != nil {
			return
		}
		obj, err := s.Sign(payload)
		if err != nil {
			return
		}
		if c, err := obj.CompactSerialize(); err == nil {
			jwsCorpus = append(jwsCorpus, c)
		}
		jwsCorpus = append(jwsCorpus, obj.FullSerialize())
	}
	addJWS(jose.HS256, jk.oct[2])
	addJWS(jose.HS512, jk.oct[4])
	addJWS(jose.RS256, jk.rsa)
	addJWS(jose.PS384, jk.rsa)
	addJWS(jose.ES256, jk.ec[0])
	addJWS(jose.ES384, jk.ec[1])
	addJWS(jose.ES512, jk.ec[2])
	ms := jose.NewMultiSigner()
	ms.AddRecipient(jose.HS256, jk.oct[2])
	ms.AddRecipient(jose.ES256, jk.ec[0])
	if obj, err := ms.Sign(payload); err == nil {
		jwsCorpus = append(jwsCorpus, obj.FullSerialize())
	}
	addJWE := func(alg jose.KeyAlgorithm, enc jose.ContentEncryption, key interface{}, zip bool) {
		e, err := jose.NewEncrypter(alg, enc, key)
		if err != nil {
			return
		}
		if zip {
			e.SetCompression(jose.DEFLATE)
		}
		obj, err := e.EncryptWithAuthData(payload, []byte("aad"))
		if err != nil {
			return
		}
		jweCorpus = append(jweCorpus, obj.FullSerialize())
		if obj2, err := e.Encrypt(payload); err == nil {
			if c, err := obj2.CompactSerialize(); err == nil {
				jweCorpus = append(jweCorpus, c)
			}
		}
	}
	addJWE(jose.DIRECT, jose.A128GCM, jk.oct[0], false)
	addJWE(jose.DIRECT, jose.A256CBC_HS512, jk.oct[4], true)
	addJWE(jose.A128KW, jose.A128CBC_HS256, jk.oct[0], false)
	addJWE(jose.A256KW, jose.A256GCM, jk.oct[2], true)
	addJWE(jose.A128GCMKW, jose.A128GCM, jk.oct[0], false)
	addJWE(jose.A256GCMKW, jose.A192CBC_HS384, jk.oct[2], false)
	addJWE(jose.RSA1_5, jose.A128GCM, &jk.rsa.PublicKey, false)
	addJWE(jose.RSA_OAEP, jose.A128CBC_HS256, &jk.rsa.PublicKey, true)
	addJWE(jose.RSA_OAEP_256, jose.A256GCM, &jk.rsa.PublicKey, false)
	addJWE(jose.ECDH_ES, jose.A128GCM, &jk.ec[0].PublicKey, false)
	addJWE(jose.ECDH_ES_A128KW, jose.A128GCM, &jk.ec[0].PublicKey, false)
	addJWE(jose.ECDH_ES_A256KW, jose.A256CBC_HS512, &jk.ec[2].PublicKey, true)
	if me, err := jose.NewMultiEncrypter(jose.A128GCM); err == nil {
		me.AddRecipient(jose.A128KW, jk.oct[0])
		me.AddRecipient(jose.ECDH_ES_A128KW, &jk.ec[0].PublicKey)
		me.AddRecipient(jose.RSA_OAEP, &jk.rsa.PublicKey)
		if obj, err := me.Encrypt(payload); err == nil {
			jweCorpus = append(jweCorpus, obj.FullSerialize())
		}
	}
	for _, key := range []interface{}{jk.rsa, &jk.rsa.PublicKey, jk.ec[0], &jk.ec[1].PublicKey, jk.ec[2], jk.ec[3], jk.oct[2]} {
		if b, err := (&jose.JsonWebKey{Key: key, KeyID: "kid-1", Algorithm: "x", Use: "sig"}).MarshalJSON(); err == nil {
			jwkCorpus = append(jwkCorpus, string(b))
		}
	}
}

// ---- keyed derivations: structural edits of a valid serialization ----------------------------

var b64 = base64.RawURLEncoding

func editValue(r *vrand.Rand, v interface{}) interface{} {
	switch x := v.(type) {
	case string:
		switch r.Intn(9) {
		case 0:
			return ""
		case 1:
			// small big-endian integers in base64url: 0, 1, 2, 3, 0x80, 0xff, 65537 (degenerate RSA/EC members)
			return []string{"AA", "AQ", "Ag", "Aw", "gA", "_w", "AQAB", "AAAB"}[r.Intn(8)]
		case 2:
			return x + x
		case 3:
			if len(x) > 2 {
				return x[:len(x)/2]
			}
		case 4:
			return "!!not base64!!"
		case 5:
			return b64.EncodeToString(r.Bytes(r.Pick(0, 1, 8, 11, 12, 13, 16, 17, 32, 300)))
		case 6:
			if raw, err := b64.DecodeString(x); err == nil && len(raw) > 0 {
				// decoded JSON header: edit inside and re-encode
				var hm map[string]interface{}
				if json.Unmarshal(raw, &hm) == nil {
					editMap(r, hm)
					nb, _ := json.Marshal(hm)
					return b64.EncodeToString(nb)
				}
				raw[r.Intn(len(raw))] ^= 1 << uint(r.Intn(8))
				return b64.EncodeToString(raw)
			}
		case 7:
			return 12345
		}
		return x
	case map[string]interface{}:
		editMap(r, x)
		return x
	case []interface{}:
		switch r.Intn(4) {
		case 0:
			return []interface{}{}
		case 1:
			return append(x, x...)
		case 2:
			if len(x) > 0 {
				x[r.Intn(len(x))] = editValue(r, x[r.Intn(len(x))])
			}
		default:
			return "not-an-array"
		}
		return x
	}
	return v
}

func editMap(r *vrand.Rand, mp map[string]interface{}) {
	keys := make([]string, 0, len(mp))
	for k := range mp {
		keys = append(keys, k)
	}
	if len(keys) == 0 {
		mp["alg"] = "none"
		return
	}
	// deterministic order
	for i := 1; i < len(keys); i++ {
		for j := i; j > 0 && keys[j] < keys[j-1]; j-- {
			keys[j], keys[j-1] = keys[j-1], keys[j]
		}
	}
	k := keys[r.Intn(len(keys))]
	switch r.Intn(8) {
	case 0:
		delete(mp, k)
	case 1:
		mp[k] = nil
	case 2:
		// move a member elsewhere: e.g. protected -> unprotected/header
		names := []string{"protected", "unprotected", "header", "iv", "tag", "ciphertext", "encrypted_key", "aad", "signature", "payload", "recipients", "signatures", "alg", "enc", "zip", "epk", "kid", "jwk", "crv", "x", "y", "d", "n", "e", "k", "kty", "p2s", "p2c", "apu", "apv", "crit"}
		mp[names[r.Intn(len(names))]] = mp[k]
		if r.Bool() {
			delete(mp, k)
		}
	case 3:
		algs := []string{"none", "HS256", "RS256", "ES256", "ES512", "PS256", "dir", "A128KW", "A128GCMKW", "RSA1_5", "RSA-OAEP", "ECDH-ES", "ECDH-ES+A128KW", "PBES2-HS256+A128KW", "A128GCM", "A128CBC-HS256", "DEF", "P-256", "P-521", "EC", "RSA", "oct", ""}
		mp[k] = algs[r.Intn(len(algs))]
	default:
		mp[k] = editValue(r, mp[k])
	}
}

func derive(r *vrand.Rand, s string) []byte {
	if strings.HasPrefix(s, "{") {
		var mp map[string]interface{}
		if json.Unmarshal([]byte(s), &mp) == nil {
			if ps, ok := mp["protected"].(string); ok && r.Chance(1, 4) {
				// headers only in the unprotected / per-recipient place: decode the protected header and move it
				if raw, err := b64.DecodeString(ps); err == nil {
					var hm map[string]interface{}
					if json.Unmarshal(raw, &hm) == nil {
						delete(mp, "protected")
						mp[[]string{"unprotected", "header"}[r.Intn(2)]] = hm
						if r.Bool() {
							b, _ := json.Marshal(mp)
							return b
						}
					}
				}
			}
			for k := r.Range(1, 3); k > 0; k-- {
				editMap(r, mp)
			}
			b, _ := json.Marshal(mp)
			return b
		}
		return []byte(s)
	}
	parts := strings.Split(s, ".")
	i := r.Intn(len(parts))
	if v, ok := editValue(r, parts[i]).(string); ok {
		parts[i] = v
	}
	switch r.Intn(6) {
	case 0:
		parts = parts[:len(parts)-1]
	case 1:
		parts = append(parts, "AA")
	}
	return []byte(strings.Join(parts, "."))
}

// ---- entries ---------------------------------------------------------------------------------

func joseVerify(data []byte) string {
	joseInit()
	obj, err := jose.ParseSigned(string(data))
	if err != nil {
		return "err-parse"
	}
	ok := 0
	for _, k := range jk.verify {
		if _, err := obj.Verify(k); err == nil {
			ok++
		}
	}
	if ok > 0 {
		return "verified"
	}
	return "parsed"
}

func joseDecrypt(data []byte) string {
	joseInit()
	obj, err := jose.ParseEncrypted(string(data))
	if err != nil {
		return "err-parse"
	}
	ok := 0
	for _, k := range jk.decrypt {
		if _, err := obj.Decrypt(k); err == nil {
			ok++
		}
	}
	if ok > 0 {
		return "decrypted"
	}
	return "parsed"
}

func joseJWK(data []byte) string {
	var k jose.JsonWebKey
	res := "err"
	if err := k.UnmarshalJSON(data); err == nil {
		res = "ok"
	}
	var set jose.JsonWebKeySet
	if err := json.Unmarshal(data, &set); err == nil {
		res += "/set-ok"
	}
	return res
}

func joseEntries() []hostile.Entry {
	joseInit()
	seedOf := func(corpus []string) func(r *vrand.Rand) []byte {
		return func(r *vrand.Rand) []byte {
			s := corpus[r.Intn(len(corpus))]
			if r.Chance(1, 5) {
				return []byte(s)
			}
			return derive(r, s)
		}
	}
	return []hostile.Entry{
		{Name: "jose.ParseSigned+Verify", F: joseVerify, Seed: seedOf(jwsCorpus), Weight: 50},
		{Name: "jose.ParseEncrypted+Decrypt", F: joseDecrypt, Seed: seedOf(jweCorpus), Weight: 50},
		{Name: "jose.JWK+JWKSet", F: joseJWK, Seed: func(r *vrand.Rand) []byte {
			if r.Chance(1, 4) {
				return []byte(`{"keys":[` + jwkCorpus[r.Intn(len(jwkCorpus))] + `,` + string(derive(r, jwkCorpus[r.Intn(len(jwkCorpus))])) + `]}`)
			}
			return seedOf(jwkCorpus)(r)
		}, Weight: 50},
	}
}

func TestVerif_C07_Jose(t *testing.T) {
	joseInit()
	part := "jose"
	if hostile.Ticks() {
		part = "joseticks"
	}
	m := mon.New("C07", part)
	defer m.Finish(t)
	m.Rule("jose entries: ParseSigned+Verify and ParseEncrypted+Decrypt against fixed keys of every kind (RSA, P-256/384/521, oct 16..64, JWK-wrapped), " +
		"JsonWebKey/JsonWebKeySet JSON; seeds are objects produced with those keys, and *keyed derivations*: structural edits of the serialization " +
		"(member deleted / nulled / moved between protected, unprotected and per-recipient headers, alg/enc/zip switched, IV / tag / ciphertext / " +
		"encrypted_key / coordinates emptied, resized or replaced, header JSON edited inside its base64), then the generic byte mutations on top")
	if len(jwsCorpus) < 10 || len(jweCorpus) < 15 || len(jwkCorpus) < 5 {
		m.Inconclusive("jose seed corpus incomplete")
	}
	es := joseEntries()
	per := 20000
	if hostile.Ticks() {
		per = 2000
	}
	hostile.Run(m, es, hostile.Options{PerEntryQuick: per, PerEntryThorough: per * 30})
	if !hostile.Ticks() {
		// the edge-integer grid: every integer-valued member of every JWK kind replaced by each of the values that break
		// arithmetic (empty, 0, 1, 2, 3, 255, leading zeros, very long), alone and together with each other member deleted
		// — what a PRNG finds about once in a thousand tries is enumerated instead
		edges := []string{"", "AA", "AQ", "Ag", "Aw", "_w", "AAAB", strings.Repeat("_", 800)}
		n := 0
		for _, ks := range jwkCorpus {
			var mp map[string]interface{}
			if json.Unmarshal([]byte(ks), &mp) != nil {
				continue
			}
			var names []string
			for k, v := range mp {
				if _, ok := v.(string); ok && k != "kty" && k != "crv" && k != "kid" && k != "alg" && k != "use" {
					names = append(names, k)
				}
			}
			sort.Strings(names)
			for _, a := range names {
				for _, e := range edges {
					for bi := -1; bi < len(names); bi++ {
						v := map[string]interface{}{}
						for k, x := range mp {
							v[k] = x
						}
						v[a] = e
						if bi >= 0 {
							if names[bi] == a {
								continue
							}
							delete(v, names[bi])
						}
						in, _ := json.Marshal(v)
						m.Case()
						n++
						m.Guard("jose.JWK+JWKSet", in, func() { m.Class("jwkgrid/" + joseJWK(in)) })
					}
				}
			}
		}
		m.Count("jwk_edge_integer_grid_inputs", int64(n))
		m.Require("jwk_edge_integer_grid_inputs", 300)
	}
	for _, e := range es {
		m.Require("inputs:"+e.Name, 100)
	}
	if !hostile.Ticks() {
		m.Require("class:jose.ParseEncrypted+Decrypt/mutated/decrypted", 1)
		m.Require("class:jose.ParseSigned+Verify/mutated/verified", 1)
	}
}
