package c16

import (
	"bytes"
	"encoding/hex"
	"fmt"
	"sort"
	"strings"
	"testing"

	"github.com/ossrs/go-oryx-lib/https/jose"
	"verifharness/lib/mon"
)

// The 14 key-management algorithms the library implements (shared.go also names three PBES2
// algorithms, which no code path implements: NewEncrypter answers ErrUnsupportedAlgorithm).
var kmAlgs = []jose.KeyAlgorithm{jose.RSA1_5, jose.RSA_OAEP, jose.RSA_OAEP_256, jose.A128KW, jose.A192KW, jose.A256KW, jose.DIRECT,
	jose.ECDH_ES, jose.ECDH_ES_A128KW, jose.ECDH_ES_A192KW, jose.ECDH_ES_A256KW, jose.A128GCMKW, jose.A192GCMKW, jose.A256GCMKW}

var encAlgs = []jose.ContentEncryption{jose.A128GCM, jose.A192GCM, jose.A256GCM, jose.A128CBC_HS256, jose.A192CBC_HS384, jose.A256CBC_HS512}

var cekSize = map[jose.ContentEncryption]int{jose.A128GCM: 16, jose.A192GCM: 24, jose.A256GCM: 32,
	jose.A128CBC_HS256: 32, jose.A192CBC_HS384: 48, jose.A256CBC_HS512: 64}

func kmFamily(alg jose.KeyAlgorithm) string {
	a := string(alg)
	switch {
	case strings.HasPrefix(a, "RSA"):
		return "rsa"
	case strings.HasPrefix(a, "ECDH"):
		return "ecdh"
	case a == "dir":
		return "dir"
	}
	return "sym"
}

// kmKeyNames lists the fitting keys of a key-management algorithm (for "dir" the key is the CEK,
// so its size follows the content encryption) and a different key of the same kind for each.
func kmKeyNames(alg jose.KeyAlgorithm, enc jose.ContentEncryption) (names, others []string) {
	switch kmFamily(alg) {
	case "rsa":
		return []string{"rsa-a", "rsa-e3"}, []string{"rsa-b", "rsa-b"}
	case "ecdh":
		for _, c := range curves {
			for _, v := range []string{"a", "b", "lzx", "lzy", "lzd"} {
				names = append(names, c+"-"+v)
				others = append(others, otherEC(c+"-"+v))
			}
		}
		return
	case "dir":
		n := cekSize[enc]
		return []string{fmt.Sprintf("oct%d-a", n), fmt.Sprintf("oct%d-b", n)}, []string{fmt.Sprintf("oct%d-b", n), fmt.Sprintf("oct%d-a", n)}
	}
	n := map[string]int{"A128": 16, "A192": 24, "A256": 32}[string(alg)[:4]]
	return []string{fmt.Sprintf("oct%d-a", n), fmt.Sprintf("oct%d-b", n)}, []string{fmt.Sprintf("oct%d-b", n), fmt.Sprintf("oct%d-a", n)}
}

func zipName(z jose.CompressionAlgorithm) string {
	if z == jose.NONE {
		return "none"
	}
	return string(z)
}

// decryptJWE parses and decrypts; stage is "" on success, else parse-error / decrypt-error / panic.
func decryptJWE(m *mon.M, s string, key interface{}) (pt, aad []byte, stage string, err error) {
	var parsed *jose.JsonWebEncryption
	if m.Guard("jose.ParseEncrypted", []byte(s), func() { parsed, err = jose.ParseEncrypted(s) }) {
		return nil, nil, "panic", fmt.Errorf("panic in ParseEncrypted")
	}
	if err != nil {
		return nil, nil, "parse-error", err
	}
	if m.Guard("jose.JsonWebEncryption.Decrypt", []byte(s), func() {
		pt, err = parsed.Decrypt(key)
		if err == nil {
			aad = parsed.GetAuthData()
		}
	}) {
		return nil, nil, "panic", fmt.Errorf("panic in Decrypt")
	}
	if err != nil {
		return nil, nil, "decrypt-error", err
	}
	return pt, aad, "", nil
}

type encJob struct {
	round      int
	alg        jose.KeyAlgorithm
	enc        jose.ContentEncryption
	key, other string
	wrap       bool
}

func TestVerif_C16_Encrypt(t *testing.T) {
	m := mon.New("C16", "encrypt")
	defer m.Finish(t)
	if mine, replaying := replayFor(m, "encrypt"); replaying {
		if mine {
			replayObject(m, "jwe")
		}
		return
	}
	col := newCollector(m)
	defer col.flush()
	m.Rule("encrypt: 14 key-management algorithms x every fitting key (RSA-2048 e=65537 and e=3; 15 EC keys over P-256/384/521 incl. leading-zero X/Y/D; " +
		"two symmetric keys per size) x 6 content encryptions x {none, DEF} x payload sizes {0,1,15,16,17,31,32,33,255,4096} x {compact, flattened JSON, " +
		"flattened JSON with AAD via EncryptWithAuthData}; incompressible and compressible payloads alternate; keys raw or as JsonWebKey with kid; " +
		"multi-recipient general-JSON objects decrypted by every recipient; a sub-matrix with an empty (non-nil) AAD. " +
		"distinct = alg/enc/zip/len/serialization classes (keys counted separately)")
	rounds := m.N(1, 20)
	m.Note("rounds", rounds)
	var jobs []encJob
	for round := 0; round < rounds; round++ {
		for _, alg := range kmAlgs {
			for _, enc := range encAlgs {
				names, others := kmKeyNames(alg, enc)
				for ki, kn := range names {
					jobs = append(jobs, encJob{round: round, alg: alg, enc: enc, key: kn, other: others[ki], wrap: (ki+round)%2 == 1})
				}
			}
		}
	}
	m.Require("evaluations", int64(len(jobs)*2*len(payloadSizes)*3))
	m.Require("class:jwe/", int64(14*6*2*len(payloadSizes)*3))
	for _, alg := range kmAlgs {
		for _, enc := range encAlgs {
			m.Require(fmt.Sprintf("jwe_roundtrip_ok/%s/%s", alg, enc), 1)
		}
	}
	mon.Parallel(len(jobs), func(w, i int) { runEncJob(m, col, jobs[i], i) })
	runMultiRecipient(m, col, rounds)
	runEmptyAAD(m, col)
}

func aadFor(m *mon.M, idx int) []byte {
	r := m.Rand("aad", idx)
	return r.Bytes(r.Pick(1, 2, 16, 33, 300))
}

func runEncJob(m *mon.M, col *collector, j encJob, idx int) {
	ks := keysFor(m, j.round)
	dec := ks.byName(j.key)
	encKey := wrapKey(publicOf(dec), j.wrap, "kid-"+j.key)
	decKey := wrapKey(dec, j.wrap, "")
	for zi, zip := range []jose.CompressionAlgorithm{jose.NONE, jose.DEFLATE} {
		for si, size := range payloadSizes {
			pidx := (idx*2+zi)*16 + si
			pt := payload(m, "jwept", pidx, size, (si+zi+idx)%2 == 0)
			aad := aadFor(m, pidx)
			base := []dim{{"alg", string(j.alg)}, {"key", j.key}, {"enc", string(j.enc)}, {"zip", zipName(zip)}, {"len", fmt.Sprint(size)}}
			var o1, o2 *jose.JsonWebEncryption
			var err1, err2 error
			m.Guard("jose.Encrypt", pt, func() {
				var e jose.Encrypter
				e, err1 = jose.NewEncrypter(j.alg, j.enc, encKey)
				if err1 != nil {
					err2 = err1
					return
				}
				e.SetCompression(zip)
				o1, err1 = e.Encrypt(pt)
				o2, err2 = e.EncryptWithAuthData(pt, aad)
			})
			for _, ser := range []string{"compact", "json", "json+aad"} {
				dims := append(append([]dim{}, base...), dim{"ser", ser})
				col.seen("roundtrip-fails:jwe", dims)
				m.Case()
				m.Classf("jwe/%s/%s/%s/len%d/%s", j.alg, j.enc, zipName(zip), size, ser)
				m.Count("jwe_key/"+j.key, 1)
				obj, err, wantAAD := o1, err1, []byte(nil)
				if ser == "json+aad" {
					obj, err, wantAAD = o2, err2, aad
				}
				rep := map[string]interface{}{"part": "encrypt", "op": "decrypt", "round": j.round, "key": j.key, "expect_payload": hexOf(pt), "expect_aad": hexOf(wantAAD)}
				if err != nil || obj == nil {
					col.fail("roundtrip-fails:jwe", "encrypt-error", dims, size, rep, "%v", err)
					continue
				}
				var s string
				var serr error
				if m.Guard("jose.JWE.serialize", nil, func() {
					if ser == "compact" {
						s, serr = obj.CompactSerialize()
					} else {
						s = obj.FullSerialize()
					}
				}) {
					continue
				}
				if serr != nil {
					col.fail("roundtrip-fails:jwe", "serialize-error", dims, size, rep, "%v", serr)
					continue
				}
				rep["serialized"] = clip(s)
				out, gotAAD, st, derr := decryptJWE(m, s, decKey)
				switch {
				case st == "panic":
				case st != "":
					col.fail("roundtrip-fails:jwe", st, dims, size, rep, "%v", derr)
				case !bytes.Equal(out, pt):
					col.fail("roundtrip-fails:jwe", "payload-differs", dims, size, rep, "got %s want %s", hexOf(out), hexOf(pt))
				case !bytes.Equal(gotAAD, wantAAD):
					col.fail("roundtrip-fails:jwe", "aad-differs", dims, size, rep, "GetAuthData %s want %s", hexOf(gotAAD), hexOf(wantAAD))
				default:
					m.Count(fmt.Sprintf("jwe_roundtrip_ok/%s/%s", j.alg, j.enc), 1)
					if m.WantSample() && size == 17 {
						m.Sample(map[string]interface{}{"alg": string(j.alg), "enc": string(j.enc), "zip": zipName(zip), "ser": ser, "key": j.key, "serialized": clip(s)})
					}
				}
			}
		}
	}
}

// -------------------------------------------------------------------------------------------
// multi-recipient objects

type recipientSet struct {
	name string
	algs []jose.KeyAlgorithm
	keys []string
}

var recipientSets = []recipientSet{
	{"oaep+a128kw+ecdh256kw", []jose.KeyAlgorithm{jose.RSA_OAEP, jose.A128KW, jose.ECDH_ES_A256KW}, []string{"rsa-a", "oct16-a", "p384-a"}},
	{"rsa15+oaep256", []jose.KeyAlgorithm{jose.RSA1_5, jose.RSA_OAEP_256}, []string{"rsa-a", "rsa-b"}},
	{"gcmkw256x2", []jose.KeyAlgorithm{jose.A256GCMKW, jose.A256GCMKW}, []string{"oct32-a", "oct32-b"}},
	{"ecdh128kwx2+a192kw", []jose.KeyAlgorithm{jose.ECDH_ES_A128KW, jose.ECDH_ES_A128KW, jose.A192KW}, []string{"p256-lzx", "p521-a", "oct24-a"}},
}

// keys that are recipients of no set
var jweStrangers = []string{"rsa-e3", "oct16-b", "oct24-b", "p256-b", "p384-b", "p521-b"}

func encryptMulti(m *mon.M, ks *keyset, set recipientSet, enc jose.ContentEncryption, zip jose.CompressionAlgorithm, pt, aad []byte) (s string, err error) {
	if m.Guard("jose.MultiEncrypter", pt, func() {
		var e jose.MultiEncrypter
		if e, err = jose.NewMultiEncrypter(enc); err != nil {
			return
		}
		e.SetCompression(zip)
		for i, a := range set.algs {
			if err = e.AddRecipient(a, publicOf(ks.byName(set.keys[i]))); err != nil {
				return
			}
		}
		var obj *jose.JsonWebEncryption
		if aad == nil {
			obj, err = e.Encrypt(pt)
		} else {
			obj, err = e.EncryptWithAuthData(pt, aad)
		}
		if err != nil {
			return
		}
		s = obj.FullSerialize()
	}) {
		return "", fmt.Errorf("panic")
	}
	return s, err
}

func runMultiRecipient(m *mon.M, col *collector, rounds int) {
	type job struct {
		round, set int
		enc        jose.ContentEncryption
	}
	var jobs []job
	for r := 0; r < rounds; r++ {
		for si := range recipientSets {
			for _, enc := range encAlgs {
				jobs = append(jobs, job{r, si, enc})
			}
		}
	}
	m.Require("jwe_multi_ok", int64(len(recipientSets)*len(encAlgs)*2))
	mon.Parallel(len(jobs), func(w, i int) {
		j := jobs[i]
		ks := keysFor(m, j.round)
		set := recipientSets[j.set]
		for zi, zip := range []jose.CompressionAlgorithm{jose.NONE, jose.DEFLATE} {
			for si, size := range []int{0, 1, 33, 255} {
				for ai := 0; ai < 2; ai++ {
					pidx := ((i*2+zi)*4+si)*2 + ai
					pt := payload(m, "multipt", pidx, size, (si+zi)%2 == 0)
					var aad []byte
					ser := "json-general"
					if ai == 1 {
						aad = aadFor(m, 1000000+pidx)
						ser = "json-general+aad"
					}
					s, err := encryptMulti(m, ks, set, j.enc, zip, pt, aad)
					for ki, kn := range set.keys {
						dims := []dim{{"set", set.name}, {"recipient", fmt.Sprint(ki)}, {"enc", string(j.enc)}, {"zip", zipName(zip)}, {"len", fmt.Sprint(size)}, {"ser", ser}}
						col.seen("roundtrip-fails:jwe-multi", dims)
						m.Case()
						m.Classf("jwe-multi/%s/r%d/%s/%s/len%d/%s", set.name, ki, j.enc, zipName(zip), size, ser)
						rep := map[string]interface{}{"part": "encrypt", "op": "decrypt", "round": j.round, "key": kn, "serialized": clip(s), "expect_payload": hexOf(pt), "expect_aad": hexOf(aad)}
						if err != nil {
							col.fail("roundtrip-fails:jwe-multi", "encrypt-error", dims, size, rep, "%v", err)
							continue
						}
						out, gotAAD, st, derr := decryptJWE(m, s, ks.byName(kn))
						switch {
						case st == "panic":
						case st != "":
							col.fail("roundtrip-fails:jwe-multi", st, dims, size, rep, "%v", derr)
						case !bytes.Equal(out, pt):
							col.fail("roundtrip-fails:jwe-multi", "payload-differs", dims, size, rep, "got %s want %s", hexOf(out), hexOf(pt))
						case !bytes.Equal(gotAAD, aad):
							col.fail("roundtrip-fails:jwe-multi", "aad-differs", dims, size, rep, "GetAuthData %s want %s", hexOf(gotAAD), hexOf(aad))
						default:
							m.Count("jwe_multi_ok", 1)
						}
					}
					if err != nil || size != 33 {
						continue
					}
					for _, kn := range jweStrangers {
						dims := []dim{{"set", set.name}, {"enc", string(j.enc)}, {"stranger", kn}}
						col.seen("wrong-key-accepted:jwe-multi", dims)
						m.Case()
						m.Count("jwe_multi_wrong_key_trials", 1)
						if _, _, st, _ := decryptJWE(m, s, ks.byName(kn)); st == "" {
							col.fail("wrong-key-accepted:jwe-multi", "decrypt", dims, 0, map[string]interface{}{"part": "encrypt", "op": "decrypt", "round": j.round, "key": kn,
								"serialized": clip(s), "expect": "reject"}, "a key that is no recipient decrypts the object")
						}
					}
				}
			}
		}
	})
}

// -------------------------------------------------------------------------------------------
// EncryptWithAuthData(pt, []byte{}): an empty but non-nil AAD.  RFC 7516 §7.2.1 treats an empty AAD
// as absent; whatever the library chooses, its own serialization must decrypt again.  Kept under its
// own signature kind so that the verdict on it is separate from the main matrix.

func runEmptyAAD(m *mon.M, col *collector) {
	ks := keysFor(m, 0)
	type job struct {
		alg jose.KeyAlgorithm
		enc jose.ContentEncryption
	}
	var jobs []job
	for _, alg := range []jose.KeyAlgorithm{jose.DIRECT, jose.A128KW, jose.A256GCMKW, jose.RSA_OAEP, jose.ECDH_ES, jose.ECDH_ES_A192KW} {
		for _, enc := range encAlgs {
			jobs = append(jobs, job{alg, enc})
		}
	}
	mon.Parallel(len(jobs), func(w, i int) {
		j := jobs[i]
		names, _ := kmKeyNames(j.alg, j.enc)
		kn := names[0]
		dec := ks.byName(kn)
		for si, size := range []int{1, 32} {
			pt := payload(m, "emptyaadpt", i*2+si, size, false)
			dims := []dim{{"alg", string(j.alg)}, {"enc", string(j.enc)}, {"len", fmt.Sprint(size)}}
			col.seen("roundtrip-fails:jwe-aad-empty", dims)
			m.Case()
			m.Classf("jwe-aad-empty/%s/%s/len%d", j.alg, j.enc, size)
			rep := map[string]interface{}{"part": "encrypt", "op": "decrypt", "round": 0, "key": kn, "expect_payload": hexOf(pt), "expect_aad": ""}
			var s string
			var err error
			if m.Guard("jose.EncryptWithAuthData", pt, func() {
				var e jose.Encrypter
				if e, err = jose.NewEncrypter(j.alg, j.enc, publicOf(dec)); err != nil {
					return
				}
				var obj *jose.JsonWebEncryption
				if obj, err = e.EncryptWithAuthData(pt, []byte{}); err != nil {
					return
				}
				s = obj.FullSerialize()
			}) {
				continue
			}
			if err != nil {
				col.fail("roundtrip-fails:jwe-aad-empty", "encrypt-error", dims, size, rep, "%v", err)
				continue
			}
			rep["serialized"] = clip(s)
			out, gotAAD, st, derr := decryptJWE(m, s, dec)
			switch {
			case st == "panic":
			case st != "":
				col.fail("roundtrip-fails:jwe-aad-empty", st, dims, size, rep, "%v", derr)
			case !bytes.Equal(out, pt):
				col.fail("roundtrip-fails:jwe-aad-empty", "payload-differs", dims, size, rep, "got %s want %s", hexOf(out), hexOf(pt))
			case len(gotAAD) != 0:
				col.fail("roundtrip-fails:jwe-aad-empty", "aad-differs", dims, size, rep, "GetAuthData %s want empty", hexOf(gotAAD))
			default:
				m.Count("jwe_aad_empty_ok", 1)
			}
		}
	})
}

// -------------------------------------------------------------------------------------------
// replay of one recorded case: parse + verify/decrypt the recorded serialization with the named key

func replayObject(m *mon.M, kind string) {
	m.Rule("replay of one recorded object")
	s, _ := m.ReplayField("serialized").(string)
	kn, _ := m.ReplayField("key").(string)
	round := 0
	if v, ok := m.ReplayField("round").(float64); ok {
		round = int(v)
	}
	if entry, ok := m.ReplayField("entry").(string); ok {
		// a panic recorded by mon.Guard: the input is the serialized object, the key is not recorded -> try every fixed key
		in, _ := m.ReplayField("input_hex").(string)
		raw, err := hex.DecodeString(in)
		if err != nil || len(raw) == 0 {
			m.Violationf("c16:replay-not-possible", nil, "no input recorded for %s", entry)
			return
		}
		ks := keysFor(m, 0)
		var names []string
		for _, n := range []string{"a", "b", "e3"} {
			names = append(names, "rsa-"+n)
		}
		for n := range ks.ec {
			names = append(names, n)
		}
		for n := range ks.oct {
			names = append(names, n)
		}
		sort.Strings(names)
		for _, n := range names {
			m.Case()
			if kind == "jws" {
				verifyJWS(m, string(raw), publicOf(ks.byName(n)))
			} else {
				decryptJWE(m, string(raw), ks.byName(n))
			}
		}
		return
	}
	if s == "" || kn == "" || strings.Contains(s, "...(") {
		m.Violationf("c16:replay-not-possible", nil, "replay file carries no complete serialization / key name")
		return
	}
	ks := keysFor(m, round)
	key := ks.byName(kn)
	if v, ok := m.ReplayField("keybit").(float64); ok {
		b := key.([]byte)
		b[int(v)/8] ^= 0x80 >> uint(int(v)%8)
		key = b
	}
	m.Case()
	var out, aad []byte
	var stage string
	var err error
	if kind == "jws" {
		out, stage, err = verifyJWS(m, s, publicOf(key))
	} else {
		out, aad, stage, err = decryptJWE(m, s, key)
	}
	// keep what is needed to replay again, and report under the recorded signature
	rep := map[string]interface{}{}
	for _, k := range []string{"part", "op", "round", "key", "keybit", "serialized", "expect", "expect_payload", "expect_aad", "sig", "field", "bit", "dims"} {
		if v := m.ReplayField(k); v != nil {
			rep[k] = v
		}
	}
	sig, _ := m.ReplayField("sig").(string)
	sigOr := func(fallback string) string {
		if sig != "" {
			return sig
		}
		return fallback
	}
	if exp, _ := m.ReplayField("expect").(string); exp == "reject" {
		if stage == "" {
			m.Violationf(sigOr("c16:replay:accepted"), rep, "replayed: the recorded object is still accepted (payload %s)", hexOf(out))
		}
		return
	}
	wantPl, _ := m.ReplayField("expect_payload").(string)
	wantAAD, _ := m.ReplayField("expect_aad").(string)
	switch {
	case stage != "":
		m.Violationf(sigOr("c16:replay:"+stage), rep, "replayed: %s: %v", stage, err)
	case !strings.Contains(wantPl, "...") && hex.EncodeToString(out) != wantPl:
		m.Violationf(sigOr("c16:replay:payload-differs"), rep, "replayed: got %s want %s", hexOf(out), wantPl)
	case kind == "jwe" && !strings.Contains(wantAAD, "...") && hex.EncodeToString(aad) != wantAAD:
		m.Violationf(sigOr("c16:replay:aad-differs"), rep, "replayed: aad got %s want %s", hexOf(aad), wantAAD)
	}
}
