#!/usr/bin/env python3
"""Regenerates /verif/MANIFEST.json from checks/cNN.py (single source of truth)."""
import json, os, sys
VERIF = os.path.dirname(os.path.dirname(os.path.abspath(__file__)))
sys.path.insert(0, VERIF)
from checks import CHECKS

props = [json.loads(l) for l in open(os.path.join(VERIF, "properties.jsonl"))]
hooks_file = os.path.join(VERIF, "MANIFEST.hooks")
hook_commits = []
if os.path.exists(hooks_file):
    hook_commits = [l.split()[0] for l in open(hooks_file) if l.strip() and not l.startswith("#")]

NA = {}
na_file = os.path.join(VERIF, "not_applicable.json")
if os.path.exists(na_file):
    NA = json.load(open(na_file))

engines = {}
checks = []
for p in props:
    pid = p["id"]
    if pid not in CHECKS or CHECKS[pid].get("disabled"):
        NA.setdefault(pid, "no check registered yet (monitor under construction)")
        continue
    c = CHECKS[pid]
    checks.append({
        "property_id": pid,
        "quick_cmd": "python3 check.py %s --tier quick" % pid,
        "thorough_cmd": "python3 check.py %s --tier thorough" % pid,
        "evidence_file": "/verif/evidence/%s.json" % pid,
        "replay_cmd_template": "python3 check.py %s --replay {path}" % pid,
        "engine": c.get("engine", "monitors"),
        "level_claimed": {"category": c["level"], "text": c.get("level_text", ""), "design_ref": c.get("design_ref", "DESIGN.md §3 " + pid)},
        "level_note": c.get("level_note", ""),
        "technique": c.get("technique", "runtime monitoring"),
    })
    e = engines.setdefault(c.get("engine", "monitors"), {"name": c.get("engine", "monitors"), "path": "harness/", "serves_properties": [], "kind_free_text": c.get("engine_kind", "runtime monitors over go test child processes")})
    e["serves_properties"].append(pid)

man = {
    "version": 1,
    "setup_cmd": "python3 check.py --setup",
    "hooks": {
        "guard": "verif",
        "enable": "go test -tags verif (check.py passes it to every child; hooks live in /repo/websocket/verif_hook_on.go)",
        "baseline_off_cmd": "cd /repo && GOFLAGS=-mod=mod GOPROXY=off GOSUMDB=off GOTOOLCHAIN=local go test -mod=mod -json -vet=off -count=1 -timeout 25m ./...",
        "source_commits": hook_commits,
        "add_only": True,
    },
    "engines": list(engines.values()),
    "checks": checks,
    "notes": "Runtime monitoring only: every check runs the real library code from /repo's working tree in go test child processes (race detector / checkptr builds), observed by reference-model, history and fault monitors. See DESIGN.md.",
    "not_applicable": [{"property_id": k, "reason": v} for k, v in sorted(NA.items()) if k not in [c["property_id"] for c in checks]],
}
json.dump(man, open(os.path.join(VERIF, "MANIFEST.json"), "w"), indent=1)
print("MANIFEST.json: %d checks, %d not_applicable" % (len(checks), len(man["not_applicable"])))
