CHECK = {
    "level": "exploration",
    "engine": "jsonplus",
    "technique": "runtime differential monitor: PRNG JSON values serialised token by token by the harness (which chooses every escape form and places //, /* */ comments and whitespace at token boundaries, so decorated and undecorated text are both known without stripping anything), read through NewJsonPlusReader / Unmarshal under four read segmentations, compared with encoding/json on the undecorated text; plus an exhaustive enumeration of all short strings over the hostile alphabet",
    "level_text": "Held on the executions observed: tens of thousands (quick) to millions (thorough) of generated documents x 4 read segmentations, large documents up to 256 KiB with and without a marker-free region over 64 KiB, and every string of length <= 4 (quick) / 5 (thorough) over {\" \\ / * ' newline a} in 4 contexts x 5 decorations; counters show how many documents had escaped quotes, comment markers inside strings, strings ending in a backslash, empty/adjacent comments and a final // without newline. Not a proof; decorations are only placed at token boundaries of valid documents (invalid ones: error-ness only).",
    "level_note": "Trusts encoding/json as the meaning of a JSON text, the harness serialiser (self-checked: every undecorated text must be accepted by encoding/json) and Go's runtime; depth<=5, width<=5, strings<=~1 KiB except the large part, documents<=256 KiB. Violation signatures are scoped by what the input contained (:escaped-quote, :region>64K) so that a failure on an input with neither feature has its own signature.",
    "parts": [
        {"name": "longescapes", "pkg": "verifharness/prop/c17", "run": "^TestVerif_C17_LongEscapes$", "timeout": {"quick": 600, "thorough": 3600}},
        {"name": "longruns", "pkg": "verifharness/prop/c17", "run": "^TestVerif_C17_LongRuns$", "timeout": {"quick": 600, "thorough": 3600}},
        {"name": "documents", "pkg": "verifharness/prop/c17", "run": "^TestVerif_C17_Documents$",
         "timeout": {"quick": 600, "thorough": 3600}},
        {"name": "large", "pkg": "verifharness/prop/c17", "run": "^TestVerif_C17_Large$",
         "timeout": {"quick": 600, "thorough": 3600}},
        # last on purpose: its witnesses are shortest, and the driver keeps the last replay written per signature
        {"name": "shortstrings", "pkg": "verifharness/prop/c17", "run": "^TestVerif_C17_ShortStrings$",
         "timeout": {"quick": 600, "thorough": 3600}},
    ],
    "assumptions": [
        "comments and whitespace are placed only at token boundaries of a valid JSON text; a block comment body contains no */ and a line comment body no newline",
        "for documents the standard decoder rejects, only error-ness is compared (DESIGN 4.1)",
        "a Read never returns 0 bytes without an error (io.Reader contract)",
    ],
}
