// C14 — read limit under streaming reads and huge declared lengths (directed sweep; complements
// the enumeration of c14_test.go, which judges whole messages).
package websocket

import (
	"bytes"
	"fmt"
	"io"
	"testing"

	"verifharness/lib/mon"
	"verifharness/lib/refws"
)

// With a read limit L, however a message is framed, the application must never be handed more than
// L payload bytes of it, and the read must end in the limit error.  The frames here declare 64-bit
// lengths with the top bit CLEAR (legal per RFC 6455) that are far above the limit; the bytes that
// actually follow exceed L, then the stream ends.
func TestVerif_C14_StreamLimit(t *testing.T) {
	m := mon.New("C14", "streamlimit")
	defer m.Finish(t)
	m.Rule("streamlimit: role x read limit L in {1,100,4096} x first fragment of a bytes (a in {0,1,L/2,L}) x a following fragment (or a single " +
		"frame) declaring D in {L+1, 65536, 2^31, 2^62, 2^63-1-a, 2^63-a, 2^63-1} bytes with min(D, L+700) bytes actually supplied x read chunking; " +
		"read through NextReader in small reads; oracle: bytes handed to the application for the message <= L and the read ends with ErrReadLimit; " +
		"distinct = (role, L, a-class, D-class, chunk)")
	m.Exhaustive(true)
	for _, role := range []refws.Role{refws.RoleServer, refws.RoleClient} {
		for _, L := range []int64{1, 100, 4096} {
			for ai, a := range []int64{-1, 0, 1, L / 2, L} { // -1: no first fragment, the big frame starts the message
				for di, D := range []uint64{uint64(L) + 1, 65536, 1 << 31, 1 << 62, 1<<63 - 1 - uint64(maxI64(a, 0)), 1<<63 - uint64(maxI64(a, 1)), 1<<63 - 1} {
					for _, chunk := range []int{0, 1, 7} {
						m.Case()
						masked := role == refws.RoleServer // a server reads masked client frames
						var frames []refws.Frame
						if a >= 0 {
							frames = append(frames, refws.Frame{Opcode: 2, Masked: masked, Key: [4]byte{1, 2, 3, 4}, Payload: bytes.Repeat([]byte{'a'}, int(a))})
						}
						supply := int64(L + 700)
						if uint64(supply) > D {
							supply = int64(D)
						}
						big := refws.Frame{Fin: true, Opcode: 0, Masked: masked, Key: [4]byte{5, 6, 7, 8}, Form: refws.Form64, HasDeclared: true, Declared: D,
							Payload: bytes.Repeat([]byte{'b'}, int(supply))}
						if a < 0 {
							big.Opcode = 2
						}
						frames = append(frames, big)
						wire, _ := refws.Gen(frames)
						nc := &verifC14Conn{r: bytes.NewReader(wire), chunk: chunk}
						c := newConn(nc, role == refws.RoleServer, 256, 256)
						c.SetReadLimit(L)
						rep := map[string]interface{}{"role": role.String(), "limit": L, "first_fragment": a, "declared": D, "supplied": supply, "chunk": chunk}
						m.Classf("%s/L%d/a%d/D%d/chunk%d", role, L, ai, di, chunk)
						m.Guard("ws.streamlimit", wire, func() {
							handed := int64(0)
							var rerr error
							_, r, err := c.NextReader()
							if err != nil {
								rerr = err
							} else {
								buf := make([]byte, 97)
								for {
									n, e := r.Read(buf)
									handed += int64(n)
									if e != nil {
										rerr = e
										break
									}
									if handed > L+2000 {
										break
									}
								}
							}
							if handed > L {
								m.Violationf("c14:readlimit-bytes-handed-out-exceed-limit", rep, "limit %d: %d payload bytes of one message were handed to the application (declared %d after a %d-byte fragment); final error %v", L, handed, D, a, rerr)
								return
							}
							if rerr != ErrReadLimit {
								m.Violationf("c14:readlimit-wrong-error", rep, "limit %d, message of %d+%d declared bytes: read ended with %v, not the limit error", L, maxI64(a, 0), D, rerr)
								return
							}
							m.Count("limit_enforced", 1)
						})
					}
				}
			}
		}
	}
	m.Require("limit_enforced", 1)
	_ = fmt.Sprint
}

func maxI64(a, b int64) int64 {
	if a > b {
		return a
	}
	return b
}

// Close frames with every reason length: an invalid code or a reason that is not UTF-8 (at its first or
// only at its last byte) must fail the read and put a Close frame with status 1002 on the wire, however
// long the reason is (a control frame carries up to 123 reason bytes).
func TestVerif_C14_CloseReasons(t *testing.T) {
	m := mon.New("C14", "closereasons")
	defer m.Finish(t)
	m.Rule("closereasons: role x reason length 0..123 x {valid code + reason invalid at last byte, valid code + reason invalid at first byte, " +
		"invalid code 999/1005/1006/1015/5000 + valid reason, valid code + valid reason}; oracle: invalid => read fails, fails again on the next " +
		"call, and exactly one Close frame with status 1002 is written; valid => close received (CloseError with the code), no 1002; distinct = (role, kind, length)")
	m.Exhaustive(true)
	for _, role := range []refws.Role{refws.RoleServer, refws.RoleClient} {
		for n := 0; n <= 123; n++ {
			for kind := 0; kind < 8; kind++ {
				code := 1000
				reason := bytes.Repeat([]byte{'r'}, n)
				invalid := false
				switch kind {
				case 0:
					if n == 0 {
						continue
					}
					reason[n-1] = 0xff
					invalid = true
				case 1:
					if n == 0 {
						continue
					}
					reason[0] = 0xc0
					invalid = true
				case 2, 3, 4, 5, 6:
					code = []int{999, 1005, 1006, 1015, 5000}[kind-2]
					invalid = true
				}
				m.Case()
				m.Classf("%s/kind%d/len%d", role, kind, n/16*16)
				payload := append([]byte{byte(code >> 8), byte(code)}, reason...)
				f := refws.Frame{Fin: true, Opcode: 8, Masked: role == refws.RoleServer, Key: [4]byte{9, 8, 7, 6}, Payload: payload}
				wire, _ := refws.Gen([]refws.Frame{f})
				verifC14HookOnce.Do(func() { VerifHook = verifC14Hook })
				nc := &verifC14Conn{r: bytes.NewReader(wire)}
				c := newConn(nc, role == refws.RoleServer, 256, 256)
				rep := map[string]interface{}{"role": role.String(), "code": code, "reason_len": n, "kind": kind}
				m.Guard("ws.closereasons", wire, func() {
					_, _, err := c.ReadMessage()
					_, _, err2 := c.ReadMessage()
					if verifC14Stalled(c) {
						m.Count("runs_set_aside_after_a_stall_of_more_than_one_second", 1) // see verifC14Hook
						return
					}
					ps := refws.ParseLog(role, false, nc.w.Bytes()) // what the endpoint (of this role) wrote back
					var codes []int
					for _, ev := range ps.Controls(8) {
						codes = append(codes, ev.CloseCode)
					}
					if invalid {
						if err == nil || err2 == nil {
							m.Violationf("c14:invalid-close-accepted", rep, "close code %d / reason invalid=%v: read errors %v, %v", code, kind < 2, err, err2)
							return
						}
						if len(codes) != 1 || codes[0] != 1002 {
							m.Violationf("c14:close-1002-missing:close-payload", rep, "invalid close payload (code %d, %d reason bytes): close frames written back %v, want exactly one 1002 (parse error %v)", code, n, codes, ps.Err())
							return
						}
						m.Count("invalid_close_rejected_with_1002", 1)
						return
					}
					ce, ok := err.(*CloseError)
					if !ok || ce.Code != code {
						m.Violationf("c14:valid-close-not-reported", rep, "valid close %d with %d reason bytes: ReadMessage returned %v", code, n, err)
						return
					}
					for _, cc := range codes {
						if cc == 1002 {
							m.Violationf("c14:valid-close-answered-1002", rep, "valid close answered with 1002")
						}
					}
					m.Count("valid_close_reported", 1)
				})
			}
		}
	}
	m.Require("invalid_close_rejected_with_1002", 1000)
	m.Require("valid_close_reported", 200)
}

// A stream cut inside a frame or inside a fragmented message must end in an error, never in a short
// message — also when the transport hands over the last bytes TOGETHER with io.EOF in one Read
// (n > 0, err == io.EOF), and whatever the read-buffer size and the application's read size.
type verifC14EOFConn struct {
	verifC14Conn
	data []byte
	off  int
	seg  int
}

func (c *verifC14EOFConn) Read(p []byte) (int, error) {
	if c.off >= len(c.data) {
		return 0, io.EOF
	}
	n := len(p)
	if c.seg > 0 && n > c.seg {
		n = c.seg
	}
	if n > len(c.data)-c.off {
		n = len(c.data) - c.off
	}
	copy(p, c.data[c.off:c.off+n])
	c.off += n
	if c.off >= len(c.data) {
		return n, io.EOF // last bytes and EOF in the same call
	}
	return n, nil
}

func TestVerif_C14_CutWithData(t *testing.T) {
	m := mon.New("C14", "cutwithdata")
	defer m.Finish(t)
	m.Rule("cutwithdata: role x read buffer {125(min),256,4096} x transport read size {whole,1,7,64} x application read {ReadMessage, NextReader with " +
		"1/97/8192-byte reads} x traces {one non-final fragment of n bytes, two non-final fragments, a fragment + ping, a final frame cut k bytes short} " +
		"with n in {0,1,124,125,126,200,300,5000}; the transport returns the last bytes together with io.EOF; oracle: no message is delivered " +
		"(ReadMessage error != nil; a NextReader reader never reports io.EOF), because the message never finished; distinct = all combinations")
	m.Exhaustive(true)
	for _, role := range []refws.Role{refws.RoleServer, refws.RoleClient} {
		masked := role == refws.RoleServer
		mk := func(f refws.Frame) refws.Frame { f.Masked = masked; f.Key = [4]byte{3, 1, 4, 1}; return f }
		for _, n := range []int{0, 1, 124, 125, 126, 200, 300, 5000} {
			body := bytes.Repeat([]byte{'x'}, n)
			traces := map[string][]byte{}
			w, _ := refws.Gen([]refws.Frame{mk(refws.Frame{Opcode: 2, Payload: body})})
			traces["one-nonfinal"] = w
			w, _ = refws.Gen([]refws.Frame{mk(refws.Frame{Opcode: 1, Payload: body}), mk(refws.Frame{Opcode: 0, Payload: body})})
			traces["two-nonfinal"] = w
			w, _ = refws.Gen([]refws.Frame{mk(refws.Frame{Opcode: 2, Payload: body}), mk(refws.Frame{Fin: true, Opcode: 9, Payload: []byte("p")})})
			traces["nonfinal+ping"] = w
			if n > 0 {
				w, _ = refws.Gen([]refws.Frame{mk(refws.Frame{Fin: true, Opcode: 2, Payload: body})})
				traces["final-cut-1-short"] = w[:len(w)-1]
				w2, _ := refws.Gen([]refws.Frame{mk(refws.Frame{Opcode: 2, Payload: body}), mk(refws.Frame{Fin: true, Opcode: 0, Payload: body})})
				traces["second-fragment-cut-1-short"] = w2[:len(w2)-1]
			}
			for tn, wire := range traces {
				for _, rb := range []int{125, 256, 4096} {
					for _, seg := range []int{0, 1, 7, 64} {
						for _, app := range []int{0, 1, 97, 8192} {
							m.Case()
							m.Classf("%s/%s/n%d/rb%d/seg%d/app%d", role, tn, n, rb, seg, app)
							nc := &verifC14EOFConn{data: wire, seg: seg}
							c := newConn(nc, role == refws.RoleServer, rb, 256)
							rep := map[string]interface{}{"role": role.String(), "trace": tn, "n": n, "read_buffer": rb, "transport_read": seg, "app_read": app}
							m.Guard("ws.cutwithdata", wire, func() {
								if app == 0 {
									mt, p, err := c.ReadMessage()
									if err == nil {
										m.Violationf("c14:short-message-delivered:data+eof", rep, "ReadMessage returned type %d, %d bytes, nil error for a message that never finished (stream ended after %d bytes)", mt, len(p), len(wire))
										return
									}
									m.Count("cut_detected", 1)
									return
								}
								_, r, err := c.NextReader()
								if err != nil {
									m.Count("cut_detected", 1)
									return
								}
								buf := make([]byte, app)
								total := 0
								for {
									k, e := r.Read(buf)
									total += k
									if e == io.EOF {
										m.Violationf("c14:short-message-delivered:data+eof", rep, "the message reader reported a clean end of message (io.EOF) after %d bytes although the message never finished", total)
										return
									}
									if e != nil {
										m.Count("cut_detected", 1)
										return
									}
									if total > 100000 {
										return
									}
								}
							})
						}
					}
				}
			}
		}
	}
	m.Require("cut_detected", 1000)
}
