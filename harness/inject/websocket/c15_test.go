// C15 — concurrent control frames never corrupt the WebSocket frame stream (in-package,
// race detector, hooks at the write-lock points, wire parser + porcupine close-latch model).
package websocket

import (
	"bytes"
	"fmt"
	"hash/fnv"
	"io"
	"net"
	"reflect"
	"runtime"
	"sort"
	"strconv"
	"strings"
	"sync"
	"sync/atomic"
	"testing"
	"time"
	"unsafe"

	"github.com/anishathalye/porcupine"
	"verifharness/lib/mon"
	"verifharness/lib/refws"
	"verifharness/lib/vnet"
	"verifharness/lib/vrand"
)

// ---- goroutine identity (the hook has no other way to know who calls it) ------------------

func verifGoid() int64 {
	var buf [64]byte
	n := runtime.Stack(buf[:], false)
	// "goroutine 123 [running]:"
	s := string(buf[10:n])
	i := strings.IndexByte(s, ' ')
	id, _ := strconv.ParseInt(s[:i], 10, 64)
	return id
}

// ---- transport ----------------------------------------------------------------------------

type verifC15Conn struct {
	mu      sync.Mutex
	wire    []byte
	writes  []int // end offset of each transport write
	rd      *vnet.BlockingPipe
	gate    func(p []byte) // called before a write is appended, outside the transport mutex
	inWrite int32
	maxConc int32
	closed  int32
	// fault injection: the failAt-th transport write (1-based) accepts failN bytes and fails with failErr; later writes work
	failAt  int32
	failN   int
	failErr error
	calls   int32
	failOff int  // wire length right after the failed write (-1: no fault happened)
	failCut bool // the failed write was cut short (fewer bytes accepted than offered)
}

// a transport timeout, as a net.Conn reports an expired write deadline
type verifTimeoutErr struct{}

func (verifTimeoutErr) Error() string   { return "verif: i/o timeout" }
func (verifTimeoutErr) Timeout() bool   { return true }
func (verifTimeoutErr) Temporary() bool { return true }

func (c *verifC15Conn) Write(p []byte) (int, error) {
	if atomic.LoadInt32(&c.closed) != 0 {
		return 0, fmt.Errorf("verif: use of closed connection")
	}
	n := atomic.AddInt32(&c.inWrite, 1)
	for {
		old := atomic.LoadInt32(&c.maxConc)
		if n <= old || atomic.CompareAndSwapInt32(&c.maxConc, old, n) {
			break
		}
	}
	if c.gate != nil {
		c.gate(p)
	}
	if atomic.LoadInt32(&c.closed) != 0 {
		atomic.AddInt32(&c.inWrite, -1)
		return 0, fmt.Errorf("verif: use of closed connection")
	}
	if k := atomic.AddInt32(&c.calls, 1); c.failAt > 0 && k == c.failAt && len(p) > 0 {
		acc := c.failN
		if acc >= len(p) {
			acc = len(p) - 1
		}
		c.mu.Lock()
		c.wire = append(c.wire, p[:acc]...)
		c.writes = append(c.writes, len(c.wire))
		c.failOff, c.failCut = len(c.wire), true
		c.mu.Unlock()
		atomic.AddInt32(&c.inWrite, -1)
		return acc, c.failErr
	}
	c.mu.Lock()
	c.wire = append(c.wire, p...)
	c.writes = append(c.writes, len(c.wire))
	c.mu.Unlock()
	atomic.AddInt32(&c.inWrite, -1)
	return len(p), nil
}
func (c *verifC15Conn) Read(p []byte) (int, error)         { return c.rd.Read(p) }
func (c *verifC15Conn) Close() error                       { atomic.StoreInt32(&c.closed, 1); c.rd.Close(); return nil }
func (c *verifC15Conn) LocalAddr() net.Addr                { return verifAddr{} }
func (c *verifC15Conn) RemoteAddr() net.Addr               { return verifAddr{} }
func (c *verifC15Conn) SetDeadline(t time.Time) error      { return nil }
func (c *verifC15Conn) SetReadDeadline(t time.Time) error  { return nil }
func (c *verifC15Conn) SetWriteDeadline(t time.Time) error { return nil }

type verifAddr struct{}

func (verifAddr) Network() string { return "verif" }
func (verifAddr) String() string  { return "verif" }

// ---- payload tagging --------------------------------------------------------------------

// every payload identifies its writer and sequence number and is checkable byte by byte
func verifPayload(actor byte, seq, n int) []byte {
	h := fmt.Sprintf("%c%d:", actor, seq)
	if n < len(h) {
		n = len(h)
	}
	b := make([]byte, n)
	copy(b, h)
	for i := len(h); i < n; i++ {
		b[i] = byte('a' + (seq*7+i*3+int(actor))%26)
	}
	return b
}

func verifParsePayload(b []byte) (actor byte, seq int, ok bool) {
	i := bytes.IndexByte(b, ':')
	if i < 2 {
		return 0, 0, false
	}
	s, err := strconv.Atoi(string(b[1:i]))
	if err != nil {
		return 0, 0, false
	}
	if !bytes.Equal(b, verifPayload(b[0], s, len(b))) {
		return b[0], s, false
	}
	return b[0], s, true
}

// ---- one run ---------------------------------------------------------------------------

type verifOp struct {
	actor  byte
	seq    int
	kind   string // data, ping, pong, close
	call   int64
	ret    int64
	result string // ok, closesent, other:<msg>
	frames int
}

type verifC15Run struct {
	m      *mon.M
	conn   *Conn
	tr     *verifC15Conn
	clock  int64
	evMu   sync.Mutex
	ops    []verifOp
	hookEv int64
	// lock tracking from the hooks
	lkMu    sync.Mutex
	holder  int64 // goroutine id holding the write lock, 0 = none
	held    map[int64]bool
	waiting map[int64]bool
	lockErr []string
	yield   func(point string)
	dataGid int64
	plan    verifC15Plan
}

func (x *verifC15Run) hook(point string, c *Conn) {
	if c != x.conn {
		return
	}
	atomic.AddInt64(&x.hookEv, 1)
	g := verifGoid()
	x.lkMu.Lock()
	switch {
	case strings.HasSuffix(point, ".lockwait"):
		x.waiting[g] = true
	case strings.HasSuffix(point, ".locked"):
		delete(x.waiting, g)
		if x.holder != 0 {
			x.lockErr = append(x.lockErr, fmt.Sprintf("goroutine %d acquired the write lock while %d holds it", g, x.holder))
		}
		x.holder = g
		x.held[g] = true
	case strings.HasSuffix(point, ".unlock"):
		if x.holder != g {
			x.lockErr = append(x.lockErr, fmt.Sprintf("goroutine %d releases a write lock held by %d", g, x.holder))
		}
		x.holder = 0
		delete(x.held, g)
	case strings.HasSuffix(point, ".conn"):
		if x.holder != g {
			x.lockErr = append(x.lockErr, fmt.Sprintf("goroutine %d writes to the connection without holding the write lock (holder %d)", g, x.holder))
		}
	}
	x.lkMu.Unlock()
	if x.yield != nil {
		x.yield(point)
	}
}

func (x *verifC15Run) record(actor byte, seq int, kind string, frames int, f func() error) error {
	call := atomic.AddInt64(&x.clock, 1)
	err := f()
	g := verifGoid()
	x.lkMu.Lock()
	leaked := x.held[g]
	x.lkMu.Unlock()
	ret := atomic.AddInt64(&x.clock, 1)
	res := "ok"
	if err == ErrCloseSent {
		res = "closesent"
	} else if err == errWriteTimeout {
		res = "timeout" // a control write whose deadline expired while it waited for the write lock: nothing was written
	} else if err != nil {
		res = "other:" + err.Error()
	}
	x.evMu.Lock()
	x.ops = append(x.ops, verifOp{actor, seq, kind, call, ret, res, frames})
	if leaked {
		x.lockErr = append(x.lockErr, fmt.Sprintf("API call of actor %c returned with the write lock still held", actor))
	}
	x.evMu.Unlock()
	return err
}

type verifC15Plan struct {
	server         bool
	wbuf           int
	nData          int
	dataSizes      []int
	dataAPI        []int // 0 WriteMessage, 1 NextWriter+big Write+Close (multi-frame), 2 NextWriter + small writes
	nCtl           int   // control senders
	ctlFrames      int
	nPings         int  // pings fed to the reader (answered by the default handler from the reader goroutine)
	closeMode      int  // 0 none, 1 Close frame via WriteControl, 2 Close() of the connection
	closeAt        int  // the closer fires when the global op counter reaches this value
	shortDeadlines bool // some control writes carry a deadline short enough to expire while they wait for the lock
	// closeMode 3..5: the Close frame goes through the data writer's APIs (WriteMessage / NextWriter / prepared message), sent by the
	// data writer itself before data message closeAtData; the remaining data writes follow it (and must fail)
	closeAtData int
	emptyCtl    bool // some pings/pongs carry no payload (the usual keep-alive)
	faultAt     int  // > 0: the transport fails that write call
	faultN      int  // bytes the failing write accepts
	faultKind   int  // 0 timeout (net.Error), 1 other error
}

func verifC15GenPlan(r *vrand.Rand) verifC15Plan {
	p := verifC15Plan{server: r.Chance(2, 3), wbuf: r.Pick(16, 32, 64, 200), nData: r.Range(1, 8), nCtl: r.Range(1, 4), ctlFrames: r.Range(1, 6), nPings: r.Range(0, 5), closeMode: r.Pick(0, 1, 1, 1, 2)}
	for i := 0; i < p.nData; i++ {
		p.dataSizes = append(p.dataSizes, r.Pick(8, p.wbuf-1, p.wbuf, p.wbuf+1, 2*p.wbuf+1, 3*p.wbuf+5, 5*p.wbuf, 700))
		p.dataAPI = append(p.dataAPI, r.Intn(3))
	}
	p.closeAt = r.Range(0, p.nData+p.nCtl*p.ctlFrames)
	p.shortDeadlines = r.Chance(1, 3)
	p.emptyCtl = r.Chance(1, 2)
	if p.closeMode == 1 && r.Chance(1, 2) {
		p.closeMode = r.Pick(3, 4, 5)
		p.closeAtData = r.Range(0, p.nData)
	}
	if r.Chance(1, 10) {
		// a client whose frames carry a 64-bit length: the frame header then fills the whole header room of the write buffer
		p.server, p.wbuf, p.nData, p.emptyCtl = false, 65536+r.Pick(0, 64, 4000), r.Range(1, 3), true
		p.dataSizes, p.dataAPI = nil, nil
		for i := 0; i < p.nData; i++ {
			p.dataSizes = append(p.dataSizes, r.Pick(65536, p.wbuf, p.wbuf+1, 2*p.wbuf+7))
			p.dataAPI = append(p.dataAPI, r.Intn(2))
		}
		if p.closeAtData > p.nData {
			p.closeAtData = p.nData
		}
	}
	if r.Chance(1, 3) {
		p.faultAt, p.faultN, p.faultKind = r.Range(1, 3*p.nData+p.nCtl*p.ctlFrames), r.Pick(0, 0, 0, 1, 3, 1000000), r.Pick(0, 0, 1)
	}
	return p
}

func (p verifC15Plan) String() string {
	return fmt.Sprintf("server=%v wbuf=%d data=%v api=%v ctl=%dx%d pings=%d close=%d@%d/%d emptyctl=%v fault=%d/%d/%d", p.server, p.wbuf, p.dataSizes, p.dataAPI, p.nCtl, p.ctlFrames, p.nPings, p.closeMode, p.closeAt, p.closeAtData, p.emptyCtl, p.faultAt, p.faultN, p.faultKind)
}

func verifC15NewRun(m *mon.M, p verifC15Plan) *verifC15Run {
	tr := &verifC15Conn{rd: vnet.NewBlockingPipe(vnet.SegWhole()), failOff: -1}
	if p.faultAt > 0 {
		tr.failAt, tr.failN, tr.failErr = int32(p.faultAt), p.faultN, error(verifTimeoutErr{})
		if p.faultKind == 1 {
			tr.failErr = fmt.Errorf("verif: connection reset by peer")
		}
	}
	x := &verifC15Run{m: m, tr: tr, held: map[int64]bool{}, waiting: map[int64]bool{}, plan: p}
	x.conn = newConn(tr, p.server, 1024, p.wbuf)
	return x
}

// the data writer's one API operation for message seq
func (x *verifC15Run) writeData(p verifC15Plan, seq int) error {
	payload := verifPayload('D', seq, p.dataSizes[seq])
	switch p.dataAPI[seq] {
	case 0:
		return x.record('D', seq, "data", 1, func() error { return x.conn.WriteMessage(BinaryMessage, payload) })
	case 1:
		return x.record('D', seq, "data", 2, func() error {
			w, err := x.conn.NextWriter(BinaryMessage)
			if err != nil {
				return err
			}
			if _, err := w.Write(payload); err != nil {
				return err
			}
			return w.Close()
		})
	}
	return x.record('D', seq, "data", 3, func() error {
		w, err := x.conn.NextWriter(BinaryMessage)
		if err != nil {
			return err
		}
		for off := 0; off < len(payload); {
			n := 1 + (off*7+seq)%13
			if off+n > len(payload) {
				n = len(payload) - off
			}
			if _, err := w.Write(payload[off : off+n]); err != nil {
				return err
			}
			off += n
		}
		return w.Close()
	})
}

func (x *verifC15Run) writeCtl(actor byte, seq int) error {
	return x.writeCtlDeadline(actor, seq, time.Hour)
}

func (x *verifC15Run) writeCtlDeadline(actor byte, seq int, wait time.Duration) error {
	kind, mt := "ping", PingMessage
	if (int(actor)+seq)%2 == 0 {
		kind, mt = "pong", PongMessage
	}
	payload := verifPayload(actor, seq, 4+(seq*11+int(actor))%120)
	if x.plan.emptyCtl && (seq+int(actor))%3 == 1 {
		payload = nil // a keep-alive ping/pong without payload: anonymous on the wire, still a whole frame
	}
	return x.record(actor, seq, kind, 1, func() error {
		return x.conn.WriteControl(mt, payload, time.Now().Add(wait))
	})
}

func (x *verifC15Run) writeClose(mode int) {
	body := FormatCloseMessage(CloseNormalClosure, "bye")
	switch mode {
	case 3:
		x.record('C', 0, "close", 1, func() error { return x.conn.WriteMessage(CloseMessage, body) })
		return
	case 4:
		x.record('C', 0, "close", 1, func() error {
			w, err := x.conn.NextWriter(CloseMessage)
			if err != nil {
				return err
			}
			if _, err := w.Write(body); err != nil {
				return err
			}
			return w.Close()
		})
		return
	case 5:
		x.record('C', 0, "close", 1, func() error {
			pm, err := NewPreparedMessage(CloseMessage, body)
			if err != nil {
				return err
			}
			return x.conn.WritePreparedMessage(pm)
		})
		return
	}
	if mode == 1 {
		x.record('C', 0, "close", 1, func() error {
			return x.conn.WriteControl(CloseMessage, FormatCloseMessage(CloseNormalClosure, "bye"), time.Now().Add(time.Hour))
		})
	} else {
		x.conn.Close()
	}
}

// feed a masked/unmasked ping to the reader side
func (x *verifC15Run) feedPing(p verifC15Plan, seq int) {
	f := refws.Frame{Fin: true, Opcode: 9, Masked: p.server, Key: [4]byte{1, 2, 3, byte(seq)}, Payload: verifPayload('H', seq, 10+seq)}
	x.tr.rd.Write(f.AppendWire(nil))
}

// ---- oracles over one finished run -------------------------------------------------------

func (x *verifC15Run) judge(p verifC15Plan, rep map[string]interface{}, mode string) {
	m := x.m
	x.tr.mu.Lock()
	wire := append([]byte(nil), x.tr.wire...)
	x.tr.mu.Unlock()
	sender := refws.RoleClient // the library endpoint is the sender: client frames masked, server frames not
	if p.server {
		sender = refws.RoleServer
	}
	scope := ":" + mode
	x.tr.mu.Lock()
	failOff, faulted := x.tr.failOff, x.tr.failOff >= 0
	x.tr.mu.Unlock()
	if faulted {
		// a transport write failed (injected).  Up to there the wire must be whole frames; if the failure cut a frame, that frame
		// can never be completed, so nothing at all may follow it: whatever follows lands inside the cut frame for the receiver.
		m.Count("runs_with_transport_write_fault", 1)
		pre := refws.ParseLog(sender, false, wire[:failOff])
		if err := pre.Err(); err != nil {
			m.Violationf("c15:wire-not-whole-frames:"+err.Code+scope, rep, "before the injected transport fault the wire already stops being frames at offset %d: %s %s; plan %s", err.Offset, err.Code, err.Detail, p)
			return
		}
		if ferr := pre.Finish(); ferr != nil && ferr.Code == "truncated-frame" {
			m.Count("faults_that_cut_a_frame", 1)
			if len(wire) > failOff {
				m.Violationf("c15:bytes-after-frame-cut-by-transport-error"+scope, rep, "the transport failed inside a frame at wire offset %d (%s), yet %d more bytes were written afterwards: they land inside the unfinished frame; plan %s", failOff, ferr.Detail, len(wire)-failOff, p)
				return
			}
		}
	}
	ps := refws.ParseLog(sender, false, wire)
	if err := ps.Err(); err != nil {
		m.Violationf("c15:wire-not-whole-frames:"+err.Code+scope, rep, "the bytes on the wire stop being a sequence of well-formed frames at offset %d (frame %d): %s %s; plan %s", err.Offset, err.Frame, err.Code, err.Detail, p)
		return
	}
	if ferr := ps.Finish(); ferr != nil {
		switch {
		case ferr.Code == "unfinished-message" && (p.closeMode != 0 || faulted):
			m.Count("unfinished_message_at_close", 1) // a fragmented message interrupted by the close (or a failed write): not delivered, allowed
		case ferr.Code == "truncated-frame" && (p.closeMode == 2 || faulted):
			m.Count("truncated_frame_at_connection_close", 1)
		default:
			m.Violationf("c15:wire-ends-inside-frame:"+ferr.Code+scope, rep, "%s %s; plan %s", ferr.Code, ferr.Detail, p)
			return
		}
	}
	if x.tr.maxConc > 1 {
		m.Violationf("c15:concurrent-transport-writes"+scope, rep, "%d goroutines inside the transport's Write at once; plan %s", x.tr.maxConc, p)
	}
	x.lkMu.Lock()
	lockErr := append([]string(nil), x.lockErr...)
	x.lkMu.Unlock()
	if len(lockErr) > 0 {
		m.Violationf("c15:write-lock-discipline"+scope, rep, "%s; plan %s", lockErr[0], p)
	}
	if ps.BytesAfterClose() != 0 {
		m.Violationf("c15:bytes-after-close-frame"+scope, rep, "%d bytes (%d frames) follow the Close frame on the wire; plan %s", ps.BytesAfterClose(), len(ps.FramesAfterClose()), p)
	}
	// messages and control frames, in wire order
	nextData := 0
	nextCtl := map[byte]int{}
	delivered := map[int]bool{}
	var sigb strings.Builder
	for _, ev := range ps.Events() {
		if ev.AfterClose {
			continue
		}
		if ev.Kind == refws.EvMessage {
			a, s, ok := verifParsePayload(ev.Payload)
			if !ok || a != 'D' || !bytes.Equal(ev.Payload, verifPayload('D', s, p.dataSizes[verifClamp(s, len(p.dataSizes))])) {
				m.Violationf("c15:data-message-altered"+scope, rep, "a delivered data message is not one that was written intact (actor %c seq %d ok=%v len=%d); plan %s", a, s, ok, len(ev.Payload), p)
				return
			}
			if s < nextData {
				m.Violationf("c15:data-message-out-of-order"+scope, rep, "message %d delivered after message %d; plan %s", s, nextData-1, p)
				return
			}
			nextData = s + 1
			delivered[s] = true
			fmt.Fprintf(&sigb, "D%d ", ev.NFrames)
			continue
		}
		switch ev.Opcode {
		case 8:
			sigb.WriteString("C ")
		case 9, 10:
			if len(ev.Payload) == 0 && p.emptyCtl {
				m.Count("empty_control_frames_on_wire", 1)
				sigb.WriteString("_ ")
				continue
			}
			a, s, ok := verifParsePayload(ev.Payload)
			if !ok {
				m.Violationf("c15:control-frame-altered"+scope, rep, "control frame payload %q is not one that was sent; plan %s", ev.Payload, p)
				return
			}
			if s < nextCtl[a] {
				m.Violationf("c15:control-frames-out-of-order"+scope, rep, "actor %c frame %d after %d; plan %s", a, s, nextCtl[a]-1, p)
				return
			}
			nextCtl[a] = s + 1
			fmt.Fprintf(&sigb, "%c ", a)
		}
	}
	// where did control frames land relative to data frames: the interleaving signature, at frame granularity
	var fsig strings.Builder
	for _, f := range ps.Frames() {
		switch {
		case f.Opcode == 8:
			fsig.WriteByte('C')
		case f.Opcode >= 9:
			fsig.WriteByte('p')
		case f.Opcode == 0 && f.Fin:
			fsig.WriteByte('e')
		case f.Opcode == 0:
			fsig.WriteByte('c')
		case f.Fin:
			fsig.WriteByte('F')
		default:
			fsig.WriteByte('f')
		}
	}
	h := fnv.New32a()
	h.Write([]byte(fsig.String()))
	m.Classf("wire:%08x", h.Sum32())
	if strings.Contains(fsig.String(), "fp") || strings.Contains(fsig.String(), "cp") {
		m.Count("control_frame_between_fragments", 1)
	}
	m.Count("frames_parsed", int64(len(ps.Frames())))
	// API results against the wire, and the porcupine close-latch model
	x.evMu.Lock()
	ops := append([]verifOp(nil), x.ops...)
	x.evMu.Unlock()
	closeOnWire := ps.CloseIndex() >= 0
	var hist []porcupine.Operation
	for _, o := range ops {
		if strings.HasPrefix(o.result, "other:") && p.closeMode != 2 && !faulted {
			m.Violationf("c15:unexpected-write-error"+scope, rep, "%s op of actor %c seq %d failed with %q; plan %s", o.kind, o.actor, o.seq, o.result, p)
		}
		if o.kind == "data" {
			if (o.result == "ok") != delivered[o.seq] {
				m.Violationf("c15:api-result-vs-wire"+scope, rep, "data message %d: API result %q but delivered-on-wire=%v; plan %s", o.seq, o.result, delivered[o.seq], p)
			}
		}
		if o.result == "timeout" {
			m.Count("control_write_timeouts", 1)
		}
		if o.kind == "close" && o.result == "ok" && !closeOnWire {
			m.Violationf("c15:api-result-vs-wire"+scope, rep, "close reported ok but no Close frame on the wire; plan %s", p)
		}
		if p.closeMode == 2 || faulted {
			continue // after Close() of the connection / a transport fault writes fail with the transport's error; only wire integrity applies
		}
		hist = append(hist, porcupine.Operation{ClientId: int(o.actor), Input: o.kind, Call: o.call, Output: o.result, Return: o.ret})
	}
	if len(hist) > 0 {
		model := porcupine.Model{
			Init: func() interface{} { return false }, // close frame sent?
			Step: func(state, in, out interface{}) (bool, interface{}) {
				closed := state.(bool)
				res := out.(string)
				if in.(string) == "close" {
					if res == "ok" {
						return !closed, true
					}
					return closed && res == "closesent", closed
				}
				switch res {
				case "ok":
					return !closed, closed
				case "closesent":
					return closed, closed
				case "timeout":
					return true, closed // gave up waiting for the lock: no effect either way
				}
				return false, closed
			},
			DescribeOperation: func(in, out interface{}) string { return fmt.Sprintf("%v->%v", in, out) },
		}
		res, _ := porcupine.CheckOperationsVerbose(model, hist, 30*time.Second)
		switch res {
		case porcupine.Ok:
			m.Count("porcupine_ok_histories", 1)
		case porcupine.Illegal:
			sort.Slice(ops, func(a, b int) bool { return ops[a].call < ops[b].call })
			var sb strings.Builder
			for _, o := range ops {
				fmt.Fprintf(&sb, "[%d,%d]%c%d:%s->%s ", o.call, o.ret, o.actor, o.seq, o.kind, o.result)
			}
			m.Violationf("c15:close-latch-history-not-linearizable"+scope, rep, "a write that must be ordered after the close did not fail with the close-sent error (or one before it failed); ops: %s; plan %s", sb.String(), p)
		default:
			m.Inconclusive("porcupine timeout")
		}
	}
	if m.WantSample() {
		m.Sample(map[string]interface{}{"mode": mode, "plan": p.String(), "wire_frames": fsig.String(), "hook_events": atomic.LoadInt64(&x.hookEv), "ops": len(ops)})
	}
	m.Count("hook_events", atomic.LoadInt64(&x.hookEv))
}

func verifClamp(i, n int) int {
	if i < 0 || i >= n {
		return 0
	}
	return i
}

// ---- running a plan ----------------------------------------------------------------------

var verifHookMu sync.Mutex // one run at a time owns the package-level hook

// verifC15Controller adapts a run to a mode: stress (free-running, PRNG yields) or directed
// (the data writer is parked at each of its transport writes while chosen actors are launched).
type verifC15Controller struct {
	yield func(point string)
	gate  func(x *verifC15Run, p []byte)
	// directed mode: control senders / closer / ping feed are launched by the gate, not free-running
	directed bool
}

// verifC15Execute reports false when its watchdog fired: the caller stops the part (a lost or
// blocked write lock would otherwise cost one watchdog period per remaining run).
func verifC15Execute(m *mon.M, p verifC15Plan, ctl verifC15Controller, rep map[string]interface{}, mode string, launchRest func(x *verifC15Run, wg *sync.WaitGroup)) bool {
	x := verifC15NewRun(m, p)
	x.yield = ctl.yield
	if ctl.gate != nil {
		x.tr.gate = func(b []byte) { ctl.gate(x, b) }
	}
	VerifHook = x.hook
	defer func() { VerifHook = nil }()
	var writers, reader sync.WaitGroup
	var opCount int64
	var closeOnce sync.Once
	maybeClose := func() {
		if !ctl.directed && (p.closeMode == 1 || p.closeMode == 2) && atomic.AddInt64(&opCount, 1) > int64(p.closeAt) {
			closeOnce.Do(func() { m.Go(&writers, "ws.c15.closer", func() { x.writeClose(p.closeMode) }) })
		}
	}
	m.Go(&reader, "ws.c15.reader", func() {
		for {
			if _, _, err := x.conn.ReadMessage(); err != nil {
				return
			}
		}
	})
	m.Go(&writers, "ws.c15.data", func() {
		atomic.StoreInt64(&x.dataGid, verifGoid())
		for s := 0; s < p.nData; s++ {
			maybeClose()
			if p.closeMode >= 3 && s == p.closeAtData {
				x.writeClose(p.closeMode)
			}
			x.writeData(p, s)
		}
		if p.closeMode >= 3 && p.closeAtData >= p.nData {
			x.writeClose(p.closeMode)
		}
		if launchRest != nil {
			launchRest(x, &writers) // directed: actors scheduled after the last stop
		}
	})
	if !ctl.directed {
		for a := 0; a < p.nCtl; a++ {
			actor := byte('P' + a)
			m.Go(&writers, "ws.c15.ctl", func() {
				for s := 0; s < p.ctlFrames; s++ {
					maybeClose()
					if p.shortDeadlines && (s+int(actor))%3 == 0 {
						x.writeCtlDeadline(actor, s, 30*time.Microsecond) // may expire while queued behind a frame in flight
					} else {
						x.writeCtl(actor, s)
					}
				}
			})
		}
		m.Go(&writers, "ws.c15.feeder", func() {
			for s := 0; s < p.nPings; s++ {
				x.feedPing(p, s)
				if ctl.yield != nil {
					ctl.yield("feed")
				}
			}
		})
	}
	waitCh := make(chan struct{})
	go func() {
		writers.Wait()
		x.tr.rd.Close() // buffered pings are still delivered; then the reader sees EOF
		reader.Wait()
		close(waitCh)
	}()
	select {
	case <-waitCh:
	case <-time.After(20 * time.Second): // watchdog only
		m.Inconclusive("watchdog: a C15 " + mode + " run did not finish within 20s (possible lost or blocked write lock); plan " + p.String())
		// what was observed up to here is still judged: the lock-discipline events and the wire so far
		VerifHook = nil
		x.judge(p, rep, mode+":hung")
		return false
	}
	VerifHook = nil
	x.judge(p, rep, mode)
	return true
}

// ---- stress mode ----------------------------------------------------------------------------

func TestVerif_C15_Stress(t *testing.T) {
	m := mon.New("C15", "stress")
	defer m.Finish(t)
	m.Rule("stress: one connection per run (server or client role, small write buffers so that data frames take two transport writes / several " +
		"frames), a data writer, a reader answering fed pings through the default handler, 1-4 control senders and a closer at a PRNG position, " +
		"free-running with PRNG yields/sleeps injected at the write-lock hook points and inside the transport; oracle = wire parse + ordering + " +
		"nothing after Close + API-vs-wire + porcupine close-latch model + lock discipline from the hooks; distinct = frame-level wire interleaving signature")
	n := m.N(600, 20000)
	m.Require("evaluations", int64(n))
	m.Require("hook_events", int64(n*10))
	m.Require("control_frame_between_fragments", int64(n/20))
	m.Require("porcupine_ok_histories", int64(n/3))
	verifHookMu.Lock()
	defer verifHookMu.Unlock()
	for i := 0; i < n; i++ {
		r := m.Rand("stress", i)
		p := verifC15GenPlan(r)
		var ycount uint64
		seed := r.Uint64()
		perturb := func() {
			k := atomic.AddUint64(&ycount, 1)
			v := vrand.New(seed ^ k*0x9e3779b97f4a7c15).Intn(10)
			switch {
			case v < 4:
				runtime.Gosched()
			case v < 6:
				runtime.Gosched()
				runtime.Gosched()
			case v == 6:
				time.Sleep(time.Duration(1+v) * time.Microsecond)
			}
		}
		m.Case()
		rep := map[string]interface{}{"case": i, "plan": p.String()}
		if !verifC15Execute(m, p, verifC15Controller{yield: func(string) { perturb() }, gate: func(*verifC15Run, []byte) { perturb() }}, rep, "stress", nil) {
			break
		}
	}
}

// ---- directed mode --------------------------------------------------------------------------

// In a directed scenario every other actor performs one operation and is launched while the data
// writer is parked at one of its transport writes (a "stop"): before a frame's first write, between
// the two writes of a frame, between frames of a message, between messages, or after the last one.
func TestVerif_C15_Directed(t *testing.T) {
	m := mon.New("C15", "directed")
	defer m.Finish(t)
	m.Rule("directed: small scenarios (1-3 data messages whose frames take two transport writes and/or several frames; up to 3 control senders, " +
		"a ping fed to the reader, a closer), enumerated over the stop (transport write of the data writer) at which each other actor is launched " +
		"while the data writer is parked there; the launched actors run until they finish or queue on the write lock, then the data writer " +
		"continues; which actor gets the lock next is observed, never required; distinct = frame-level wire interleaving signature")
	n := m.N(800, 40000)
	m.Require("evaluations", int64(n))
	m.Require("actors_queued_behind_parked_writer", int64(n/4))
	m.Require("porcupine_ok_histories", int64(n/3))
	verifHookMu.Lock()
	defer verifHookMu.Unlock()
	const maxStops = 7
	for i := 0; i < n; i++ {
		r := m.Rand("directed", i)
		p := verifC15Plan{server: i%3 != 2, wbuf: r.Pick(16, 32), nData: r.Range(1, 3), closeMode: r.Pick(0, 1, 1, 1, 2)}
		for k := 0; k < p.nData; k++ {
			p.dataSizes = append(p.dataSizes, r.Pick(8, p.wbuf+5, 2*p.wbuf+9, 3*p.wbuf+1))
			p.dataAPI = append(p.dataAPI, r.Intn(3))
		}
		// actors: P,Q,R control senders, H ping feed, C closer: each gets a stop index (mixed radix from the case index)
		actors := []byte{'P', 'Q', 'R', 'H', 'T'} // T: a control write whose deadline expires while it is queued
		if p.closeMode != 0 {
			actors = append(actors, 'C')
		}
		nact := r.Range(1, len(actors))
		perm := r.Perm(len(actors))
		stopOf := map[byte]int{}
		code := i / 3
		for k := 0; k < nact; k++ {
			stopOf[actors[perm[k]]] = code % (maxStops + 1)
			code = code/(maxStops+1) + r.Intn(3) // enumeration in the low digits, PRNG above
		}
		if _, ok := stopOf['C']; !ok {
			p.closeMode = 0
		}
		if r.Chance(1, 3) {
			// the Close frame goes through the data writer's own APIs; the other actors are launched around its transport write too
			p.closeMode, p.closeAtData = r.Pick(3, 4, 5), r.Range(0, p.nData)
			delete(stopOf, 'C')
		}
		p.emptyCtl = r.Bool()
		var launched []string
		stop := 0
		var stopMu sync.Mutex
		launchAt := func(x *verifC15Run, s int, wg *sync.WaitGroup, final bool) {
			var gids, timeouts []*int64
			// the expiring write goes first, so that the others arrive after its deadline has passed
			sort.Slice(actors, func(i, j int) bool { return actors[i] == 'T' && actors[j] != 'T' })
			for _, a := range actors {
				if len(timeouts) > 0 && a != 'T' {
					// wait (bounded) for the expiring write to give up before the next actor is launched
					for spin := 0; spin < 2000 && atomic.LoadInt64(timeouts[0]) != -1; spin++ {
						time.Sleep(10 * time.Microsecond)
					}
				}
				st, ok := stopOf[a]
				if !ok || !(st == s || (final && st >= s)) {
					continue
				}
				delete(stopOf, a)
				actor := a
				launched = append(launched, fmt.Sprintf("%c@%d", actor, s))
				gid := new(int64)
				gids = append(gids, gid)
				switch actor {
				case 'H':
					x.feedPing(p, 0)
					atomic.StoreInt64(gid, -1)
				case 'C':
					m.Go(wg, "ws.c15.closer", func() {
						atomic.StoreInt64(gid, verifGoid())
						x.writeClose(p.closeMode)
						atomic.StoreInt64(gid, -1)
					})
				case 'T':
					m.Go(wg, "ws.c15.ctl-timeout", func() {
						atomic.StoreInt64(gid, verifGoid())
						x.writeCtlDeadline(actor, 0, 100*time.Microsecond)
						atomic.StoreInt64(gid, -1)
					})
					timeouts = append(timeouts, gid)
				default:
					m.Go(wg, "ws.c15.ctl", func() {
						atomic.StoreInt64(gid, verifGoid())
						x.writeCtl(actor, 0)
						atomic.StoreInt64(gid, -1)
					})
				}
			}
			if len(gids) == 0 || final {
				return
			}
			// let the launched actors run until each has finished or is queued on the write lock
			queued := 0
			for spin := 0; spin < 400; spin++ {
				settled := true
				queued = 0
				x.lkMu.Lock()
				for _, g := range gids {
					v := atomic.LoadInt64(g)
					switch {
					case v == -1:
					case v > 0 && x.waiting[v]:
						queued++
					default:
						settled = false
					}
				}
				x.lkMu.Unlock()
				if settled && spin > 3 {
					break
				}
				runtime.Gosched()
				if spin%8 == 7 {
					time.Sleep(5 * time.Microsecond)
				}
			}
			if queued > 0 {
				m.Count("actors_queued_behind_parked_writer", int64(queued))
			}
		}
		var wgp *sync.WaitGroup
		ctl := verifC15Controller{directed: true, gate: func(x *verifC15Run, b []byte) {
			if verifGoid() != atomic.LoadInt64(&x.dataGid) {
				return
			}
			stopMu.Lock()
			s := stop
			stop++
			stopMu.Unlock()
			launchAt(x, s, wgp, false)
		}}
		m.Case()
		rep := map[string]interface{}{"case": i, "plan": p.String()}
		var hold sync.WaitGroup
		wgp = &hold
		finished := verifC15Execute(m, p, ctl, rep, "directed", func(x *verifC15Run, wg *sync.WaitGroup) {
			launchAt(x, stop, &hold, true)
			hold.Wait()
		})
		if !finished {
			break
		}
		rep["launched"] = launched
		m.Count("stops_used", int64(stop))
	}
}

// ---- close window -----------------------------------------------------------------------------

// The close-sent latch has to be up before the write lock is released behind a Close frame: a writer that takes the
// lock next must already see it.  The window between "lock released" and "latch raised" — if an implementation has
// one — is a handful of instructions wide, far narrower than anything yields at the hook points can hit.  This mode
// aims at it: the racing control senders are started once the closer holds the write lock, spin (on their own cores)
// at their lock-wait hook point until the closer's unlock hook point fires, spin a PRNG number of further rounds, and
// then go for the lock, so that they arrive around the instant of the release rather than being parked on the lock
// long before it.  The hook of this mode does no bookkeeping (no goroutine ids, no locks): phases tell closer and
// racers apart.  Oracle: the usual ones (nothing after the Close frame on the wire, API results linearizable under
// the close-latch model).
func TestVerif_C15_CloseWindow(t *testing.T) {
	m := mon.New("C15", "closewindow")
	defer m.Finish(t)
	m.Rule("closewindow: per trial one connection, 0-1 data messages, then a Close frame through {WriteControl, WriteMessage, NextWriter, prepared message}; " +
		"1-3 control senders, started when the closer holds the write lock, spin at their lock-wait hook point until the closer reaches its unlock hook point, " +
		"then a PRNG 0..95 further rounds, then take the lock; oracle = wire parse + nothing after Close + porcupine close-latch model; " +
		"distinct = wire interleaving signature; the evidence has a histogram of the time from the release to a racer's lock acquisition " +
		"(how closely the window was approached)")
	n := m.N(3000, 150000)
	m.Require("evaluations", int64(n))
	m.Require("racers_released_together_with_the_unlock", int64(n/4)) // on a loaded machine some racers arrive late: counted, not required
	verifHookMu.Lock()
	defer verifHookMu.Unlock()
	if runtime.GOMAXPROCS(0) < 2 {
		m.Inconclusive("closewindow needs at least 2 processors to run a racer in parallel with the closer")
		return
	}
	for i := 0; i < n; i++ {
		r := m.Rand("closewindow", i)
		p := verifC15Plan{server: r.Bool(), wbuf: 64, nData: r.Intn(2), closeMode: r.Pick(1, 3, 4, 5), nCtl: r.Range(1, 3)}
		for k := 0; k < p.nData; k++ {
			p.dataSizes = append(p.dataSizes, r.Pick(8, 70))
			p.dataAPI = append(p.dataAPI, 0)
		}
		p.closeAtData = p.nData
		x := verifC15NewRun(m, p)
		// phase: -1 data phase (hook idle); 0 closer about to take the lock; 1 closer holds the lock, racers started;
		// 2 lock released behind the Close frame
		phase := int64(-1)
		var arrived, gaveUp, dummy, releasedAt int64
		extra := make([]int, p.nCtl)
		for k := range extra {
			extra[k] = r.Intn(96)
		}
		racersGo := make(chan struct{})
		t0 := time.Now()
		// the mutex guarding the write-error latch, looked up by name so that a tree without it merely loses the delay injection
		var latchMu *sync.Mutex
		var latchHeld int64
		if f := reflect.ValueOf(x.conn).Elem().FieldByName("writeErrMu"); f.IsValid() && f.Type() == reflect.TypeOf(sync.Mutex{}) {
			latchMu = (*sync.Mutex)(unsafe.Pointer(f.UnsafeAddr()))
		}
		VerifHook = func(point string, c *Conn) {
			if c != x.conn {
				return
			}
			ph := atomic.LoadInt64(&phase)
			if ph < 0 {
				return
			}
			atomic.AddInt64(&x.hookEv, 1)
			switch {
			case ph == 0 && strings.HasSuffix(point, ".locked"):
				atomic.StoreInt64(&phase, 1)
				close(racersGo)
			case ph == 1 && strings.HasSuffix(point, ".conn"):
				// the Close frame is about to reach the transport: wait (bounded) until every racer spins at its lock-wait point
				for spin := 0; spin < 400000 && atomic.LoadInt64(&arrived) < int64(p.nCtl); spin++ {
					if spin%64 == 63 {
						runtime.Gosched()
					}
				}
			case ph == 1 && strings.HasSuffix(point, ".unlock"):
				// delay injection: from here until a racer holds the write lock, the mutex that guards the latch is kept by
				// the test.  A closer that raises the latch before releasing the lock never notices; one that raises it
				// afterwards is held up exactly inside its window, and the racer decides before it.
				if latchMu != nil && i%2 == 0 {
					latchMu.Lock()
					atomic.StoreInt64(&latchHeld, 1)
					m.Count("trials_with_the_latch_mutex_held_across_the_release", 1)
				}
				atomic.StoreInt64(&releasedAt, int64(time.Since(t0)))
				atomic.StoreInt64(&phase, 2)
			case ph == 1 && point == "control.lockwait":
				k := atomic.AddInt64(&arrived, 1) - 1
				for spin := 0; spin < 50000000 && atomic.LoadInt64(&phase) == 1; spin++ {
				}
				if atomic.LoadInt64(&phase) != 2 {
					atomic.AddInt64(&gaveUp, 1)
				}
				for d := 0; d < extra[int(k)%len(extra)]; d++ {
					atomic.AddInt64(&dummy, 1)
				}
			case ph == 2 && point == "control.locked":
				if atomic.CompareAndSwapInt64(&latchHeld, 1, 0) {
					latchMu.Unlock()
				}
				gap := int64(time.Since(t0)) - atomic.LoadInt64(&releasedAt)
				switch {
				case gap < 5000:
					m.Count("racers_locked_within_5us_of_release", 1)
				case gap < 10000:
					m.Count("racers_locked_within_10us_of_release", 1)
				case gap < 20000:
					m.Count("racers_locked_within_20us_of_release", 1)
				case gap < 50000:
					m.Count("racers_locked_within_50us_of_release", 1)
				default:
					m.Count("racers_locked_later_than_50us", 1)
				}
			}
		}
		var wg sync.WaitGroup
		m.Go(&wg, "ws.c15.window.closer", func() {
			for s := 0; s < p.nData; s++ {
				x.writeData(p, s)
			}
			atomic.StoreInt64(&phase, 0)
			x.writeClose(p.closeMode)
		})
		for a := 0; a < p.nCtl; a++ {
			actor := byte('P' + a)
			m.Go(&wg, "ws.c15.window.racer", func() {
				<-racersGo
				x.writeCtl(actor, 0)
				x.writeCtl(actor, 1) // a second write, certainly after the close
			})
		}
		done := make(chan struct{})
		go func() { wg.Wait(); close(done) }()
		m.Case()
		rep := map[string]interface{}{"case": i, "plan": p.String(), "extra_spins": extra}
		select {
		case <-done:
		case <-time.After(20 * time.Second):
			m.Inconclusive("watchdog: a C15 closewindow trial did not finish within 20s; plan " + p.String())
			VerifHook = nil
			if atomic.CompareAndSwapInt64(&latchHeld, 1, 0) {
				latchMu.Unlock()
			}
			x.judge(p, rep, "closewindow:hung")
			return
		}
		VerifHook = nil
		if atomic.CompareAndSwapInt64(&latchHeld, 1, 0) {
			latchMu.Unlock()
		}
		m.Count("racers_released_together_with_the_unlock", atomic.LoadInt64(&arrived)-atomic.LoadInt64(&gaveUp))
		m.Count("racers_that_gave_up_spinning", atomic.LoadInt64(&gaveUp))
		x.tr.rd.Close()
		x.judge(p, rep, "closewindow")
	}
}

// ---- write deadlines ------------------------------------------------------------------------------

// A transport that honours SetWriteDeadline the way a net.Conn does: a Write after the deadline that is in effect fails
// with a timeout.  Control frames carry their own deadline (the default pong/close replies use now+1s); it must never
// leak into the data writer's writes, which run under the connection's own write deadline (none, or a later one).
type verifDeadlineConn struct {
	verifC13bConn
	dmu sync.Mutex
	dl  time.Time
	set int
}

func (c *verifDeadlineConn) SetWriteDeadline(t time.Time) error {
	c.dmu.Lock()
	c.dl = t
	c.set++
	c.dmu.Unlock()
	return nil
}

func (c *verifDeadlineConn) Write(p []byte) (int, error) {
	c.dmu.Lock()
	dl := c.dl
	c.dmu.Unlock()
	if !dl.IsZero() && time.Now().After(dl) {
		return 0, verifTimeoutErr{}
	}
	return c.verifC13bConn.Write(p)
}

func TestVerif_C15_Deadlines(t *testing.T) {
	m := mon.New("C15", "deadlines")
	defer m.Finish(t)
	m.Rule("deadlines: a transport that fails writes after the write deadline in effect (as net.Conn does); a control frame is sent with a deadline of 15..30 ms, " +
		"(after a first data message in two scenarios of three), the scenario waits until that deadline has passed, then the data writer (no write deadline of its own, or one 10 s ahead) writes a message through " +
		"{WriteMessage, NextWriter, prepared message}: it must succeed and be whole on the wire; both roles; the control frame's own success is a precondition " +
		"(a scenario whose control write missed its deadline on a loaded machine is repeated, not judged); distinct = role x control type x data API x own deadline")
	n := m.N(24, 400)
	m.Require("evaluations", int64(n))
	m.Require("data_writes_after_an_expired_control_deadline", int64(n*3/4))
	for i := 0; i < n; i++ {
		server, ctl, api, own := i%2 == 0, []int{PingMessage, PongMessage}[i/2%2], i / 4 % 3, i/12%2 == 1
		rep := map[string]interface{}{"case": i, "server": server, "control": ctl, "api": api, "own_deadline": own}
		m.Case()
		for attempt, wait := 0, 15*time.Millisecond; attempt < 5; attempt, wait = attempt+1, wait*3 {
			tr := &verifDeadlineConn{}
			c := newConn(tr, server, 256, 64)
			if own {
				c.SetWriteDeadline(time.Now().Add(10 * time.Second))
			}
			if i%3 != 0 {
				// usually the data writer has already written something under its own deadline before the control frame comes
				if err := c.WriteMessage(TextMessage, []byte("first")); err != nil {
					m.Violationf("c15:unexpected-write-error:deadlines", rep, "first data write: %v", err)
					break
				}
			}
			if err := c.WriteControl(ctl, []byte("keepalive"), time.Now().Add(wait)); err != nil {
				continue // the control frame missed its own deadline (loaded machine): not what is examined here
			}
			time.Sleep(wait + wait/2)
			payload := verifPayload('D', i, 150)
			var err error
			m.Guard("ws.c15.deadline", nil, func() {
				switch api {
				case 0:
					err = c.WriteMessage(BinaryMessage, payload)
				case 1:
					var w io.WriteCloser
					if w, err = c.NextWriter(BinaryMessage); err == nil {
						if _, err = w.Write(payload); err == nil {
							err = w.Close()
						}
					}
				default:
					var pm *PreparedMessage
					if pm, err = NewPreparedMessage(BinaryMessage, payload); err == nil {
						err = c.WritePreparedMessage(pm)
					}
				}
			})
			if err != nil {
				m.Violationf("c15:data-write-failed-after-control-deadline", rep, "a data write %v after a control frame's deadline had passed failed: %v (the control frame's deadline leaked into the data writer's write)", wait+wait/2, err)
				break
			}
			role := refws.RoleClient
			if server {
				role = refws.RoleServer
			}
			ps := refws.ParseLog(role, false, tr.wire)
			if e := ps.Err(); e != nil || ps.Finish() != nil || len(ps.Messages()) == 0 || !bytes.Equal(ps.Messages()[len(ps.Messages())-1].Payload, payload) {
				m.Violationf("c15:data-message-altered:deadlines", rep, "the wire after a control frame and a data message is not those two: %v", e)
				break
			}
			m.Count("data_writes_after_an_expired_control_deadline", 1)
			m.Classf("server%v/ctl%d/api%d/own%v", server, ctl, api, own)
			break
		}
	}
}
