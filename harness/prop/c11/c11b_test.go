package c11

import (
	"bytes"
	"testing"

	"verifharness/lib/mon"
	"verifharness/lib/refadts"
)

// One encoder INSTANCE encoding a sequence of frames (as a muxer does): state kept between
// frames (a cached header, a reused buffer) must not leak from one frame into the next.
func TestVerif_C11_EncoderSequences(t *testing.T) {
	m := mon.New("C11", "encseq")
	defer m.Finish(t)
	m.Rule("encseq: one ADTS encoder instance encodes 2..8 frames in a row with raw lengths drawn from {1,2,120,255,256,2040,2041,2047,2048,3000,4088,4089,8183,8184,random} " +
		"(so that consecutive frames differ in the high bits of the 13-bit length), SetASC called again between frames in a third of the sequences (same or other " +
		"accepted configuration); every frame is decoded by a fresh decoder AND parsed by the reference bit extractor: raw block equal, nothing left over, " +
		"profile/index/channels of the configuration in effect; frames returned earlier must not be changed by later Encode calls; distinct = (length class of previous frame, of this frame, reconfigured)")
	n := m.N(6000, 600000)
	m.Require("evaluations", int64(n))
	m.Require("frames_checked", int64(n*2))
	cfgs := allConfigs()
	lens := []int{1, 2, 120, 255, 256, 2040, 2041, 2047, 2048, 3000, 4088, 4089, 8183, 8184}
	mon.Parallel(n, func(w, i int) {
		r := m.Rand("encseq", i)
		m.Case()
		c := cfgs[r.Intn(len(cfgs))]
		enc := newADTS(m)
		if enc == nil {
			return
		}
		rep := map[string]interface{}{"case": i}
		set := func() bool {
			ab := refadts.ASC{ObjectType: c.obj, SamplingIndex: c.sfi, Channels: c.ch, Tail: r.Intn(8)}.Bytes()
			if err := enc.SetASC(ab[:]); err != nil {
				m.Violationf("c11:setasc-accepted-config-rejected", rep, "SetASC(%s): %v", mon.Hex(ab[:]), firstLine(err))
				return false
			}
			return true
		}
		m.Guard("aac.ADTS.Encode-sequence", nil, func() {
			if !set() {
				return
			}
			type sent struct {
				frame, copy, raw []byte
				c                config
			}
			var all []sent
			prevLen := 0
			var trace []int
			for k := 0; k < r.Range(2, 8); k++ {
				reconf := false
				if k > 0 && r.Chance(1, 3) {
					if r.Bool() {
						c = cfgs[r.Intn(len(cfgs))]
					}
					if !set() {
						return
					}
					reconf = true
				}
				nraw := lens[r.Intn(len(lens))]
				if r.Chance(1, 5) {
					nraw = r.Range(1, 8184)
				}
				raw := payload(r, nraw)
				trace = append(trace, nraw)
				rep["raw_lengths"] = trace
				frame, err := enc.Encode(raw)
				if err != nil {
					m.Violationf("c11:encode-error:sequence", rep, "frame %d (%d raw bytes) on a used encoder: %v", k, nraw, firstLine(err))
					return
				}
				all = append(all, sent{frame, append([]byte(nil), frame...), raw, c})
				m.Classf("seq/prev%s/this%s/reconf%v", lenClass(prevLen), lenClass(nraw), reconf)
				prevLen = nraw
			}
			for k, s := range all {
				if !bytes.Equal(s.frame, s.copy) {
					m.Violationf("c11:earlier-frame-overwritten:sequence", rep, "frame %d returned by Encode was modified by a later Encode call", k)
					return
				}
				dec := newADTS(m)
				got, left, err := dec.Decode(s.frame)
				if err != nil {
					m.Violationf("c11:own-frame-rejected:sequence", rep, "frame %d of the sequence (raw %d bytes, %v): %v", k, len(s.raw), s.c, firstLine(err))
					return
				}
				if !compareRaw(m, got, s.raw, "frame of a sequence", ":own-sequence", rep) {
					return
				}
				if len(left) != 0 {
					m.Violationf("c11:remainder-not-empty:sequence", rep, "frame %d leaves %d bytes", k, len(left))
					return
				}
				wantProfile, _ := refadts.ADTSProfile(s.c.obj)
				checkReported(m, dec, wantProfile, s.c.sfi, s.c.ch, ":sequence", rep)
				if h, rraw, rrest, err := refadts.Parse(s.frame); err != nil || !bytes.Equal(rraw, s.raw) || len(rrest) != 0 || h.FrameLength != len(s.frame) {
					m.Count("encoder_header_reference_disagrees", 1)
				}
				m.Count("frames_checked", 1)
			}
		})
	})
}
