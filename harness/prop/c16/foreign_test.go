package c16

import (
	"bytes"
	"math/big"
	"testing"

	"github.com/ossrs/go-oryx-lib/https/jose"
	"verifharness/lib/mon"
	"verifharness/lib/refjose"
	"verifharness/lib/vkeys"
)

// Objects encrypted by an independent RFC 7518 producer (ECDH-ES direct, AES-GCM), with and without
// PartyUInfo/PartyVInfo, must decrypt with the right key to the original payload, and not with another key.
func TestVerif_C16_Foreign(t *testing.T) {
	m := mon.New("C16", "foreign")
	defer m.Finish(t)
	m.Rule("foreign: ECDH-ES (direct) x {A128GCM,A192GCM,A256GCM} objects produced by an independent encrypter (Concat KDF/SHA-256 over the fixed-width " +
		"shared x coordinate, RFC 7518 4.6) for P-256/384/521 recipients, with and without apu/apv (lengths 0..40, equal and different), payload sizes as in the " +
		"matrix, compact and flattened JSON; ephemeral scalars from the PRNG so that shared secrets with a leading zero byte occur; oracle: Decrypt with the " +
		"recipient key returns the payload, with another key of the curve fails; flipping a bit of apu/apv (inside the protected header) fails; " +
		"distinct = (curve, enc, party-info shape, serialization, Z leading zero)")
	n := m.N(6000, 300000)
	m.Require("evaluations", int64(n))
	m.Require("decrypted_ok", int64(n*9/10))
	m.Require("with_party_info", int64(n/3))
	m.Require("z_with_leading_zero", 5)
	curves := []string{"p256-a", "p384-a", "p521-a", "p256-lzx", "p384-b"}
	others := map[string]string{"p256-a": "p256-b", "p384-a": "p384-b", "p521-a": "p521-b", "p256-lzx": "p256-a", "p384-b": "p384-a"}
	encs := []string{"A128GCM", "A192GCM", "A256GCM"}
	sizes := []int{0, 1, 15, 16, 17, 31, 32, 33, 255, 4096}
	mon.Parallel(n, func(w, i int) {
		r := m.Rand("foreign", i)
		m.Case()
		kn := curves[r.Intn(len(curves))]
		key := vkeys.EC(kn)
		enc := encs[r.Intn(len(encs))]
		withParty := r.Chance(1, 2)
		apu := r.Bytes(r.Pick(0, 1, 5, 16, 40))
		apv := r.Bytes(r.Pick(0, 1, 5, 16, 40))
		if withParty && r.Chance(1, 4) {
			apv = append([]byte(nil), apu...)
		}
		payload := r.Bytes(sizes[r.Intn(len(sizes))])
		eph := new(big.Int).SetBytes(r.Bytes(32))
		eph.Mod(eph, new(big.Int).Sub(key.Curve.Params().N, big.NewInt(2)))
		eph.Add(eph, big.NewInt(1))
		compact, flat, zlz, err := refjose.ForeignECDHES(&key.PublicKey, enc, apu, apv, withParty, eph, r.Bytes(12), payload)
		if err != nil {
			m.Inconclusive("foreign encrypter failed: " + err.Error())
			return
		}
		ser, s := "compact", compact
		if r.Bool() {
			ser, s = "json", flat
		}
		if withParty {
			m.Count("with_party_info", 1)
		}
		if zlz {
			m.Count("z_with_leading_zero", 1)
		}
		scope := ""
		if zlz {
			scope = ":z-leading-zero"
		}
		if withParty {
			scope += ":party-info"
		}
		m.Classf("%s/%s/party%v(%d,%d)/%s/zlz%v", kn[:4], enc, withParty, len(apu), len(apv), ser, zlz)
		rep := map[string]interface{}{"case": i, "key": kn, "enc": enc, "apu_len": len(apu), "apv_len": len(apv), "party_info": withParty, "serialized": clip(s), "z_leading_zero": zlz}
		m.Guard("jose.foreign", nil, func() {
			obj, err := jose.ParseEncrypted(s)
			if err != nil {
				m.Violationf("c16:foreign-object-rejected:parse"+scope, rep, "a conformant ECDH-ES object does not parse: %v", err)
				return
			}
			got, err := obj.Decrypt(key)
			if err != nil {
				m.Violationf("c16:foreign-object-rejected:decrypt"+scope, rep, "a conformant ECDH-ES object (independent producer) does not decrypt with the recipient key: %v", err)
				return
			}
			if !bytes.Equal(got, payload) {
				m.Violationf("c16:foreign-object-payload-differs"+scope, rep, "decrypted payload differs")
				return
			}
			m.Count("decrypted_ok", 1)
			if _, err := obj.Decrypt(vkeys.EC(others[kn])); err == nil {
				m.Violationf("c16:wrong-key-accepted:foreign", rep, "decrypts with %s although encrypted to %s", others[kn], kn)
			}
			if withParty && len(apu)+len(apv) > 0 {
				// flip one bit of apu or apv inside the protected header (JSON stays valid: the value is base64url text
				// re-encoded from the flipped bytes)
				o, err := refjose.ParseObject("jwe", s)
				if err != nil {
					return
				}
				for _, f := range o.Fields() {
					if f.Name != "protected" {
						continue
					}
					hb, _ := o.Get(f)
					name, val := "apu", apu
					if len(apu) == 0 || (len(apv) > 0 && r.Bool()) {
						name, val = "apv", apv
					}
					old := []byte(`"` + name + `":"` + refjose.B64(val) + `"`)
					flipped := refjose.FlipBit(val, r.Intn(len(val)*8))
					nb := bytes.Replace(hb, old, []byte(`"`+name+`":"`+refjose.B64(flipped)+`"`), 1)
					if bytes.Equal(nb, hb) {
						return
					}
					t2 := o.With(f, nb)
					if o2, err := jose.ParseEncrypted(t2); err == nil {
						if _, err := o2.Decrypt(key); err == nil {
							m.Violationf("c16:tamper-accepted:jwe:party-info", rep, "a bit of %s flipped inside the protected header and the object still decrypts", name)
						} else {
							m.Count("party_info_tamper_rejected", 1)
						}
					}
				}
			}
		})
	})
}
