// Package mon collects what a monitor observed during one child process and
// writes it as a part-result JSON for check.py: evaluations, distinct class
// signatures, counters, samples, violations (with replay data), mandatory
// minimums (-> inconclusive), and panics recovered around library calls.
package mon

import (
	"encoding/hex"
	"encoding/json"
	"fmt"
	"os"
	"path/filepath"
	"regexp"
	"runtime"
	"sort"
	"strings"
	"sync"
	"testing"
	"time"

	"verifharness/lib/vrand"
)

type Violation struct {
	Sig    string      `json:"sig"`
	Detail string      `json:"detail"`
	Replay interface{} `json:"replay,omitempty"`
	Count  int         `json:"count"`
}

type M struct {
	mu            sync.Mutex
	Property      string
	Part          string
	tier          string
	start         time.Time
	evals         int64
	classes       map[string]int64
	counters      map[string]int64
	notes         map[string]interface{}
	samples       []interface{}
	maxSamples    int
	viol          map[string]*Violation
	violOrder     []string
	violTotal     int
	require       map[string]int64
	assume        []string
	rule          string
	exhaustive    bool
	outDir        string
	replay        map[string]interface{}
	liFiles       map[int]*os.File
	inconcl       []string
	distinctExtra int64
}

func New(property, part string) *M {
	m := &M{Property: property, Part: part, start: time.Now(),
		classes: map[string]int64{}, counters: map[string]int64{}, notes: map[string]interface{}{},
		viol: map[string]*Violation{}, require: map[string]int64{}, maxSamples: 4, liFiles: map[int]*os.File{}}
	m.tier = os.Getenv("VERIF_TIER")
	if m.tier != "thorough" {
		m.tier = "quick"
	}
	m.outDir = os.Getenv("VERIF_OUT")
	if m.outDir == "" {
		m.outDir = "/verif/build/out"
	}
	os.MkdirAll(m.outDir, 0o755)
	if p := os.Getenv("VERIF_REPLAY"); p != "" {
		if b, err := os.ReadFile(p); err == nil {
			json.Unmarshal(b, &m.replay)
		}
	}
	return m
}

func (m *M) Quick() bool  { return m.tier == "quick" }
func (m *M) Tier() string { return m.tier }

// N picks the tier's case count. VERIF_SCALE (float) scales it, for experiments.
func (m *M) N(quick, thorough int) int {
	if m.Quick() {
		return quick
	}
	return thorough
}

// Rand returns the stream for a label/index under this property and part.
func (m *M) Rand(label string, index int) *vrand.Rand {
	return vrand.For(m.Property+"/"+m.Part+"/"+label, index)
}

func (m *M) Case() { m.mu.Lock(); m.evals++; m.mu.Unlock() }
func (m *M) Cases(n int) {
	m.mu.Lock()
	m.evals += int64(n)
	m.mu.Unlock()
}

// Class records that a case with this class signature was observed.
func (m *M) Class(sig string) {
	m.mu.Lock()
	m.classes[sig]++
	m.mu.Unlock()
}

// DistinctN adds n cases that are distinct by construction (an enumeration that yields every case once),
// without storing a signature for each; use Class for the coarse signatures shown in the evidence.
func (m *M) DistinctN(n int64) {
	m.mu.Lock()
	m.distinctExtra += n
	m.mu.Unlock()
}

func (m *M) Classf(format string, a ...interface{}) { m.Class(fmt.Sprintf(format, a...)) }

func (m *M) Count(name string, n int64) {
	m.mu.Lock()
	m.counters[name] += n
	m.mu.Unlock()
}

func (m *M) Counter(name string) int64 {
	m.mu.Lock()
	defer m.mu.Unlock()
	return m.counters[name]
}

func (m *M) Note(name string, v interface{}) {
	v = jsonSafe(v)
	m.mu.Lock()
	m.notes[name] = v
	m.mu.Unlock()
}

// jsonSafe snapshots v as JSON now (the caller may go on mutating it).  A value encoding/json refuses — a NaN or an
// infinity a monitor wants to report, a cycle — is kept as its %+v text: the result file must stay readable whatever
// the library returned.
func jsonSafe(v interface{}) interface{} {
	if v == nil {
		return nil
	}
	if b, err := json.Marshal(v); err == nil {
		return json.RawMessage(b)
	}
	return fmt.Sprintf("%+v", v)
}

func (m *M) Sample(v interface{}) {
	v = jsonSafe(v)
	m.mu.Lock()
	if len(m.samples) < m.maxSamples {
		m.samples = append(m.samples, v)
	}
	m.mu.Unlock()
}

func (m *M) WantSample() bool {
	m.mu.Lock()
	defer m.mu.Unlock()
	return len(m.samples) < m.maxSamples
}

// Inconclusive marks the part as not having reached a verdict (watchdog fired, hook never reached ...).
func (m *M) Inconclusive(reason string) {
	m.mu.Lock()
	if len(m.inconcl) < 20 {
		m.inconcl = append(m.inconcl, reason)
	}
	m.mu.Unlock()
}

func (m *M) Assume(s string)   { m.mu.Lock(); m.assume = append(m.assume, s); m.mu.Unlock() }
func (m *M) Rule(s string)     { m.mu.Lock(); m.rule = s; m.mu.Unlock() }
func (m *M) Exhaustive(b bool) { m.mu.Lock(); m.exhaustive = b; m.mu.Unlock() }

// Require declares a counter (or "class:<prefix>") that must reach min, else the
// run is inconclusive instead of passing vacuously.
func (m *M) Require(counter string, min int64) {
	m.mu.Lock()
	m.require[counter] = min
	m.mu.Unlock()
}

// Violation records a refutation. sig is a stable class used for de-duplication and
// for matching against known_findings.json; detail is free text; replay is JSON-able.
func (m *M) Violation(sig, detail string, replay interface{}) {
	m.mu.Lock()
	defer m.mu.Unlock()
	m.violTotal++
	if v, ok := m.viol[sig]; ok {
		v.Count++
		return
	}
	if len(m.viol) >= 60 {
		// keep the table bounded; count still increases
		if v, ok := m.viol["(overflow)"]; ok {
			v.Count++
		} else {
			m.viol["(overflow)"] = &Violation{Sig: "(overflow) " + sig, Detail: "more than 60 distinct violation signatures; first overflow: " + detail, Replay: replay, Count: 1}
			m.violOrder = append(m.violOrder, "(overflow)")
		}
		return
	}
	if len(detail) > 1500 {
		detail = detail[:1500] + "…"
	}
	// snapshot the replay data now: the caller may go on mutating its map
	replay = jsonSafe(replay)
	m.viol[sig] = &Violation{Sig: sig, Detail: detail, Replay: replay, Count: 1}
	m.violOrder = append(m.violOrder, sig)
}

func (m *M) Violationf(sig string, replay interface{}, format string, a ...interface{}) {
	m.Violation(sig, fmt.Sprintf(format, a...), replay)
}

var numRe = regexp.MustCompile(`-?\d+`)
var hexRe = regexp.MustCompile(`0x[0-9a-fA-F]+`)

// PanicClass normalises a panic value: numbers stripped so that one defect has one class.
func PanicClass(r interface{}) string {
	s := fmt.Sprint(r)
	if len(s) > 160 {
		s = s[:160]
	}
	s = hexRe.ReplaceAllString(s, "N")
	s = numRe.ReplaceAllString(s, "N")
	return s
}

// LibFrame returns the innermost non-test library function on the current stack
// (call it from a deferred function while panicking).
func LibFrame() string {
	pcs := make([]uintptr, 64)
	n := runtime.Callers(2, pcs)
	fr := runtime.CallersFrames(pcs[:n])
	for {
		f, more := fr.Next()
		if strings.Contains(f.Function, "github.com/ossrs/go-oryx-lib/") && !strings.HasSuffix(f.File, "_test.go") &&
			!strings.Contains(f.Function, "erifC") && !strings.Contains(f.Function, "verif") {
			fn := f.Function[strings.Index(f.Function, "go-oryx-lib/")+len("go-oryx-lib/"):]
			return fn
		}
		if !more {
			break
		}
	}
	return "?"
}

// Guard runs f, turning a panic into a violation "panic:<entry>:<class>@<lib frame>".
// It reports whether f panicked.  If input != nil it is attached as replay (hex).
func (m *M) Guard(entry string, input []byte, f func()) (panicked bool) {
	defer func() {
		if r := recover(); r != nil {
			panicked = true
			frame := LibFrame()
			sig := "panic:" + entry + ":" + PanicClass(r) + "@" + frame
			rep := map[string]interface{}{"entry": entry}
			if input != nil {
				in := input
				if len(in) > 4096 {
					in = in[:4096]
					rep["truncated_from"] = len(input)
				}
				rep["input_hex"] = hex.EncodeToString(in)
			}
			m.Violation(sig, fmt.Sprintf("%v", r), rep)
		}
	}()
	f()
	return false
}

// LastInput persists the input about to be given to a decoder, so that a process-fatal
// report (checkptr, stack exhaustion, concurrent map access) is attributable.
func (m *M) LastInput(worker int, entry string, data []byte) {
	m.mu.Lock()
	f := m.liFiles[worker]
	if f == nil {
		var err error
		f, err = os.OpenFile(filepath.Join(m.outDir, fmt.Sprintf("last_input.%s.%s.%d", m.Property, m.Part, worker)), os.O_CREATE|os.O_RDWR|os.O_TRUNC, 0o644)
		if err != nil {
			m.mu.Unlock()
			return
		}
		m.liFiles[worker] = f
	}
	m.mu.Unlock()
	hdr := []byte(entry + "\n")
	f.Truncate(0)
	f.WriteAt(hdr, 0)
	f.WriteAt(data, int64(len(hdr)))
}

// ReplayField returns a field of the replay file given by VERIF_REPLAY (nil if none).
func (m *M) ReplayField(name string) interface{} {
	if m.replay == nil {
		return nil
	}
	if r, ok := m.replay["replay"].(map[string]interface{}); ok {
		return r[name]
	}
	return nil
}

type result struct {
	Property    string                 `json:"property"`
	Part        string                 `json:"part"`
	Tier        string                 `json:"tier"`
	Seed        int64                  `json:"seed"`
	Evaluations int64                  `json:"evaluations"`
	Distinct    int                    `json:"distinct"`
	ClassTop    map[string]int64       `json:"class_top,omitempty"`
	Counters    map[string]int64       `json:"counters"`
	Notes       map[string]interface{} `json:"notes,omitempty"`
	Samples     []interface{}          `json:"samples"`
	Violations  []*Violation           `json:"violations"`
	ViolTotal   int                    `json:"violations_total"`
	Unmet       []string               `json:"unmet,omitempty"`
	Assume      []string               `json:"assumptions,omitempty"`
	Rule        string                 `json:"rule"`
	Exhaustive  bool                   `json:"exhaustive"`
	WallS       float64                `json:"wall_s"`
	Complete    bool                   `json:"complete"`
}

// Finish writes the part result.  It fails the Go test on violations only to make
// plain `go test` output readable; check.py decides from the JSON, not the exit code.
func (m *M) Finish(t testing.TB) {
	m.mu.Lock()
	defer m.mu.Unlock()
	r := result{Property: m.Property, Part: m.Part, Tier: m.tier, Seed: int64(vrand.Seed()), Evaluations: m.evals,
		Distinct: len(m.classes) + int(m.distinctExtra), Counters: m.counters, Notes: m.notes, Samples: m.samples, ViolTotal: m.violTotal,
		Assume: m.assume, Rule: m.rule, Exhaustive: m.exhaustive, WallS: time.Since(m.start).Seconds(), Complete: true}
	if r.Samples == nil {
		r.Samples = []interface{}{}
	}
	// a compact view of the classes: the 40 most frequent
	type kv struct {
		k string
		v int64
	}
	var kvs []kv
	for k, v := range m.classes {
		kvs = append(kvs, kv{k, v})
	}
	sort.Slice(kvs, func(i, j int) bool {
		if kvs[i].v != kvs[j].v {
			return kvs[i].v > kvs[j].v
		}
		return kvs[i].k < kvs[j].k
	})
	r.ClassTop = map[string]int64{}
	for i := 0; i < len(kvs) && i < 40; i++ {
		r.ClassTop[kvs[i].k] = kvs[i].v
	}
	for _, s := range m.violOrder {
		r.Violations = append(r.Violations, m.viol[s])
	}
	if r.Violations == nil {
		r.Violations = []*Violation{}
	}
	var reqs []string
	for k := range m.require {
		reqs = append(reqs, k)
	}
	sort.Strings(reqs)
	for _, k := range reqs {
		min := m.require[k]
		var got int64
		if strings.HasPrefix(k, "class:") {
			pre := strings.TrimPrefix(k, "class:")
			for c := range m.classes {
				if strings.HasPrefix(c, pre) {
					got++
				}
			}
		} else if k == "evaluations" {
			got = m.evals
		} else {
			got = m.counters[k]
		}
		if got < min {
			r.Unmet = append(r.Unmet, fmt.Sprintf("%s=%d<%d", k, got, min))
		}
	}
	r.Unmet = append(r.Unmet, m.inconcl...)
	b, merr := json.MarshalIndent(r, "", " ")
	if merr != nil {
		t.Fatalf("cannot encode the result: %v", merr)
	}
	name := filepath.Join(m.outDir, fmt.Sprintf("result.%s.%s.json", m.Property, m.Part))
	if err := os.WriteFile(name, b, 0o644); err != nil {
		t.Fatalf("cannot write result: %v", err)
	}
	for _, f := range m.liFiles {
		f.Close()
	}
	fmt.Printf("[mon] %s/%s tier=%s evals=%d distinct=%d violations=%d (sigs %d) unmet=%v wall=%.1fs\n",
		m.Property, m.Part, m.tier, m.evals, len(m.classes), m.violTotal, len(m.viol), r.Unmet, r.WallS)
	for _, v := range r.Violations {
		fmt.Printf("[mon]   VIOL x%d %s :: %s\n", v.Count, v.Sig, firstLine(v.Detail))
	}
	if m.violTotal > 0 {
		t.Errorf("%d violations", m.violTotal)
	}
}

func firstLine(s string) string {
	if i := strings.IndexByte(s, '\n'); i >= 0 {
		s = s[:i]
	}
	if len(s) > 300 {
		s = s[:300]
	}
	return s
}

// Parallel runs f(worker, index) for index in [0,n) over GOMAXPROCS workers.
func Parallel(n int, f func(worker, index int)) {
	w := runtime.GOMAXPROCS(0)
	if w > n {
		w = n
	}
	if w < 1 {
		w = 1
	}
	var wg sync.WaitGroup
	var mu sync.Mutex
	next := 0
	for k := 0; k < w; k++ {
		wg.Add(1)
		go func(k int) {
			defer wg.Done()
			for {
				mu.Lock()
				i := next
				next++
				mu.Unlock()
				if i >= n {
					return
				}
				f(k, i)
			}
		}(k)
	}
	wg.Wait()
}

// Hex abbreviates bytes for samples and details.
func Hex(b []byte) string {
	if len(b) <= 48 {
		return hex.EncodeToString(b)
	}
	return fmt.Sprintf("%s…(%d bytes)…%s", hex.EncodeToString(b[:24]), len(b), hex.EncodeToString(b[len(b)-8:]))
}

// Go runs f in a new goroutine under Guard (a panic in a spawned goroutine would otherwise
// kill the whole child process) and signals wg when done.
func (m *M) Go(wg *sync.WaitGroup, entry string, f func()) {
	wg.Add(1)
	go func() {
		defer wg.Done()
		m.Guard(entry, nil, f)
	}()
}
