package c16

import (
	"bytes"
	"fmt"
	"strings"
	"testing"

	"github.com/ossrs/go-oryx-lib/https/jose"
	"verifharness/lib/mon"
	"verifharness/lib/refjose"
)

type jweTamperObj struct {
	round  int
	alg    string // key-management algorithm or "multi:<set>"
	enc    string
	zip    string
	ser    string
	s      string
	keys   []string // decryption keys by recipient index
	others []string // different keys of the same kind (single-recipient objects)
	pt     []byte
	aad    []byte
	rsa    bool
	multi  bool
}

func TestVerif_C16_Tamper(t *testing.T) {
	m := mon.New("C16", "tamper")
	defer m.Finish(t)
	if mine, replaying := replayFor(m, "tamper"); replaying {
		if mine {
			replayObject(m, "jwe")
		}
		return
	}
	col := newCollector(m)
	defer col.flush()
	allRSABits := !m.Quick()
	m.Rule("tamper: one JWE per (key-management alg x content encryption x {compact, flattened JSON+AAD}) with zip and payload size {1,17,33} alternating, " +
		"plus multi-recipient objects; every field present (protected, encrypted_key, iv, ciphertext, tag, aad; per-recipient encrypted_key) is decoded, ONE bit of its " +
		"bytes inverted, re-encoded, then ParseEncrypted+Decrypt with the right key must fail. Every bit of every field; in the quick tier the 2048-bit RSA encrypted_key " +
		"is sampled (first/last 16 bits + 480 PRNG-chosen bits, a quarter of the field). A different key of the same kind, and for symmetric keys every 1-bit variant of the key, must be rejected. " +
		"distinct = alg/enc/serialization/field classes")
	m.Exhaustive(allRSABits)
	rounds := m.N(1, 12)
	m.Note("rounds", rounds)
	m.Note("rsa_encrypted_key_bits", map[bool]string{true: "all", false: "sampled: 32 edge bits + 480 PRNG bits of 2048"}[allRSABits])

	var objs []jweTamperObj
	for round := 0; round < rounds; round++ {
		ks := keysFor(m, round)
		n := 0
		for ai, alg := range kmAlgs {
			for ei, enc := range encAlgs {
				names, others := kmKeyNames(alg, enc)
				for si, ser := range []string{"compact", "json+aad"} {
					n++
					pick := (ai + ei + si + round) % len(names)
					kn := names[pick]
					zip := jose.NONE
					if (ai+ei+si)%2 == 1 {
						zip = jose.DEFLATE
					}
					size := []int{1, 17, 33}[(ai+2*ei+si+round)%3]
					pt := payload(m, "tamperpt", round*1000+n, size, false)
					var aad []byte
					if ser == "json+aad" {
						aad = aadFor(m, 2000000+round*1000+n)
						if len(aad) > 33 {
							aad = aad[:33]
						}
					}
					var s string
					var err error
					m.Guard("jose.Encrypt", pt, func() {
						var e jose.Encrypter
						if e, err = jose.NewEncrypter(alg, enc, publicOf(ks.byName(kn))); err != nil {
							return
						}
						e.SetCompression(zip)
						var obj *jose.JsonWebEncryption
						if aad == nil {
							if obj, err = e.Encrypt(pt); err == nil {
								s, err = obj.CompactSerialize()
							}
						} else if obj, err = e.EncryptWithAuthData(pt, aad); err == nil {
							s = obj.FullSerialize()
						}
					})
					if err != nil || s == "" {
						m.Violationf("c16:tamper-baseline-fails:jwe:encrypt", map[string]interface{}{"alg": string(alg), "enc": string(enc), "key": kn}, "cannot build the object: %v", err)
						continue
					}
					objs = append(objs, jweTamperObj{round: round, alg: string(alg), enc: string(enc), zip: zipName(zip), ser: ser, s: s, keys: []string{kn},
						others: []string{others[pick]}, pt: pt, aad: aad, rsa: kmFamily(alg) == "rsa"})
				}
			}
		}
		for si, set := range recipientSets {
			enc := encAlgs[(si*2+round)%len(encAlgs)]
			pt := payload(m, "tampermultipt", round*10+si, 17, false)
			aad := []byte("multi-aad")
			s, err := encryptMulti(m, ks, set, enc, jose.NONE, pt, aad)
			if err != nil {
				m.Violationf("c16:tamper-baseline-fails:jwe-multi:encrypt", map[string]interface{}{"set": set.name, "enc": string(enc)}, "cannot build the object: %v", err)
				continue
			}
			hasRSA := false
			for _, a := range set.algs {
				hasRSA = hasRSA || kmFamily(a) == "rsa"
			}
			objs = append(objs, jweTamperObj{round: round, alg: "multi:" + set.name, enc: string(enc), zip: "none", ser: "json-general+aad", s: s, keys: set.keys,
				pt: pt, aad: aad, rsa: hasRSA, multi: true})
		}
	}

	type job struct {
		obj   int
		field refjose.Field
	}
	var jobs []job
	for oi, o := range objs {
		ro, err := refjose.ParseObject("jwe", o.s)
		if err != nil {
			m.Violationf("c16:harness:cannot-read-own-serialization", map[string]interface{}{"serialized": clip(o.s)}, "%v", err)
			continue
		}
		for _, f := range ro.Fields() {
			jobs = append(jobs, job{oi, f})
		}
		for _, n := range ro.StrayMembers() {
			m.Count("general_json_with_stray_top_level_"+n, 1) // recorded: not a field of the general syntax, ignored by the parser
		}
	}
	m.Note("jwe_tamper_objects", len(objs))
	m.Require("jwe_tamper_trials", 100000)
	for _, f := range []string{"protected", "encrypted_key", "iv", "ciphertext", "tag", "aad"} {
		m.Require("jwe_tamper_trials/"+f, 5000)
	}
	m.Require("class:jwe-tamper/", int64(14*6*2*4))
	m.Require("jwe_wrong_key_trials", int64(14*6*2))

	mon.Parallel(len(jobs), func(w, ji int) {
		j := jobs[ji]
		o := objs[j.obj]
		ks := keysFor(m, o.round)
		ro, _ := refjose.ParseObject("jwe", o.s)
		orig, err := ro.Get(j.field)
		if err != nil {
			m.Violationf("c16:harness:field-not-base64url", map[string]interface{}{"serialized": clip(o.s), "field": j.field.String()}, "%v", err)
			return
		}
		var dkeys []int
		if j.field.Index >= 0 {
			dkeys = []int{j.field.Index}
		} else {
			for i := range o.keys {
				dkeys = append(dkeys, i)
			}
		}
		dims0 := []dim{{"alg", o.alg}, {"enc", o.enc}, {"zip", o.zip}, {"ser", o.ser}, {"field", j.field.Name}}
		same := ro.With(j.field, orig)
		for _, ki := range dkeys {
			out, aad, st, err := decryptJWE(m, same, ks.byName(o.keys[ki]))
			if st != "" || !bytes.Equal(out, o.pt) || !bytes.Equal(aad, o.aad) {
				col.seen("reencoded-object-rejected:jwe", dims0)
				col.fail("reencoded-object-rejected:jwe", "decrypt", dims0, 0, map[string]interface{}{"part": "tamper", "op": "decrypt", "round": o.round, "key": o.keys[ki],
					"serialized": clip(same), "expect_payload": hexOf(o.pt), "expect_aad": hexOf(o.aad)},
					"object re-serialized by the harness without change does not decrypt: %s %v", st, err)
				return
			}
		}
		if j.field.Name == "tag" || j.field.Name == "iv" {
			// recorded, not judged: RFC 7518 §5.2 gives tag lengths 16/24/32 for the three CBC-HS encryptions, 16 for GCM
			m.Count(fmt.Sprintf("jwe_field_len/%s/%s=%d", o.enc, j.field.Name, len(orig)), 1)
		}
		if len(orig) == 0 {
			m.Count("jwe_empty_fields/"+j.field.Name, 1) // dir and ECDH-ES carry no encrypted key
			return
		}
		all := !(o.rsa && j.field.Name == "encrypted_key") || allRSABits
		bits := bitsOf(m, "bits", ji, len(orig), all, 480)
		if !all {
			m.Count("jwe_fields_sampled", 1)
		}
		for _, bit := range bits {
			mut := ro.With(j.field, refjose.FlipBit(orig, bit))
			for _, ki := range dkeys {
				m.Case()
				m.Count("jwe_tamper_trials", 1)
				m.Count("jwe_tamper_trials/"+j.field.Name, 1)
				col.seen("tamper-accepted:jwe", dims0)
				out, _, st, _ := decryptJWE(m, mut, ks.byName(o.keys[ki]))
				switch st {
				case "":
					col.fail("tamper-accepted:jwe", j.field.Name, dims0, bit, map[string]interface{}{"part": "tamper", "op": "decrypt", "round": o.round, "key": o.keys[ki],
						"serialized": clip(mut), "expect": "reject", "field": j.field.String(), "bit": bit, "original": clip(o.s)},
						"bit %d of %s flipped, Decrypt still succeeds (plaintext %s, original %s)", bit, j.field, hexOf(out), hexOf(o.pt))
				case "parse-error":
					m.Count("jwe_tamper_rejected_at_parse", 1)
				case "decrypt-error":
					m.Count("jwe_tamper_rejected_at_decrypt", 1)
				}
			}
		}
		m.Classf("jwe-tamper/%s/%s/%s/%s", o.alg, o.enc, o.ser, j.field.Name)
		if j.field.Name != "tag" || o.multi {
			return
		}
		// once per object: different keys
		for _, on := range o.others {
			dims := []dim{{"alg", o.alg}, {"enc", o.enc}, {"ser", o.ser}, {"how", "other-key"}}
			col.seen("wrong-key-accepted:jwe", dims)
			m.Case()
			m.Count("jwe_wrong_key_trials", 1)
			if _, _, st, _ := decryptJWE(m, o.s, ks.byName(on)); st == "" {
				col.fail("wrong-key-accepted:jwe", "decrypt", dims, 0, map[string]interface{}{"part": "tamper", "op": "decrypt", "round": o.round, "key": on,
					"serialized": clip(o.s), "expect": "reject"}, "decrypts with %s although encrypted to %s", on, o.keys[0])
			}
		}
		if key, ok := ks.byName(o.keys[0]).([]byte); ok {
			nbits := len(key) * 8
			if o.alg == "dir" && strings.Contains(o.enc, "CBC") {
				// RFC 7518 §5.2: the CEK of AES_CBC_HMAC_SHA2 is MAC_KEY || ENC_KEY and the tag does not depend on
				// ENC_KEY: a key that differs only in the ENC_KEY half passes the tag check and yields garbage with
				// valid padding about once in 256 tries.  That is the algorithm, not the library; only the MAC half is swept.
				nbits /= 2
				m.Count("jwe_dir_cbc_key_sweeps_limited_to_mac_half", 1)
			}
			// related keys: the right key extended or truncated (a different key, of a different size)
			related := map[string][]byte{
				"key+01":      append(append([]byte(nil), key...), 0x01),
				"key+16bytes": append(append([]byte(nil), key...), bytes.Repeat([]byte{0xa5}, 16)...),
				"key+key":     append(append([]byte(nil), key...), key...),
				"key-half":    append([]byte(nil), key[:len(key)/2]...),
			}
			for how, rk := range related {
				dims := []dim{{"alg", o.alg}, {"enc", o.enc}, {"ser", o.ser}, {"how", "related-key"}}
				col.seen("wrong-key-accepted:jwe", dims)
				m.Case()
				m.Count("jwe_wrong_key_trials", 1)
				if _, _, st, _ := decryptJWE(m, o.s, rk); st == "" {
					col.fail("wrong-key-accepted:jwe", "decrypt", dims, 0, map[string]interface{}{"part": "tamper", "op": "decrypt", "round": o.round, "key": o.keys[0], "related": how,
						"serialized": clip(o.s), "expect": "reject"}, "a key related to the right one (%s, %d instead of %d bytes) still decrypts", how, len(rk), len(key))
				}
			}
			for bit := 0; bit < nbits; bit++ {
				dims := []dim{{"alg", o.alg}, {"enc", o.enc}, {"ser", o.ser}, {"how", "1bit-key"}}
				col.seen("wrong-key-accepted:jwe", dims)
				m.Case()
				m.Count("jwe_wrong_key_trials", 1)
				if _, _, st, _ := decryptJWE(m, o.s, refjose.FlipBit(key, bit)); st == "" {
					col.fail("wrong-key-accepted:jwe", "decrypt", dims, bit, map[string]interface{}{"part": "tamper", "op": "decrypt", "round": o.round, "key": o.keys[0], "keybit": bit,
						"serialized": clip(o.s), "expect": "reject"}, "symmetric key with bit %d flipped still decrypts", bit)
				}
			}
		}
	})
}
