CHECK = {
    "level": "exploration",
    "engine": "rtmp-refchunker",
    "technique": "lock-step runtime comparison of the library's chunk reader against an independent RTMP 1.0 reference chunker driven by bounded-exhaustive and random decision scripts, incl. three rule-breaking stream forms; two-model rule for the listed extended-timestamp deviation",
    "level_text": "Held on the chunk streams observed: every decision script of 2 (quick) / 3 (thorough) message starts over the abstract alphabet (header type x chunk-stream class incl. all basic-header forms x timestamp/delta class x length class x chunk size x interleaving) plus thousands of random long traces (<=200 messages, <=40 chunk streams, <=4 in flight, Set Chunk Size in between, librtmp ping form, terminal rule breaks), produced by an independent specification chunker and read by the real ReadMessage under PRNG read segmentation, and a second time delivered message by message (the bytes up to the end of message k, then nothing until it has been returned: no read-ahead past a complete message). The 4x4 header-type transition matrix, basic-header forms, extended timestamps in type-3 chunks and all three fault modes are required to be observed. Not a proof.",
    "level_note": "Trusts the reference chunker/de-chunker (written from RTMP 1.0 section 5.3, DESIGN.md section 6; self-tested on every trace: its receiver must read what its sender wrote). No Abort messages. Payloads <= 70 KB.",
    "parts": [
        {"name": "exhaustive", "pkg": "rtmp", "run": "^TestVerif_C02_Exhaustive$", "timeout": {"quick": 900, "thorough": 7200}},
        {"name": "random", "pkg": "rtmp", "run": "^TestVerif_C02_Random$", "timeout": {"quick": 900, "thorough": 7200}},
    ],
    "assumptions": [
        "expected timestamps are the specification's (type 1/2 fields are deltas, type 3 re-uses the delta, after type 0 the delta is the timestamp), reduced to 31 bits",
        "an extended timestamp field is repeated in every type-3 chunk that follows a header carrying one (specification 5.3.1.3)",
    ],
}
