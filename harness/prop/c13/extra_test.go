package c13

import (
	"bufio"
	"bytes"
	"crypto/sha1"
	"encoding/base64"
	"fmt"
	"io"
	"net"
	"net/http"
	"net/http/httptest"
	"strings"
	"sync"
	"testing"
	"time"

	"github.com/ossrs/go-oryx-lib/websocket"
	"verifharness/lib/mon"
	"verifharness/lib/refws"
)

func tagged(i, n int) []byte {
	h := fmt.Sprintf("m%d:", i)
	if n < len(h) {
		n = len(h)
	}
	b := make([]byte, n)
	copy(b, h)
	for k := len(h); k < n; k++ {
		b[k] = byte('a' + (k*7+i)%26)
	}
	return b
}

// Sessions opened by a NON-library client: extension offers the library's own Dialer never sends.  The
// server speaks first; what it puts on the wire must be valid for what the 101 response negotiated.
func TestVerif_C13_RawClientOffers(t *testing.T) {
	m := mon.New("C13", "rawoffers")
	defer m.Finish(t)
	m.Rule("rawoffers: a hand-written client sends the opening handshake with Sec-WebSocket-Extensions offers {none, permessage-deflate with " +
		"every parameter subset of {server_no_context_takeover, client_no_context_takeover, server_max_window_bits[=8..15], client_max_window_bits[=N]}, " +
		"several offers in one header, unknown extensions} x Upgrader{EnableCompression on/off}; the server then sends messages of 0/10/200/70000 bytes; " +
		"oracle: 101 with the RFC accept key; every server frame valid under refws.Parser with compression = 'the response header lists " +
		"permessage-deflate'; messages equal; distinct = (offer, server compression, negotiated)")
	offers := []string{
		"", "permessage-deflate", "permessage-deflate; client_max_window_bits", "permessage-deflate; server_max_window_bits=10",
		"permessage-deflate; server_max_window_bits=15", "permessage-deflate; server_max_window_bits=8; client_max_window_bits=8",
		"permessage-deflate; server_no_context_takeover", "permessage-deflate; client_no_context_takeover; server_no_context_takeover",
		"x-webkit-deflate-frame", "foo; bar=1, permessage-deflate; client_no_context_takeover",
		"permessage-deflate; server_max_window_bits=10, permessage-deflate", "permessage-deflate; unknown_param=1", "PERMESSAGE-DEFLATE",
		"permessage-deflate; server_max_window_bits=12; server_no_context_takeover, x-unknown",
		`permessage-deflate; client_max_window_bits="10"`, `permessage-deflate; server_max_window_bits="12"; client_no_context_takeover`,
		`x-quoted; p="a, permessage-deflate; b", permessage-deflate`, `x-quoted; p="a\"b"`,
	}
	sizes := []int{0, 10, 200, 70000}
	reps := m.N(2, 20)
	for rep := 0; rep < reps; rep++ {
		for _, srvComp := range []bool{false, true} {
			for oi, offer := range offers {
				m.Case()
				info := map[string]interface{}{"offer": offer, "server_compression": srvComp}
				m.Guard("ws.rawoffers", nil, func() {
					up := websocket.Upgrader{EnableCompression: srvComp, ReadBufferSize: 1024, WriteBufferSize: 1024}
					srv := httptest.NewServer(http.HandlerFunc(func(w http.ResponseWriter, r *http.Request) {
						c, err := up.Upgrade(w, r, nil)
						if err != nil {
							return
						}
						defer c.Close()
						for i, n := range sizes {
							if c.WriteMessage(websocket.TextMessage, tagged(i, n)) != nil {
								return
							}
						}
						c.WriteControl(websocket.CloseMessage, websocket.FormatCloseMessage(1000, ""), time.Now().Add(time.Second))
						c.SetReadDeadline(time.Now().Add(2 * time.Second))
						c.ReadMessage()
					}))
					defer srv.Close()
					nc, err := net.Dial("tcp", strings.TrimPrefix(srv.URL, "http://"))
					if err != nil {
						m.Inconclusive("loopback dial failed: " + err.Error())
						return
					}
					defer nc.Close()
					key := base64.StdEncoding.EncodeToString([]byte(fmt.Sprintf("verif-key-%06d", oi*100+rep)))
					// the same request in the forms other clients and proxies give it (RFC 7230: header names in any case, a list
					// header may come as several lines or with other tokens; RFC 6455 4.2.1: the tokens compare case-insensitively)
					forms := []string{
						"Upgrade: websocket\r\nConnection: Upgrade\r\n",
						"upgrade: WebSocket\r\nconnection: keep-alive, Upgrade\r\n",
						"Connection: keep-alive\r\nConnection: Upgrade\r\nUpgrade: websocket\r\n",
						"UPGRADE: websocket\r\nCONNECTION: upgrade\r\n",
					}
					form := (oi + rep) % len(forms)
					info["header_form"] = forms[form]
					m.Count(fmt.Sprintf("handshake_header_form_%d", form), 1)
					req := "GET / HTTP/1.1\r\nHost: x\r\n" + forms[form] + "Sec-WebSocket-Version: 13\r\nSec-WebSocket-Key: " + key + "\r\n"
					if offer != "" {
						req += "Sec-WebSocket-Extensions: " + offer + "\r\n"
					}
					nc.Write([]byte(req + "\r\n"))
					nc.SetReadDeadline(time.Now().Add(5 * time.Second))
					br := bufio.NewReader(nc)
					resp, err := http.ReadResponse(br, nil)
					if err != nil || resp.StatusCode != 101 {
						m.Violationf("c13:handshake-refused:raw-client", info, "a conformant opening handshake was not accepted: %v %v", resp, err)
						return
					}
					h := sha1.Sum([]byte(key + "258EAFA5-E914-47DA-95CA-C5AB0DC85B11"))
					if resp.Header.Get("Sec-Websocket-Accept") != base64.StdEncoding.EncodeToString(h[:]) {
						m.Violationf("c13:wrong-accept", info, "Sec-WebSocket-Accept %q", resp.Header.Get("Sec-Websocket-Accept"))
						return
					}
					negotiated := strings.Contains(strings.ToLower(resp.Header.Get("Sec-Websocket-Extensions")), "permessage-deflate")
					offered := strings.Contains(strings.ToLower(offer), "permessage-deflate")
					if negotiated && !offered {
						m.Violationf("c13:extension-not-offered-but-negotiated", info, "response lists %q", resp.Header.Get("Sec-Websocket-Extensions"))
						return
					}
					m.Classf("offer%d/srvcomp%v/negotiated%v", oi, srvComp, negotiated)
					// answer the close so that the server side ends cleanly, then read to EOF
					cl := refws.Frame{Fin: true, Opcode: 8, Masked: true, Key: [4]byte{1, 2, 3, 4}, Payload: []byte{3, 232}}
					nc.Write(cl.AppendWire(nil))
					wire, _ := io.ReadAll(br)
					ps := refws.ParseLog(refws.RoleServer, negotiated, wire)
					if perr := ps.Err(); perr != nil {
						m.Violationf("c13:wire-invalid:"+perr.Code+":raw-client", info, "server frames invalid for what the handshake negotiated (extension negotiated=%v): %s %s", negotiated, perr.Code, perr.Detail)
						return
					}
					msgs := ps.Messages()
					if len(msgs) != len(sizes) {
						m.Violationf("c13:received-differs:raw-client", info, "%d messages on the wire, %d sent", len(msgs), len(sizes))
						return
					}
					for i, ev := range msgs {
						if !bytes.Equal(ev.Payload, tagged(i, sizes[i])) {
							m.Violationf("c13:received-differs:raw-client", info, "message %d differs", i)
							return
						}
						if ev.Compressed {
							m.Count("compressed_messages_seen_by_raw_client", 1)
						}
					}
					m.Count("raw_client_sessions_ok", 1)
				})
			}
		}
	}
	m.Require("raw_client_sessions_ok", int64(reps*len(offers)))
	m.Require("compressed_messages_seen_by_raw_client", 4)
}

// The server speaks first: its first frames can reach the client in the same TCP segment as the 101
// response.  Nothing may be lost on the way from Dial to the returned Conn.
func TestVerif_C13_ServerSpeaksFirst(t *testing.T) {
	m := mon.New("C13", "serverfirst")
	defer m.Finish(t)
	m.Rule("serverfirst: library Dialer against a library Upgrader whose handler sends 1..6 messages immediately after the upgrade (before reading anything); " +
		"compression on/off; the client must receive exactly those messages in order; distinct = (messages, compression, first size)")
	n := m.N(150, 5000)
	m.Require("sessions_ok", int64(n))
	var wg sync.WaitGroup
	for i := 0; i < n; i++ {
		r := m.Rand("sf", i)
		comp := r.Bool()
		k := r.Range(1, 6)
		var sz []int
		for j := 0; j < k; j++ {
			sz = append(sz, r.Pick(0, 1, 5, 125, 126, 1000, 5000))
		}
		m.Case()
		info := map[string]interface{}{"case": i, "sizes": sz, "compression": comp}
		m.Guard("ws.serverfirst", nil, func() {
			up := websocket.Upgrader{EnableCompression: comp}
			srv := httptest.NewServer(http.HandlerFunc(func(w http.ResponseWriter, req *http.Request) {
				c, err := up.Upgrade(w, req, nil)
				if err != nil {
					return
				}
				defer c.Close()
				for j, s := range sz {
					c.WriteMessage(websocket.BinaryMessage, tagged(j, s))
				}
				c.SetReadDeadline(time.Now().Add(3 * time.Second))
				c.ReadMessage() // wait for the client's goodbye
			}))
			defer srv.Close()
			d := websocket.Dialer{EnableCompression: comp}
			c, _, err := d.Dial("ws"+strings.TrimPrefix(srv.URL, "http"), nil)
			if err != nil {
				m.Violationf("c13:dial-failed:server-first", info, "%v", err)
				return
			}
			defer c.Close()
			c.SetReadDeadline(time.Now().Add(5 * time.Second))
			for j, s := range sz {
				_, p, err := c.ReadMessage()
				if err != nil {
					m.Violationf("c13:read-error:server-first", info, "message %d of %d sent right after the upgrade never arrived: %v", j, len(sz), err)
					return
				}
				if !bytes.Equal(p, tagged(j, s)) {
					m.Violationf("c13:received-differs:server-first", info, "message %d differs (%d vs %d bytes)", j, len(p), s)
					return
				}
			}
			c.WriteMessage(websocket.TextMessage, []byte("bye"))
			m.Classf("k%d/comp%v/first%d", k, comp, sz[0])
			m.Count("sessions_ok", 1)
		})
	}
	wg.Wait()
}

// NextWriter closes the previous writer if the application has not done so: the message left open
// must reach the peer complete (with what was written), also with compression.
func TestVerif_C13_ImplicitClose(t *testing.T) {
	m := mon.New("C13", "implicitclose")
	defer m.Finish(t)
	m.Rule("implicitclose: a writer obtained from NextWriter is written to (0..3 Writes) and NOT closed; the next NextWriter / WriteMessage closes it " +
		"implicitly; roles x compression on/off x sizes; the peer must receive both messages intact and in order; distinct = (role, compression, writes, next API)")
	n := m.N(300, 10000)
	m.Require("pairs_ok", int64(n))
	for i := 0; i < n; i++ {
		r := m.Rand("ic", i)
		comp := r.Bool()
		serverWrites := r.Bool()
		nw := r.Intn(4)
		nextAPI := r.Intn(2)
		first := bytes.Buffer{}
		var parts [][]byte
		for k := 0; k < nw; k++ {
			p := tagged(k, r.Pick(1, 10, 200, 2000, 5000))
			parts = append(parts, p)
			first.Write(p)
		}
		second := tagged(9, r.Pick(0, 5, 300, 4000))
		m.Case()
		info := map[string]interface{}{"case": i, "compression": comp, "server_writes": serverWrites, "writes": nw, "next_api": nextAPI}
		m.Guard("ws.implicitclose", nil, func() {
			send := func(c *websocket.Conn) error {
				w, err := c.NextWriter(websocket.TextMessage)
				if err != nil {
					return err
				}
				for _, p := range parts {
					if _, err := w.Write(p); err != nil {
						return err
					}
				}
				// no w.Close()
				if nextAPI == 0 {
					return c.WriteMessage(websocket.TextMessage, second)
				}
				w2, err := c.NextWriter(websocket.TextMessage)
				if err != nil {
					return err
				}
				if _, err := w2.Write(second); err != nil {
					return err
				}
				return w2.Close()
			}
			recv := func(c *websocket.Conn) {
				c.SetReadDeadline(time.Now().Add(5 * time.Second))
				for k, want := range [][]byte{first.Bytes(), second} {
					_, p, err := c.ReadMessage()
					if err != nil {
						m.Violationf("c13:read-error:implicit-close", info, "message %d: %v", k, err)
						return
					}
					if !bytes.Equal(p, want) {
						m.Violationf("c13:received-differs:implicit-close", info, "message %d: got %d bytes, want %d", k, len(p), len(want))
						return
					}
				}
				m.Classf("srv%v/comp%v/writes%d/api%d", serverWrites, comp, nw, nextAPI)
				m.Count("pairs_ok", 1)
			}
			done := make(chan struct{})
			up := websocket.Upgrader{EnableCompression: comp, WriteBufferSize: 512}
			srv := httptest.NewServer(http.HandlerFunc(func(w http.ResponseWriter, req *http.Request) {
				defer close(done)
				c, err := up.Upgrade(w, req, nil)
				if err != nil {
					return
				}
				defer c.Close()
				if serverWrites {
					if err := send(c); err != nil {
						m.Violationf("c13:write-error:implicit-close", info, "%v", err)
					}
					c.SetReadDeadline(time.Now().Add(3 * time.Second))
					c.ReadMessage()
				} else {
					recv(c)
				}
			}))
			defer srv.Close()
			d := websocket.Dialer{EnableCompression: comp, WriteBufferSize: 512}
			c, _, err := d.Dial("ws"+strings.TrimPrefix(srv.URL, "http"), nil)
			if err != nil {
				m.Inconclusive("dial failed: " + err.Error())
				return
			}
			if serverWrites {
				recv(c)
				c.WriteMessage(websocket.TextMessage, []byte("bye"))
			} else {
				if err := send(c); err != nil {
					m.Violationf("c13:write-error:implicit-close", info, "%v", err)
				}
			}
			select {
			case <-done:
			case <-time.After(10 * time.Second):
				m.Inconclusive("watchdog: server handler did not finish")
			}
			c.Close()
		})
	}
}
