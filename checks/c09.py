CHECK = {
    "level": "exploration",
    "engine": "flv-file",
    "technique": "runtime monitor over PRNG-generated FLV files: library muxer output compared byte for byte with an independent FLV v1 writer and read by an independent strict parser; library demuxer run over library-written and reference-written files through a segmenting reader",
    "level_text": "Held on the executions observed: thousands (quick) to 10^5 (thorough) generated files - all 4 header-flag combinations, 0..12 tags with boundary sizes (0, 1, 255, 256, 65535, 65536, a fixed few 2^24-1), boundary timestamps (0, 2^24-1, 2^24, 2^24+1, 2^31, 2^32-1, random), arbitrary type bytes - pushed through the real Muxer and Demuxer (bodies handed to the muxer as windows of a larger buffer with a canary in the spare capacity; every body returned by the demuxer kept and re-examined after all later reads), with counters taken from what the demuxer returned showing which size/timestamp/type/segmentation classes were reached. Not a proof; sequences, sizes and segmentations outside the generator's pools are not covered.",
    "level_note": "Trusts the harness's reference writer/parser (refflv, written from Annex E as summarised in DESIGN.md section 6) as the definition of the layout, the segmenting reader, and Go's runtime. Only whole files are fed (no truncated streams - that is C08), the muxer writes into an in-memory buffer that never fails, 2^24-1-byte bodies appear in 2 (quick) / 24 (thorough) files and are not read 1 byte at a time. 'No further tag after the last one' is asserted as part of 'returned in order ... identical'; the kind of error that reports the end is only counted.",
    "parts": [
        {"name": "files", "pkg": "verifharness/prop/c09", "run": "^TestVerif_C09_Files$",
         "timeout": {"quick": 600, "thorough": 3600}},
        {"name": "sizesweep", "pkg": "verifharness/prop/c09", "run": "^TestVerif_C09_SizeSweep$",
         "timeout": {"quick": 600, "thorough": 3600}},
        {"name": "longfile", "pkg": "verifharness/prop/c09", "run": "^TestVerif_C09_LongFile$",
         "timeout": {"quick": 600, "thorough": 3600}},
    ],
    "assumptions": [
        "the FLV v1 layout is the one in DESIGN.md section 6: tag type is a whole byte, flags use bits 0 and 2 only, stream id 0, PreviousTagSize = 11 + data size",
        "a read segmentation is any sequence of short reads a conforming io.Reader may produce (including the last bytes arriving together with io.EOF); zero-length reads are not produced",
    ],
}
