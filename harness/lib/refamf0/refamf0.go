// Package refamf0 is an independent AMF0 encoder/decoder written from
// amf0_spec_121207 (not from the library), an abstract value tree, and generators.
// It is the oracle for C05/C06 and a grammar source for C03/C07.
package refamf0

import (
	"encoding/binary"
	"errors"
	"fmt"
	"math"
	"strings"

	"verifharness/lib/vrand"
)

type Kind int

const (
	Number Kind = iota
	Boolean
	String
	Object
	Null
	Undefined
	Ecma
	Strict
)

func (k Kind) String() string {
	return [...]string{"num", "bool", "str", "obj", "null", "undef", "ecma", "strict"}[k]
}

type Prop struct {
	Key string
	Val *Value
}

type Value struct {
	Kind  Kind
	Num   float64
	Bool  bool
	Str   string
	Props []Prop   // Object, Ecma (in order; duplicates possible in grammar mode)
	Count uint32   // Ecma: the count field as written (a hint)
	Items []*Value // Strict
}

// Marker bytes from the specification §2.1.
const (
	mNumber      = 0x00
	mBoolean     = 0x01
	mString      = 0x02
	mObject      = 0x03
	mNull        = 0x05
	mUndefined   = 0x06
	mEcma        = 0x08
	mObjectEnd   = 0x09
	mStrictArray = 0x0a
)

func putUTF8(b []byte, s string) []byte {
	b = append(b, byte(len(s)>>8), byte(len(s)))
	return append(b, s...)
}

// Encode appends the specification's encoding of v.
func Encode(b []byte, v *Value) []byte { return encode(b, v, 1) }

// EncodeTrueAs is Encode with the Boolean true payload byte written as t (the specification: any non-zero byte is true).
func EncodeTrueAs(b []byte, v *Value, t byte) []byte { return encode(b, v, t) }

func encode(b []byte, v *Value, tb byte) []byte {
	switch v.Kind {
	case Number:
		b = append(b, mNumber)
		var t [8]byte
		binary.BigEndian.PutUint64(t[:], math.Float64bits(v.Num))
		return append(b, t[:]...)
	case Boolean:
		if v.Bool {
			return append(b, mBoolean, tb)
		}
		return append(b, mBoolean, 0)
	case String:
		b = append(b, mString)
		return putUTF8(b, v.Str)
	case Null:
		return append(b, mNull)
	case Undefined:
		return append(b, mUndefined)
	case Object, Ecma:
		if v.Kind == Object {
			b = append(b, mObject)
		} else {
			b = append(b, mEcma, byte(v.Count>>24), byte(v.Count>>16), byte(v.Count>>8), byte(v.Count))
		}
		for _, p := range v.Props {
			b = putUTF8(b, p.Key)
			b = encode(b, p.Val, tb)
		}
		return append(b, 0, 0, mObjectEnd)
	case Strict:
		n := uint32(len(v.Items))
		b = append(b, mStrictArray, byte(n>>24), byte(n>>16), byte(n>>8), byte(n))
		for _, it := range v.Items {
			b = encode(b, it, tb)
		}
		return b
	}
	panic("bad kind")
}

// EncodeKeyedStrict is "specification + the library's one listed deviation": strict arrays
// are written as count followed by count (key, value) pairs with keys "0","1",….  Used only
// by the two-model rule for the known finding on the strict-array layout.
func EncodeKeyedStrict(b []byte, v *Value, keys func(i int) string) []byte {
	switch v.Kind {
	case Object, Ecma:
		if v.Kind == Object {
			b = append(b, mObject)
		} else {
			b = append(b, mEcma, byte(v.Count>>24), byte(v.Count>>16), byte(v.Count>>8), byte(v.Count))
		}
		for _, p := range v.Props {
			b = putUTF8(b, p.Key)
			b = EncodeKeyedStrict(b, p.Val, keys)
		}
		return append(b, 0, 0, mObjectEnd)
	case Strict:
		n := uint32(len(v.Items))
		b = append(b, mStrictArray, byte(n>>24), byte(n>>16), byte(n>>8), byte(n))
		for i, it := range v.Items {
			b = putUTF8(b, keys(i))
			b = EncodeKeyedStrict(b, it, keys)
		}
		return b
	}
	return Encode(b, v)
}

var ErrShort = errors.New("refamf0: short input")

type ErrMarker struct{ M byte }

func (e ErrMarker) Error() string { return fmt.Sprintf("refamf0: unsupported marker 0x%02x", e.M) }

const maxDepth = 10000

// Decode reads one value per the specification; returns the value and bytes consumed.
func Decode(b []byte) (*Value, int, error) { return decode(b, 0) }

// DecodeKeyedStrict reads with the library's strict-array deviation (keyed items).
func DecodeKeyedStrict(b []byte) (*Value, int, error) { return decodeK(b, 0, true) }

func decode(b []byte, depth int) (*Value, int, error) { return decodeK(b, depth, false) }

func decodeK(b []byte, depth int, keyed bool) (*Value, int, error) {
	if depth > maxDepth {
		return nil, 0, errors.New("refamf0: too deep")
	}
	if len(b) < 1 {
		return nil, 0, ErrShort
	}
	switch b[0] {
	case mNumber:
		if len(b) < 9 {
			return nil, 0, ErrShort
		}
		return &Value{Kind: Number, Num: math.Float64frombits(binary.BigEndian.Uint64(b[1:]))}, 9, nil
	case mBoolean:
		if len(b) < 2 {
			return nil, 0, ErrShort
		}
		return &Value{Kind: Boolean, Bool: b[1] != 0}, 2, nil
	case mString:
		if len(b) < 3 {
			return nil, 0, ErrShort
		}
		n := int(b[1])<<8 | int(b[2])
		if len(b) < 3+n {
			return nil, 0, ErrShort
		}
		return &Value{Kind: String, Str: string(b[3 : 3+n])}, 3 + n, nil
	case mNull:
		return &Value{Kind: Null}, 1, nil
	case mUndefined:
		return &Value{Kind: Undefined}, 1, nil
	case mObject, mEcma:
		v := &Value{Kind: Object}
		off := 1
		if b[0] == mEcma {
			if len(b) < 5 {
				return nil, 0, ErrShort
			}
			v.Kind = Ecma
			v.Count = binary.BigEndian.Uint32(b[1:])
			off = 5
		}
		for {
			if len(b) < off+3 {
				return nil, 0, ErrShort
			}
			n := int(b[off])<<8 | int(b[off+1])
			if n == 0 && b[off+2] == mObjectEnd {
				return v, off + 3, nil
			}
			if len(b) < off+2+n {
				return nil, 0, ErrShort
			}
			key := string(b[off+2 : off+2+n])
			off += 2 + n
			val, used, err := decodeK(b[off:], depth+1, keyed)
			if err != nil {
				return nil, 0, err
			}
			off += used
			v.Props = append(v.Props, Prop{key, val})
		}
	case mStrictArray:
		if len(b) < 5 {
			return nil, 0, ErrShort
		}
		n := binary.BigEndian.Uint32(b[1:])
		v := &Value{Kind: Strict}
		off := 5
		for i := uint32(0); i < n; i++ {
			if keyed {
				if len(b) < off+2 {
					return nil, 0, ErrShort
				}
				k := int(b[off])<<8 | int(b[off+1])
				if len(b) < off+2+k {
					return nil, 0, ErrShort
				}
				off += 2 + k
			}
			if off >= len(b) {
				return nil, 0, ErrShort
			}
			val, used, err := decodeK(b[off:], depth+1, keyed)
			if err != nil {
				return nil, 0, err
			}
			off += used
			v.Items = append(v.Items, val)
		}
		return v, off, nil
	}
	return nil, 0, ErrMarker{b[0]}
}

// Equal compares trees; numbers by bit pattern.  ecmaCount: also compare the ECMA count hint.
func Equal(a, b *Value, ecmaCount bool) bool {
	if a.Kind != b.Kind {
		return false
	}
	switch a.Kind {
	case Number:
		return math.Float64bits(a.Num) == math.Float64bits(b.Num)
	case Boolean:
		return a.Bool == b.Bool
	case String:
		return a.Str == b.Str
	case Object, Ecma:
		if a.Kind == Ecma && ecmaCount && a.Count != b.Count {
			return false
		}
		if len(a.Props) != len(b.Props) {
			return false
		}
		for i := range a.Props {
			if a.Props[i].Key != b.Props[i].Key || !Equal(a.Props[i].Val, b.Props[i].Val, ecmaCount) {
				return false
			}
		}
	case Strict:
		if len(a.Items) != len(b.Items) {
			return false
		}
		for i := range a.Items {
			if !Equal(a.Items[i], b.Items[i], ecmaCount) {
				return false
			}
		}
	}
	return true
}

// Describe renders a short structural description for samples.
func (v *Value) Describe() string {
	var sb strings.Builder
	v.describe(&sb, 0)
	s := sb.String()
	if len(s) > 300 {
		s = s[:300] + "…"
	}
	return s
}

func (v *Value) describe(sb *strings.Builder, d int) {
	if sb.Len() > 320 {
		return
	}
	switch v.Kind {
	case Number:
		fmt.Fprintf(sb, "num(%016x)", math.Float64bits(v.Num))
	case Boolean:
		fmt.Fprintf(sb, "%v", v.Bool)
	case String:
		if len(v.Str) > 12 {
			fmt.Fprintf(sb, "str[%d]", len(v.Str))
		} else {
			fmt.Fprintf(sb, "%q", v.Str)
		}
	case Null:
		sb.WriteString("null")
	case Undefined:
		sb.WriteString("undef")
	case Object, Ecma:
		if v.Kind == Ecma {
			fmt.Fprintf(sb, "ecma#%d{", v.Count)
		} else {
			sb.WriteString("{")
		}
		for i, p := range v.Props {
			if i > 0 {
				sb.WriteString(",")
			}
			if len(p.Key) > 10 {
				fmt.Fprintf(sb, "key[%d]:", len(p.Key))
			} else {
				fmt.Fprintf(sb, "%q:", p.Key)
			}
			p.Val.describe(sb, d+1)
		}
		sb.WriteString("}")
	case Strict:
		sb.WriteString("[")
		for i, it := range v.Items {
			if i > 0 {
				sb.WriteString(",")
			}
			it.describe(sb, d+1)
		}
		sb.WriteString("]")
	}
}

// Shape is a coarse class signature: kinds present, max depth bucket, flags.
func (v *Value) Shape() string {
	var kinds [8]bool
	maxd, dup, emptyKey, longStr, nan := 0, false, false, false, false
	var walk func(x *Value, d int)
	walk = func(x *Value, d int) {
		kinds[x.Kind] = true
		if d > maxd {
			maxd = d
		}
		switch x.Kind {
		case Number:
			if x.Num != x.Num {
				nan = true
			}
		case String:
			if len(x.Str) > 255 {
				longStr = true
			}
		case Object, Ecma:
			seen := map[string]bool{}
			for _, p := range x.Props {
				if seen[p.Key] {
					dup = true
				}
				seen[p.Key] = true
				if p.Key == "" {
					emptyKey = true
				}
				walk(p.Val, d+1)
			}
		case Strict:
			for _, it := range x.Items {
				walk(it, d+1)
			}
		}
	}
	walk(v, 0)
	s := ""
	for k, b := range kinds {
		if b {
			s += Kind(k).String()[:2]
		}
	}
	return fmt.Sprintf("%s/d%d/dup%v/ek%v/ls%v/nan%v", s, maxd, dup, emptyKey, longStr, nan)
}

// GenOpts controls the generator.
type GenOpts struct {
	MaxDepth   int
	MaxWidth   int
	DupKeys    bool // allow repeated keys inside one object (grammar mode; not buildable as "a tree with keys in order" through Set)
	EmptyKeys  bool // allow "" keys
	Strict     bool // allow strict arrays
	BigStrings bool // allow strings up to 65535
	NoEndKey   bool // never generate a property that reads as the end marker: key "" with value starting 0x09 cannot occur anyway (no value starts with 9)
}

func genString(r *vrand.Rand, big bool) string {
	var n int
	switch r.Intn(10) {
	case 0:
		n = 0
	case 1:
		n = 1
	case 2:
		if big {
			n = r.Pick(255, 256, 65535, 65534, 4096)
		} else {
			n = r.Pick(255, 256)
		}
	default:
		n = r.Intn(24)
	}
	b := r.Bytes(n)
	if r.Chance(2, 3) { // mostly printable, sometimes raw bytes incl. non-UTF-8 and NUL
		for i := range b {
			b[i] = "abcdefghijklmnopqrstuvwxyzABCDEFXYZ0123456789_-./ é"[int(b[i])%52]
		}
	}
	return string(b)
}

func genKey(r *vrand.Rand, o GenOpts, used map[string]bool) string {
	for try := 0; ; try++ {
		var k string
		switch r.Intn(12) {
		case 0:
			if o.EmptyKeys {
				k = ""
			} else {
				k = "k"
			}
		case 1:
			k = string(r.Bytes(r.Range(1, 6)))
		case 2:
			k = genString(r, false)
		case 3:
			k = fmt.Sprint(r.Intn(5))
		case 4:
			// names that differ only by trailing NUL bytes or case: a table keyed by a padded or folded name confuses them
			k = []string{"id", "id\x00", "id\x00\x00", "Id", "ID", "duration\x00", "a\x00b"}[r.Intn(7)]
		case 5:
			// names around the one-byte boundary of their length (the length prefix has two bytes) and, rarely, the longest
			n := r.Pick(254, 255, 256, 257)
			if o.BigStrings && r.Chance(1, 8) {
				n = r.Pick(65534, 65535)
			}
			b := make([]byte, n)
			for i := range b {
				b[i] = byte('a' + (i+n)%26)
			}
			k = string(b)
		default:
			k = []string{"app", "tcUrl", "duration", "width", "height", "videocodecid", "audiocodecid", "level", "code", "description", "objectEncoding", "fmsVer", "capabilities", "a", "b", "c"}[r.Intn(16)]
		}
		if !o.EmptyKeys && k == "" {
			continue
		}
		if used[k] && !(o.DupKeys && r.Chance(1, 2)) {
			if try < 20 {
				continue
			}
			k = fmt.Sprintf("%s~%d", k, len(used))
			if used[k] {
				continue
			}
		}
		used[k] = true
		return k
	}
}

// Gen produces a random value tree.
func Gen(r *vrand.Rand, o GenOpts) *Value { return gen(r, o, 0) }

func gen(r *vrand.Rand, o GenOpts, depth int) *Value {
	k := r.Intn(11)
	if depth >= o.MaxDepth && k >= 6 {
		k = r.Intn(6)
	}
	switch k {
	case 0, 1:
		return &Value{Kind: Number, Num: r.FloatBits()}
	case 2:
		return &Value{Kind: Boolean, Bool: r.Bool()}
	case 3:
		return &Value{Kind: String, Str: genString(r, o.BigStrings && r.Chance(1, 6))}
	case 4:
		return &Value{Kind: Null}
	case 5:
		return &Value{Kind: Undefined}
	case 6, 7, 8:
		v := &Value{Kind: Object}
		if k == 8 {
			v.Kind = Ecma
		}
		n := r.Intn(o.MaxWidth + 1)
		if r.Chance(1, 4) {
			n = r.Intn(3)
		}
		used := map[string]bool{}
		for i := 0; i < n; i++ {
			key := genKey(r, o, used)
			v.Props = append(v.Props, Prop{key, gen(r, o, depth+1)})
		}
		if v.Kind == Ecma {
			switch r.Intn(4) {
			case 0:
				v.Count = uint32(len(v.Props))
			case 1:
				v.Count = 0
			case 2:
				v.Count = r.Uint32()
			default:
				v.Count = uint32(r.Intn(20))
			}
		}
		return v
	default:
		if !o.Strict {
			return &Value{Kind: Number, Num: float64(r.Intn(100))}
		}
		v := &Value{Kind: Strict}
		n := r.Intn(o.MaxWidth + 1)
		for i := 0; i < n; i++ {
			v.Items = append(v.Items, gen(r, o, depth+1))
		}
		return v
	}
}

// HasStrict reports whether the tree contains a strict array (and a non-empty one).
func (v *Value) HasStrict() (any, nonEmpty bool) {
	switch v.Kind {
	case Strict:
		any = true
		nonEmpty = len(v.Items) > 0
		for _, it := range v.Items {
			a, n := it.HasStrict()
			any, nonEmpty = any || a, nonEmpty || n
		}
	case Object, Ecma:
		for _, p := range v.Props {
			a, n := p.Val.HasStrict()
			any, nonEmpty = any || a, nonEmpty || n
		}
	}
	return
}

// HasDupKeys reports whether some object in the tree repeats a key.
func (v *Value) HasDupKeys() bool {
	switch v.Kind {
	case Object, Ecma:
		seen := map[string]bool{}
		for _, p := range v.Props {
			if seen[p.Key] || p.Val.HasDupKeys() {
				return true
			}
			seen[p.Key] = true
		}
	case Strict:
		for _, it := range v.Items {
			if it.HasDupKeys() {
				return true
			}
		}
	}
	return false
}

// OnMetaData builds an FFmpeg/Flash-style metadata ECMA array (count possibly ≠ pairs).
func OnMetaData(r *vrand.Rand) *Value {
	v := &Value{Kind: Ecma}
	add := func(k string, val *Value) { v.Props = append(v.Props, Prop{k, val}) }
	num := func(f float64) *Value { return &Value{Kind: Number, Num: f} }
	add("duration", num(r.Float64()*1000))
	add("width", num(float64(r.Pick(640, 1280, 1920))))
	add("height", num(float64(r.Pick(360, 720, 1080))))
	add("videodatarate", num(r.Float64()*5000))
	add("framerate", num(float64(r.Pick(25, 30, 60))))
	add("videocodecid", num(7))
	add("audiocodecid", num(10))
	add("stereo", &Value{Kind: Boolean, Bool: r.Bool()})
	add("encoder", &Value{Kind: String, Str: "Lavf58.29.100"})
	if r.Bool() {
		kf := &Value{Kind: Object}
		times := &Value{Kind: Strict}
		pos := &Value{Kind: Strict}
		for i := 0; i < r.Intn(6); i++ {
			times.Items = append(times.Items, num(float64(i)*2))
			pos.Items = append(pos.Items, num(float64(i)*100000))
		}
		kf.Props = []Prop{{"times", times}, {"filepositions", pos}}
		add("keyframes", kf)
	}
	add("filesize", num(float64(r.Intn(1<<30))))
	switch r.Intn(3) {
	case 0:
		v.Count = uint32(len(v.Props))
	case 1:
		v.Count = 0
	default:
		v.Count = uint32(len(v.Props) + r.Intn(5))
	}
	return v
}
