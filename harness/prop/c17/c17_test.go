// C17 — comment stripping never changes what a JSON document means (black-box).
//
// The harness owns the whole pipeline on the input side: it generates a JSON value, serialises
// it token by token (choosing the escape form of every string character itself) and decorates
// the token boundaries with whitespace, `//…\n` and `/*…*/` comments.  It therefore knows both
// texts — decorated and undecorated — without ever having to strip a comment itself.  The
// oracle is the standard decoder on the undecorated text.
package c17

import (
	"bytes"
	stdjson "encoding/json"
	"fmt"
	"io"
	"io/ioutil"
	"reflect"
	"sort"
	"strings"
	"sync"
	"testing"
	"unicode/utf8"

	oj "github.com/ossrs/go-oryx-lib/json"
	"verifharness/lib/mon"
	"verifharness/lib/vrand"
)

// ---------------------------------------------------------------------------------------------
// value trees

const (
	kNull = iota
	kTrue
	kFalse
	kNum
	kStr
	kArr
	kObj
)

type node struct {
	k    int
	num  string
	str  string
	kids []*node
	keys []string
}

type docOpts struct {
	quoteMode int // 0: strings contain no '"'; 1: '"' always "; 2: '"' always \"; 3: mixed
	density   int // 0: comment-free; 1: light; 2: heavy; 3: comments only, no whitespace
}

var hostile = []string{"\"", "\\", "/", "*", "'", "\n"}
var hostileSeq = []string{"//", "/*", "*/", "\\\"", "*/ //", "/**/", "\\\\", "\\n", "'\"'", "\"//", "\"/*", "// \"", "\\/"}
var plainChars = []string{"a", "b", "z", "0", "7", " ", " ", "_", "-", ":", ",", "{", "}", "[", "]"}
var oddChars = []string{"\t", "\r", "\b", "\f", "\x01", "\x1f", "\x7f", "\u00e9", "\u6f22", "\u2028", "\u2029", "\U0001F600", "\ufeff"}

func genChunk(r *vrand.Rand, noQuote bool) string {
	var s string
	switch x := r.Intn(100); {
	case x < 50:
		s = hostile[r.Intn(len(hostile))]
	case x < 68:
		s = hostileSeq[r.Intn(len(hostileSeq))]
	case x < 90:
		s = plainChars[r.Intn(len(plainChars))]
	default:
		s = oddChars[r.Intn(len(oddChars))]
	}
	if noQuote {
		s = strings.Replace(s, "\"", "'", -1)
	}
	return s
}

func genStr(r *vrand.Rand, o *docOpts) string {
	var n int
	switch x := r.Intn(100); {
	case x < 10:
		n = 0
	case x < 70:
		n = r.Range(1, 8)
	case x < 95:
		n = r.Range(9, 40)
	default:
		n = r.Range(41, 300)
	}
	var b strings.Builder
	for i := 0; i < n; i++ {
		b.WriteString(genChunk(r, o.quoteMode == 0))
	}
	return b.String()
}

var numPool = []string{"0", "-0", "1", "-1", "7", "42", "-273", "12.5", "0.1", "-0.001", "1e5", "1E+2", "-3.25E-2", "2e-7",
	"9007199254740993", "-9223372036854775808", "18446744073709551615", "123456789012345678901234567890", "1.7976931348623157e308", "5e-324", "0.0", "0e0"}

func genNum(r *vrand.Rand) string {
	if r.Chance(1, 2) {
		return numPool[r.Intn(len(numPool))]
	}
	s := fmt.Sprint(r.Intn(100000))
	if r.Chance(1, 3) {
		s = "-" + s
	}
	if r.Chance(1, 3) {
		s += "." + fmt.Sprint(r.Intn(1000))
	}
	if r.Chance(1, 5) {
		s += []string{"e", "E", "e+", "e-", "E-"}[r.Intn(5)] + fmt.Sprint(r.Intn(20))
	}
	return s
}

func genNode(r *vrand.Rand, o *docOpts, depth, maxDepth int) *node {
	container := depth < maxDepth && r.Chance(5-depth+1, 9)
	if !container {
		switch x := r.Intn(10); {
		case x < 1:
			return &node{k: kNull}
		case x < 2:
			return &node{k: kTrue}
		case x < 3:
			return &node{k: kFalse}
		case x < 5:
			return &node{k: kNum, num: genNum(r)}
		default:
			return &node{k: kStr, str: genStr(r, o)}
		}
	}
	w := r.Range(0, 5)
	if r.Bool() {
		n := &node{k: kArr}
		for i := 0; i < w; i++ {
			n.kids = append(n.kids, genNode(r, o, depth+1, maxDepth))
		}
		return n
	}
	n := &node{k: kObj}
	for i := 0; i < w; i++ {
		key := genStr(r, o)
		if len(key) > 24 {
			key = key[:24]
			for !utf8.ValidString(key) {
				key = key[:len(key)-1]
			}
		}
		n.keys = append(n.keys, key)
		n.kids = append(n.kids, genNode(r, o, depth+1, maxDepth))
	}
	return n
}

func depthOf(n *node) int {
	d := 0
	for _, k := range n.kids {
		if x := depthOf(k) + 1; x > d {
			d = x
		}
	}
	return d
}

// ---------------------------------------------------------------------------------------------
// tokens and the decorating serialiser

type tok struct {
	text  string
	isStr bool
}

type feat struct {
	escQ          int // `\"` escape sequences inside string literals
	markerInStr   int // string literals whose raw text contains // /* or */
	apostInStr    int
	bsBeforeClose int // string literals ending in `\\"`
	line, block   int
	empty         int
	adjacent      int
	finalNoNL     bool
	maxGap        int
	size          int
}

func hex4(r *vrand.Rand, c rune) string {
	s := fmt.Sprintf("\\u%04x", c)
	if r.Bool() {
		s = "\\u" + strings.ToUpper(s[2:])
	}
	return s
}

func uEsc(r *vrand.Rand, c rune) string {
	if c >= 0x10000 {
		c -= 0x10000
		return hex4(r, 0xd800+(c>>10)) + hex4(r, 0xdc00+(c&0x3ff))
	}
	return hex4(r, c)
}

// encodeStr chooses the JSON escape form of every character itself.
func encodeStr(r *vrand.Rand, o *docOpts, s string, f *feat) string {
	var b strings.Builder
	b.WriteByte('"')
	for _, c := range s {
		switch {
		case c == '"':
			esc := o.quoteMode == 2 || (o.quoteMode == 3 && r.Bool())
			if esc {
				b.WriteString("\\\"")
				f.escQ++
			} else {
				b.WriteString(uEsc(r, c))
			}
		case c == '\\':
			if r.Chance(4, 5) {
				b.WriteString("\\\\")
			} else {
				b.WriteString(uEsc(r, c))
			}
		case c == '/':
			switch x := r.Intn(20); {
			case x < 12:
				b.WriteByte('/')
			case x < 17:
				b.WriteString("\\/")
			default:
				b.WriteString(uEsc(r, c))
			}
		case c == '\n' || c == '\t' || c == '\r' || c == '\b' || c == '\f':
			if r.Chance(7, 10) {
				b.WriteString(map[rune]string{'\n': "\\n", '\t': "\\t", '\r': "\\r", '\b': "\\b", '\f': "\\f"}[c])
			} else {
				b.WriteString(uEsc(r, c))
			}
		case c < 0x20:
			b.WriteString(uEsc(r, c))
		default:
			if r.Chance(1, 8) {
				b.WriteString(uEsc(r, c))
			} else {
				b.WriteRune(c)
			}
		}
	}
	b.WriteByte('"')
	lit := b.String()
	inner := lit[1 : len(lit)-1]
	if strings.Contains(inner, "//") || strings.Contains(inner, "/*") || strings.Contains(inner, "*/") {
		f.markerInStr++
	}
	if strings.Contains(inner, "'") {
		f.apostInStr++
	}
	if strings.HasSuffix(inner, "\\\\") {
		f.bsBeforeClose++
	}
	return lit
}

func tokens(r *vrand.Rand, o *docOpts, n *node, f *feat, out []tok) []tok {
	switch n.k {
	case kNull:
		return append(out, tok{text: "null"})
	case kTrue:
		return append(out, tok{text: "true"})
	case kFalse:
		return append(out, tok{text: "false"})
	case kNum:
		return append(out, tok{text: n.num})
	case kStr:
		return append(out, tok{text: encodeStr(r, o, n.str, f), isStr: true})
	case kArr:
		out = append(out, tok{text: "["})
		for i, k := range n.kids {
			if i > 0 {
				out = append(out, tok{text: ","})
			}
			out = tokens(r, o, k, f, out)
		}
		return append(out, tok{text: "]"})
	default:
		out = append(out, tok{text: "{"})
		for i, k := range n.kids {
			if i > 0 {
				out = append(out, tok{text: ","})
			}
			out = append(out, tok{text: encodeStr(r, o, n.keys[i], f), isStr: true})
			out = append(out, tok{text: ":"})
			out = tokens(r, o, k, f, out)
		}
		return append(out, tok{text: "}"})
	}
}

// commentBody draws a comment body from the hostile alphabet.  A line body has no newline, a block body no "*/".
func commentBody(r *vrand.Rand, block bool) string {
	var n int
	switch x := r.Intn(10); {
	case x < 2:
		n = 0
	case x < 8:
		n = r.Range(1, 10)
	default:
		n = r.Range(11, 80)
	}
	var b strings.Builder
	for i := 0; i < n; i++ {
		b.WriteString(genChunk(r, false))
	}
	s := b.String()
	if block {
		for strings.Contains(s, "*/") {
			s = strings.Replace(s, "*/", "* /", -1)
		}
	} else {
		s = strings.Replace(s, "\n", "\r", -1)
	}
	return s
}

type emitter struct {
	dec, plain bytes.Buffer
	ends       []int // offsets in dec right after a string literal or a comment
	f          *feat
	lastWasCmt bool
}

func (e *emitter) ws(s string) {
	e.dec.WriteString(s)
	e.plain.WriteString(s)
	e.lastWasCmt = false
}

func (e *emitter) token(t tok) {
	e.dec.WriteString(t.text)
	e.plain.WriteString(t.text)
	if t.isStr {
		e.ends = append(e.ends, e.dec.Len())
	}
	e.lastWasCmt = false
}

func (e *emitter) comment(block bool, body string, terminated bool) {
	if e.lastWasCmt {
		e.f.adjacent++
	}
	if block {
		e.dec.WriteString("/*" + body + "*/")
		e.f.block++
	} else {
		e.dec.WriteString("//" + body)
		if terminated {
			e.dec.WriteString("\n")
		} else {
			e.f.finalNoNL = true
		}
		e.f.line++
	}
	if body == "" {
		e.f.empty++
	}
	e.ends = append(e.ends, e.dec.Len())
	e.lastWasCmt = true
}

var wsPool = []string{" ", " ", "\n", "\t", "\r\n", "  ", "\n\t", " \n "}

func (e *emitter) deco(r *vrand.Rand, o *docOpts, final bool) {
	var p int // per-mille probability of decorating this boundary
	switch o.density {
	case 0:
		p = 250
	case 1:
		p = 200
	case 2:
		p = 700
	default:
		p = 500
	}
	if r.Intn(1000) < p {
		k := 1
		for k < 4 && r.Chance(2, 5) {
			k++
		}
		for i := 0; i < k; i++ {
			x := r.Intn(10)
			switch {
			case o.density == 0 || (o.density != 3 && x < 4):
				e.ws(wsPool[r.Intn(len(wsPool))])
			case x < 7:
				e.comment(false, commentBody(r, false), true)
			default:
				e.comment(true, commentBody(r, true), true)
			}
		}
	}
	if final && o.density != 0 && r.Chance(3, 10) {
		e.comment(false, commentBody(r, false), false)
	}
}

func emit(r *vrand.Rand, o *docOpts, toks []tok, f *feat) (dec, plain []byte) {
	e := &emitter{f: f}
	e.deco(r, o, false)
	for i, t := range toks {
		e.token(t)
		e.deco(r, o, i == len(toks)-1)
	}
	finishFeat(e)
	return e.dec.Bytes(), e.plain.Bytes()
}

func finishFeat(e *emitter) {
	prev := 0
	e.f.maxGap = 0
	for _, x := range append(e.ends, e.dec.Len()) {
		if x-prev > e.f.maxGap {
			e.f.maxGap = x - prev
		}
		prev = x
	}
	e.f.size = e.dec.Len()
}

// ---------------------------------------------------------------------------------------------
// read segmentation

type segReader struct {
	data        []byte
	cuts        []int // sorted offsets at which a Read must stop
	pos, ci     int
	eofWithData bool
}

func (s *segReader) Read(p []byte) (int, error) {
	if s.pos >= len(s.data) {
		return 0, io.EOF
	}
	if len(p) == 0 {
		return 0, nil
	}
	for s.ci < len(s.cuts) && s.cuts[s.ci] <= s.pos {
		s.ci++
	}
	end := len(s.data)
	if s.ci < len(s.cuts) && s.cuts[s.ci] < end {
		end = s.cuts[s.ci]
	}
	n := end - s.pos
	if n > len(p) {
		n = len(p)
	}
	copy(p, s.data[s.pos:s.pos+n])
	s.pos += n
	if s.pos >= len(s.data) && s.eofWithData {
		return n, io.EOF
	}
	return n, nil
}

const (
	segWhole = iota
	segByte
	segRandom
	segMarker
)

var segNames = []string{"whole", "1byte", "random", "marker-boundary"}

// coarse: the library re-scans the pending region after every Read, so the cost of a case is
// (region length x number of reads); for regions of many KiB the number of reads is kept bounded.
func makeSeg(kind int, data []byte, r *vrand.Rand, coarse bool) *segReader {
	s := &segReader{data: data, eofWithData: r.Bool()}
	switch kind {
	case segByte:
		s.cuts = make([]int, 0, len(data))
		for i := 1; i < len(data); i++ {
			s.cuts = append(s.cuts, i)
		}
	case segRandom:
		max := 1 + len(data)/4
		if max > 8192 {
			max = 8192
		}
		small := r.Bool() && !coarse
		for p := 0; p < len(data); {
			if coarse {
				p += r.Range(512, 8192)
				s.cuts = append(s.cuts, p)
				continue
			}
			if small {
				p += r.Range(1, 7)
			} else {
				p += r.Range(1, max)
			}
			s.cuts = append(s.cuts, p)
		}
	case segMarker:
		// a read boundary between the two bytes of (most) two-byte markers and escape pairs
		for i := 0; i+1 < len(data); i++ {
			a, b := data[i], data[i+1]
			if (a == '/' && (b == '/' || b == '*')) || (a == '*' && b == '/') || (a == '\\' && (b == '"' || b == '\\')) ||
				(a == '"' && b == '/') || (a == '/' && b == '"') {
				if r.Chance(3, 4) {
					s.cuts = append(s.cuts, i+1)
				}
			}
		}
		if coarse && len(s.cuts) > 96 {
			p := r.Perm(len(s.cuts))[:96]
			sort.Ints(p)
			c := make([]int, 0, 96)
			for _, i := range p {
				c = append(c, s.cuts[i])
			}
			s.cuts = c
		}
	}
	return s
}

// ---------------------------------------------------------------------------------------------
// oracle

// decodeStd is the standard decoder over a complete text (trailing non-space data is an error).
func decodeStd(b []byte, useNumber bool) (interface{}, error) {
	d := stdjson.NewDecoder(bytes.NewReader(b))
	if useNumber {
		d.UseNumber()
	}
	var v interface{}
	if err := d.Decode(&v); err != nil {
		return nil, err
	}
	if _, err := d.Token(); err != io.EOF {
		return nil, fmt.Errorf("trailing data after the value (%v)", err)
	}
	return v, nil
}

type viol struct {
	sig, detail string
	replay      interface{}
}

type caseOut struct {
	viols []viol
}

func scopeOf(f *feat) string {
	var s []string
	if f.escQ > 0 {
		s = append(s, "escaped-quote")
	}
	if f.maxGap >= 65000 {
		s = append(s, "region>64K")
	}
	if len(s) == 0 {
		return ""
	}
	return ":" + strings.Join(s, "+")
}

func errClass(err error) string {
	s := err.Error()
	switch {
	case strings.Contains(s, "token too long"):
		return "token-too-long"
	case strings.Contains(s, "comment not match"):
		return "comment-not-match"
	}
	return mon.PanicClass(s)
}

func clip(b []byte) interface{} {
	if len(b) <= 3000 {
		return string(b)
	}
	return map[string]interface{}{"len": len(b), "head": string(b[:600]), "tail": string(b[len(b)-200:])}
}

// checkDoc runs one (decorated, plain) pair through the library under the given segmentations.
// valid=false: the undecorated text is rejected by the standard decoder; only error-ness is compared.
func checkDoc(m *mon.M, out *caseOut, r *vrand.Rand, label string, idx int, dec, plain []byte, f *feat, segs []int) {
	scope := scopeOf(f)
	coarse := f.maxGap > 16384
	want, wantErr := decodeStd(plain, true)
	wantF, wantFErr := decodeStd(plain, false) // may fail alone: a number token outside float64
	add := func(sig string, seg int, format string, a ...interface{}) {
		rep := map[string]interface{}{"label": label, "case": idx, "segmentation": segNames[seg], "decorated": clip(dec),
			"undecorated": clip(plain), "escaped_quotes": f.escQ, "max_region": f.maxGap, "size": f.size}
		out.viols = append(out.viols, viol{sig + scope, fmt.Sprintf(format, a...) + fmt.Sprintf(" [seg=%s size=%d escq=%d maxregion=%d] input=%q",
			segNames[seg], f.size, f.escQ, f.maxGap, clipS(dec)), rep})
	}
	for _, seg := range segs {
		m.Count("seg_"+segNames[seg], 1)
		m.Guard("json.NewJsonPlusReader", nil, func() {
			// (1) raw bytes, then the standard decoder over them
			got, rerr := ioutil.ReadAll(oj.NewJsonPlusReader(makeSeg(seg, dec, r, coarse)))
			if wantErr != nil {
				// invalid document: only error-ness
				m.Count("invalid_docs_checked", 1)
				if rerr == nil {
					if _, derr := decodeStd(got, true); derr == nil {
						add("c17:invalid-accepted", seg, "standard decoder rejects the undecorated text (%v) but the stripped text decodes", wantErr)
					}
				}
				return
			}
			if rerr != nil {
				add("c17:reader-error:"+errClass(rerr), seg, "reading through NewJsonPlusReader failed: %v", rerr)
			} else {
				v, derr := decodeStd(got, true)
				if derr != nil {
					add("c17:decode-error", seg, "stripped text no longer decodes: %v; stripped=%q", derr, clipS(got))
				} else if !reflect.DeepEqual(v, want) {
					add("c17:value-differs", seg, "stripped text decodes to another value; stripped=%q", clipS(got))
				}
				if f.line+f.block == 0 && !bytes.Equal(got, dec) {
					add("c17:not-byte-for-byte", seg, "comment-free document changed on its way through the reader; got=%q", clipS(got))
				}
			}
			// (2) the library's own Unmarshal
			var lv interface{}
			uerr := oj.Unmarshal(makeSeg(seg, dec, r, coarse), &lv)
			if wantFErr != nil {
				if uerr == nil {
					add("c17:unmarshal-accepts-what-std-rejects", seg, "standard decoder: %v", wantFErr)
				}
			} else if uerr != nil {
				cls := "decode"
				if c := errClass(uerr); c == "token-too-long" || c == "comment-not-match" {
					cls = c
				}
				add("c17:unmarshal-error:"+cls, seg, "json.Unmarshal(reader) failed: %v", uerr)
			} else if !reflect.DeepEqual(lv, wantF) {
				add("c17:unmarshal-value-differs", seg, "json.Unmarshal(reader) produced another value: %s", clipS([]byte(fmt.Sprintf("%#v", lv))))
			}
		})
	}
	if wantErr != nil {
		return
	}
	// (3) the undecorated text is itself a comment-free document: byte for byte
	if f.line+f.block > 0 {
		seg := segs[len(segs)-1]
		m.Count("comment_free_passthrough", 1)
		m.Guard("json.NewJsonPlusReader", nil, func() {
			got, rerr := ioutil.ReadAll(oj.NewJsonPlusReader(makeSeg(seg, plain, r, coarse)))
			pf := *f
			pf.line, pf.block = 0, 0
			if rerr != nil {
				out.viols = append(out.viols, viol{"c17:reader-error:" + errClass(rerr) + scope, fmt.Sprintf("comment-free text: %v input=%q", rerr, clipS(plain)),
					map[string]interface{}{"label": label, "case": idx, "segmentation": segNames[seg], "decorated": clip(plain)}})
			} else if !bytes.Equal(got, plain) {
				out.viols = append(out.viols, viol{"c17:not-byte-for-byte" + scope, fmt.Sprintf("comment-free document changed on its way through the reader; in=%q got=%q", clipS(plain), clipS(got)),
					map[string]interface{}{"label": label, "case": idx, "segmentation": segNames[seg], "decorated": clip(plain)}})
			}
		})
	} else {
		m.Count("comment_free_passthrough", 1)
	}
}

func clipS(b []byte) string {
	if len(b) <= 160 {
		return string(b)
	}
	return string(b[:100]) + fmt.Sprintf("…(%d bytes)…", len(b)) + string(b[len(b)-40:])
}

// replayOnly: under `check.py --replay` only the recorded case of the recorded part is run (-1: normal run,
// -2: the replay belongs to another part).  Mandatory minimums are not declared in replay mode.
func replayOnly(m *mon.M, label string) int {
	v, ok := m.ReplayField("case").(float64)
	if !ok {
		return -1
	}
	if lab, _ := m.ReplayField("label").(string); lab == label || strings.HasPrefix(lab, label+"/") {
		return int(v)
	}
	return -2
}

func require(m *mon.M, only int, name string, min int64) {
	if only == -1 {
		m.Require(name, min)
	}
}

// collector keeps, per signature, the witness of the lowest case index and a count, so that the
// result is the same whatever the goroutine interleaving and memory stays bounded on a defective tree.
type collector struct {
	mu sync.Mutex
	e  map[string]*collEntry
}

type collEntry struct {
	idx, seq, n int
	v           viol
}

func (c *collector) flush(idx int, out *caseOut) {
	if len(out.viols) == 0 {
		return
	}
	c.mu.Lock()
	defer c.mu.Unlock()
	if c.e == nil {
		c.e = map[string]*collEntry{}
	}
	for seq, v := range out.viols {
		e := c.e[v.sig]
		if e == nil {
			c.e[v.sig] = &collEntry{idx: idx, seq: seq, n: 1, v: v}
			continue
		}
		e.n++
		if idx < e.idx {
			e.idx, e.seq, e.v = idx, seq, v
		}
	}
}

func (c *collector) report(m *mon.M) {
	var es []*collEntry
	for _, e := range c.e {
		es = append(es, e)
	}
	sort.Slice(es, func(i, j int) bool {
		if es[i].idx != es[j].idx {
			return es[i].idx < es[j].idx
		}
		return es[i].seq < es[j].seq
	})
	for _, e := range es {
		for k := 0; k < e.n; k++ {
			m.Violation(e.v.sig, e.v.detail, e.v.replay)
		}
	}
}

func sizeBucket(n int) string {
	switch {
	case n < 64:
		return "<64"
	case n < 1024:
		return "<1K"
	case n < 16384:
		return "<16K"
	case n < 65536:
		return "<64K"
	}
	return ">=64K"
}

func b2i(b bool) int {
	if b {
		return 1
	}
	return 0
}

func countFeat(m *mon.M, f *feat, valid bool) {
	m.Count("documents", 1)
	if f.escQ > 0 {
		m.Count("docs_with_escaped_quote", 1)
	} else {
		m.Count("docs_without_escaped_quote", 1)
		if f.markerInStr > 0 {
			m.Count("docs_marker_in_string_no_escaped_quote", 1)
		}
	}
	if f.bsBeforeClose > 0 {
		m.Count("docs_string_ending_in_backslash", 1)
	}
	if f.apostInStr > 0 {
		m.Count("docs_apostrophe_in_string", 1)
	}
	if f.line+f.block == 0 {
		m.Count("comment_free_docs", 1)
	}
	if f.finalNoNL {
		m.Count("final_line_comment_without_newline", 1)
	}
	if f.empty > 0 {
		m.Count("docs_with_empty_comment", 1)
	}
	if f.adjacent > 0 {
		m.Count("docs_with_adjacent_comments", 1)
	}
	m.Count("line_comments", int64(f.line))
	m.Count("block_comments", int64(f.block))
	if f.maxGap >= 65000 {
		m.Count("docs_region_over_64K", 1)
	}
	if !valid {
		m.Count("invalid_docs", 1)
	}
}

// ---------------------------------------------------------------------------------------------
// (a) random documents

func mutate(r *vrand.Rand, toks []tok) []tok {
	out := append([]tok(nil), toks...)
	switch r.Intn(5) {
	case 0: // truncate
		if len(out) > 1 {
			out = out[:r.Range(1, len(out)-1)]
		} else {
			out = append(out, tok{text: ","})
		}
	case 1: // drop a structural token
		var idx []int
		for i, t := range out {
			if !t.isStr && strings.ContainsAny(t.text, "[]{}:,") && len(t.text) == 1 {
				idx = append(idx, i)
			}
		}
		if len(idx) == 0 {
			return append(out, tok{text: "]"})
		}
		i := idx[r.Intn(len(idx))]
		out = append(out[:i], out[i+1:]...)
	case 2: // bare word
		i := r.Intn(len(out) + 1)
		out = append(out[:i], append([]tok{{text: []string{"nul", "tru", "NaN", "x", "01", "+1", ".5", "1."}[r.Intn(8)]}}, out[i:]...)...)
	case 3: // doubled comma / colon
		i := r.Intn(len(out) + 1)
		out = append(out[:i], append([]tok{{text: []string{",", ":"}[r.Intn(2)]}}, out[i:]...)...)
	default: // a second top-level value
		out = append(out, tok{text: []string{"1", "[]", "null", "{}"}[r.Intn(4)]})
	}
	return out
}

func TestVerif_C17_Documents(t *testing.T) {
	m := mon.New("C17", "documents")
	defer m.Finish(t)
	m.Rule("PRNG JSON values (depth<=5, width<=5; strings and keys from an alphabet of \" \\ / * ' newline, the sequences // /* */ \\\" and controls/non-ASCII; " +
		"every character's escape form chosen by the harness, incl. \\\" vs \\u0022, \\/ and \\\\ before the closing quote), serialised token by token and decorated at token boundaries " +
		"with whitespace, //…\\n and /*…*/ comments (bodies from the same alphabet; empty, adjacent, final // without newline); 4 decoration densities incl. comment-free; " +
		"segmentations whole / 1 byte / random / boundary inside markers; 4% invalid documents (error-ness only). distinct = size bucket x density x quote mode x observed features x depth")
	n := m.N(30000, 2000000)
	only := replayOnly(m, "doc")
	require(m, only, "evaluations", int64(n))
	require(m, only, "docs_with_escaped_quote", int64(n/20))
	require(m, only, "docs_marker_in_string_no_escaped_quote", int64(n/20))
	require(m, only, "docs_string_ending_in_backslash", int64(n/50))
	require(m, only, "final_line_comment_without_newline", int64(n/50))
	require(m, only, "docs_with_empty_comment", int64(n/50))
	require(m, only, "docs_with_adjacent_comments", int64(n/50))
	require(m, only, "comment_free_docs", int64(n/50))
	require(m, only, "seg_1byte", int64(n/2))
	require(m, only, "seg_marker-boundary", int64(n/2))
	require(m, only, "invalid_docs_checked", int64(n/100))
	coll := &collector{}
	mon.Parallel(n, func(w, i int) {
		if only != -1 && i != only {
			return
		}
		var out caseOut
		defer coll.flush(i, &out)
		r := m.Rand("doc", i)
		o := &docOpts{}
		switch x := r.Intn(100); {
		case x < 40:
			o.quoteMode = 0
		case x < 55:
			o.quoteMode = 1
		case x < 85:
			o.quoteMode = 2
		default:
			o.quoteMode = 3
		}
		switch x := r.Intn(100); {
		case x < 15:
			o.density = 0
		case x < 45:
			o.density = 1
		case x < 85:
			o.density = 2
		default:
			o.density = 3
		}
		f := &feat{}
		tree := genNode(r, o, 0, r.Range(0, 5))
		toks := tokens(r, o, tree, f, nil)
		valid := true
		if r.Chance(1, 25) {
			toks = mutate(r, toks)
			valid = false
		}
		dec, plain := emit(r, o, toks, f)
		_, perr := decodeStd(plain, true)
		if valid && perr != nil {
			out.viols = append(out.viols, viol{"harness:c17:own-text-rejected", fmt.Sprintf("%v: %q", perr, clipS(plain)), nil})
			return
		}
		if !valid && perr == nil {
			valid = true // the mutation happened to produce a valid document; check it as one
		}
		m.Case()
		countFeat(m, f, valid)
		m.Classf("size%s/dens%d/q%d/escq%d/mis%d/bs%d/fin%d/empty%d/adj%d/depth%d/valid%d", sizeBucket(f.size), o.density, o.quoteMode, b2i(f.escQ > 0),
			b2i(f.markerInStr > 0), b2i(f.bsBeforeClose > 0), b2i(f.finalNoNL), b2i(f.empty > 0), b2i(f.adjacent > 0), depthOf(tree), b2i(valid))
		if m.WantSample() && f.size < 300 && f.line+f.block > 1 {
			m.Sample(map[string]interface{}{"decorated": string(dec), "undecorated": string(plain)})
		}
		segs := []int{segWhole, segByte, segRandom, segMarker}
		checkDoc(m, &out, r, "doc", i, dec, plain, f, segs)
	})
	coll.report(m)
}

// ---------------------------------------------------------------------------------------------
// (b) large documents: up to 256 KiB, with and without a marker-free region over 64 KiB

func TestVerif_C17_Large(t *testing.T) {
	m := mon.New("C17", "large")
	defer m.Finish(t)
	m.Rule("documents of 64..256 KiB without escaped quotes: (dense) arrays of short strings/numbers with comments everywhere (every region small), " +
		"(mid) one region of 20..60 KiB, (long-string / long-number-array / long-comment / long-whitespace) one region of 70..200 KiB without any quote or comment marker; " +
		"segmentations whole / random / marker-boundary (+1 byte for the dense kind). distinct = kind x size bucket x segmentation")
	n := m.N(48, 3000)
	only := replayOnly(m, "large")
	require(m, only, "evaluations", int64(n))
	require(m, only, "docs_region_over_64K", int64(n/3))
	require(m, only, "docs_dense_over_64K_total", int64(n/8))
	kinds := []string{"dense", "mid", "long-string", "long-number-array", "long-comment", "long-whitespace"}
	coll := &collector{}
	mon.Parallel(n, func(w, i int) {
		if only != -1 && i != only {
			return
		}
		var out caseOut
		defer coll.flush(i, &out)
		r := m.Rand("large", i)
		kind := kinds[i%len(kinds)]
		o := &docOpts{quoteMode: r.Pick(0, 1), density: 2}
		f := &feat{}
		e := &emitter{f: f}
		small := func() tok {
			if r.Bool() {
				return tok{text: genNum(r)}
			}
			return tok{text: encodeStr(r, o, genStr(r, o), f), isStr: true}
		}
		// the special element
		var special func()
		regionLen := 0
		switch kind {
		case "mid":
			regionLen = r.Range(20000, 60000)
		case "dense":
		default:
			regionLen = r.Range(70000, 200000)
		}
		lo := 66000
		if regionLen+8000 > lo {
			lo = regionLen + 8000
		}
		target := r.Range(lo, 258000) // whole document: 64..~256 KiB
		noQ := &docOpts{quoteMode: 0}
		switch kind {
		case "long-string", "mid":
			special = func() {
				// regionLen counts the bytes of the literal as written (escapes included)
				var b strings.Builder
				b.WriteByte('"')
				for b.Len() < regionLen {
					lit := encodeStr(r, noQ, genChunk(r, true), f)
					b.WriteString(lit[1 : len(lit)-1])
				}
				b.WriteByte('"')
				e.token(tok{text: b.String(), isStr: true})
			}
		case "long-number-array":
			special = func() {
				e.token(tok{text: "["})
				start := e.dec.Len()
				for j := 0; e.dec.Len()-start < regionLen; j++ {
					if j > 0 {
						e.token(tok{text: ","})
						if r.Chance(1, 10) {
							e.ws(wsPool[r.Intn(len(wsPool))])
						}
					}
					e.token(tok{text: genNum(r)})
				}
				e.token(tok{text: "]"})
			}
		case "long-comment":
			special = func() {
				var b strings.Builder
				for b.Len() < regionLen {
					b.WriteString(genChunk(r, false))
				}
				body := b.String()
				blk := r.Bool()
				if blk {
					for strings.Contains(body, "*/") {
						body = strings.Replace(body, "*/", "* /", -1)
					}
				} else {
					body = strings.Replace(body, "\n", " ", -1)
				}
				e.comment(blk, body, true)
				e.token(tok{text: "null"})
			}
		case "long-whitespace":
			special = func() {
				w := wsPool[r.Intn(len(wsPool))]
				e.ws(strings.Repeat(w, regionLen/len(w)))
				e.token(tok{text: "0"})
			}
		}
		// outer array of small elements, the special element somewhere inside
		count := 0
		specialAt := -1
		if special != nil {
			specialAt = r.Intn(50)
		}
		e.deco(r, o, false)
		e.token(tok{text: "["})
		for first := true; e.dec.Len() < target || count <= specialAt; count++ {
			if !first {
				e.token(tok{text: ","})
			}
			first = false
			e.deco(r, o, false)
			if count == specialAt {
				special()
			} else {
				e.token(small())
			}
			e.deco(r, o, false)
		}
		e.token(tok{text: "]"})
		e.deco(r, o, true)
		finishFeat(e)
		dec, plain := e.dec.Bytes(), e.plain.Bytes()
		if _, perr := decodeStd(plain, true); perr != nil {
			out.viols = append(out.viols, viol{"harness:c17:own-text-rejected", fmt.Sprintf("%s: %v", kind, perr), nil})
			return
		}
		m.Case()
		countFeat(m, f, true)
		if kind == "dense" && f.size >= 65536 {
			m.Count("docs_dense_over_64K_total", 1)
		}
		segs := []int{segWhole, segRandom, segMarker}
		if f.maxGap <= 4096 {
			segs = append(segs, segByte)
		}
		m.Classf("%s/size%dK/region%dK", kind, f.size/32768*32, f.maxGap/16384*16)
		checkDoc(m, &out, r, "large/"+kind, i, dec, plain, f, segs)
	})
	coll.report(m)
}

// ---------------------------------------------------------------------------------------------
// (c) every short string over the hostile alphabet, in every context, with fixed decorations

func TestVerif_C17_ShortStrings(t *testing.T) {
	m := mon.New("C17", "shortstrings")
	defer m.Finish(t)
	m.Exhaustive(true)
	m.Rule("exhaustive: every string of length 0..L over {\" \\ / * ' newline a} (L=4 quick, 5 thorough) x quote encoding {\\\", \\u0022} x context " +
		"{array element, object value, object key, followed by another string} x decoration {none, block comments around, line comments around, final // without newline, quotes inside comments}; " +
		"whole and 1-byte segmentation; enumerated in order of length so the first witness of a signature is a shortest one")
	alpha := []string{"\"", "\\", "/", "*", "'", "\n", "a"}
	enc := func(s string, escQuote bool) (string, int) {
		var b strings.Builder
		n := 0
		b.WriteByte('"')
		for _, c := range s {
			switch c {
			case '"':
				if escQuote {
					b.WriteString("\\\"")
					n++
				} else {
					b.WriteString("\\u0022")
				}
			case '\\':
				b.WriteString("\\\\")
			case '\n':
				b.WriteString("\\n")
			default:
				b.WriteRune(c)
			}
		}
		b.WriteByte('"')
		return b.String(), n
	}
	L := m.N(4, 5)
	var strs []string
	level := []string{""}
	strs = append(strs, "")
	for l := 1; l <= L; l++ {
		var next []string
		for _, p := range level {
			for _, a := range alpha {
				next = append(next, p+a)
			}
		}
		strs = append(strs, next...)
		level = next
	}
	type ctx struct{ name, pre, post string }
	ctxs := []ctx{{"elem", "[", "]"}, {"value", "{\"k\":", ",\"n\":1}"}, {"key", "{", ":1}"}, {"then-string", "[", ",\"t//*/\"]"}}
	type decoT struct{ name, a, b, end string }
	decos := []decoT{{"none", "", "", ""}, {"block", "/*c*/", "/*d*/", ""}, {"line", "//c\n", "//d\n", ""}, {"final", "", "", "//e"}, {"quotes-in-comments", "/*\"*/", "//'\"\n", ""}}
	type job struct {
		s    string
		esc  bool
		c    ctx
		d    decoT
		lit  string
		nesc int
	}
	var jobs []job
	for _, s := range strs {
		for _, esc := range []bool{true, false} {
			if !esc && !strings.Contains(s, "\"") {
				continue
			}
			lit, nesc := enc(s, esc)
			for _, c := range ctxs {
				for _, d := range decos {
					jobs = append(jobs, job{s, esc, c, d, lit, nesc})
				}
			}
		}
	}
	only := replayOnly(m, "short")
	require(m, only, "evaluations", int64(len(jobs)))
	coll := &collector{}
	mon.Parallel(len(jobs), func(w, i int) {
		if only != -1 && i != only {
			return
		}
		var out caseOut
		defer coll.flush(i, &out)
		j := jobs[i]
		r := m.Rand("short", i)
		dec := []byte(j.c.pre + j.d.a + j.lit + j.d.b + j.c.post + j.d.end)
		plain := []byte(j.c.pre + j.lit + j.c.post)
		f := &feat{escQ: j.nesc, size: len(dec), maxGap: len(dec)}
		if j.d.name != "none" {
			f.line, f.block = 1, 1
		}
		if _, perr := decodeStd(plain, true); perr != nil {
			out.viols = append(out.viols, viol{"harness:c17:own-text-rejected", fmt.Sprintf("%v: %q", perr, plain), nil})
			return
		}
		m.Case()
		m.Count("documents", 1)
		if j.nesc > 0 {
			m.Count("docs_with_escaped_quote", 1)
		} else {
			m.Count("docs_without_escaped_quote", 1)
		}
		m.Classf("len%d/%s/%s/escq%d", utf8.RuneCountInString(j.s), j.c.name, j.d.name, b2i(j.nesc > 0))
		checkDoc(m, &out, r, "short", i, dec, plain, f, []int{segWhole, segByte})
	})
	coll.report(m)
}
