package c07

import (
	"fmt"
	"reflect"
	"testing"

	"github.com/ossrs/go-oryx-lib/aac"
	"github.com/ossrs/go-oryx-lib/avc"
	"github.com/ossrs/go-oryx-lib/flv"
	"github.com/ossrs/go-oryx-lib/https/crypto/ocsp"
	"github.com/ossrs/go-oryx-lib/rtmp"
	"verifharness/lib/mon"
)

// Every method of every exported integer-kinded named type, over the whole range of the
// underlying type (256 / 65536 values; the int-kinded ocsp status over -300..70000).
func TestVerif_C07_Enums(t *testing.T) {
	m := mon.New("C07", "enums")
	defer m.Finish(t)
	m.Rule("enums: every method (value and pointer receiver) of every exported integer-kinded named type of aac, avc, flv, rtmp, ocsp called " +
		"by reflection on every value of the underlying type; one-argument methods whose argument is another enum are called with all 256 argument " +
		"values for 16 receiver values; a panic is a violation; distinct = type.method")
	m.Exhaustive(true)
	types := []interface{}{
		aac.ObjectType(0), aac.Profile(0), aac.SampleRateIndex(0), aac.Channels(0),
		avc.NALRefIDC(0), avc.NALUType(0), avc.AVCProfile(0), avc.AVCLevel(0),
		flv.TagType(0), flv.AudioFrameTrait(0), flv.AudioChannels(0), flv.AudioSampleBits(0), flv.AudioSamplingRate(0), flv.AudioCodec(0),
		flv.VideoFrameType(0), flv.VideoCodec(0), flv.VideoFrameTrait(0),
		rtmp.MessageType(0), rtmp.LimitType(0), rtmp.EventType(0),
		ocsp.ResponseStatus(0),
	}
	for _, zero := range types {
		t0 := reflect.TypeOf(zero)
		lo, hi := int64(0), int64(255)
		switch t0.Kind() {
		case reflect.Uint16:
			hi = 65535
		case reflect.Int, reflect.Int32, reflect.Int64:
			lo, hi = -300, 70000
		case reflect.Uint8:
		default:
			m.Inconclusive("unexpected kind for " + t0.String())
			continue
		}
		pt := reflect.PtrTo(t0)
		nmeth := 0
		for mi := 0; mi < pt.NumMethod(); mi++ {
			meth := pt.Method(mi)
			nin := meth.Type.NumIn() - 1
			if nin > 1 {
				continue
			}
			nmeth++
			name := t0.String() + "." + meth.Name
			m.Class(name)
			for v := lo; v <= hi; v++ {
				recv := reflect.New(t0)
				if t0.Kind() == reflect.Uint8 || t0.Kind() == reflect.Uint16 {
					recv.Elem().SetUint(uint64(v))
				} else {
					recv.Elem().SetInt(v)
				}
				if nin == 0 {
					m.Case()
					m.Guard(name, nil, func() { recv.Method(mi).Call(nil) })
					if m.Counter("x") < 0 {
						return
					}
					continue
				}
				at := meth.Type.In(1)
				if at.Kind() != reflect.Uint8 || v > 15 {
					continue
				}
				for a := 0; a < 256; a++ {
					arg := reflect.New(at).Elem()
					arg.SetUint(uint64(a))
					m.Case()
					m.Guard(fmt.Sprintf("%s(%s)", name, at.String()), nil, func() { recv.Method(mi).Call([]reflect.Value{arg}) })
				}
			}
		}
		m.Count("methods_swept", int64(nmeth))
		m.Count("types_swept", 1)
	}
	m.Require("types_swept", int64(len(types)))
	m.Require("methods_swept", 20)
}
