// Package refadts is an independent ADTS frame writer and bit extractor written
// from ISO/IEC 13818-7 §6.2 (adts_fixed_header, adts_variable_header,
// adts_error_check) and the first two bytes of the ISO/IEC 14496-3 §1.6.2.1
// AudioSpecificConfig -- never from the library under test.  It is the oracle
// for C11 and a frame source for C07/C10.
//
// Layout of one adts_frame() with a single raw_data_block (bit positions, msb first):
//
//	syncword                          12  '1111 1111 1111'
//	ID                                 1  1 = MPEG-2 AAC (13818-7), 0 = MPEG-4 (14496-3)
//	layer                              2  '00'
//	protection_absent                  1  1 = no CRC
//	profile / profile_ObjectType       2  0 Main, 1 LC, 2 SSR, 3 reserved (MPEG-4: LTP)
//	sampling_frequency_index           4
//	private_bit                        1
//	channel_configuration              3
//	original/copy                      1
//	home                               1
//	copyright_identification_bit       1
//	copyright_identification_start     1
//	aac_frame_length                  13  bytes, header and error check included
//	adts_buffer_fullness              11
//	number_of_raw_data_blocks_in_frame 2  blocks minus one
//	[crc_check                        16] iff protection_absent == 0
//	raw_data_block()
package refadts

import (
	"errors"
	"fmt"
)

// Frequencies is Table 35 of 13818-7 / Table 1.16 of 14496-3, by sampling_frequency_index.
var Frequencies = [13]int{96000, 88200, 64000, 48000, 44100, 32000, 24000, 22050, 16000, 12000, 11025, 8000, 7350}

// Frequency returns the table frequency of an index, ok=false for the reserved/escape values 13..15 and anything above.
func Frequency(index int) (hz int, ok bool) {
	if index < 0 || index >= len(Frequencies) {
		return 0, false
	}
	return Frequencies[index], true
}

// MaxFrameLength is the largest value of the 13-bit aac_frame_length field.
const MaxFrameLength = 1<<13 - 1

// Header holds every field of the fixed and variable ADTS header.
type Header struct {
	MPEG2            bool // ID bit: true = '1' (MPEG-2), false = '0' (MPEG-4)
	Layer            int  // 2 bits, always 0 in a conformant stream
	ProtectionAbsent bool // true = 7-byte header, false = a 16-bit CRC follows (9 bytes)
	Profile          int  // 2 bits
	SamplingIndex    int  // 4 bits
	Private          bool
	Channels         int // 3 bits
	Original         bool
	Home             bool
	CopyrightBit     bool
	CopyrightStart   bool
	FrameLength      int // 13 bits (filled in by WriteFrame; reported by Parse)
	Fullness         int // 11 bits
	Blocks           int // number_of_raw_data_blocks_in_frame: 2 bits (blocks - 1)
	CRC              uint16
}

// HeaderSize is 7 without and 9 with the CRC.
func (h *Header) HeaderSize() int {
	if h.ProtectionAbsent {
		return 7
	}
	return 9
}

type bitWriter struct {
	buf  []byte
	nbit int
}

func (w *bitWriter) put(v uint32, n int) {
	for i := n - 1; i >= 0; i-- {
		if w.nbit%8 == 0 {
			w.buf = append(w.buf, 0)
		}
		if v>>uint(i)&1 == 1 {
			w.buf[len(w.buf)-1] |= 0x80 >> uint(w.nbit%8)
		}
		w.nbit++
	}
}

func b2u(b bool) uint32 {
	if b {
		return 1
	}
	return 0
}

// headerBits writes the 56 header bits with the given aac_frame_length.
func headerBits(h *Header, frameLength int) []byte {
	w := &bitWriter{}
	w.put(0xfff, 12)
	w.put(b2u(h.MPEG2), 1)
	w.put(uint32(h.Layer), 2)
	w.put(b2u(h.ProtectionAbsent), 1)
	w.put(uint32(h.Profile), 2)
	w.put(uint32(h.SamplingIndex), 4)
	w.put(b2u(h.Private), 1)
	w.put(uint32(h.Channels), 3)
	w.put(b2u(h.Original), 1)
	w.put(b2u(h.Home), 1)
	w.put(b2u(h.CopyrightBit), 1)
	w.put(b2u(h.CopyrightStart), 1)
	w.put(uint32(frameLength), 13)
	w.put(uint32(h.Fullness), 11)
	w.put(uint32(h.Blocks), 2)
	return w.buf
}

// CRC16 is the generator of 13818-7 §6.2.3 / 11172-3: x^16 + x^15 + x^2 + 1, register preset to all ones,
// fed msb first with the first nbits bits of data.
func CRC16(crc uint16, data []byte, nbits int) uint16 {
	for i := 0; i < nbits; i++ {
		var bit uint16
		if i/8 < len(data) {
			bit = uint16(data[i/8]>>uint(7-i%8)) & 1
		}
		msb := crc >> 15 & 1
		crc <<= 1
		if msb^bit == 1 {
			crc ^= 0x8005
		}
	}
	return crc
}

// FrameCRC computes crc_check over the whole header and the first 192 bits of the raw data block, zero-padded
// (the protected region of a block that consists of one single-channel syntactic element).  For arbitrary
// payloads that are not parseable as syntactic elements this is the best-defined value; a decoder that does not
// verify the CRC (the statement does not require it) is indifferent to it.
func FrameCRC(header7 []byte, raw []byte) uint16 {
	c := CRC16(0xffff, header7, 56)
	return CRC16(c, raw, 192)
}

// WriteFrame appends one adts_frame() holding raw as its single raw data block.  aac_frame_length is
// header size + CRC + len(raw); it must fit 13 bits.  If h.ProtectionAbsent is false and autoCRC is set the
// CRC is computed with FrameCRC, else h.CRC is written as given.
func WriteFrame(dst []byte, h Header, raw []byte, autoCRC bool) ([]byte, error) {
	if h.Profile < 0 || h.Profile > 3 || h.SamplingIndex < 0 || h.SamplingIndex > 15 || h.Channels < 0 || h.Channels > 7 ||
		h.Fullness < 0 || h.Fullness > 0x7ff || h.Blocks < 0 || h.Blocks > 3 || h.Layer < 0 || h.Layer > 3 {
		return dst, fmt.Errorf("refadts: field out of range: %+v", h)
	}
	n := h.HeaderSize() + len(raw)
	if n > MaxFrameLength {
		return dst, fmt.Errorf("refadts: frame of %d bytes does not fit aac_frame_length", n)
	}
	hb := headerBits(&h, n)
	dst = append(dst, hb...)
	if !h.ProtectionAbsent {
		crc := h.CRC
		if autoCRC {
			crc = FrameCRC(hb, raw)
		}
		dst = append(dst, byte(crc>>8), byte(crc))
	}
	return append(dst, raw...), nil
}

type bitReader struct {
	buf []byte
	pos int
}

func (r *bitReader) get(n int) uint32 {
	var v uint32
	for i := 0; i < n; i++ {
		v = v<<1 | uint32(r.buf[r.pos/8]>>uint(7-r.pos%8))&1
		r.pos++
	}
	return v
}

var (
	ErrShort  = errors.New("refadts: truncated")
	ErrSync   = errors.New("refadts: no syncword")
	ErrLength = errors.New("refadts: aac_frame_length smaller than the header")
)

// Parse extracts the header of the frame at the start of data and returns its raw data block and the rest.
func Parse(data []byte) (h Header, raw, rest []byte, err error) {
	if len(data) < 7 {
		return h, nil, nil, ErrShort
	}
	r := &bitReader{buf: data}
	if r.get(12) != 0xfff {
		return h, nil, nil, ErrSync
	}
	h.MPEG2 = r.get(1) == 1
	h.Layer = int(r.get(2))
	h.ProtectionAbsent = r.get(1) == 1
	h.Profile = int(r.get(2))
	h.SamplingIndex = int(r.get(4))
	h.Private = r.get(1) == 1
	h.Channels = int(r.get(3))
	h.Original = r.get(1) == 1
	h.Home = r.get(1) == 1
	h.CopyrightBit = r.get(1) == 1
	h.CopyrightStart = r.get(1) == 1
	h.FrameLength = int(r.get(13))
	h.Fullness = int(r.get(11))
	h.Blocks = int(r.get(2))
	hs := h.HeaderSize()
	if len(data) < hs {
		return h, nil, nil, ErrShort
	}
	if !h.ProtectionAbsent {
		h.CRC = uint16(r.get(16))
	}
	if h.FrameLength < hs {
		return h, nil, nil, ErrLength
	}
	if len(data) < h.FrameLength {
		return h, nil, nil, ErrShort
	}
	return h, data[hs:h.FrameLength], data[h.FrameLength:], nil
}

// ---- AudioSpecificConfig, first two bytes --------------------------------------------------

// ASC is audioObjectType(5) samplingFrequencyIndex(4) channelConfiguration(4) followed by three bits that
// belong to the object-specific configuration (GASpecificConfig: frameLengthFlag, dependsOnCoreCoder,
// extensionFlag) and are not interpreted here.
type ASC struct {
	ObjectType    int // 5 bits
	SamplingIndex int // 4 bits
	Channels      int // 4 bits
	Tail          int // 3 bits
}

func (a ASC) Bytes() [2]byte {
	v := uint16(a.ObjectType&0x1f)<<11 | uint16(a.SamplingIndex&0x0f)<<7 | uint16(a.Channels&0x0f)<<3 | uint16(a.Tail&0x07)
	return [2]byte{byte(v >> 8), byte(v)}
}

func ParseASC(b0, b1 byte) ASC {
	v := uint16(b0)<<8 | uint16(b1)
	return ASC{ObjectType: int(v >> 11), SamplingIndex: int(v >> 7 & 0x0f), Channels: int(v >> 3 & 0x0f), Tail: int(v & 0x07)}
}

// ASCDefinedMask masks the 13 bits the two-byte layout defines.
const ASCDefinedMask = 0xfff8

// Audio object types of 14496-3 Table 1.1 that the property's accepted set names.
const (
	AOTMain = 1
	AOTLC   = 2
	AOTSSR  = 3
	AOTSBR  = 5  // HE-AAC
	AOTPS   = 29 // HE-AAC v2
)

// Accepted is the property's accepted set: object {Main, LC, SSR, HE, HEv2} x index 1..12 x channels 1..7.
func Accepted(a ASC) bool {
	switch a.ObjectType {
	case AOTMain, AOTLC, AOTSSR, AOTSBR, AOTPS:
	default:
		return false
	}
	return a.SamplingIndex >= 1 && a.SamplingIndex <= 12 && a.Channels >= 1 && a.Channels <= 7
}

// ADTSProfile is the 2-bit profile an ADTS header carries for an object type of the accepted set:
// profile_ObjectType = audio object type - 1 for Main/LC/SSR; SBR and PS are signalled implicitly on top of an
// LC core, so HE and HEv2 streams carry the LC profile.
func ADTSProfile(objectType int) (int, bool) {
	switch objectType {
	case AOTMain:
		return 0, true
	case AOTLC, AOTSBR, AOTPS:
		return 1, true
	case AOTSSR:
		return 2, true
	}
	return 0, false
}
