// instrument: the step-counter source pass.  For every non-test .go file of the given
// repo package directories it inserts a call to steps.Tick() as the first statement of
// every function / function-literal body and of every for / range body, adds the import,
// writes the result under -out and prints a JSON object {original path: instrumented path}
// for use in a `go build -overlay` file.  Nothing under the repo is modified.
package main

import (
	"bytes"
	"encoding/json"
	"flag"
	"fmt"
	"go/ast"
	"go/parser"
	"go/printer"
	"go/token"
	"os"
	"path/filepath"
	"strings"
)

const alias = "verifsteps"

func tickStmt() ast.Stmt {
	return &ast.ExprStmt{X: &ast.CallExpr{Fun: &ast.SelectorExpr{X: ast.NewIdent(alias), Sel: ast.NewIdent("Tick")}}}
}

func main() {
	repo := flag.String("repo", "/repo", "repository root")
	out := flag.String("out", "", "output directory")
	substFile := flag.String("subst", "", "JSON {original path: replacement path}: read these sources from the replacement (experiments with patched files)")
	flag.Parse()
	subst := map[string]string{}
	if *substFile != "" {
		if b, err := os.ReadFile(*substFile); err == nil {
			json.Unmarshal(b, &subst)
		}
	}
	repl := map[string]string{}
	funcs, loops := 0, 0
	for _, pkg := range flag.Args() {
		dir := filepath.Join(*repo, pkg)
		ents, err := os.ReadDir(dir)
		if err != nil {
			fmt.Fprintln(os.Stderr, err)
			os.Exit(1)
		}
		for _, e := range ents {
			name := e.Name()
			if e.IsDir() || !strings.HasSuffix(name, ".go") || strings.HasSuffix(name, "_test.go") {
				continue
			}
			src := filepath.Join(dir, name)
			readFrom := src
			if r, ok := subst[src]; ok {
				readFrom = r
			}
			fset := token.NewFileSet()
			f, err := parser.ParseFile(fset, readFrom, nil, parser.ParseComments)
			if err != nil {
				fmt.Fprintln(os.Stderr, err)
				os.Exit(1)
			}
			// keep only the comments before the package clause (build constraints); the rest would be
			// re-attached at odd places once statements are inserted
			var keep []*ast.CommentGroup
			for _, cg := range f.Comments {
				if cg.End() < f.Package {
					keep = append(keep, cg)
				}
			}
			f.Comments = keep
			f.Doc = nil
			n := 0
			ast.Inspect(f, func(nd ast.Node) bool {
				switch x := nd.(type) {
				case *ast.FuncDecl:
					if x.Body != nil {
						x.Body.List = append([]ast.Stmt{tickStmt()}, x.Body.List...)
						funcs++
						n++
					}
				case *ast.FuncLit:
					x.Body.List = append([]ast.Stmt{tickStmt()}, x.Body.List...)
					funcs++
					n++
				case *ast.ForStmt:
					x.Body.List = append([]ast.Stmt{tickStmt()}, x.Body.List...)
					loops++
					n++
				case *ast.RangeStmt:
					x.Body.List = append([]ast.Stmt{tickStmt()}, x.Body.List...)
					loops++
					n++
				}
				return true
			})
			if n == 0 {
				continue
			}
			// add the import
			imp := &ast.ImportSpec{Name: ast.NewIdent(alias), Path: &ast.BasicLit{Kind: token.STRING, Value: `"verifharness/lib/steps"`}}
			decl := &ast.GenDecl{Tok: token.IMPORT, Specs: []ast.Spec{imp}}
			f.Decls = append([]ast.Decl{decl}, f.Decls...)
			f.Imports = append(f.Imports, imp)
			var buf bytes.Buffer
			if err := (&printer.Config{Mode: printer.UseSpaces | printer.TabIndent, Tabwidth: 8}).Fprint(&buf, fset, f); err != nil {
				fmt.Fprintln(os.Stderr, err)
				os.Exit(1)
			}
			dst := filepath.Join(*out, pkg, name)
			os.MkdirAll(filepath.Dir(dst), 0o755)
			if err := os.WriteFile(dst, buf.Bytes(), 0o644); err != nil {
				fmt.Fprintln(os.Stderr, err)
				os.Exit(1)
			}
			repl[src] = dst
		}
	}
	fmt.Fprintf(os.Stderr, "instrumented %d files: %d function bodies, %d loop bodies\n", len(repl), funcs, loops)
	json.NewEncoder(os.Stdout).Encode(repl)
}
