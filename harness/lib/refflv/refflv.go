// Package refflv is an independent FLV version 1 file writer and strict parser, written from
// video_file_format_spec_v10 Annex E as summarised in /verif/DESIGN.md §6 (not from the
// library).  It is the oracle for C09 and supplies the tag-body layout tables for C10
// (bodies.go).
//
// Layout (all integers big-endian):
//
//	file   = "FLV" version(1)=1 flags(1) dataOffset(4)=9 PreviousTagSize0(4)=0 { tag PreviousTagSize(4) }*
//	flags  = bit0 video present, bit2 audio present, other bits 0
//	tag    = type(1) dataSize(3) timestampLow24(3) timestampBits31to24(1) streamID(3)=0 data[dataSize]
//	PreviousTagSize = 11 + dataSize
package refflv

import (
	"fmt"
)

const (
	TagAudio  = 8
	TagVideo  = 9
	TagScript = 18

	FileHeaderLen = 9  // up to and including the data offset
	PreambleLen   = 13 // file header + PreviousTagSize0
	TagHeaderLen  = 11
	MaxBody       = 1<<24 - 1
)

// Tag is one FLV tag as the property statement sees it.
type Tag struct {
	Type      byte
	Timestamp uint32
	Body      []byte
}

// File is a header plus a tag sequence.
type File struct {
	HasVideo, HasAudio bool
	Tags               []Tag
}

// AppendPreamble appends the 9-byte header and PreviousTagSize0.
func AppendPreamble(dst []byte, hasVideo, hasAudio bool) []byte {
	var flags byte
	if hasVideo {
		flags |= 1 << 0
	}
	if hasAudio {
		flags |= 1 << 2
	}
	dst = append(dst, 'F', 'L', 'V', 1, flags)
	dst = be32(dst, FileHeaderLen)
	return be32(dst, 0)
}

// AppendTag appends tag header, data and PreviousTagSize.  It panics if the body does not
// fit the 24-bit size field (a generator bug, never an observation).
func AppendTag(dst []byte, t Tag) []byte {
	n := len(t.Body)
	if n > MaxBody {
		panic("refflv: body larger than the 24-bit size field")
	}
	dst = append(dst, t.Type)
	dst = be24(dst, uint32(n))
	dst = be24(dst, t.Timestamp&0xFFFFFF)
	dst = append(dst, byte(t.Timestamp>>24))
	dst = be24(dst, 0)
	dst = append(dst, t.Body...)
	return be32(dst, uint32(TagHeaderLen+n))
}

// Bytes writes the whole file.
func (f *File) Bytes() []byte {
	n := PreambleLen
	for _, t := range f.Tags {
		n += TagHeaderLen + len(t.Body) + 4
	}
	b := make([]byte, 0, n)
	b = AppendPreamble(b, f.HasVideo, f.HasAudio)
	for _, t := range f.Tags {
		b = AppendTag(b, t)
	}
	return b
}

// Field names a region of the file layout (used to describe where two files differ and to
// build read-segmentation cut lists).
type Field struct {
	Name     string // "signature","version","flags","dataoffset","prevsize0", or tag fields:
	Tag      int    // "type","size","ts24","tsext","streamid","body","prevsize"; Tag = -1 for file fields
	Off, Len int
}

// Layout lists the fields of the file that Bytes() would write for tags of these body sizes.
func Layout(bodySizes []int) []Field {
	fs := []Field{
		{"signature", -1, 0, 3}, {"version", -1, 3, 1}, {"flags", -1, 4, 1}, {"dataoffset", -1, 5, 4}, {"prevsize0", -1, 9, 4},
	}
	off := PreambleLen
	for i, n := range bodySizes {
		fs = append(fs,
			Field{"type", i, off, 1}, Field{"size", i, off + 1, 3}, Field{"ts24", i, off + 4, 3},
			Field{"tsext", i, off + 7, 1}, Field{"streamid", i, off + 8, 3}, Field{"body", i, off + 11, n},
			Field{"prevsize", i, off + 11 + n, 4})
		off += TagHeaderLen + n + 4
	}
	return fs
}

// FieldAt returns the field containing offset off ("(end)" if past the layout).
func FieldAt(fs []Field, off int) Field {
	for _, f := range fs {
		if off >= f.Off && off < f.Off+f.Len {
			return f
		}
	}
	return Field{Name: "(end)", Tag: -1, Off: off}
}

// ParseError carries a stable code naming the layout rule that was broken.
type ParseError struct {
	Code   string // signature, version, flags-reserved, dataoffset, prevsize0, truncated-header, truncated-tag-header, streamid, truncated-body, truncated-prevsize, prevsize
	Off    int
	Detail string
}

func (e *ParseError) Error() string {
	return fmt.Sprintf("refflv: %s at offset %d: %s", e.Code, e.Off, e.Detail)
}

func perr(code string, off int, format string, a ...interface{}) error {
	return &ParseError{Code: code, Off: off, Detail: fmt.Sprintf(format, a...)}
}

// Parse reads a complete file strictly: every fixed field must have its prescribed value
// and the input must end exactly after a PreviousTagSize.  Bodies alias data.
func Parse(data []byte) (*File, error) {
	if len(data) < PreambleLen {
		return nil, perr("truncated-header", len(data), "%d bytes, need %d", len(data), PreambleLen)
	}
	if data[0] != 'F' || data[1] != 'L' || data[2] != 'V' {
		return nil, perr("signature", 0, "% x", data[:3])
	}
	if data[3] != 1 {
		return nil, perr("version", 3, "%d", data[3])
	}
	flags := data[4]
	if flags&^0x05 != 0 {
		return nil, perr("flags-reserved", 4, "flags %#02x", flags)
	}
	if v := rd32(data[5:]); v != FileHeaderLen {
		return nil, perr("dataoffset", 5, "%d", v)
	}
	if v := rd32(data[9:]); v != 0 {
		return nil, perr("prevsize0", 9, "%d", v)
	}
	f := &File{HasVideo: flags&0x01 != 0, HasAudio: flags&0x04 != 0}
	off := PreambleLen
	for off < len(data) {
		if len(data)-off < TagHeaderLen {
			return f, perr("truncated-tag-header", off, "%d bytes left", len(data)-off)
		}
		h := data[off : off+TagHeaderLen]
		size := int(rd24(h[1:]))
		ts := rd24(h[4:]) | uint32(h[7])<<24
		if sid := rd24(h[8:]); sid != 0 {
			return f, perr("streamid", off+8, "%d", sid)
		}
		off += TagHeaderLen
		if len(data)-off < size {
			return f, perr("truncated-body", off, "size field %d, %d bytes left", size, len(data)-off)
		}
		body := data[off : off+size : off+size]
		off += size
		if len(data)-off < 4 {
			return f, perr("truncated-prevsize", off, "%d bytes left", len(data)-off)
		}
		if v := rd32(data[off:]); v != uint32(TagHeaderLen+size) {
			return f, perr("prevsize", off, "%d, want %d", v, TagHeaderLen+size)
		}
		off += 4
		f.Tags = append(f.Tags, Tag{Type: h[0], Timestamp: ts, Body: body})
	}
	return f, nil
}

func be24(b []byte, v uint32) []byte { return append(b, byte(v>>16), byte(v>>8), byte(v)) }
func be32(b []byte, v uint32) []byte { return append(b, byte(v>>24), byte(v>>16), byte(v>>8), byte(v)) }
func rd24(b []byte) uint32          { return uint32(b[0])<<16 | uint32(b[1])<<8 | uint32(b[2]) }
func rd32(b []byte) uint32 {
	return uint32(b[0])<<24 | uint32(b[1])<<16 | uint32(b[2])<<8 | uint32(b[3])
}
