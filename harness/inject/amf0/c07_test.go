// C07 — enum helpers are total: the unexported AMF0 marker type (in-package sweep).
package amf0

import (
	"testing"

	"verifharness/lib/mon"
)

func TestVerif_C07_Marker(t *testing.T) {
	m := mon.New("C07", "amf0marker")
	defer m.Finish(t)
	m.Rule("amf0marker: marker(v).String() for every v in 0..255, called directly (fmt would swallow a panic inside an error message); distinct = returned name")
	m.Exhaustive(true)
	for v := 0; v < 256; v++ {
		m.Case()
		mk := marker(v)
		m.Guard("amf0.marker.String", []byte{byte(v)}, func() { m.Class(mk.String()) })
	}
	m.Require("evaluations", 256)
}
