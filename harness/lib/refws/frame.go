// Package refws is the harness's reference implementation of the WebSocket
// framing layer, written from RFC 6455 §5 (base framing, masking, control
// frames, fragmentation, close payload §5.5.1/§7.4) and RFC 7692 §6/§7
// (permessage-deflate: RSV1 on the first frame of a compressed message, the
// 00 00 ff ff tail).  It never imports the library under test.
//
//	Gen       serialises abstract frames, including malformed ones
//	Parser    incremental strict validator of a byte stream written by one endpoint
//	Receiver  the conformant receiver reduced to the rules of property C14
package refws

import (
	"encoding/binary"
	"fmt"
)

// Role of an endpoint.
type Role int

const (
	RoleClient Role = iota // sends masked frames, receives unmasked ones
	RoleServer             // sends unmasked frames, receives masked ones
)

func (r Role) String() string {
	if r == RoleClient {
		return "client"
	}
	return "server"
}

// Peer returns the other role.
func (r Role) Peer() Role { return 1 - r }

// Opcodes (RFC 6455 §5.2).
const (
	OpCont   = 0x0
	OpText   = 0x1
	OpBinary = 0x2
	OpClose  = 0x8
	OpPing   = 0x9
	OpPong   = 0xA
)

func IsControl(op byte) bool  { return op&0x8 != 0 }
func IsReserved(op byte) bool { return (op >= 3 && op <= 7) || op >= 0xB }

// LenForm is the payload-length encoding of a frame header.
type LenForm int

const (
	FormMinimal LenForm = 0  // Gen: choose the shortest form for the declared length
	Form7       LenForm = 7  // length in the 7-bit field (0..125)
	Form16      LenForm = 16 // 126 + 16-bit length
	Form64      LenForm = 64 // 127 + 64-bit length
)

// MinimalForm is the form RFC 6455 §5.2 mandates for n.
func MinimalForm(n uint64) LenForm {
	switch {
	case n <= 125:
		return Form7
	case n <= 65535:
		return Form16
	}
	return Form64
}

// Frame is an abstract frame as put on the wire by Gen.  It can describe
// frames no conformant sender emits.
type Frame struct {
	Fin              bool
	Rsv1, Rsv2, Rsv3 bool
	Opcode           byte // low 4 bits
	Masked           bool
	Key              [4]byte
	Form             LenForm // FormMinimal => MinimalForm(DeclaredLen())
	HasDeclared      bool    // the header declares Declared instead of len(Payload)
	Declared         uint64
	Payload          []byte // application view of the bytes that follow the header (Gen masks them if Masked)
}

// DeclaredLen is the payload length written in the header.
func (f *Frame) DeclaredLen() uint64 {
	if f.HasDeclared {
		return f.Declared
	}
	return uint64(len(f.Payload))
}

// WireForm is the length form Gen uses.
func (f *Frame) WireForm() LenForm {
	if f.Form == FormMinimal {
		return MinimalForm(f.DeclaredLen())
	}
	return f.Form
}

// TopBit reports a 64-bit length whose most significant bit is set (§5.2: MUST be 0).
func (f *Frame) TopBit() bool { return f.WireForm() == Form64 && f.DeclaredLen()>>63 != 0 }

// NonMinimal reports a length form longer than necessary.
func (f *Frame) NonMinimal() bool { return f.WireForm() != MinimalForm(f.DeclaredLen()) }

// HeaderLen is the number of header bytes (with mask key).
func (f *Frame) HeaderLen() int {
	n := 2
	switch f.WireForm() {
	case Form16:
		n += 2
	case Form64:
		n += 8
	}
	if f.Masked {
		n += 4
	}
	return n
}

// WireLen is the number of bytes Gen emits for f.
func (f *Frame) WireLen() int { return f.HeaderLen() + len(f.Payload) }

// AppendWire serialises f.
func (f *Frame) AppendWire(dst []byte) []byte {
	b0 := f.Opcode & 0xf
	if f.Fin {
		b0 |= 0x80
	}
	if f.Rsv1 {
		b0 |= 0x40
	}
	if f.Rsv2 {
		b0 |= 0x20
	}
	if f.Rsv3 {
		b0 |= 0x10
	}
	var b1 byte
	if f.Masked {
		b1 = 0x80
	}
	n := f.DeclaredLen()
	switch f.WireForm() {
	case Form7:
		if n > 125 {
			panic(fmt.Sprintf("refws: length %d does not fit the 7-bit form", n))
		}
		dst = append(dst, b0, b1|byte(n))
	case Form16:
		if n > 65535 {
			panic(fmt.Sprintf("refws: length %d does not fit the 16-bit form", n))
		}
		dst = append(dst, b0, b1|126, byte(n>>8), byte(n))
	case Form64:
		var l [8]byte
		binary.BigEndian.PutUint64(l[:], n)
		dst = append(dst, b0, b1|127)
		dst = append(dst, l[:]...)
	default:
		panic("refws: bad length form")
	}
	if f.Masked {
		dst = append(dst, f.Key[:]...)
		at := len(dst)
		dst = append(dst, f.Payload...)
		MaskRef(f.Key, 0, dst[at:])
		return dst
	}
	return append(dst, f.Payload...)
}

// Gen serialises the frames; ends[i] is the offset just after frame i.
func Gen(frames []Frame) (wire []byte, ends []int) {
	n := 0
	for i := range frames {
		n += frames[i].WireLen()
	}
	wire = make([]byte, 0, n)
	ends = make([]int, len(frames))
	for i := range frames {
		wire = frames[i].AppendWire(wire)
		ends[i] = len(wire)
	}
	return wire, ends
}

// MaskRef is the masking of RFC 6455 §5.3: b[i] ^= key[(pos+i) mod 4]; returns the next position mod 4.
// (Eight bytes per step where possible — the same function, only fewer instrumented accesses under -race.)
func MaskRef(key [4]byte, pos int, b []byte) int {
	i := 0
	if len(b) >= 32 {
		var k8 [8]byte
		for j := range k8 {
			k8[j] = key[(pos+j)&3]
		}
		kw := binary.LittleEndian.Uint64(k8[:])
		for ; i+8 <= len(b); i += 8 {
			binary.LittleEndian.PutUint64(b[i:], binary.LittleEndian.Uint64(b[i:])^kw)
		}
	}
	for ; i < len(b); i++ {
		b[i] ^= key[(pos+i)&3]
	}
	return (pos + len(b)) & 3
}

// MaskByteWise is the literal byte-at-a-time definition (used to cross-check MaskRef and the library's masking).
func MaskByteWise(key [4]byte, pos int, b []byte) int {
	for i := range b {
		b[i] ^= key[(pos+i)&3]
	}
	return (pos + len(b)) & 3
}

func opName(op byte) string {
	switch op {
	case OpCont:
		return "cont"
	case OpText:
		return "text"
	case OpBinary:
		return "bin"
	case OpClose:
		return "close"
	case OpPing:
		return "ping"
	case OpPong:
		return "pong"
	}
	return fmt.Sprintf("op%x", op)
}

// String is a compact description used in replay data.
func (f Frame) String() string {
	s := opName(f.Opcode)
	if f.Fin {
		s += "+fin"
	}
	if f.Rsv1 {
		s += "+rsv1"
	}
	if f.Rsv2 {
		s += "+rsv2"
	}
	if f.Rsv3 {
		s += "+rsv3"
	}
	if f.Masked {
		s += "+mask"
	}
	s += fmt.Sprintf(" len%d=", int(f.WireForm()))
	n := f.DeclaredLen()
	switch {
	case n == 1<<63:
		s += "2^63"
	case n>>63 != 0:
		s += fmt.Sprintf("2^64-%d", -int64(n))
	default:
		s += fmt.Sprint(n)
	}
	if f.HasDeclared && n != uint64(len(f.Payload)) {
		s += fmt.Sprintf("(actual %d)", len(f.Payload))
	}
	if f.Opcode == OpClose && len(f.Payload) >= 2 {
		s += fmt.Sprintf(" code=%d", int(f.Payload[0])<<8|int(f.Payload[1]))
	}
	return s
}

// Describe renders a trace.
func Describe(frames []Frame) []string {
	out := make([]string, len(frames))
	for i, f := range frames {
		out[i] = f.String()
	}
	return out
}

// Close code classes (RFC 6455 §7.4).
const (
	CodeValid       = 1 // may appear in a Close frame
	CodeInvalid     = 0 // must not appear on the wire
	CodeUnspecified = 2 // registered after RFC 6455 (1012..1014): not decided here
)

// CloseCodeClass classifies a status code received in a Close frame.
func CloseCodeClass(code int) int {
	switch {
	case code >= 1000 && code <= 1003, code >= 1007 && code <= 1011, code >= 3000 && code <= 4999:
		return CodeValid
	case code >= 1012 && code <= 1014:
		return CodeUnspecified
	}
	return CodeInvalid
}
