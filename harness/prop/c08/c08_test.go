// C08 — I/O failures surface as errors that keep their root cause (FLV and errors package, black-box).
package c08

import (
	"bytes"
	stderrors "errors"
	"fmt"
	"io"
	"net"
	"strings"
	"testing"

	oe "github.com/ossrs/go-oryx-lib/errors"
	"github.com/ossrs/go-oryx-lib/flv"
	"verifharness/lib/mon"
	"verifharness/lib/refflv"
	"verifharness/lib/vnet"
	"verifharness/lib/vrand"
)

var sentinel = stderrors.New("verif: injected transport failure")

// a transport error that is itself a standard-library wrapper: the root cause asked for is this very value
var sentinelOp error = &net.OpError{Op: "read", Net: "tcp", Err: fmt.Errorf("verif: %w", stderrors.New("connection reset by peer"))}

func isEOF(err error) bool {
	c := oe.Cause(err)
	return c == io.EOF || c == io.ErrUnexpectedEOF
}

func genFile(r *vrand.Rand) *refflv.File {
	f := &refflv.File{HasVideo: r.Bool(), HasAudio: r.Bool()}
	for k := 0; k < r.Range(0, 6); k++ {
		n := r.Pick(0, 1, 2, 10, 255, 256, r.Intn(700))
		f.Tags = append(f.Tags, refflv.Tag{Type: byte(r.Pick(8, 9, 18, r.Intn(256))), Timestamp: uint32(r.PickU64(0, 1, 0xffffff, 0x1000000, 0xffffffff, uint64(r.Uint32()))), Body: r.Bytes(n)})
	}
	return f
}

// demux reads header and tags until the first error.
func demux(rd io.Reader) (hdrOK bool, tags []refflv.Tag, err error) {
	d, err := flv.NewDemuxer(rd)
	if err != nil {
		return false, nil, err
	}
	if _, _, _, err = d.ReadHeader(); err != nil {
		return false, nil, err
	}
	hdrOK = true
	for {
		tt, size, ts, e := d.ReadTagHeader()
		if e != nil {
			return hdrOK, tags, e
		}
		body, e := d.ReadTag(size)
		if e != nil {
			return hdrOK, tags, e
		}
		if uint32(len(body)) != size {
			return hdrOK, tags, fmt.Errorf("verif: short tag body %d/%d returned with nil error", len(body), size)
		}
		tags = append(tags, refflv.Tag{Type: byte(tt), Timestamp: ts, Body: body})
	}
}

func TestVerif_C08_FlvRead(t *testing.T) {
	m := mon.New("C08", "flvread")
	defer m.Finish(t)
	m.Rule("flvread: generated FLV files; EVERY cut offset 0..N under a PRNG segmentation and an injected sentinel at EVERY read call index under " +
		"{whole, 1-byte}; expected = header iff 13 bytes delivered, exactly the tags wholly inside the prefix (header+body+PreviousTagSize), then a " +
		"non-nil error with the transport's error as root cause; distinct = (file, fault position)")
	n := m.N(40, 12000)
	m.Require("cut_offsets_enumerated", int64(n*30))
	m.Require("read_call_indexes_enumerated", int64(n*30))
	mon.Parallel(n, func(w, i int) {
		r := m.Rand("file", i)
		f := genFile(r)
		data := f.Bytes()
		N := len(data)
		ends := []int{}
		off := refflv.PreambleLen
		for _, tg := range f.Tags {
			off += refflv.TagHeaderLen + len(tg.Body) + 4
			ends = append(ends, off)
		}
		rep := map[string]interface{}{"case": i, "length": N, "tags": len(f.Tags)}
		if m.WantSample() {
			m.Sample(map[string]interface{}{"case": i, "length": N, "tag_ends": ends})
		}
		var wantErr error = sentinel
		check := func(sig string, delivered int, hdrOK bool, tags []refflv.Tag, err error, wantSentinel bool) bool {
			if err == nil {
				m.Violationf(sig+":nil-error", rep, "demuxer reported no error although the transport failed after %d bytes", delivered)
				return false
			}
			if hdrOK != (delivered >= refflv.PreambleLen) {
				m.Violationf(sig+":header", rep, "header accepted=%v with %d bytes delivered", hdrOK, delivered)
				return false
			}
			nexp := 0
			for _, e := range ends {
				if e <= delivered {
					nexp++
				}
			}
			if len(tags) != nexp {
				m.Violationf(sig+":wrong-tag-count", rep, "%d bytes delivered hold %d complete tags, demuxer returned %d (then %v)", delivered, nexp, len(tags), err)
				return false
			}
			for k := range tags {
				if tags[k].Type != f.Tags[k].Type || tags[k].Timestamp != f.Tags[k].Timestamp || !bytes.Equal(tags[k].Body, f.Tags[k].Body) {
					m.Violationf(sig+":tag-altered", rep, "tag %d differs", k)
					return false
				}
			}
			if wantSentinel && oe.Cause(err) != wantErr {
				m.Violationf(sig+":root-cause-lost", rep, "root cause %T %q, not the transport's %T", oe.Cause(err), oe.Cause(err), wantErr)
				return false
			}
			if !wantSentinel && !isEOF(err) {
				m.Violationf(sig+":root-cause-not-eof", rep, "root cause %T %q", oe.Cause(err), oe.Cause(err))
				return false
			}
			return true
		}
		m.Guard("flv.c08.cut", nil, func() {
			for c := 0; c <= N; c++ {
				m.Case()
				m.Count("cut_offsets_enumerated", 1)
				rep["cut"] = c
				hdrOK, tags, err := demux(&vnet.CutReader{Data: data, Cut: c, Seg: vnet.PickSeg(r)})
				if !check("c08:flv-cut", c, hdrOK, tags, err, false) {
					return
				}
				// the same cut with the last bytes and io.EOF in one Read
				hdrOK, tags, err = demux(&vnet.CutReader{Data: data, Cut: c, Seg: vnet.PickSeg(r), DataWithErr: true})
				m.Count("cut_offsets_data_with_eof", 1)
				if !check("c08:flv-cut:data+eof", c, hdrOK, tags, err, false) {
					return
				}
				// the same truncated file as a reader that can do more than Read (Seek, ReadAt, WriteTo, ReadByte), as an
				// os.File or a bytes.Reader over a partial download is: no shortcut through those may lose the cut
				hdrOK, tags, err = demux(bytes.NewReader(data[:c]))
				m.Count("cut_offsets_seekable_reader", 1)
				if !check("c08:flv-cut:seekable", c, hdrOK, tags, err, false) {
					return
				}
			}
			m.Classf("cuts/tags%d", len(f.Tags))
		})
		delete(rep, "cut")
		m.Guard("flv.c08.readfault", nil, func() {
			for si, mk := range []func() vnet.Seg{vnet.SegWhole, vnet.SegOne} {
				if si == 1 && N > 3000 {
					continue
				}
				clean := &vnet.CutReader{Data: data, Cut: N, Seg: mk()}
				demux(clean)
				for k := 1; k <= clean.Reads; k++ {
					m.Case()
					m.Count("read_call_indexes_enumerated", 1)
					rep["fail_read_call"], rep["seg"] = k, si
					variant := k % 4 // 0: (0,err); 1: (n,err); 2: (0,err) std-wrapper error; 3: (n,err) std-wrapper error
					wantErr = sentinel
					if variant >= 2 {
						wantErr = sentinelOp
					}
					rd := &vnet.CutReader{Data: data, Cut: N, Seg: mk(), Err: wantErr, FailAtCall: k, DataWithErr: variant%2 == 1}
					hdrOK, tags, err := demux(rd)
					m.Count(fmt.Sprintf("read_fault_variant_%d", variant), 1)
					if !check(fmt.Sprintf("c08:flv-read-fault:v%d", variant), rd.Offset(), hdrOK, tags, err, true) {
						return
					}
					// the same fault as a transient one: only call k fails, the file would continue behind it
					rt := &vnet.CutReader{Data: data, Cut: N, Seg: mk(), Err: wantErr, FailAtCall: k, DataWithErr: variant%2 == 1, Transient: true}
					hdrOK, tags, err = demux(rt)
					m.Count("transient_read_faults_enumerated", 1)
					if !check(fmt.Sprintf("c08:flv-transient-read-fault:v%d", variant), rt.Offset(), hdrOK, tags, err, true) {
						return
					}
					wantErr = sentinel
				}
				m.Classf("readfault/seg%d/tags%d", si, len(f.Tags))
			}
		})
	})
}

func TestVerif_C08_FlvWrite(t *testing.T) {
	m := mon.New("C08", "flvwrite")
	defer m.Finish(t)
	m.Rule("flvwrite: header + tag sequences written by the muxer with the transport failing at EVERY write call index (with/without a short " +
		"write): the operation in progress returns an error whose root cause is the sentinel and the bytes that reached the transport are a prefix " +
		"of the fault-free file; distinct = (file, call index, short)")
	n := m.N(60, 12000)
	m.Require("write_call_indexes_enumerated", int64(n*5))
	mon.Parallel(n, func(w, i int) {
		r := m.Rand("wfile", i)
		f := genFile(r)
		write := func(q *vnet.Queue) (failedOp int, opErr error, wb []int) {
			mx, _ := flv.NewMuxer(q)
			failedOp = -1
			wb = append(wb, q.Writes)
			if err := mx.WriteHeader(f.HasVideo, f.HasAudio); err != nil {
				return 0, err, wb // an application stops at the first error
			}
			for k, tg := range f.Tags {
				wb = append(wb, q.Writes)
				if err := mx.WriteTag(flv.TagType(tg.Type), tg.Timestamp, tg.Body); err != nil {
					return k + 1, err, wb
				}
			}
			wb = append(wb, q.Writes)
			return
		}
		ref := vnet.NewQueue(vnet.SegWhole())
		ref.KeepLog = true
		_, _, wb := write(ref)
		rep := map[string]interface{}{"case": i, "tags": len(f.Tags), "write_calls": ref.Writes}
		m.Guard("flv.c08.writefault", nil, func() {
			for k := 1; k <= ref.Writes; k++ {
				for _, short := range []int{0, 1, 3} {
					m.Case()
					m.Count("write_call_indexes_enumerated", 1)
					q := vnet.NewQueue(vnet.SegWhole())
					q.KeepLog = true
					q.FailWriteAt, q.FailErr, q.ShortWrite = k, sentinel, short
					failedOp, opErr, _ := write(q)
					rep["fail_write_call"], rep["short"] = k, short
					inProgress := 0
					for j := 0; j+1 < len(wb); j++ {
						if wb[j] < k && k <= wb[j+1] {
							inProgress = j
						}
					}
					if failedOp != inProgress {
						m.Violationf("c08:flv-write-fault:wrong-operation-failed", rep, "transport failed during operation #%d, first error reported by #%d (%v)", inProgress, failedOp, opErr)
						return
					}
					if oe.Cause(opErr) != sentinel {
						m.Violationf("c08:flv-write-fault:root-cause-lost", rep, "root cause %T %q", oe.Cause(opErr), oe.Cause(opErr))
						return
					}
					if !bytes.HasPrefix(ref.Log, q.Log) {
						m.Violationf("c08:flv-write-fault:bytes-not-a-prefix", rep, "bytes on the transport are not a prefix of the fault-free file")
						return
					}
				}
			}
			m.Classf("writefault/tags%d", len(f.Tags))
		})
	})
}

// errors package: every nesting of the constructors over a root error.
func TestVerif_C08_Errors(t *testing.T) {
	m := mon.New("C08", "errors")
	defer m.Finish(t)
	depth := m.N(6, 8)
	m.Rule(fmt.Sprintf("errors: EVERY nesting up to depth %d of {Wrap, Wrapf, WithMessage, WithStack} over roots {errors.New, errors.Errorf, io.EOF, a "+
		"foreign error type}: Cause() is the root (identical value), Error() is the messages outer-to-inner joined by ': ', %%v/%%s/%%+v/%%q do not "+
		"panic and %%+v contains every message; wrapping nil yields nil at every depth; plus long chains (each wrapper alone and the cycle of all four at 15..300 layers around the powers of two, PRNG words of 10..300 layers); distinct = nesting word x root", depth))
	m.Exhaustive(true)
	type root struct {
		name string
		mk   func() error
	}
	foreign := &foreignErr{"foreign failure"}
	fmtW := fmt.Errorf("outer std wrapper: %w", io.ErrClosedPipe)
	roots := []root{
		{"New", func() error { return oe.New("root cause") }},
		{"Errorf", func() error { return oe.Errorf("root %d", 42) }},
		{"EOF", func() error { return io.EOF }},
		{"foreign", func() error { return foreign }},
		// roots that are standard-library wrappers (have Unwrap): Cause() must stop at them
		{"fmt-w", func() error { return fmtW }},
		{"net.OpError", func() error { return sentinelOp }},
		// error VALUES of types that cannot be compared or hashed (a struct holding a slice): as the root, and as a foreign
		// link with a Cause() of its own, which Cause() follows like one of the package's own
		{"uncomparable", func() error { return sliceErr{[]string{"a", "b"}} }},
		{"uncomparable-link", func() error { return sliceLink{[]string{"x"}, io.ErrUnexpectedEOF} }},
	}
	wrappers := []string{"Wrap", "Wrapf", "WithMessage", "WithStack"}
	apply := func(wn string, err error, level int) (error, string) {
		switch wn {
		case "Wrap":
			msg := fmt.Sprintf("wrap %d: x", level)
			if level%2 == 1 {
				msg = fmt.Sprintf("wrap %d: disk 100%% full %%d %%!v", level) // a message is text, not a format
			}
			return oe.Wrap(err, msg), msg
		case "Wrapf":
			return oe.Wrapf(err, "wrapf %d %s", level, "%v"), fmt.Sprintf("wrapf %d %s", level, "%v")
		case "WithMessage":
			msg := fmt.Sprintf("message %d", level)
			if level%2 == 0 {
				msg = fmt.Sprintf("message %d: 50%% done %%s %%v", level)
			}
			return oe.WithMessage(err, msg), msg
		}
		return oe.WithStack(err), ""
	}
	var words [][]int
	var rec func(cur []int)
	rec = func(cur []int) {
		words = append(words, append([]int(nil), cur...))
		if len(cur) == depth {
			return
		}
		for w := range wrappers {
			rec(append(cur, w))
		}
	}
	rec(nil)
	// "any number of wrapping layers": long chains as well (an error re-wrapped on every hop or retry) — each wrapper alone and the
	// cycle of all four at lengths around the powers of two, and PRNG words of 10..300 layers
	exhaustiveWords := len(words)
	for _, L := range []int{15, 16, 17, 31, 32, 33, 63, 64, 65, 100, 127, 128, 129, 255, 256, 257, 300} {
		for w := 0; w <= len(wrappers); w++ {
			word := make([]int, L)
			for k := range word {
				if w == len(wrappers) {
					word[k] = k % len(wrappers)
				} else {
					word[k] = w
				}
			}
			words = append(words, word)
		}
	}
	lr := m.Rand("longwords", 0)
	for k := 0; k < m.N(40, 400); k++ {
		word := make([]int, lr.Range(10, 300))
		for q := range word {
			word[q] = lr.Intn(len(wrappers))
		}
		words = append(words, word)
	}
	m.Note("long_nestings", len(words)-exhaustiveWords)
	mon.Parallel(len(words), func(wk, wi int) {
		word := words[wi]
		name := ""
		for _, w := range word {
			name += wrappers[w] + ">"
		}
		if len(word) > depth {
			// long chains: name by length and a digest of the word (the full word is in the replay record)
			h := 0
			for _, w := range word {
				h = (h*5 + w + 1) % 1000003
			}
			name = fmt.Sprintf("long%d/%d/", len(word), h)
			m.Count("long_nestings_checked", 1)
		}
		// nil stays nil
		m.Guard("errors.nil", nil, func() {
			var e error
			for lvl, w := range word {
				e, _ = apply(wrappers[w], e, lvl)
			}
			m.Case()
			if e != nil {
				m.Violationf("c08:errors:wrapping-nil-not-nil", map[string]interface{}{"nesting": name}, "wrapping nil through %s gives %v", name, e)
			}
			if oe.Cause(nil) != nil {
				m.Violationf("c08:errors:cause-of-nil", nil, "Cause(nil) != nil")
			}
		})
		for _, rt := range roots {
			m.Case()
			rep := map[string]interface{}{"nesting": name, "root": rt.name}
			m.Guard("errors.nest", nil, func() {
				base := rt.mk()
				e := base
				var msgs []string
				for lvl, w := range word {
					var msg string
					e, msg = apply(wrappers[w], e, lvl)
					if wrappers[w] != "WithStack" {
						msgs = append([]string{msg}, msgs...)
					}
					if e == nil {
						m.Violationf("c08:errors:wrapper-returned-nil", rep, "level %d", lvl)
						return
					}
				}
				switch b := base.(type) {
				case sliceErr:
					if c, ok := oe.Cause(e).(sliceErr); !ok || len(c.tags) != len(b.tags) {
						m.Violationf("c08:errors:cause-not-root", rep, "Cause() = %T, root is an (uncomparable) %T", oe.Cause(e), base)
					}
				case sliceLink:
					if oe.Cause(e) != b.cause {
						m.Violationf("c08:errors:cause-not-root", rep, "Cause() = %T %q, the chain ends in %T %q behind a foreign link with Cause()", oe.Cause(e), oe.Cause(e), b.cause, b.cause)
					}
				default:
					if oe.Cause(e) != base {
						m.Violationf("c08:errors:cause-not-root", rep, "Cause() = %T %q, root is %T %q", oe.Cause(e), oe.Cause(e), base, base)
					}
				}
				want := strings.Join(append(msgs, base.Error()), ": ")
				if e.Error() != want {
					m.Violationf("c08:errors:message-chain", rep, "Error() = %q, want %q", e.Error(), want)
				}
				for _, verb := range []string{"%v", "%s", "%+v", "%q"} {
					s := fmt.Sprintf(verb, e)
					if verb == "%+v" {
						for _, mm := range append(msgs, base.Error()) {
							if !strings.Contains(s, mm) {
								m.Violationf("c08:errors:plusv-misses-message", rep, "%%+v output lacks %q", mm)
							}
						}
					}
					if (verb == "%v" || verb == "%s") && s != want {
						m.Violationf("c08:errors:v-differs-from-Error", rep, "%s = %q, Error() = %q", verb, s, want)
					}
				}
				if s := fmt.Sprint(e); s != want {
					m.Violationf("c08:errors:v-differs-from-Error", rep, "fmt.Sprint = %q, Error() = %q", s, want)
				}
				m.Classf("%s/%s", name, rt.name)
			})
		}
	})
}

type sliceErr struct{ tags []string }

func (e sliceErr) Error() string { return "uncomparable root " + strings.Join(e.tags, ",") }

type sliceLink struct {
	tags  []string
	cause error
}

func (e sliceLink) Error() string { return "uncomparable link " + strings.Join(e.tags, ",") + ": " + e.cause.Error() }
func (e sliceLink) Cause() error  { return e.cause }

type foreignErr struct{ s string }

func (f *foreignErr) Error() string { return f.s }
