// In-package helpers shared by the rtmp monitors (C01-C04, C07, C08).  Compiled into
// github.com/ossrs/go-oryx-lib/rtmp through the harness overlay; all identifiers are
// prefixed verif/Verif.
package rtmp

import (
	"bytes"
	"encoding/binary"
	"fmt"

	"verifharness/lib/refrtmp"
	"verifharness/lib/vrand"
)

// verifMsg is the harness's record of a message: what was written / what is expected.
type verifMsg struct {
	Type      uint8
	StreamID  uint32
	Timestamp uint64
	Cid       uint32
	Payload   []byte
}

func (v verifMsg) String() string {
	return fmt.Sprintf("{type=%d sid=%d ts=%d cid=%d len=%d}", v.Type, v.StreamID, v.Timestamp, v.Cid, len(v.Payload))
}

func verifToLib(v verifMsg) *Message {
	m := NewMessage()
	m.MessageType = MessageType(v.Type)
	m.streamID = v.StreamID
	m.Timestamp = v.Timestamp
	m.betterCid = chunkID(v.Cid)
	m.Payload = v.Payload
	return m
}

func verifFromLib(m *Message) verifMsg {
	return verifMsg{Type: uint8(m.MessageType), StreamID: m.streamID, Timestamp: m.Timestamp, Cid: uint32(m.betterCid), Payload: m.Payload}
}

func verifFromRef(m refrtmp.Msg) verifMsg {
	return verifMsg{Type: m.Type, StreamID: m.StreamID, Timestamp: uint64(m.Timestamp & 0x7fffffff), Cid: m.Csid, Payload: m.Payload}
}

// verifSame compares the fields property C01/C02 name: type, stream id, timestamp, payload.
func verifSame(a, b verifMsg) (bool, string) {
	switch {
	case a.Type != b.Type:
		return false, fmt.Sprintf("type %d != %d", a.Type, b.Type)
	case a.StreamID != b.StreamID:
		return false, fmt.Sprintf("stream id %d != %d", a.StreamID, b.StreamID)
	case a.Timestamp != b.Timestamp:
		return false, fmt.Sprintf("timestamp %d != %d", a.Timestamp, b.Timestamp)
	case !bytes.Equal(a.Payload, b.Payload):
		i := 0
		for i < len(a.Payload) && i < len(b.Payload) && a.Payload[i] == b.Payload[i] {
			i++
		}
		return false, fmt.Sprintf("payload differs (len %d vs %d, first difference at %d)", len(a.Payload), len(b.Payload), i)
	}
	return true, ""
}

func verifTsClass(ts uint64) string {
	switch {
	case ts == 0:
		return "0"
	case ts < 0xfffffe:
		return "small"
	case ts == 0xfffffe:
		return "fffffe"
	case ts == 0xffffff:
		return "ffffff"
	case ts == 0x1000000:
		return "1000000"
	case ts == 0x7fffffff:
		return "max31"
	case ts >= 0x80000000:
		return "ge2^31"
	}
	return "ext"
}

func verifGenTs(r *vrand.Rand) uint64 {
	switch r.Intn(9) {
	case 0:
		return 0
	case 1:
		return 1
	case 2:
		return 0xfffffe
	case 3:
		return 0xffffff
	case 4:
		return 0x1000000
	case 5:
		return 0x7fffffff
	case 6:
		return uint64(r.Intn(0x7fffffff-0xffffff)) + 0xffffff
	default:
		return uint64(r.Intn(100000))
	}
}

func verifLenClass(n int, c uint32) string {
	cs := int(c)
	switch {
	case n == 1:
		return "1"
	case n == 65535 || n == 65536:
		return "64k"
	case n == 1<<24-1:
		return "max24"
	case cs > 1 && n == cs-1:
		return "c-1"
	case n == cs:
		return "c"
	case n == cs+1:
		return "c+1"
	case cs > 0 && n > cs && n%cs == 0:
		return "kc"
	case cs > 1 && n > cs && n%cs == cs-1:
		return "kc-1"
	case cs > 0 && n > cs && n%cs == 1:
		return "kc+1"
	case n < cs:
		return "<c"
	}
	return "other"
}

// verifGenLen picks a payload length class relative to the current chunk size c, capped.
func verifGenLen(r *vrand.Rand, c uint32, cap int) int {
	cs := int(c)
	if cs > cap {
		cs = cap / 2
	}
	if cs < 1 {
		cs = 1
	}
	k := r.Range(2, 5)
	var n int
	switch r.Intn(12) {
	case 0:
		n = 1
	case 1:
		n = cs - 1
	case 2:
		n = cs
	case 3:
		n = cs + 1
	case 4:
		n = k*cs - 1
	case 5:
		n = k * cs
	case 6:
		n = k*cs + 1
	case 7:
		n = 65535
	case 8:
		n = 65536
	default:
		n = r.Range(1, 700)
	}
	if n < 1 {
		n = 1
	}
	if n > cap {
		n = cap
	}
	return n
}

// verifControlBody returns a well-formed body for protocol control types 2..6.
func verifControlBody(r *vrand.Rand, typ uint8) []byte {
	switch typ {
	case 2, 3, 5:
		b := make([]byte, 4)
		binary.BigEndian.PutUint32(b, r.Uint32())
		if typ == 2 {
			binary.BigEndian.PutUint32(b, uint32(r.Range(64, 1000))) // abort for a chunk stream nobody uses
		}
		return b
	case 4:
		uc := NewUserControl()
		switch r.Intn(4) {
		case 0:
			uc.EventType = EventTypeFmsEvent0
			uc.EventData = int32(r.Intn(256))
		case 1:
			uc.EventType = EventTypeSetBufferLength
			uc.EventData = int32(r.Uint32())
			uc.ExtraData = int32(r.Uint32())
		case 2:
			uc.EventType = EventType(r.Pick(0, 1, 2, 4, 6, 7))
			uc.EventData = int32(r.Uint32())
		default:
			uc.EventType = EventType(r.Uint32())
			uc.EventData = int32(r.Uint32())
			uc.ExtraData = int32(r.Uint32())
		}
		b, _ := uc.MarshalBinary()
		return b
	case 6:
		b := make([]byte, 5)
		binary.BigEndian.PutUint32(b, r.Uint32())
		b[4] = byte(r.Intn(3))
		return b
	}
	return nil
}

// verifGenMessage generates a message the C01 statement covers (never type 1: Set Chunk Size is an op of its own).
func verifGenMessage(r *vrand.Rand, c uint32, cap int) verifMsg {
	var m verifMsg
	m.Cid = uint32(r.Range(2, 63))
	m.Timestamp = verifGenTs(r)
	m.StreamID = uint32(r.PickU64(0, 1, 0xffffffff, 0x01020304, uint64(r.Uint32())))
	types := []uint8{2, 3, 4, 5, 6, 8, 9, 15, 17, 18, 20, 22, 8, 9, 9, 8, 18, 20}
	if r.Chance(1, 10) {
		m.Type = uint8(r.Range(7, 255))
	} else {
		m.Type = types[r.Intn(len(types))]
	}
	if m.Type >= 2 && m.Type <= 6 {
		m.Payload = verifControlBody(r, m.Type)
		return m
	}
	n := verifGenLen(r, c, cap)
	m.Payload = r.Shaped(n) // opaque to RTMP: half of the payloads look like chunk headers, AMF0, FLV, start codes
	return m
}

var verifChunkSizes = []uint32{1, 2, 127, 128, 129, 4096, 65536, 1 << 24, 0x7fffffff}

func verifGenChunkSize(r *vrand.Rand) uint32 {
	if r.Chance(1, 4) {
		return uint32(r.Range(1, 70000))
	}
	return verifChunkSizes[r.Intn(len(verifChunkSizes))]
}

func verifMin(a, b int) int {
	if a < b {
		return a
	}
	return b
}

func verifMax(a, b int) int {
	if a > b {
		return a
	}
	return b
}
