// C05 — AMF0 values round-trip and report their exact encoded size (black-box).
package c05

import (
	"bytes"
	"fmt"
	"strings"
	"testing"

	"github.com/ossrs/go-oryx-lib/amf0"
	"verifharness/lib/amfx"
	"verifharness/lib/mon"
	"verifharness/lib/refamf0"
	"verifharness/lib/vrand"
)

func decodeLib(data []byte) (amf0.Amf0, error) {
	a, err := amf0.Discovery(data)
	if err != nil {
		return nil, err
	}
	if err = a.UnmarshalBinary(data); err != nil {
		return nil, err
	}
	return a, nil
}

// (a) value trees built through the public constructors.
func TestVerif_C05_Trees(t *testing.T) {
	m := mon.New("C05", "trees")
	defer m.Finish(t)
	m.Rule("trees: PRNG value trees (depth<=6,width<=12; all supported kinds; numbers from a bit-pattern pool incl. NaN payloads/-0/Inf; " +
		"strings 0..65535 incl. non-UTF-8; keys unique per object, in random order) built with NewX/Set; distinct = structural shape signature " +
		"(kinds present, depth, empty-key/long-string/NaN flags) ")
	n := m.N(30000, 2000000)
	m.Require("evaluations", int64(n))
	m.Require("strict_nonempty", 100)
	m.Require("nan_numbers", 100)
	// deep chains: a value nested 7 .. 4000 levels (objects and ECMA arrays alternating, a sibling before and after the nested
	// member at some levels): "generous depth bounds" means no depth is special
	depths := []int{7, 31, 32, 33, 34, 40, 64, 65, 200, 1000, 4000}
	m.Require("deep_chains_checked", int64(len(depths)))
	for di, d := range depths {
		leaf := &refamf0.Value{Kind: refamf0.Number, Num: float64(d)}
		cur := leaf
		for l := 0; l < d; l++ {
			k := refamf0.Object
			if l%3 == 1 {
				k = refamf0.Ecma
			}
			v := &refamf0.Value{Kind: k}
			if l%5 == 0 {
				v.Props = append(v.Props, refamf0.Prop{Key: "before", Val: &refamf0.Value{Kind: refamf0.String, Str: "x"}})
			}
			v.Props = append(v.Props, refamf0.Prop{Key: "c", Val: cur})
			if l%7 == 0 {
				v.Props = append(v.Props, refamf0.Prop{Key: "after", Val: &refamf0.Value{Kind: refamf0.Boolean, Bool: true}})
			}
			cur = v
		}
		checkTree(m, cur, 10000000+di)
		m.Count("deep_chains_checked", 1)
	}
	mon.Parallel(n, func(w, i int) {
		r := m.Rand("tree", i)
		o := refamf0.GenOpts{MaxDepth: r.Range(0, 6), MaxWidth: r.Range(1, 12), EmptyKeys: true, Strict: true, BigStrings: true}
		tr := refamf0.Gen(r, o)
		amfx.ZeroEcmaCounts(tr)
		checkTree(m, tr, i)
	})
}

func checkTree(m *mon.M, tr *refamf0.Value, i int) {
	m.Case()
	shape := tr.Shape()
	m.Class(shape)
	_, strictNE := tr.HasStrict()
	if strictNE {
		m.Count("strict_nonempty", 1)
	}
	if containsNaN(tr) {
		m.Count("nan_numbers", 1)
	}
	rep := map[string]interface{}{"case": i, "tree": tr.Describe()}
	suffix := ""
	if strictNE {
		suffix = ":strict" // lets a finding be scoped to trees that contain a non-empty strict array
	}
	m.Guard("amf0.tree", nil, func() {
		l := amfx.Build(tr)
		b, err := l.MarshalBinary()
		if err != nil {
			m.Violationf("c05:marshal-error"+suffix, rep, "marshal failed: %v", err)
			return
		}
		if m.WantSample() {
			m.Sample(map[string]interface{}{"tree": tr.Describe(), "bytes": mon.Hex(b), "size": l.Size()})
		}
		if l.Size() != len(b) {
			m.Violationf("c05:size-ne-marshal-len"+suffix, rep, "Size()=%d but marshalled %d bytes", l.Size(), len(b))
		}
		// the bytes belong to the caller: marshalling another value afterwards must not change them (a pooled or
		// retained encode buffer would)
		saved := append([]byte(nil), b...)
		poison(i, len(b))
		if !bytes.Equal(b, saved) {
			m.Violationf("c05:marshalled-bytes-changed-by-a-later-marshal"+suffix, rep, "the %d bytes MarshalBinary returned changed when another value was marshalled afterwards", len(saved))
			b = saved
		}
		// decoded from a buffer of the caller's that is reused afterwards (a read buffer): an AMF0 value holds strings and
		// numbers, no byte slices, so nothing in it may change when the buffer does
		in := append([]byte(nil), b...)
		l2, err := decodeLib(in)
		if err != nil {
			m.Violationf("c05:own-bytes-rejected"+suffix, rep, "unmarshal of own bytes failed: %v", err)
			return
		}
		for k := range in {
			in[k] = 0xEE
		}
		poison(i+1, len(b)) // likewise the decoded value must not depend on what is encoded/decoded next
		if l2.Size() != len(b) {
			m.Violationf("c05:decoded-size-ne-len"+suffix, rep, "decoded Size()=%d, bytes=%d", l2.Size(), len(b))
		}
		b2, err := l2.MarshalBinary()
		if err != nil || !bytes.Equal(b, b2) {
			m.Violationf("c05:remarshal-differs"+suffix, rep, "re-marshal differs (err=%v): %s vs %s", err, mon.Hex(b), mon.Hex(b2))
		}
		// equality of the decoded tree with the original, keys in order: read the library's
		// re-marshalled bytes back with the reference decoder (library layout for strict arrays).
		if b2 != nil {
			got, used, err := refamf0.DecodeKeyedStrict(b2)
			if err != nil || used != len(b2) || !refamf0.Equal(got, tr, true) {
				d := ""
				if got != nil {
					d = got.Describe()
				}
				m.Violationf("c05:decoded-tree-differs"+suffix, rep, "decoded tree differs (err=%v used=%d/%d): got %s want %s", err, used, len(b2), d, tr.Describe())
			}
		}
		// and through the public accessors
		if ok, why := amfx.Matches(l2, tr); !ok {
			m.Violationf("c05:get-differs"+suffix, rep, "decoded value differs at %s", why)
		}
	})
}

// poison marshals and decodes an unrelated value of about n bytes (object / ECMA array / strict array / string by k).
func poison(k, n int) {
	fill := amf0.NewString(strings.Repeat("\xEE", n%60000+1))
	var v amf0.Amf0
	switch k % 4 {
	case 0:
		o := amf0.NewObject()
		o.Set("poison", fill)
		v = o
	case 1:
		o := amf0.NewEcmaArray()
		o.Set("poison", fill)
		v = o
	case 2:
		o := amf0.NewStrictArray()
		o.Set("0", fill)
		v = o
	default:
		v = fill
	}
	if b, err := v.MarshalBinary(); err == nil {
		decodeLib(b)
	}
}

func containsNaN(v *refamf0.Value) bool {
	switch v.Kind {
	case refamf0.Number:
		return v.Num != v.Num
	case refamf0.Object, refamf0.Ecma:
		for _, p := range v.Props {
			if containsNaN(p.Val) {
				return true
			}
		}
	case refamf0.Strict:
		for _, it := range v.Items {
			if containsNaN(it) {
				return true
			}
		}
	}
	return false
}

// (b) grammar-generated byte strings: Size() after a successful decode == bytes consumed.
func TestVerif_C05_Grammar(t *testing.T) {
	m := mon.New("C05", "grammar")
	defer m.Finish(t)
	m.Rule("grammar: reference-encoded trees that may repeat keys, use empty keys and arbitrary ECMA counts, strict arrays in both the " +
		"specification layout and the library's keyed layout, followed by {nothing, random trailing bytes, a second value}; consumed is observed " +
		"as: data[:Size()] decodes to the same re-marshalled bytes, data[:Size()-1] does not decode, a second value is found at offset Size(); " +
		"distinct = shape x tail kind x decoded-ok")
	n := m.N(30000, 2000000)
	m.Require("evaluations", int64(n))
	m.Require("decoded_ok", int64(n/4))
	m.Require("dup_key_inputs", 50)
	m.Require("second_value_checked", 100)
	mon.Parallel(n, func(w, i int) {
		r := m.Rand("grammar", i)
		o := refamf0.GenOpts{MaxDepth: r.Range(0, 5), MaxWidth: r.Range(1, 10), EmptyKeys: true, DupKeys: r.Chance(1, 3), Strict: true, BigStrings: r.Chance(1, 10)}
		tr := refamf0.Gen(r, o)
		keyed := r.Bool()
		var data []byte
		if keyed {
			data = refamf0.EncodeKeyedStrict(nil, tr, func(i int) string { return pickKey(r, i) })
		} else {
			data = refamf0.Encode(nil, tr)
		}
		first := len(data)
		tail := r.Intn(3)
		var second []byte
		switch tail {
		case 1:
			data = append(data, r.Bytes(r.Range(1, 9))...)
		case 2:
			t2 := refamf0.Gen(r, refamf0.GenOpts{MaxDepth: 2, MaxWidth: 4, EmptyKeys: true})
			second = refamf0.Encode(nil, t2)
			data = append(data, second...)
		}
		checkGrammar(m, w, tr, data, first, tail, second, keyed, i)
		// truncated encodings: whatever prefix the library accepts, the value it returns cannot be larger than the prefix
		// ("consumes exactly its own bytes" — it cannot have consumed bytes that were not there)
		for _, cut := range []int{first - 1, first - 2, first - 3, r.Intn(first + 1)} {
			if cut <= 0 || cut >= first {
				continue
			}
			pre := data[:cut]
			m.Guard("amf0.grammar.prefix", pre, func() {
				l, err := decodeLib(pre)
				m.Case()
				if err != nil {
					m.Count("truncated_encodings_rejected", 1)
					return
				}
				m.Count("truncated_encodings_accepted", 1)
				if l.Size() > len(pre) {
					m.Violationf("c05:size-exceeds-input:truncated", map[string]interface{}{"case": i, "input_hex": mon.Hex(pre)}, "a %d-byte prefix of an encoding decodes to a value with Size()=%d: it reports bytes it was never given", len(pre), l.Size())
				} else if b2, err := l.MarshalBinary(); err != nil || len(b2) != l.Size() {
					m.Violationf("c05:size-ne-marshal-len:truncated", map[string]interface{}{"case": i, "input_hex": mon.Hex(pre)}, "value decoded from a truncated encoding: Size()=%d, marshals to %d bytes (err %v)", l.Size(), len(b2), err)
				}
			})
		}
		// scalar receivers that already hold a value: decoding overwrites it
		switch i % 3 {
		case 0:
			s := amf0.NewString("previous value")
			want := r.Pick(0, 0, 1, 5)
			enc := append([]byte{2, 0, byte(want)}, bytes.Repeat([]byte{'z'}, want)...)
			if err := s.UnmarshalBinary(enc); err != nil || string(*s) != strings.Repeat("z", want) || s.Size() != len(enc) {
				m.Violationf("c05:reused-scalar-receiver-keeps-old-value:string", map[string]interface{}{"case": i}, "a String holding a value, decoding %x: now %q, Size %d, err %v", enc, string(*s), s.Size(), err)
			}
		case 1:
			n := amf0.NewNumber(42)
			if err := n.UnmarshalBinary([]byte{0, 0, 0, 0, 0, 0, 0, 0, 0}); err != nil || float64(*n) != 0 {
				m.Violationf("c05:reused-scalar-receiver-keeps-old-value:number", map[string]interface{}{"case": i}, "a Number holding 42, decoding 0: now %v, err %v", float64(*n), err)
			}
		}
		m.Count("reused_scalar_receivers_checked", 1)
	})
}

func pickKey(r *vrand.Rand, i int) string {
	switch r.Intn(4) {
	case 0:
		return ""
	case 1:
		return "k"
	}
	return fmt.Sprint(i)
}

func checkGrammar(m *mon.M, w int, tr *refamf0.Value, data []byte, first, tail int, second []byte, keyed bool, i int) {
	m.Case()
	dup := tr.HasDupKeys()
	if dup {
		m.Count("dup_key_inputs", 1)
	}
	_, strictNE := tr.HasStrict()
	rep := map[string]interface{}{"case": i, "input_hex": mon.Hex(data), "tree": tr.Describe()}
	// scope suffixes so that findings can be specific
	suffix := ""
	if dup {
		suffix += ":dupkeys"
	}
	if strictNE {
		suffix += ":strict"
	}
	m.Guard("amf0.grammar", data, func() {
		l, err := decodeLib(data)
		m.Classf("%s/tail%d/keyed%v/ok%v", tr.Shape(), tail, keyed, err == nil)
		if err != nil {
			// whether the library must accept this input is C06's question, not C05's
			m.Count("decode_rejected", 1)
			return
		}
		m.Count("decoded_ok", 1)
		s := l.Size()
		if m.WantSample() {
			m.Sample(map[string]interface{}{"input": mon.Hex(data), "size_after_decode": s, "first_value_len": first, "tail_kind": tail})
		}
		if s < 1 || s > len(data) {
			m.Violationf("c05:size-out-of-input"+suffix, rep, "Size()=%d after decoding %d bytes", s, len(data))
			return
		}
		b1, err := l.MarshalBinary()
		if err != nil {
			m.Violationf("c05:remarshal-error"+suffix, rep, "marshal after decode failed: %v", err)
			return
		}
		// 1. the prefix of length Size() is the value: it decodes, to the same bytes
		lp, err := decodeLib(data[:s])
		if err != nil {
			m.Violationf("c05:size-lt-consumed"+suffix, rep, "decoded ok, Size()=%d, but data[:Size()] does not decode (%v): the decoder consumed more than Size()", s, firstLine(err))
			return
		}
		bp, _ := lp.MarshalBinary()
		if !bytes.Equal(bp, b1) {
			m.Violationf("c05:prefix-decodes-differently"+suffix, rep, "data[:Size()] re-marshals differently")
		}
		// 2. one byte less is not a value: the decoder needed all Size() bytes
		if _, err := decodeLib(data[:s-1]); err == nil {
			m.Violationf("c05:size-gt-consumed"+suffix, rep, "Size()=%d but data[:Size()-1] already decodes: Size() over-reports", s)
		}
		// 3. the next value is found by advancing Size().  Only when the library read the first value with
		// the extent the grammar gave it: if it parsed a different (shorter/longer) value out of the same bytes
		// (strict-array layout), Size()==consumed is still decided by 1 and 2, and the difference is C06's subject.
		if second != nil && s == first {
			m.Count("second_value_checked", 1)
			l2, err := decodeLib(data[s:])
			if err != nil {
				m.Violationf("c05:misaligned-next"+suffix, rep, "advancing by Size()=%d does not land on the next value: %v", s, firstLine(err))
			} else if b2, _ := l2.MarshalBinary(); !bytes.Equal(b2, second) {
				m.Violationf("c05:next-value-differs"+suffix, rep, "second value decodes differently")
			}
		} else if second != nil {
			m.Count("first_value_extent_differs_from_grammar", 1)
		}
		// 4. re-marshal has Size() bytes
		if len(b1) != s {
			m.Violationf("c05:size-ne-remarshal-len"+suffix, rep, "Size()=%d, re-marshal %d bytes", s, len(b1))
		}
	})
}

func firstLine(err error) string {
	s := err.Error()
	if len(s) > 120 {
		s = s[:120]
	}
	return s
}
