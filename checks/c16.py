CHECK = {
    "level": "exploration",
    "engine": "jose",
    "technique": "runtime round-trip and tamper monitors over the real sign/encrypt/serialize/parse/verify/decrypt code: the full algorithm matrix "
                 "(12 signature algorithms; 14 key-management x 6 content-encryption x 2 compression x 10 payload sizes x 3 serializations) with fixed keys "
                 "selected for leading-zero EC members, per-bit flips of every serialized field re-encoded from the field bytes, wrong-key trials, and a "
                 "hand-written RFC 7638 / JWK reference (checked against published vectors) as oracle for keys and thumbprints",
    "level_text": "Held on the executions observed: every cell of the algorithm matrix was run at least once per fitting key (counters per alg/enc cell are mandatory, a cell "
                  "that never round-tripped makes the run inconclusive or violated, never a pass), and every bit of every field of one object per (algorithm, serialization) "
                  "was inverted and had to be rejected. Exhaustive over the matrix and over bit positions of the chosen objects; a sample over keys, payload contents and the "
                  "library's own randomness (IVs, ephemeral keys, salts, CEKs). Parts foreign / foreignmatrix: objects of the whole matrix (12 signature algs; 14 key managements x 6 content "
                  "encryptions x zip, compact and flattened JSON with aad, payloads up to 1 MiB incl. highly compressible ones) made by an independent producer on standard-library "
                  "primitives must verify/decrypt here to the payload. Not a proof.",
    "level_note": "Quick tier: the 2048-bit RSA encrypted_key field is sampled (32 edge bits + 480 PRNG-chosen bits per object), all other fields and the thorough tier flip every bit; "
                  "one object per (alg, enc, serialization) is tampered, not one per payload size. The library draws IVs/ephemeral keys/salts from crypto/rand, which a black-box "
                  "monitor cannot seed: runs repeat the same cases but not the same ciphertexts (recorded replays carry the serialized object). Trusts Go's crypto, encoding/json "
                  "and the hand-written reference (validated against the RFC 7638 §3.1 and an RFC 7520 P-521 vector). Interoperability facts outside the statement "
                  "(ECDH-ES Z padding, CBC-HMAC tag length split, width of EC 'd') are recorded as observations only.",
    "parts": [
        {"name": "foreign", "pkg": "verifharness/prop/c16", "run": "^TestVerif_C16_Foreign$", "timeout": {"quick": 600, "thorough": 3600}},
        {"name": "foreignmatrix", "pkg": "verifharness/prop/c16", "run": "^TestVerif_C16_ForeignMatrix$", "timeout": {"quick": 900, "thorough": 5400}},
        {"name": "sign", "pkg": "verifharness/prop/c16", "run": "^TestVerif_C16_Sign$",
         "timeout": {"quick": 900, "thorough": 5400}},
        {"name": "encrypt", "pkg": "verifharness/prop/c16", "run": "^TestVerif_C16_Encrypt$",
         "timeout": {"quick": 900, "thorough": 5400}},
        {"name": "tamper", "pkg": "verifharness/prop/c16", "run": "^TestVerif_C16_Tamper$",
         "timeout": {"quick": 900, "thorough": 7200}},
        {"name": "jwk", "pkg": "verifharness/prop/c16", "run": "^TestVerif_C16_JWK$",
         "timeout": {"quick": 600, "thorough": 3600}},
        # in-package: compiled into /repo/https/acme through the overlay
        {"name": "acme", "pkg": "https/acme", "run": "^TestVerif_C16_Acme$",
         "timeout": {"quick": 600, "thorough": 3600}},
    ],
    "assumptions": [
        "keys of round 0 are the committed files under harness/testdata/keys (RSA-2048 x3 incl. e=3; P-256/384/521 x5 incl. keys searched for leading-zero X, Y, D; "
        "symmetric 16..64 bytes); later rounds (thorough) derive keys from the PRNG with the same selection rules",
        "bit flips are applied to the decoded bytes of a field and the field is re-encoded canonically; unused trailing base64 bits are never touched",
        "unprotected members (JWE per-recipient 'header', 'unprotected') are not tampered: the statement lists protected header, payload, ciphertext, IV, tag, encrypted key, signature (AAD is included as authenticated data)",
        "for a multi-signature / multi-recipient object a per-signature / per-recipient field must be rejected by that signer's / recipient's key; shared fields by every key",
        "the ACME part drives signContent with a pre-filled nonce list, so no network request is made; only key types the ACME client supports (RSA, P-256, P-384)",
    ],
}
