package c17

import (
	"bytes"
	"encoding/json"
	"io"
	"io/ioutil"
	"testing"

	ojson "github.com/ossrs/go-oryx-lib/json"
	"verifharness/lib/mon"
	"verifharness/lib/vnet"
)

// Long string literals (4..48 KiB) densely filled with escaped quotes, escaped backslashes and comment
// markers, at every phase relative to the reader's internal buffer sizes: whatever position an internal
// buffer boundary falls on, it lies between a backslash and the character it escapes for some phase.
func TestVerif_C17_LongEscapes(t *testing.T) {
	m := mon.New("C17", "longescapes")
	defer m.Finish(t)
	m.Rule("longescapes: documents {\"pad\":\"<p x>\",\"k\":\"<units>\"} [+ comments after the value] where <units> repeats escape/comment-marker units " +
		"(\\\\\" , \\\\\\\\ , // , /* , */ , ' , x) up to 4..48 KiB and the pad length p sweeps 0..15 (phase), read whole / in 1-, 7-, 4096-byte reads / cut at " +
		"PRNG offsets; oracle as C17: reader output decodes to the value encoding/json gives for the undecorated text, comment-free documents pass byte for byte; " +
		"distinct = (unit mix, size class, phase, read mode)")
	n := m.N(1500, 60000)
	m.Require("evaluations", int64(n))
	m.Require("bytes_through_reader", int64(n)*4096)
	m.Require("documents_of_a_megabyte_or_more", 5)
	unitSets := [][]string{
		{`\"`, ` // `},
		{`\"`, `/*`, `*/`},
		{`\\`, `\"`, `//`},
		{`\\\"`, ` /* x */ `},
		{`\"`, `'`, `//`, `\\`},
		{`x`, `\"`, `*/`, `//`},
	}
	mon.Parallel(n, func(w, i int) {
		r := m.Rand("le", i)
		m.Case()
		units := unitSets[r.Intn(len(unitSets))]
		size := r.Pick(4000, 4096, 4200, 8192, 8300, 16384, 16500, 33000, 49152)
		if i%(n/6) == 1 {
			size = r.Pick(1<<20, 4<<20+17, 5<<20, 9<<20) // a few documents of megabytes: no size is special
			m.Count("documents_of_a_megabyte_or_more", 1)
		}
		phase := i % 16
		var sb bytes.Buffer
		sb.WriteString(`{"pad":"`)
		sb.Write(bytes.Repeat([]byte{'p'}, phase))
		sb.WriteString(`","k":"`)
		for sb.Len() < size {
			sb.WriteString(units[r.Intn(len(units))])
		}
		sb.WriteString(`","z":[1,2]}`)
		plain := sb.Bytes()
		var want interface{}
		if err := json.Unmarshal(plain, &want); err != nil {
			return // the generator made an invalid document (cannot happen: every unit is a valid string fragment)
		}
		decorated := plain
		commented := r.Chance(1, 2)
		if commented {
			// comments only after the long string (token boundaries): before the closing brace and at the end
			d := bytes.Replace(plain, []byte(`,"z":[1,2]}`), []byte(`/* "c1" \" */,"z":[1,/* x */2] // tail "q`+"\n"+`}`), 1)
			decorated = append(d, []byte(" // end without newline \\\"")...)
		}
		mode := r.Intn(5)
		big := size >= 1<<20
		if big {
			// the scanner re-examines a pending literal after every transport read: with reads of a few bytes a literal of
			// megabytes costs (size^2 / read size) steps — a cost of small reads, not a question of meaning; megabyte documents
			// are delivered whole or in reads of up to 64 KiB
			mode = []int{0, 5}[i%2]
		}
		var rd io.Reader
		switch mode {
		case 5:
			rd = &vnet.CutReader{Data: decorated, Cut: len(decorated), Seg: vnet.SegRandom(r.Split(), 65536), DataWithErr: true}
		case 0:
			rd = bytes.NewReader(decorated)
		case 1:
			rd = &vnet.CutReader{Data: decorated, Cut: len(decorated), Seg: vnet.SegRandom(r.Split(), 7)}
		case 2:
			rd = &vnet.CutReader{Data: decorated, Cut: len(decorated), Seg: vnet.SegRandom(r.Split(), 4096)}
		case 3:
			// reads that end exactly at chosen offsets around the powers of two
			var cuts []int64
			for _, b := range []int64{4096, 8192, 16384, 32768} {
				cuts = append(cuts, b-1, b, b+1, b+int64(phase))
			}
			rd = &vnet.CutReader{Data: decorated, Cut: len(decorated), Seg: vnet.SegCuts(cuts)}
		default:
			rd = &vnet.CutReader{Data: decorated, Cut: len(decorated), Seg: vnet.SegRandom(r.Split(), 1024), DataWithErr: true}
		}
		m.Classf("units%d/size%d/phase%d/mode%d/c%v", len(units), size/4096, phase, mode, commented)
		m.Count("bytes_through_reader", int64(len(decorated)))
		rep := map[string]interface{}{"case": i, "size": len(decorated), "phase": phase, "mode": mode, "units": units, "commented": commented}
		m.Guard("json.longescapes", nil, func() {
			// the output side: drained by ReadAll, or a few small Reads first and then io.Copy (which uses WriteTo when the
			// reader has one), or through a 1-byte-at-a-time consumer
			jr := ojson.NewJsonPlusReader(rd)
			var out []byte
			var err error
			consume := i % 4
			if big && consume == 2 {
				consume = 1
			}
			switch consume {
			case 1:
				head := make([]byte, r.Pick(1, 2, 7, 64))
				var k int
				k, err = io.ReadFull(jr, head)
				out = append(out, head[:k]...)
				if err == nil {
					var rest bytes.Buffer
					_, err = io.Copy(&rest, jr)
					out = append(out, rest.Bytes()...)
				} else if err == io.ErrUnexpectedEOF || err == io.EOF {
					err = nil
				}
			case 2:
				var rest bytes.Buffer
				_, err = io.Copy(&rest, iotest1{jr})
				out = rest.Bytes()
			default:
				out, err = ioutil.ReadAll(jr)
			}
			if err != nil {
				m.Violationf("c17:reader-error:long-string-escapes", rep, "reader failed on a valid document: %v", err)
				return
			}
			if !commented && !bytes.Equal(out, plain) {
				i := 0
				for i < len(out) && i < len(plain) && out[i] == plain[i] {
					i++
				}
				m.Violationf("c17:not-byte-for-byte:long-string-escapes", rep, "comment-free document changed on its way through the reader (%d -> %d bytes, first difference at offset %d)", len(plain), len(out), i)
				return
			}
			var got interface{}
			if err := json.Unmarshal(out, &got); err != nil {
				m.Violationf("c17:decode-error:long-string-escapes", rep, "reader output no longer decodes: %v", err)
				return
			}
			gb, _ := json.Marshal(got)
			wb, _ := json.Marshal(want)
			if !bytes.Equal(gb, wb) {
				m.Violationf("c17:value-differs:long-string-escapes", rep, "decoded value differs from the standard decoder's")
			}
		})
	})
}

// iotest1 hands the consumer one byte per Read (and hides any WriteTo of the wrapped reader).
type iotest1 struct{ r io.Reader }

func (o iotest1) Read(p []byte) (int, error) {
	if len(p) == 0 {
		return 0, nil
	}
	return o.r.Read(p[:1])
}

// Long runs without any quote or comment marker (a big numeric array), followed by a comment whose first byte lands at every
// offset around the multiples of 4096 of that run: a filter that hands marker-free text on in blocks must still hold back a
// trailing '/' until it knows what follows it.
func TestVerif_C17_LongRuns(t *testing.T) {
	m := mon.New("C17", "longruns")
	defer m.Finish(t)
	m.Rule("longruns: documents {\"k\":[<run>] with a marker-free run of digits and commas of every length 4070..4120, 8170..8215, 12260..12310, 16360..16400 (and thorough: " +
		"every length 1..20000), then a // or /* */ comment, then the rest; read whole, in 7-byte reads, in 4096-byte reads and cut at the multiples of 4096 ±1; oracle as C17; " +
		"distinct = (run length mod 4096 class, comment kind, read mode)")
	var lens []int
	for _, c := range [][2]int{{4070, 4120}, {8170, 8215}, {12260, 12310}, {16360, 16400}} {
		for l := c[0]; l <= c[1]; l++ {
			lens = append(lens, l)
		}
	}
	if !m.Quick() {
		lens = lens[:0]
		for l := 1; l <= 20000; l++ {
			lens = append(lens, l)
		}
	}
	n := len(lens) * 2 * 4
	m.Require("evaluations", int64(n))
	mon.Parallel(n, func(w, i int) {
		r := m.Rand("longruns", i)
		L, kind, mode := lens[i/8], i/4%2, i%4
		m.Case()
		run := bytes.Repeat([]byte("12,"), L/3+1)[:L]
		if run[L-1] == ',' {
			run[L-1] = '7'
		}
		plain := append(append([]byte(`{"k":[`), run...), []byte(`,5],"z":"s"}`)...)
		comment := []byte("/* c \" */")
		if kind == 1 {
			comment = []byte("// c \" \n")
		}
		decorated := append(append(append([]byte(`{"k":[`), run...), comment...), []byte(`,5],"z":"s"}`)...)
		var want interface{}
		if err := json.Unmarshal(plain, &want); err != nil {
			m.Violationf("harness:c17-longruns-generator", nil, "%v", err)
			return
		}
		var rd io.Reader
		switch mode {
		case 0:
			rd = bytes.NewReader(decorated)
		case 1:
			rd = &vnet.CutReader{Data: decorated, Cut: len(decorated), Seg: vnet.SegRandom(r.Split(), 7)}
		case 2:
			rd = &vnet.CutReader{Data: decorated, Cut: len(decorated), Seg: vnet.SegRandom(r.Split(), 4096)}
		default:
			var cuts []int64
			for b := int64(4096); b < int64(len(decorated))+4096; b += 4096 {
				cuts = append(cuts, b-1, b, b+1, b+6, b+7)
			}
			rd = &vnet.CutReader{Data: decorated, Cut: len(decorated), Seg: vnet.SegCuts(cuts)}
		}
		m.Classf("run%%4096=%d/kind%d/mode%d", (L+2)%4096/512, kind, mode)
		rep := map[string]interface{}{"case": i, "run_length": L, "comment": string(comment), "mode": mode}
		m.Guard("json.longruns", nil, func() {
			out, err := ioutil.ReadAll(ojson.NewJsonPlusReader(rd))
			if err != nil {
				m.Violationf("c17:reader-error:long-run", rep, "reader failed on a valid document: %v", err)
				return
			}
			var got interface{}
			if err := json.Unmarshal(out, &got); err != nil {
				k := bytes.IndexByte(out[6:], '/')
				m.Violationf("c17:decode-error:long-run", rep, "reader output no longer decodes (%v); first '/' in the output at %d", err, k)
				return
			}
			gb, _ := json.Marshal(got)
			wb, _ := json.Marshal(want)
			if !bytes.Equal(gb, wb) {
				m.Violationf("c17:value-differs:long-run", rep, "decoded value differs from the standard decoder's")
			}
		})
	})
}
