// C07 — untrusted bytes never crash or stall a decoder (black-box entries).
package c07

import (
	"math/big"
	"crypto/x509"
	"bytes"
	"encoding/hex"
	"io"
	"io/ioutil"
	"os"
	"path/filepath"
	"runtime"
	"strings"
	"testing"

	"github.com/ossrs/go-oryx-lib/aac"
	"github.com/ossrs/go-oryx-lib/amf0"
	"github.com/ossrs/go-oryx-lib/avc"
	"github.com/ossrs/go-oryx-lib/flv"
	"github.com/ossrs/go-oryx-lib/https/crypto/ocsp"
	ojson "github.com/ossrs/go-oryx-lib/json"
	"verifharness/lib/hostile"
	"verifharness/lib/mon"
	"verifharness/lib/refadts"
	"verifharness/lib/refamf0"
	"verifharness/lib/refavc"
	"verifharness/lib/refflv"
	"verifharness/lib/refocsp"
	"verifharness/lib/vrand"
)

func testdata(elem ...string) string {
	_, file, _, _ := runtime.Caller(0)
	return filepath.Join(append([]string{filepath.Dir(file), "..", "..", "testdata"}, elem...)...)
}

// ---- amf0 -----------------------------------------------------------------------------------

func amf0Any(data []byte) string {
	a, err := amf0.Discovery(data)
	if err != nil {
		return "err-discovery"
	}
	if err = a.UnmarshalBinary(data); err != nil {
		return "err"
	}
	return "ok"
}

func amf0Typed(data []byte) string {
	if len(data) == 0 {
		return "empty"
	}
	var a amf0.Amf0
	switch data[0] % 8 {
	case 0:
		a = amf0.NewNumber(0)
	case 1:
		a = amf0.NewBoolean(false)
	case 2:
		a = amf0.NewString("")
	case 3:
		a = amf0.NewObject()
	case 4:
		a = amf0.NewNull()
	case 5:
		a = amf0.NewUndefined()
	case 6:
		a = amf0.NewEcmaArray()
	default:
		a = amf0.NewStrictArray()
	}
	if err := a.UnmarshalBinary(data[1:]); err != nil {
		return "err"
	}
	return "ok"
}

func amf0Seed(r *vrand.Rand) []byte {
	v := refamf0.Gen(r, refamf0.GenOpts{MaxDepth: r.Range(0, 5), MaxWidth: r.Range(1, 8), EmptyKeys: true, DupKeys: r.Bool(), Strict: true, BigStrings: r.Chance(1, 10)})
	if r.Bool() {
		return refamf0.EncodeKeyedStrict(nil, v, func(i int) string { return "k" })
	}
	return refamf0.Encode(nil, v)
}

func rep(unit []byte, n int, tail []byte) []byte {
	k := n / len(unit)
	b := make([]byte, 0, k*len(unit)+len(tail))
	for i := 0; i < k; i++ {
		b = append(b, unit...)
	}
	return append(b, tail...)
}

var amf0Families = []hostile.Family{
	{"nested-objects", func(n int) []byte { return rep([]byte{3, 0, 1, 'a'}, n, []byte{5}) }},           // {a:{a:{a:... unterminated
	{"nested-objects-closed", func(n int) []byte { // properly closed nesting
		k := n / 7
		b := rep([]byte{3, 0, 1, 'a'}, 4*k, []byte{5})
		return append(b, rep([]byte{0, 0, 9}, 3*k, nil)...)
	}},
	{"flat-properties", func(n int) []byte { return append([]byte{3}, rep([]byte{0, 1, 'a', 5}, n, []byte{0, 0, 9})...) }},
	{"flat-distinct-keys", func(n int) []byte {
		b := []byte{3}
		for i := 0; len(b) < n; i++ {
			b = append(b, 0, 3, byte('a'+i%26), byte('a'+(i/26)%26), byte('a'+(i/676)%26), 5)
		}
		return append(b, 0, 0, 9)
	}},
	{"nested-ecma", func(n int) []byte { return rep([]byte{8, 0, 0, 0, 1, 0, 1, 'a'}, n, []byte{5}) }},
	{"nested-strict", func(n int) []byte { return rep([]byte{10, 0, 0, 0, 1, 0, 1, 'a'}, n, []byte{5}) }},
	{"strict-many-items", func(n int) []byte {
		k := n / 4
		return append([]byte{10, byte(k >> 24), byte(k >> 16), byte(k >> 8), byte(k)}, rep([]byte{0, 1, 'a', 5}, 4*k, nil)...)
	}},
	{"strict-huge-count", func(n int) []byte { return append([]byte{10, 0x7f, 0xff, 0xff, 0xff}, rep([]byte{0, 1, 'a', 5}, n, nil)...) }},
	{"long-strings", func(n int) []byte { return append([]byte{3}, rep(append([]byte{0, 1, 'a', 2, 0xff, 0xff}, make([]byte, 65535)...), n, []byte{0, 0, 9})...) }},
}

// ---- flv -------------------------------------------------------------------------------------

func flvDemux(data []byte) string {
	d, err := flv.NewDemuxer(bytes.NewReader(data))
	if err != nil {
		return "err-new"
	}
	defer d.Close()
	if _, _, _, err := d.ReadHeader(); err != nil {
		return "err-header"
	}
	n := 0
	for {
		_, size, _, err := d.ReadTagHeader()
		if err != nil {
			break
		}
		if _, err := d.ReadTag(size); err != nil {
			break
		}
		n++
		if n > len(data) {
			panic("verif: more tags than input bytes (no progress)")
		}
	}
	if n == 0 {
		return "tags0"
	}
	return "tags+"
}

func flvSeed(r *vrand.Rand) []byte {
	f := &refflv.File{HasVideo: r.Bool(), HasAudio: r.Bool()}
	for k := 0; k < r.Range(0, 8); k++ {
		f.Tags = append(f.Tags, refflv.Tag{Type: byte(r.Pick(8, 9, 18, r.Intn(256))), Timestamp: r.Uint32(), Body: r.Bytes(r.Pick(0, 1, 5, 100, 300))})
	}
	return f.Bytes()
}

func flvAudio(data []byte) string {
	p, _ := flv.NewAudioPackager()
	f, err := p.Decode(data)
	if err != nil {
		return "err"
	}
	_ = f.SoundFormat.String() + f.SoundRate.String() + f.SoundSize.String() + f.SoundType.String() + f.Trait.String()
	return "ok"
}

func flvVideo(data []byte) string {
	p, _ := flv.NewVideoPackager()
	f, err := p.Decode(data)
	if err != nil {
		return "err"
	}
	_ = f.FrameType.String() + f.CodecID.String() + f.Trait.String()
	return "ok"
}

func flvAudioSeed(r *vrand.Rand) []byte {
	a := &refflv.AudioBody{Format: byte(r.Pick(10, 13, 2, r.Intn(16))), Rate: byte(r.Intn(4)), Size: byte(r.Intn(2)), Channels: byte(r.Intn(2)), Trait: byte(r.Intn(256)), OpusRate: byte(r.Pick(8, 12, 16, 24, 48, r.Intn(256))), Level: uint16(r.Uint32()), Payload: r.Bytes(r.Intn(20))}
	return a.Bytes()
}

func flvVideoSeed(r *vrand.Rand) []byte {
	v := &refflv.VideoBody{FrameType: byte(r.Intn(16)), Codec: byte(r.Pick(7, 12, 2, r.Intn(16))), PacketType: byte(r.Intn(256)), CTS: r.Uint32() & 0xffffff, Payload: r.Bytes(r.Intn(20))}
	return v.Bytes()
}

// ---- aac -------------------------------------------------------------------------------------

func adtsLoop(data []byte) string {
	a, err := aac.NewADTS()
	if err != nil {
		return "err-new"
	}
	n := 0
	p := data
	for len(p) > 0 {
		raw, left, err := a.Decode(p)
		if err != nil {
			break
		}
		_ = raw
		if len(left) >= len(p) {
			panic("verif: ADTS Decode made no progress (caller loops forever)")
		}
		asc := a.ASC()
		_ = asc.Object.String() + asc.SampleRate.String() + asc.Channels.String()
		asc.SampleRate.ToHz()
		p = left
		n++
	}
	if n == 0 {
		return "frames0"
	}
	return "frames+"
}

func adtsSeed(r *vrand.Rand) []byte {
	var b []byte
	for k := 0; k < r.Range(1, 6); k++ {
		h := refadts.Header{MPEG2: r.Bool(), ProtectionAbsent: r.Chance(2, 3), Profile: r.Intn(4), SamplingIndex: r.Intn(16), Channels: r.Intn(8), Fullness: r.Intn(2048), Blocks: r.Intn(4), Private: r.Bool()}
		if r.Chance(1, 8) {
			h.Layer = r.Intn(4)
		}
		out, err := refadts.WriteFrame(b, h, r.Bytes(r.Pick(0, 1, 2, 7, 100, 500)), true)
		if err == nil {
			b = out
		}
	}
	return b
}

func ascEntry(data []byte) string {
	var asc aac.AudioSpecificConfig
	r1 := "err"
	if err := asc.UnmarshalBinary(data); err == nil {
		r1 = "ok"
	}
	a, _ := aac.NewADTS()
	if err := a.SetASC(data); err == nil {
		return r1 + "/set-ok"
	}
	return r1 + "/set-err"
}

// ---- avc -------------------------------------------------------------------------------------

func avcRecord(data []byte) string {
	v := avc.NewAVCDecoderConfigurationRecord()
	if err := v.UnmarshalBinary(data); err != nil {
		return "err"
	}
	_ = v.AVCProfileIndication.String() + v.AVCLevelIndication.String()
	return "ok"
}

func avcNalu(data []byte) string {
	v := avc.NewNALU()
	if err := v.UnmarshalBinary(data); err != nil {
		return "err"
	}
	_ = v.NALUType.String()
	h := avc.NewNALUHeader()
	h.UnmarshalBinary(data)
	return "ok"
}

func avcSample(data []byte) string {
	if len(data) == 0 {
		return "empty"
	}
	v := avc.NewAVCSample(data[0] % 4)
	if err := v.UnmarshalBinary(data[1:]); err != nil {
		return "err"
	}
	return "ok"
}

func avcRecordSeed(r *vrand.Rand) []byte {
	rec := &refavc.Record{Version: 1, Profile: r.Pick(66, 77, 100, 110, r.Intn(256)), Compatibility: r.Intn(256), Level: r.Intn(256), LengthSize: r.Range(1, 4)}
	for k := 0; k < r.Intn(4); k++ {
		rec.SPS = append(rec.SPS, r.Bytes(r.Range(1, 30)))
	}
	for k := 0; k < r.Intn(4); k++ {
		rec.PPS = append(rec.PPS, r.Bytes(r.Range(1, 10)))
	}
	b, err := rec.WriteBase(nil)
	if err != nil {
		return []byte{1, 66, 0, 30, 0xff, 0xe0, 0}
	}
	return b
}

func avcSampleSeed(r *vrand.Rand) []byte {
	ls := r.Range(1, 4)
	var nals [][]byte
	for k := 0; k < r.Intn(5); k++ {
		nals = append(nals, r.Bytes(r.Pick(1, 2, 100, 255, 256)))
	}
	b, err := refavc.WriteSample(nil, ls, nals)
	if err != nil {
		b = nil
	}
	return append([]byte{byte(ls - 1)}, b...)
}

// ---- json+ -----------------------------------------------------------------------------------

func jsonDrain(data []byte) string {
	rd := ojson.NewJsonPlusReader(bytes.NewReader(data))
	if _, err := io.Copy(ioutil.Discard, rd); err != nil {
		return "err"
	}
	return "ok"
}

func jsonUnmarshal(data []byte) string {
	var v interface{}
	if err := ojson.Unmarshal(bytes.NewReader(data), &v); err != nil {
		return "err"
	}
	return "ok"
}

func jsonSeed(r *vrand.Rand) []byte {
	parts := []string{`{"a":1,`, `"b":"x // y",`, "// line comment\n", `/* block */`, `"c":[1,2,{"d":null}],`, `"e":"\"q\" /* no */"`, "}", "/*", "*/", "//", `"`, `\`, "\n", `'`, ` `, `[`, `]`, `"k":"v"`, ","}
	var sb strings.Builder
	for k := 0; k < r.Range(1, 30); k++ {
		sb.WriteString(parts[r.Intn(len(parts))])
	}
	return []byte(sb.String())
}

// ---- ocsp ------------------------------------------------------------------------------------

var ocspVectors [][]byte

func init() {
	files, _ := filepath.Glob(testdata("ocsp", "*.hex"))
	for _, f := range files {
		b, err := os.ReadFile(f)
		if err != nil {
			continue
		}
		d, err := hex.DecodeString(strings.TrimSpace(string(b)))
		if err == nil {
			ocspVectors = append(ocspVectors, d)
		}
	}
}

// certificates a caller may be asking about: serials that occur in no response, and (below) the one the response is for
var ocspAsked = []*x509.Certificate{{SerialNumber: big.NewInt(0x3333)}, {SerialNumber: big.NewInt(0)}, {SerialNumber: new(big.Int).Lsh(big.NewInt(1), 159)}}

func ocspResponse(data []byte) string {
	resp, err := ocsp.ParseResponse(data, nil)
	// the same bytes asked for a particular certificate: one no single response is about, and the one the first is about
	for _, c := range ocspAsked {
		ocsp.ParseResponseForCert(data, c, nil)
	}
	if err != nil {
		return "err"
	}
	if resp.SerialNumber != nil {
		if r2, err := ocsp.ParseResponseForCert(data, &x509.Certificate{SerialNumber: resp.SerialNumber}, nil); err == nil && r2 != nil {
			_ = r2.Status
		}
	}
	_ = resp.Status
	return "ok"
}

func ocspRequest(data []byte) string {
	if _, err := ocsp.ParseRequest(data); err != nil {
		return "err"
	}
	return "ok"
}

func ocspSeed(r *vrand.Rand) []byte {
	if len(ocspVectors) == 0 {
		return []byte{0x30, 0x03, 0x0a, 0x01, 0x01}
	}
	if r.Bool() {
		return append([]byte(nil), ocspVectors[r.Intn(len(ocspVectors))]...)
	}
	// structured responses from the independent RFC 6960 builder: every CHOICE arm / OPTIONAL field,
	// field values inside and outside their defined ranges
	o := refocsp.Options{CertStatus: r.Intn(3), WithReason: r.Bool(), WithNext: r.Bool(), ByKey: r.Bool(), SHA256: r.Bool(),
		SingleExt: r.Chance(1, 4), RespExt: r.Chance(1, 4), Responses: r.Pick(1, 1, 1, 2, 5), Serial: int64(r.Uint32())}
	o.Reason = r.Pick(0, 1, 2, 3, 4, 5, 6, 8, 9, 10, 7, 11, 127, 128, 255, 256, 65535, -1, -2, -128, -129, 1<<31-1, -(1 << 31))
	if r.Chance(1, 10) {
		o.ResponseStatus = r.Pick(1, 2, 3, 5, 6, 4, 7, 255, -1)
	}
	if r.Chance(1, 4) {
		o.Certs = append(o.Certs, ocspVectors[r.Intn(len(ocspVectors))]) // some vectors are certificates, some are not
	}
	return refocsp.Build(o)
}

// ---- the table -------------------------------------------------------------------------------

func entries() []hostile.Entry {
	return []hostile.Entry{
		{Name: "amf0.Discovery+Unmarshal", F: amf0Any, Seed: amf0Seed, Families: amf0Families},
		{Name: "amf0.typed.Unmarshal", F: amf0Typed, Seed: func(r *vrand.Rand) []byte { return append([]byte{byte(r.Intn(8))}, amf0Seed(r)...) }},
		{Name: "flv.demuxer", F: flvDemux, Seed: flvSeed, Families: []hostile.Family{
			{"many-empty-tags", func(n int) []byte {
				return append(refflv.AppendPreamble(nil, true, true), rep(refflv.AppendTag(nil, refflv.Tag{Type: 9}), n, nil)...)
			}},
			{"many-small-tags", func(n int) []byte {
				return append(refflv.AppendPreamble(nil, true, true), rep(refflv.AppendTag(nil, refflv.Tag{Type: 8, Body: []byte{1, 2, 3}}), n, nil)...)
			}},
		}},
		{Name: "flv.audio.Decode", F: flvAudio, Seed: flvAudioSeed, MaxRand: 4096},
		{Name: "flv.video.Decode", F: flvVideo, Seed: flvVideoSeed, MaxRand: 4096},
		{Name: "aac.adts.Decode-loop", F: adtsLoop, Seed: adtsSeed, Families: []hostile.Family{
			{"many-min-frames", func(n int) []byte {
				f, _ := refadts.WriteFrame(nil, refadts.Header{ProtectionAbsent: true, Profile: 1, SamplingIndex: 4, Channels: 2}, []byte{0}, false)
				return rep(f, n, nil)
			}},
			{"many-crc-frames", func(n int) []byte {
				f, _ := refadts.WriteFrame(nil, refadts.Header{ProtectionAbsent: false, Profile: 1, SamplingIndex: 4, Channels: 2}, []byte{0}, true)
				return rep(f, n, nil)
			}},
		}},
		{Name: "aac.asc", F: ascEntry, Seed: func(r *vrand.Rand) []byte { return r.Bytes(r.Pick(0, 1, 2, 2, 2, 3, 5)) }, MaxRand: 64},
		{Name: "avc.record.Unmarshal", F: avcRecord, Seed: avcRecordSeed, Families: []hostile.Family{
			{"many-pps", func(n int) []byte {
				b := []byte{1, 66, 0, 30, 0xff, 0xe0, 0xff}
				return append(b, rep([]byte{0, 1, 0x68}, n, nil)...)
			}},
		}},
		{Name: "avc.nalu.Unmarshal", F: avcNalu, Seed: func(r *vrand.Rand) []byte { return r.Bytes(r.Pick(1, 2, 50)) }, MaxRand: 4096},
		{Name: "avc.sample.Unmarshal", F: avcSample, Seed: avcSampleSeed, Families: []hostile.Family{
			{"many-1byte-nalus/ls1", func(n int) []byte { return append([]byte{0}, rep([]byte{1, 0x65}, n, nil)...) }},
			{"many-1byte-nalus/ls4", func(n int) []byte { return append([]byte{3}, rep([]byte{0, 0, 0, 1, 0x65}, n, nil)...) }},
			{"many-empty-nalus/ls2", func(n int) []byte { return append([]byte{1}, rep([]byte{0, 0}, n, nil)...) }},
		}},
		{Name: "json.JsonPlusReader", F: jsonDrain, Seed: jsonSeed, Families: []hostile.Family{
			{"many-line-comments", func(n int) []byte { return rep([]byte("//x\n"), n, nil) }},
			{"many-block-comments", func(n int) []byte { return rep([]byte("/*x*/1 "), n, nil) }},
			{"many-short-strings", func(n int) []byte { return rep([]byte(`"a",`), n, nil) }},
			{"unterminated-block", func(n int) []byte { return append([]byte("/*"), rep([]byte("* / "), n, nil)...) }},
			{"unterminated-string-with-slashes", func(n int) []byte { return append([]byte(`"`), rep([]byte(`\" // `), n, nil)...) }},
			{"many-quotes", func(n int) []byte { return rep([]byte(`"`), n, nil) }},
		}},
		{Name: "json.Unmarshal", F: jsonUnmarshal, Seed: jsonSeed},
		{Name: "ocsp.ParseResponse", F: ocspResponse, Seed: ocspSeed, Weight: 50},
		{Name: "ocsp.ParseRequest", F: ocspRequest, Seed: ocspSeed, Weight: 50},
	}
}

func TestVerif_C07_Hostile(t *testing.T) {
	part := "hostile"
	if hostile.Ticks() {
		part = "ticks"
	}
	m := mon.New("C07", part)
	defer m.Finish(t)
	m.Rule("per decoder entry: 1/8 random bytes (length classes 0..64 KiB, some low-entropy), 1/8 grammar-derived encodings from the reference " +
		"encoders, 6/8 mutations of those (bit flips, truncations, length fields set to 0/max/len+-1, splices, duplicated fragments, ...); in the " +
		"instrumented build every call runs under the tick budget B(n)=20000(n+4096) and scalable adversarial families are measured at 4K..64K " +
		"for the growth law; distinct = entry x input kind x outcome x length bucket")
	es := entries()
	per := 20000
	if hostile.Ticks() {
		per = 3000
	}
	hostile.Run(m, es, hostile.Options{PerEntryQuick: per, PerEntryThorough: per * 50})
	for _, e := range es {
		m.Require("inputs:"+e.Name, 100)
	}
	if len(ocspVectors) < 5 {
		m.Inconclusive("ocsp test vectors missing")
	}
}
