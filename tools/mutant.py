#!/usr/bin/env python3
"""Seeded-change helper.

  tools/mutant.py verify <dir>            confirm a candidate (patch.diff + demo + meta.json) in a scratch worktree:
                                          compiles, existing suite passes, demo fails with the patch and passes without
  tools/mutant.py check <dir> [PROP..]    run check.py for the property (default: meta.json's) against the patched
                                          sources WITHOUT touching /repo (scratch worktree + build overlay); prints caught/missed
Both remove the scratch worktree (and its build output) when done.
meta.json: {"property": "C01", "needs": "...", "demo_dst": "rtmp/zz_demo_test.go", "demo_src": "demo_test.go",
            "demo_run": "go test -vet=off -count=1 -run TestDemo ./rtmp"}
"""
import json, os, shutil, subprocess, sys, tempfile

ENV = dict(os.environ, GOFLAGS="-mod=mod", GOPROXY="off", GOSUMDB="off", GOTOOLCHAIN="local")
VERIF = os.path.dirname(os.path.dirname(os.path.abspath(__file__)))


def sh(cmd, cwd, timeout=1800):
    r = subprocess.run(cmd, cwd=cwd, env=ENV, shell=True, capture_output=True, text=True, timeout=timeout)
    return r.returncode, (r.stdout + r.stderr)


def worktree():
    d = tempfile.mkdtemp(prefix="mwt-", dir="/tmp")
    os.rmdir(d)
    rc, out = sh("git -C /repo worktree add --detach %s HEAD" % d, "/")
    if rc != 0:
        raise SystemExit(out)
    return d


def drop(d):
    sh("git -C /repo worktree remove --force %s" % d, "/")
    shutil.rmtree(d, ignore_errors=True)
    sh("git -C /repo worktree prune", "/")


def changed_files(wt):
    rc, out = sh("git status --porcelain", wt)
    files = []
    for l in out.splitlines():
        files.append((l[:2], l[3:].strip()))
    return files


def verify(cand):
    meta = json.load(open(os.path.join(cand, "meta.json")))
    wt = worktree()
    res = {}
    try:
        rc, out = sh("git apply --whitespace=nowarn %s" % os.path.join(cand, "patch.diff"), wt)
        res["applies"] = rc == 0
        if rc != 0:
            print(out)
            return res
        rc, out = sh("go build ./... && go vet ./... >/dev/null 2>&1; go test -vet=off -count=1 ./... 2>&1 | tail -30", wt)
        res["suite_passes_with_patch"] = "FAIL" not in out and rc == 0
        if not res["suite_passes_with_patch"]:
            print(out[-2000:])
        dst = os.path.join(wt, meta["demo_dst"])
        shutil.copy(os.path.join(cand, meta["demo_src"]), dst)
        rc1, out1 = sh(meta["demo_run"], wt)
        res["demo_fails_with_patch"] = rc1 != 0
        sh("git checkout -- . ", wt)
        rc2, out2 = sh(meta["demo_run"], wt)
        res["demo_passes_without_patch"] = rc2 == 0
        if rc2 != 0:
            print(out2[-1500:])
        res["demo_output_with_patch"] = out1[-600:]
    finally:
        drop(wt)
    print(json.dumps(res, indent=1))
    return res


def check(cand, props, tier):
    meta = json.load(open(os.path.join(cand, "meta.json")))
    props = props or [meta["property"]]
    wt = worktree()
    out_all = {}
    try:
        rc, out = sh("git apply --whitespace=nowarn %s" % os.path.join(cand, "patch.diff"), wt)
        if rc != 0:
            raise SystemExit("patch does not apply: " + out)
        overlay = {}
        for st, f in changed_files(wt):
            if f.endswith(".go") and not f.endswith("_test.go"):
                if not os.path.exists(os.path.join("/repo", f)):
                    print("WARNING: patch adds new file %s; overlay cannot add files reliably" % f)
                overlay[os.path.join("/repo", f)] = os.path.join(wt, f)
        ov = os.path.join(wt, ".verif_overlay.json")
        json.dump(overlay, open(ov, "w"))
        for p in props:
            env = dict(ENV, VERIF_EXTRA_OVERLAY=ov)
            r = subprocess.run(["python3", os.path.join(VERIF, "check.py"), p, "--tier", tier], cwd=VERIF, env=env, capture_output=True, text=True)
            sigs = [l.strip() for l in r.stdout.splitlines() if l.strip().startswith("sig:")]
            verdict = "CAUGHT" if r.returncode == 1 and "VIOLATION" in r.stdout else ("INCONCLUSIVE" if r.returncode == 2 else "MISSED")
            counts = [int(l.split(":")[1]) for l in r.stdout.splitlines() if l.strip().startswith("count:")]
            out_all[p] = {"verdict": verdict, "exit": r.returncode, "sigs": sigs[:8], "hits": sum(counts)}
            print("%s %s: %s %s hits=%d" % (os.path.basename(cand.rstrip("/")), p, verdict, sigs[:4], sum(counts)))
    finally:
        drop(wt)
        # evidence files were rewritten by the mutated run: the caller re-runs the check on the clean tree before committing
    return out_all


if __name__ == "__main__":
    cmd, cand = sys.argv[1], os.path.abspath(sys.argv[2])
    if cmd == "verify":
        verify(cand)
    else:
        tier = "quick"
        args = sys.argv[3:]
        if "--tier" in args:
            i = args.index("--tier")
            tier = args[i + 1]
            args = args[:i] + args[i + 2:]
        check(cand, args, tier)
