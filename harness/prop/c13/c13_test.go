// C13 — black-box part: sessions set up through the library's own opening handshake
// (Dialer against an httptest server with Upgrader) over a teeing net.Conn.
package c13

import (
	"bufio"
	"bytes"
	"crypto/sha1"
	"encoding/base64"
	"encoding/json"
	"fmt"
	"io"
	"net"
	"net/http"
	"net/http/httptest"
	"strings"
	"sync"
	"testing"
	"time"

	"github.com/ossrs/go-oryx-lib/websocket"
	"verifharness/lib/mon"
	"verifharness/lib/refws"
	"verifharness/lib/vrand"
)

// teeConn records both directions of the client's TCP connection.
type teeConn struct {
	net.Conn
	mu       sync.Mutex
	sent     []byte // client -> server (what the client wrote)
	received []byte // server -> client (what the client read)
	rdl, wdl time.Time // the read / write deadline in effect on the connection
}

func (t *teeConn) SetDeadline(d time.Time) error {
	t.mu.Lock()
	t.rdl, t.wdl = d, d
	t.mu.Unlock()
	return t.Conn.SetDeadline(d)
}

func (t *teeConn) SetReadDeadline(d time.Time) error {
	t.mu.Lock()
	t.rdl = d
	t.mu.Unlock()
	return t.Conn.SetReadDeadline(d)
}

func (t *teeConn) SetWriteDeadline(d time.Time) error {
	t.mu.Lock()
	t.wdl = d
	t.mu.Unlock()
	return t.Conn.SetWriteDeadline(d)
}

func (t *teeConn) Read(p []byte) (int, error) {
	n, err := t.Conn.Read(p)
	t.mu.Lock()
	t.received = append(t.received, p[:n]...)
	t.mu.Unlock()
	return n, err
}

func (t *teeConn) Write(p []byte) (int, error) {
	n, err := t.Conn.Write(p)
	t.mu.Lock()
	t.sent = append(t.sent, p[:n]...)
	t.mu.Unlock()
	return n, err
}

type msg struct {
	typ  int
	data []byte
}

type sessionCfg struct {
	srvCompress, cliCompress bool
	srvProtos, cliProtos     []string
	srvRB, srvWB             int
	cliRB, cliWB             int
	srvLevel, cliLevel       int
	echoAPI                  []string // how the server echoes message i
}

var text = func() []byte {
	b := make([]byte, 0, 5<<20)
	r := vrand.New(777)
	words := []string{"alpha ", "beta ", "gamma ", "δέλτα ", "websocket ", "帧帧 ", "0123456789 "}
	for len(b) < 5<<20-16 {
		b = append(b, words[r.Intn(len(words))]...)
	}
	return b
}()

func payload(r *vrand.Rand, typ, n int) []byte {
	if typ == websocket.TextMessage {
		out := make([]byte, n)
		for i := range out {
			out[i] = byte('a' + (i*3+n)%26) // ASCII: valid UTF-8 at every cut
		}
		if n > 64 {
			off := r.Intn(4096)
			for text[off]&0xc0 == 0x80 {
				off++
			}
			k := n - 8
			for k > 0 && text[off+k]&0xc0 == 0x80 {
				k--
			}
			copy(out, text[off:off+k])
		}
		return out
	}
	if r.Bool() {
		return r.Shaped(n)
	}
	out := make([]byte, n)
	pat := r.Bytes(r.Range(1, 32))
	for i := range out {
		out[i] = pat[i%len(pat)]
	}
	return out
}

func sizes(b int) []int {
	return []int{0, 1, 125, 126, 127, 65535, 65536, 65537, b - 1, b, b + 1, 2 * b, 2*b + 1, 2*b + 15, 3 * b, 2*b + 28, 2*b + 29}
}

// server-side echo with a chosen write API
func echo(c *websocket.Conn, api string, typ int, data []byte, r *vrand.Rand) error {
	switch api {
	case "NextWriter":
		w, err := c.NextWriter(typ)
		if err != nil {
			return err
		}
		for len(data) > 0 {
			n := r.Range(0, len(data))
			if r.Chance(1, 3) {
				n = len(data)
			}
			if _, err := w.Write(data[:n]); err != nil {
				return err
			}
			data = data[n:]
		}
		return w.Close()
	case "ReadFrom":
		w, err := c.NextWriter(typ)
		if err != nil {
			return err
		}
		if _, err := io.Copy(w, struct{ io.Reader }{bytes.NewReader(data)}); err != nil {
			return err
		}
		return w.Close()
	case "Prepared":
		pm, err := websocket.NewPreparedMessage(typ, data)
		if err != nil {
			return err
		}
		return c.WritePreparedMessage(pm)
	}
	return c.WriteMessage(typ, data)
}

func split(buf []byte) (header, rest []byte, ok bool) {
	i := bytes.Index(buf, []byte("\r\n\r\n"))
	if i < 0 {
		return nil, nil, false
	}
	return buf[:i+4], buf[i+4:], true
}

func TestVerif_C13_Loopback(t *testing.T) {
	m := mon.New("C13", "loopback")
	defer m.Finish(t)
	m.Rule("httptest server with Upgrader{EnableCompression on/off, Subprotocols on/off, buffer sizes} echoing through {WriteMessage, NextWriter+random Writes, io.Copy, PreparedMessage}; " +
		"Dialer{EnableCompression on/off, Subprotocols, buffer sizes} whose NetDial returns a teeing net.Conn; client sends 8..14 messages with sizes from {0,1,125,126,127,65535,65536," +
		"65537,b-1..3b of the client's write buffer, occasionally 1 MiB} through {WriteMessage, NextWriter, WriteJSON}, pings in between, closing handshake; after the HTTP headers both " +
		"directions are parsed by refws.Parser; Sec-WebSocket-Accept recomputed; distinct = negotiated compression x sub-protocol x buffer class x size class")
	n := m.N(60, 3000)
	m.Require("sessions_completed", int64(n))
	m.Require("sessions_compressed", int64(n/8))
	m.Require("sessions_subprotocol", int64(n/8))
	m.Require("frames_client_parsed", int64(n*8))
	m.Require("frames_server_parsed", int64(n*8))
	m.Require("accept_checked", int64(n))
	mon.Parallel(n, func(w, si int) {
		r := m.Rand("loopback", si)
		bufs := []int{0, 1, 16, 256, 1024, 4096, 65536}
		cfg := sessionCfg{srvCompress: r.Chance(2, 3), cliCompress: r.Chance(2, 3),
			srvRB: bufs[r.Intn(len(bufs))], srvWB: bufs[r.Intn(len(bufs))], cliRB: bufs[r.Intn(len(bufs))], cliWB: bufs[r.Intn(len(bufs))],
			srvLevel: r.Range(-2, 9), cliLevel: r.Range(-2, 9)}
		if r.Bool() {
			cfg.srvProtos = []string{"chat.v2", "chat.v1"}
		}
		if r.Chance(2, 3) {
			cfg.cliProtos = [][]string{{"chat.v1"}, {"other", "chat.v1", "chat.v2"}, {"nomatch"}}[r.Intn(3)]
		}
		rep := map[string]interface{}{"session": si, "config": fmt.Sprintf("%+v", cfg)}
		m.Case()
		m.Guard("ws.loopback", nil, func() { runSession(m, r, cfg, rep) })
	})
}

func runSession(m *mon.M, r *vrand.Rand, cfg sessionCfg, rep map[string]interface{}) {
	viol := func(sig, format string, a ...interface{}) { m.Violationf(sig, rep, format, a...) }
	sr := r.Split()
	var srvErr error
	var srvSub string
	srvDone := make(chan struct{})
	up := websocket.Upgrader{EnableCompression: cfg.srvCompress, Subprotocols: cfg.srvProtos, ReadBufferSize: cfg.srvRB, WriteBufferSize: cfg.srvWB,
		CheckOrigin: func(*http.Request) bool { return true }}
	srv := httptest.NewServer(http.HandlerFunc(func(w http.ResponseWriter, req *http.Request) {
		defer close(srvDone)
		c, err := up.Upgrade(w, req, nil)
		if err != nil {
			srvErr = err
			return
		}
		defer c.Close()
		srvSub = c.Subprotocol()
		c.SetCompressionLevel(cfg.srvLevel)
		apis := []string{"WriteMessage", "NextWriter", "ReadFrom", "Prepared"}
		for {
			var typ int
			var data []byte
			if sr.Bool() {
				typ, data, err = c.ReadMessage()
			} else {
				var rd io.Reader
				typ, rd, err = c.NextReader()
				if err == nil {
					var buf bytes.Buffer
					_, err = io.CopyBuffer(&buf, struct{ io.Reader }{rd}, make([]byte, sr.Pick(1, 7, 512, 40000)))
					data = buf.Bytes()
				}
			}
			if err != nil {
				if !websocket.IsCloseError(err, websocket.CloseNormalClosure) {
					srvErr = err
				}
				return
			}
			if sr.Chance(1, 4) {
				c.EnableWriteCompression(sr.Bool())
			}
			if err = echo(c, apis[sr.Intn(len(apis))], typ, data, sr); err != nil {
				srvErr = err
				return
			}
		}
	}))
	defer srv.Close()

	var tee *teeConn
	d := websocket.Dialer{EnableCompression: cfg.cliCompress, Subprotocols: cfg.cliProtos, ReadBufferSize: cfg.cliRB, WriteBufferSize: cfg.cliWB,
		NetDial: func(network, addr string) (net.Conn, error) {
			c, err := net.Dial(network, addr)
			if err != nil {
				return nil, err
			}
			tee = &teeConn{Conn: c}
			return tee, nil
		}}
	if r.Bool() {
		d.HandshakeTimeout = 30 * time.Second // generous: only its being set matters
		m.Count("dials_with_a_handshake_timeout", 1)
	}
	c, resp, err := d.Dial("ws"+strings.TrimPrefix(srv.URL, "http"), nil)
	if err != nil {
		viol("c13:dial-failed", "Dial: %v", err)
		return
	}
	// the handshake's deadline must be gone when Dial returns: a session may stay idle longer than the handshake timeout,
	// and a read (or write) deadline left armed on the connection would end it then
	tee.mu.Lock()
	rdl, wdl := tee.rdl, tee.wdl
	tee.mu.Unlock()
	if !rdl.IsZero() || !wdl.IsZero() {
		viol("c13:handshake-deadline-left-armed", "after Dial (HandshakeTimeout %v) the connection still has a deadline: read %v, write %v", d.HandshakeTimeout, rdl, wdl)
		return
	}
	c.SetCompressionLevel(cfg.cliLevel)
	c.SetReadDeadline(time.Now().Add(120 * time.Second)) // watchdog only: a hung session ends instead of blocking the run
	b := cfg.cliWB
	if b == 0 {
		b = 4096
	}
	var sent, got []msg
	nmsg := r.Range(8, 14)
	bigLeft := 1
	failed := false
	for i := 0; i < nmsg && !failed; i++ {
		sz := sizes(b)
		size := sz[r.Intn(len(sz))]
		if r.Chance(1, 3) {
			size = r.Range(0, 400)
		}
		if size < 0 {
			size = 0
		}
		if size > 20000 {
			if bigLeft == 0 || b < 16 {
				size = r.Range(0, 3000)
			} else {
				bigLeft--
				if r.Chance(1, 10) {
					size = 1 << 20
				}
			}
		}
		typ := r.Pick(websocket.TextMessage, websocket.BinaryMessage)
		data := payload(r, typ, size)
		api := r.Pick(0, 1, 2)
		if r.Chance(1, 5) {
			if err := c.WriteControl(websocket.PingMessage, r.Bytes(r.Intn(126)), time.Now().Add(30*time.Second)); err != nil {
				viol("c13:write-error:ping", "ping: %v", err)
			}
		}
		if r.Chance(1, 4) {
			c.EnableWriteCompression(r.Bool())
		}
		switch api {
		case 0:
			err = c.WriteMessage(typ, data)
		case 1:
			var w io.WriteCloser
			w, err = c.NextWriter(typ)
			rest := data
			for err == nil && len(rest) > 0 {
				k := r.Range(0, len(rest))
				if r.Chance(1, 3) {
					k = len(rest)
				}
				_, err = w.Write(rest[:k])
				rest = rest[k:]
			}
			if err == nil {
				err = w.Close()
			}
		case 2:
			typ = websocket.TextMessage
			s := string(payload(r, typ, size))
			err = c.WriteJSON(s)
			enc, _ := json.Marshal(s)
			data = append(enc, '\n')
		}
		if err != nil {
			viol("c13:write-error:client", "client write %d (%d bytes): %v", i, len(data), err)
			failed = true
			break
		}
		sent = append(sent, msg{typ, data})
		m.Classf("comp%v/%s/size-%s", resp.Header.Get("Sec-Websocket-Extensions") != "", bufClass(b), sizeClass(len(data)))
		// lock-step echo: read it back before sending the next one (keeps the server's replies bounded)
		rt, rd, err := c.ReadMessage()
		if err != nil {
			viol("c13:read-error:client", "client read of echo %d: %v", i, err)
			failed = true
			break
		}
		got = append(got, msg{rt, rd})
	}
	if !failed {
		if err := c.WriteControl(websocket.CloseMessage, websocket.FormatCloseMessage(websocket.CloseNormalClosure, "done"), time.Now().Add(30*time.Second)); err != nil {
			viol("c13:write-error:close", "close: %v", err)
		}
		if _, _, err := c.ReadMessage(); !websocket.IsCloseError(err, websocket.CloseNormalClosure) {
			viol("c13:close-not-echoed", "client read after Close(1000): %v", err)
		}
	}
	c.Close()
	select {
	case <-srvDone:
	case <-time.After(60 * time.Second):
		m.Count("server_handler_timeouts", 1) // inconclusive, not a violation: watchdog
		return
	}
	if srvErr != nil && !failed {
		viol("c13:server-error", "server side: %v", srvErr)
		failed = true
	}

	// ---- handshake
	tee.mu.Lock()
	c2s, s2c := tee.sent, tee.received
	tee.mu.Unlock()
	reqHdr, c2sFrames, ok1 := split(c2s)
	respHdr, s2cFrames, ok2 := split(s2c)
	if !ok1 || !ok2 {
		viol("c13:no-http-header", "no header terminator in the recorded directions")
		return
	}
	req, err := http.ReadRequest(bufio.NewReader(bytes.NewReader(reqHdr)))
	if err != nil {
		viol("c13:handshake-request-unparseable", "%v", err)
		return
	}
	rsp, err := http.ReadResponse(bufio.NewReader(bytes.NewReader(respHdr)), req)
	if err != nil {
		viol("c13:handshake-response-unparseable", "%v", err)
		return
	}
	key := req.Header.Get("Sec-WebSocket-Key")
	h := sha1.Sum([]byte(key + "258EAFA5-E914-47DA-95CA-C5AB0DC85B11"))
	want := base64.StdEncoding.EncodeToString(h[:])
	m.Count("accept_checked", 1)
	if raw, err := base64.StdEncoding.DecodeString(key); err != nil || len(raw) != 16 {
		viol("c13:bad-challenge-key", "Sec-WebSocket-Key %q is not 16 base64-encoded bytes", key)
	}
	if got := rsp.Header.Get("Sec-WebSocket-Accept"); got != want || rsp.StatusCode != 101 {
		viol("c13:wrong-accept", "status %d, Sec-WebSocket-Accept %q, want %q for key %q", rsp.StatusCode, got, want, key)
	}
	ext := rsp.Header.Get("Sec-WebSocket-Extensions")
	compressed := strings.Contains(ext, "permessage-deflate")
	if compressed && !(cfg.srvCompress && cfg.cliCompress) {
		viol("c13:extension-not-offered", "response carries %q but compression was not enabled on both sides", ext)
	}
	if compressed && !strings.Contains(req.Header.Get("Sec-WebSocket-Extensions"), "permessage-deflate") {
		viol("c13:extension-not-offered", "response carries %q, the request did not offer it", ext)
	}
	proto := rsp.Header.Get("Sec-WebSocket-Protocol")
	if proto != "" {
		offered := false
		for _, p := range cfg.cliProtos {
			offered = offered || p == proto
		}
		if !offered {
			viol("c13:subprotocol-not-offered", "server selected %q, client offered %v", proto, cfg.cliProtos)
		}
		m.Count("sessions_subprotocol", 1)
	}
	if c.Subprotocol() != proto || srvSub != proto {
		viol("c13:subprotocol-mismatch", "header %q, client Conn %q, server Conn %q", proto, c.Subprotocol(), srvSub)
	}
	if compressed {
		m.Count("sessions_compressed", 1)
	}

	// ---- both directions of the tee under the reference parser
	pc := refws.ParseLog(refws.RoleClient, compressed, c2sFrames)
	ps := refws.ParseLog(refws.RoleServer, compressed, s2cFrames)
	if e := pc.Finish(); e != nil {
		viol("c13:wire-invalid:"+e.Code+":client", "client->server: %v", e)
		return
	}
	if e := ps.Err(); e != nil { // the client may not have read the very last bytes: only whole-frame validity
		viol("c13:wire-invalid:"+e.Code+":server", "server->client: %v", e)
		return
	}
	m.Count("frames_client_parsed", int64(len(pc.Frames())))
	m.Count("frames_server_parsed", int64(len(ps.Frames())))
	for _, e := range append(pc.Messages(), ps.Messages()...) {
		if e.Compressed {
			m.Count("messages_compressed_on_wire", 1)
		}
		if e.NFrames > 1 {
			m.Count("messages_fragmented", 1)
		}
	}
	if failed {
		return
	}
	check := func(name string, a []msg, ev []refws.Event) {
		if len(ev) != len(a) {
			viol("c13:wire-message-count:"+name, "%s: %d messages on the wire, %d expected", name, len(ev), len(a))
			return
		}
		for i := range a {
			if int(ev[i].Opcode) != a[i].typ || !bytes.Equal(ev[i].Payload, a[i].data) {
				viol("c13:wire-payload-differs:"+name, "%s message %d: wire (type %d, %d bytes) %s, expected (type %d, %d bytes) %s", name, i, ev[i].Opcode, len(ev[i].Payload), mon.Hex(ev[i].Payload), a[i].typ, len(a[i].data), mon.Hex(a[i].data))
				return
			}
		}
	}
	check("client", sent, pc.Messages())
	check("server", sent, ps.Messages())
	if len(got) != len(sent) {
		viol("c13:received-count:client", "%d echoes received, %d sent", len(got), len(sent))
	}
	for i := 0; i < len(got) && i < len(sent); i++ {
		if got[i].typ != sent[i].typ || !bytes.Equal(got[i].data, sent[i].data) {
			viol("c13:received-differs:client", "echo %d: (type %d, %d bytes) %s != sent (type %d, %d bytes) %s", i, got[i].typ, len(got[i].data), mon.Hex(got[i].data), sent[i].typ, len(sent[i].data), mon.Hex(sent[i].data))
			break
		}
	}
	if pc.CloseIndex() < 0 || ps.CloseIndex() < 0 {
		viol("c13:close-frame-missing", "close frames: client %d server %d", pc.CloseIndex(), ps.CloseIndex())
	}
	m.Count("sessions_completed", 1)
	m.Count("messages_checked", int64(len(sent)))
	if m.WantSample() {
		m.Sample(map[string]interface{}{"config": fmt.Sprintf("%+v", cfg), "request": string(reqHdr), "response": string(respHdr), "messages": len(sent), "c2s_bytes": len(c2sFrames), "s2c_bytes": len(s2cFrames)})
	}
}

func bufClass(b int) string {
	switch {
	case b < 64:
		return "b-min"
	case b <= 256:
		return "b256"
	case b <= 1024:
		return "b1024"
	case b <= 4096:
		return "b4096"
	}
	return "b65536"
}

func sizeClass(n int) string {
	switch {
	case n == 0:
		return "0"
	case n <= 125:
		return "le125"
	case n <= 65535:
		return "le65535"
	case n < 1<<20:
		return "ge65536"
	}
	return "MiB"
}
