package refflv

import (
	"errors"
	"fmt"
)

// Tag-body layout tables (Annex E.4.2 / E.4.3 as summarised in DESIGN.md §6).
//
//	audio byte 0 = format(4) rate(2) size(1) type(1)
//	  format 10 (AAC):  + packet type(1)                       then payload
//	  format 13 (Opus, the library's documented extension): rate bits of byte 0 are 0;
//	                    + trait flags(1): 0x02 raw data, 0x04 sampling-rate byte follows,
//	                      0x08 16-bit audio level follows; side fields in that order
//	                      (rate(1), level(2, big-endian)), then payload
//	  other formats:    payload directly
//	video byte 0 = frame type(4) codec id(4)
//	  codec 7 (AVC) / 12 (HEVC, extension): + packet type(1) + composition time(3, big-endian)
//	  other codecs:     payload directly
const (
	AudioAAC  = 10
	AudioOpus = 13
	VideoAVC  = 7
	VideoHEVC = 12

	OpusFlagRaw   = 0x02
	OpusFlagRate  = 0x04
	OpusFlagLevel = 0x08
)

// FLVRateHz maps the 2-bit FLV sound rate code to Hz.
var FLVRateHz = [4]int{5512, 11025, 22050, 44100}

// OpusRateCodes are the defined Opus sampling-rate codes (kHz) and OpusRateHz their Hz.
var OpusRateCodes = []byte{8, 12, 16, 24, 48}
var OpusRateHz = map[byte]int{8: 8000, 12: 12000, 16: 16000, 24: 24000, 48: 48000}

// AudioByte0 packs the first byte of an audio body.
func AudioByte0(format, rate, size, channels byte) byte {
	return (format&0x0f)<<4 | (rate&0x03)<<2 | (size&0x01)<<1 | channels&0x01
}

// AudioBody is an audio tag body by fields.
type AudioBody struct {
	Format, Rate, Size, Channels byte // byte 0; for Opus Rate is 0 by definition
	Trait                        byte // AAC packet type / Opus trait flags; meaningful for formats 10 and 13 only
	OpusRate                     byte // present iff Format==13 && Trait&0x04
	Level                        uint16 // present iff Format==13 && Trait&0x08
	Payload                      []byte
}

func (a *AudioBody) HasTrait() bool { return a.Format == AudioAAC || a.Format == AudioOpus }
func (a *AudioBody) HasOpusRate() bool {
	return a.Format == AudioOpus && a.Trait&OpusFlagRate != 0
}
func (a *AudioBody) HasLevel() bool { return a.Format == AudioOpus && a.Trait&OpusFlagLevel != 0 }

// HeaderLen is the number of bytes before the payload.
func (a *AudioBody) HeaderLen() int {
	n := 1
	if a.HasTrait() {
		n++
	}
	if a.HasOpusRate() {
		n++
	}
	if a.HasLevel() {
		n += 2
	}
	return n
}

// Bytes is the canonical body for these fields.
func (a *AudioBody) Bytes() []byte {
	rate := a.Rate
	if a.Format == AudioOpus {
		rate = 0
	}
	b := make([]byte, 0, a.HeaderLen()+len(a.Payload))
	b = append(b, AudioByte0(a.Format, rate, a.Size, a.Channels))
	if a.HasTrait() {
		b = append(b, a.Trait)
	}
	if a.HasOpusRate() {
		b = append(b, a.OpusRate)
	}
	if a.HasLevel() {
		b = append(b, byte(a.Level>>8), byte(a.Level))
	}
	return append(b, a.Payload...)
}

var ErrShortBody = errors.New("refflv: body shorter than its layout")

// ErrNonCanonical: an Opus body whose byte 0 carries non-zero rate bits.
var ErrNonCanonical = errors.New("refflv: Opus body with rate bits set in byte 0")

// ParseAudio reads a body by the table above.
func ParseAudio(b []byte) (*AudioBody, error) {
	if len(b) < 1 {
		return nil, ErrShortBody
	}
	a := &AudioBody{Format: b[0] >> 4, Rate: b[0] >> 2 & 3, Size: b[0] >> 1 & 1, Channels: b[0] & 1}
	p := b[1:]
	if a.HasTrait() {
		if len(p) < 1 {
			return nil, ErrShortBody
		}
		a.Trait, p = p[0], p[1:]
	}
	if a.Format == AudioOpus && a.Rate != 0 {
		return nil, ErrNonCanonical
	}
	if a.HasOpusRate() {
		if len(p) < 1 {
			return nil, ErrShortBody
		}
		a.OpusRate, p = p[0], p[1:]
	}
	if a.HasLevel() {
		if len(p) < 2 {
			return nil, ErrShortBody
		}
		a.Level, p = uint16(p[0])<<8|uint16(p[1]), p[2:]
	}
	a.Payload = p
	return a, nil
}

func (a *AudioBody) String() string {
	s := fmt.Sprintf("audio{fmt %d rate %d size %d ch %d", a.Format, a.Rate, a.Size, a.Channels)
	if a.HasTrait() {
		s += fmt.Sprintf(" trait %#02x", a.Trait)
	}
	if a.HasOpusRate() {
		s += fmt.Sprintf(" opusrate %d", a.OpusRate)
	}
	if a.HasLevel() {
		s += fmt.Sprintf(" level %#04x", a.Level)
	}
	return s + fmt.Sprintf(" payload %d}", len(a.Payload))
}

// VideoBody is a video tag body by fields.
type VideoBody struct {
	FrameType, Codec byte
	PacketType       byte   // codecs 7 and 12 only
	CTS              uint32 // 24 bits, codecs 7 and 12 only
	Payload          []byte
}

func (v *VideoBody) HasAVCHeader() bool { return v.Codec == VideoAVC || v.Codec == VideoHEVC }

func (v *VideoBody) HeaderLen() int {
	if v.HasAVCHeader() {
		return 5
	}
	return 1
}

// VideoByte0 packs the first byte of a video body.
func VideoByte0(frameType, codec byte) byte { return (frameType&0x0f)<<4 | codec&0x0f }

func (v *VideoBody) Bytes() []byte {
	b := make([]byte, 0, v.HeaderLen()+len(v.Payload))
	b = append(b, VideoByte0(v.FrameType, v.Codec))
	if v.HasAVCHeader() {
		b = append(b, v.PacketType)
		b = be24(b, v.CTS&0xFFFFFF)
	}
	return append(b, v.Payload...)
}

func ParseVideo(b []byte) (*VideoBody, error) {
	if len(b) < 1 {
		return nil, ErrShortBody
	}
	v := &VideoBody{FrameType: b[0] >> 4, Codec: b[0] & 0x0f}
	p := b[1:]
	if v.HasAVCHeader() {
		if len(p) < 4 {
			return nil, ErrShortBody
		}
		v.PacketType = p[0]
		v.CTS = rd24(p[1:])
		p = p[4:]
	}
	v.Payload = p
	return v, nil
}

func (v *VideoBody) String() string {
	s := fmt.Sprintf("video{frametype %d codec %d", v.FrameType, v.Codec)
	if v.HasAVCHeader() {
		s += fmt.Sprintf(" packettype %#02x cts %#x", v.PacketType, v.CTS)
	}
	return s + fmt.Sprintf(" payload %d}", len(v.Payload))
}
