// C10 — FLV audio/video tag bodies round-trip through the packagers (black-box).
//
// Two directions, both swept exhaustively over the field grid of the statement:
//
//	frames:    f -> b = Encode(f): b[0] carries f's codec id (and frame type); Decode(b) == f field-wise.
//	           A body produced by Encode that Decode rejects is a violation (the statement promises a frame back).
//	canonical: b built from the layout table (refflv, independent of the encoder) -> if the packager accepts
//	           it, Encode(Decode(b)) == b.  Rejections are only counted here: the statement quantifies over
//	           the bodies "the packagers accept".
//
// rates: every value 0..255 of the enum's underlying type through ToHz / OpusToHz.
package c10

import (
	"sync/atomic"
	"bytes"
	"fmt"
	"strings"
	"sync"
	"testing"

	"github.com/ossrs/go-oryx-lib/flv"
	"verifharness/lib/detviol"
	"verifharness/lib/mon"
	"verifharness/lib/refflv"
	"verifharness/lib/vrand"
)

var payloadLens = []int{0, 1, 2, 3, 4, 5, 1000}
var levels = []uint16{0, 1, 0x00FF, 0x0100, 0xFFFF}
var ctsValues = []uint32{0, 1, 0xFFFF, 0x10000, 0xFFFFFF}

const chunk = 512
const histSessions = 8

// seen is a small concurrent set of observed values, turned into counters at the end.
type seen struct {
	mu sync.Mutex
	m  map[string]map[int]bool
}

func newSeen() *seen { return &seen{m: map[string]map[int]bool{}} }
func (s *seen) add(name string, v int) {
	s.mu.Lock()
	if s.m[name] == nil {
		s.m[name] = map[int]bool{}
	}
	s.m[name][v] = true
	s.mu.Unlock()
}
func (s *seen) flush(m *mon.M) {
	for k, v := range s.m {
		m.Count(k, int64(len(v)))
	}
}

// payload returns n PRNG bytes; half of them begin like the data real frames carry (Annex-B start codes, an AVCC
// length prefix, ADTS sync, a nested FLV/tag/config header, all-zero, all-ones), which is what a packager that
// "recognizes" content would react to.  The payload is opaque to the statement: it must round-trip whatever it is.
var payloadShapes = [][]byte{{0, 0, 0, 1}, {0, 0, 1}, {0, 0, 0, 0}, {0xff, 0xf1}, {0xff, 0xff, 0xff, 0xff}, []byte("FLV\x01"),
	{0x17, 0, 0, 0, 0}, {0xaf, 1}, {1, 0x64, 0, 0x1f, 0xff, 0xe1}, {0x12, 0x10}, {0xff, 0xf9}}

var shapeHits [16]int64

// keeper holds on to the last few byte slices the packagers returned (encoded bodies, decoded payloads) and checks, at
// every later call, that none of them has changed: what a call returned is the caller's, later calls must not touch it.
type keeper struct {
	items []keptBytes
}

type keptBytes struct {
	got, want []byte
	what      string
	idx       int
}

func (k *keeper) keep(vc *detviol.Collector, m *mon.M, kind string, what string, idx int, got []byte) {
	for _, it := range k.items {
		if !bytes.Equal(it.got, it.want) {
			vc.Violationf(idx, "c10:earlier-result-changed-by-a-later-call:"+kind, map[string]interface{}{"case": idx, "earlier_case": it.idx},
				"%s returned for case %d (%d bytes) was changed by a later call on the same packager (now %s, was %s)", it.what, it.idx, len(it.want), mon.Hex(it.got), mon.Hex(it.want))
			copy(it.got, it.want)
		}
	}
	m.Count("earlier_results_rechecked", int64(len(k.items)))
	if len(got) > 0 {
		k.items = append(k.items, keptBytes{got, append([]byte(nil), got...), what, idx})
		if len(k.items) > 6 {
			k.items = k.items[1:]
		}
	}
}

func payload(r *vrand.Rand, n int) []byte {
	b := r.Bytes(n)
	if n == 0 || !r.Chance(1, 2) {
		return b
	}
	k := r.Intn(len(payloadShapes) + 1)
	if k == len(payloadShapes) {
		if n >= 4 {
			b[0], b[1], b[2], b[3] = byte((n-4)>>24), byte((n-4)>>16), byte((n-4)>>8), byte(n-4) // one AVCC NAL unit filling the payload
		}
	} else {
		copy(b, payloadShapes[k])
		if n >= 7 && b[0] == 0xff && b[1]&0xf0 == 0xf0 {
			// a complete, self-consistent ADTS header whose frame_length is the payload's length (what a careless muxer puts
			// into an FLV AAC tag): still opaque
			b[2], b[3] = 0x50, 0x80|byte(n>>11&3)
			b[4], b[5], b[6] = byte(n>>3), byte(n<<5)|0x1f, 0xfc
		}
	}
	atomic.AddInt64(&shapeHits[k], 1)
	return b
}

// lenClass keeps the grid's payload lengths exact and buckets the random ones of the thorough tier.
func lenClass(n int) string {
	switch {
	case n <= 5 || n == 1000:
		return fmt.Sprint(n)
	case n < 1000:
		return "6-999"
	case n < 10000:
		return "1001-9999"
	}
	return "10000+"
}

// ---------------------------------------------------------------------------------------------
// audio

type aCase struct {
	canonical bool
	a         refflv.AudioBody // fields (payload filled per case)
	plen      int
	prefix    []byte // if set, the payload starts with these bytes
}

func audioScope(a *refflv.AudioBody) string {
	switch {
	case a.Format == refflv.AudioOpus && a.HasOpusRate():
		return fmt.Sprintf(":opus-rate%d", a.OpusRate)
	case a.Format == refflv.AudioOpus:
		return ":opus"
	case a.Format == refflv.AudioAAC:
		return ":aac"
	}
	return ""
}

func enumAudio() []aCase {
	var cs []aCase
	// frames: every format x rate x size x channels (+ trait grids) x payload length
	for f := 0; f < 16; f++ {
		for sz := 0; sz < 2; sz++ {
			for ch := 0; ch < 2; ch++ {
				base := refflv.AudioBody{Format: byte(f), Size: byte(sz), Channels: byte(ch)}
				switch f {
				case refflv.AudioAAC:
					for rate := 0; rate < 4; rate++ {
						for tr := 0; tr < 256; tr++ {
							a := base
							a.Rate, a.Trait = byte(rate), byte(tr)
							cs = appendLens(cs, false, a)
						}
					}
				case refflv.AudioOpus:
					for tr := 0; tr < 16; tr += 2 { // all subsets of {0x02,0x04,0x08}
						cs = appendOpus(cs, false, base, byte(tr))
					}
				default:
					for rate := 0; rate < 4; rate++ {
						a := base
						a.Rate = byte(rate)
						cs = appendLens(cs, false, a)
					}
				}
			}
		}
	}
	// AAC bodies whose payload is an AudioSpecificConfig: the tag's own rate/size/channel bits are what the statement
	// fixes, whatever the configuration inside says (HE-AAC signals 44 kHz stereo in the tag for any stream) — all
	// 32 x 16 x 16 (object type, sampling index, channel configuration) prefixes, as sequence header and as raw frame
	for asc := 0; asc < 8192; asc++ {
		pre := []byte{byte(asc >> 5), byte(asc << 3)}
		for tr := 0; tr < 2; tr++ {
			for ch := 0; ch < 2; ch++ {
				for _, canonical := range []bool{false, true} {
					a := refflv.AudioBody{Format: refflv.AudioAAC, Rate: byte(asc % 4), Size: byte(asc >> 2 & 1), Channels: byte(ch), Trait: byte(tr)}
					cs = append(cs, aCase{canonical: canonical, a: a, plen: 2 + asc%3, prefix: pre})
				}
			}
		}
	}
	// AAC bodies whose payload begins with a self-consistent ADTS header (frame_length = payload length), every second header
	// byte FF F0..FF FF, as sequence header and as raw frame, mono and stereo, several lengths
	for b1 := 0xf0; b1 <= 0xff; b1++ {
		for _, n := range []int{7, 9, 16, 64, 1000, 2047} {
			pre := []byte{0xff, byte(b1), 0x50, 0x80 | byte(n>>11&3), byte(n >> 3), byte(n<<5) | 0x1f, 0xfc}
			for tr := 0; tr < 2; tr++ {
				for ch := 0; ch < 2; ch++ {
					for _, canonical := range []bool{false, true} {
						a := refflv.AudioBody{Format: refflv.AudioAAC, Rate: 3, Size: 1, Channels: byte(ch), Trait: byte(tr)}
						cs = append(cs, aCase{canonical: canonical, a: a, plen: n, prefix: pre})
					}
				}
			}
		}
	}
	// canonical bodies: every first byte x every trait byte
	for b0 := 0; b0 < 256; b0++ {
		base := refflv.AudioBody{Format: byte(b0 >> 4), Rate: byte(b0 >> 2 & 3), Size: byte(b0 >> 1 & 1), Channels: byte(b0 & 1)}
		switch base.Format {
		case refflv.AudioAAC:
			for tr := 0; tr < 256; tr++ {
				a := base
				a.Trait = byte(tr)
				cs = appendLens(cs, true, a)
			}
		case refflv.AudioOpus:
			if base.Rate != 0 {
				continue // not canonical: an Opus body has rate bits 0 in byte 0
			}
			for tr := 0; tr < 256; tr++ {
				cs = appendOpus(cs, true, base, byte(tr))
			}
		default:
			cs = appendLens(cs, true, base)
		}
	}
	return cs
}

func appendOpus(cs []aCase, canonical bool, base refflv.AudioBody, trait byte) []aCase {
	rates := []byte{0}
	if trait&refflv.OpusFlagRate != 0 {
		rates = refflv.OpusRateCodes
	}
	lv := []uint16{0}
	if trait&refflv.OpusFlagLevel != 0 {
		lv = levels
	}
	for _, rc := range rates {
		for _, l := range lv {
			a := base
			a.Rate, a.Trait, a.OpusRate, a.Level = 0, trait, rc, l
			cs = appendLens(cs, canonical, a)
		}
	}
	return cs
}

func appendLens(cs []aCase, canonical bool, a refflv.AudioBody) []aCase {
	for _, n := range payloadLens {
		cs = append(cs, aCase{canonical: canonical, a: a, plen: n})
	}
	return cs
}

// frameOf is the library frame denoted by the fields (for Opus the frame's rate is the rate
// byte if the flag is set, else 0 by definition — DESIGN.md §4.1).
func audioFrameOf(a *refflv.AudioBody) *flv.AudioFrame {
	f := &flv.AudioFrame{SoundFormat: flv.AudioCodec(a.Format), SoundRate: flv.AudioSamplingRate(a.Rate),
		SoundSize: flv.AudioSampleBits(a.Size), SoundType: flv.AudioChannels(a.Channels), Raw: a.Payload}
	if a.HasTrait() {
		f.Trait = flv.AudioFrameTrait(a.Trait)
	}
	if a.Format == refflv.AudioOpus {
		f.SoundRate = 0
		if a.HasOpusRate() {
			f.SoundRate = flv.AudioSamplingRate(a.OpusRate)
		}
		if a.HasLevel() {
			f.AudioLevel = a.Level
		}
	}
	return f
}

func audioFrameString(f *flv.AudioFrame) string {
	if f == nil {
		return "<nil>"
	}
	return fmt.Sprintf("{format %d rate %d size %d type %d trait %#02x level %#04x raw %d bytes}", f.SoundFormat, f.SoundRate, f.SoundSize, f.SoundType,
		uint8(f.Trait), f.AudioLevel, len(f.Raw))
}

func diffAudio(g, w *flv.AudioFrame) []string {
	var d []string
	if g.SoundFormat != w.SoundFormat {
		d = append(d, "SoundFormat")
	}
	if g.SoundRate != w.SoundRate {
		d = append(d, "SoundRate")
	}
	if g.SoundSize != w.SoundSize {
		d = append(d, "SoundSize")
	}
	if g.SoundType != w.SoundType {
		d = append(d, "SoundType")
	}
	if g.Trait != w.Trait {
		d = append(d, "Trait")
	}
	if g.AudioLevel != w.AudioLevel {
		d = append(d, "AudioLevel")
	}
	if !bytes.Equal(g.Raw, w.Raw) {
		d = append(d, "Raw")
	}
	return d
}

func observeAudio(m *mon.M, sn *seen, g *flv.AudioFrame) {
	sn.add("audio_formats_decoded_distinct", int(g.SoundFormat))
	switch g.SoundFormat {
	case flv.AudioCodecAAC:
		sn.add("aac_traits_decoded_distinct", int(g.Trait))
	case flv.AudioCodecOpus:
		sn.add("opus_traits_decoded_distinct", int(g.Trait))
		if g.Trait&flv.AudioFrameTraitOpusSamplingRate != 0 {
			sn.add("opus_rate_codes_decoded_distinct", int(g.SoundRate))
		}
		if g.Trait&flv.AudioFrameTraitOpusAudioLevel != 0 {
			sn.add("opus_levels_decoded_distinct", int(g.AudioLevel))
		}
	}
}

func checkAudio(m *mon.M, vc *detviol.Collector, sn *seen, ap flv.AudioPackager, kp *keeper, c *aCase, r *vrand.Rand, idx int) {
	a := c.a
	a.Payload = payload(r, c.plen)
	copy(a.Payload, c.prefix)
	scope := audioScope(&a)
	ref := a.Bytes()
	if c.canonical {
		// ---- canonical body -> Decode -> Encode
		rep := map[string]interface{}{"case": idx, "direction": "canonical", "body_hex": mon.Hex(ref), "layout": a.String()}
		m.Guard("flv.audio.canonical", ref, func() {
			in := append([]byte(nil), ref...)
			g, err := ap.Decode(in)
			m.Classf("c/audio/b0=%02x/hdr%d/tr%02x/len%s/ok%v", ref[0], a.HeaderLen(), a.Trait, lenClass(c.plen), err == nil)
			if err != nil {
				m.Count("canonical_rejected", 1)
				m.Count(fmt.Sprintf("canonical_rejected_audio_len%d", len(ref)), 1)
				return
			}
			m.Count("canonical_accepted", 1)
			observeAudio(m, sn, g)
			if len(diffAudio(g, audioFrameOf(&a))) == 0 {
				m.Count("canonical_decoded_as_layout_says", 1) // observation, not asserted
			} else {
				m.Count("canonical_decoded_otherwise", 1)
			}
			b2, err := ap.Encode(g)
			if err != nil {
				vc.Violationf(idx, "c10:encode-error:audio"+scope, rep, "Encode(Decode(b)) failed: %v", err)
				return
			}
			if !bytes.Equal(b2, ref) {
				vc.Violationf(idx, "c10:canonical-reencode-differs:audio"+scope, rep, "canonical body %s (%s) decodes to %s, which encodes to %s",
					mon.Hex(ref), a.String(), audioFrameString(g), mon.Hex(b2))
			}
		})
		return
	}
	// ---- frame -> Encode -> Decode
	f := audioFrameOf(&a)
	want := *f
	rep := map[string]interface{}{"case": idx, "direction": "frame", "frame": audioFrameString(f)}
	m.Guard("flv.audio.frame", nil, func() {
		b, err := ap.Encode(f)
		if err != nil {
			vc.Violationf(idx, "c10:encode-error:audio"+scope, rep, "Encode(%s): %v", audioFrameString(f), err)
			return
		}
		rep["body_hex"] = mon.Hex(b)
		if len(b) == 0 {
			vc.Violationf(idx, "c10:encoded-body-empty:audio"+scope, rep, "Encode(%s) returned no bytes", audioFrameString(f))
			return
		}
		kp.keep(vc, m, "audio", "the body Encode", idx, b)
		m.Classf("f/audio/b0=%02x/hdr%d/tr%02x/len%s", b[0], len(b)-c.plen, a.Trait, lenClass(c.plen))
		sn.add("audio_first_byte_formats_distinct", int(b[0]>>4))
		if bytes.Equal(b, ref) {
			m.Count("encoded_as_layout_says", 1) // observation, not asserted (the statement fixes only the codec id's place)
		} else {
			m.Count("encoded_otherwise", 1)
		}
		if b[0]>>4 != a.Format {
			sig := "c10:first-byte-format-differs:audio" + scope
			if a.Format == refflv.AudioOpus && a.HasOpusRate() {
				sig = fmt.Sprintf("c10:opus-rate-bleeds-into-format:rate%d", a.OpusRate)
			}
			vc.Violationf(idx, sig, rep, "Encode(%s) = %s: the format nibble of byte 0 is %d, the frame's SoundFormat is %d",
				audioFrameString(f), mon.Hex(b), b[0]>>4, a.Format)
		}
		g, err := ap.Decode(append([]byte(nil), b...))
		if err != nil || g == nil {
			m.Count("own_encoding_rejected", 1)
			sig := "c10:own-encoding-rejected:audio" + scope
			if len(b) < 2 {
				sig = fmt.Sprintf("c10:short-body-rejected:audio:len%d", len(b))
			}
			vc.Violationf(idx, sig, rep, "Encode(%s) = %s (%d bytes) but Decode of that body fails: %v", audioFrameString(f), mon.Hex(b), len(b), err)
			return
		}
		m.Count("frames_roundtrip_checked", 1)
		kp.keep(vc, m, "audio", "the payload Decode", idx, g.Raw)
		observeAudio(m, sn, g)
		if d := diffAudio(g, &want); len(d) > 0 {
			vc.Violationf(idx, "c10:roundtrip-differs:audio"+scope, rep, "Decode(Encode(f)) != f in %s: f = %s, body = %s, decoded = %s",
				strings.Join(d, ","), audioFrameString(&want), mon.Hex(b), audioFrameString(g))
		}
	})
}

func randomAudio(r *vrand.Rand) aCase {
	a := refflv.AudioBody{Format: byte(r.Intn(16)), Rate: byte(r.Intn(4)), Size: byte(r.Intn(2)), Channels: byte(r.Intn(2))}
	switch a.Format {
	case refflv.AudioAAC:
		a.Trait = byte(r.Intn(256))
	case refflv.AudioOpus:
		a.Rate = 0
		a.Trait = byte(r.Intn(8)) << 1
		if a.HasOpusRate() {
			a.OpusRate = refflv.OpusRateCodes[r.Intn(len(refflv.OpusRateCodes))]
		}
		if a.HasLevel() {
			a.Level = uint16(r.Uint32())
		}
	}
	return aCase{canonical: r.Bool(), a: a, plen: randLen(r)}
}

func randLen(r *vrand.Rand) int {
	switch r.Intn(10) {
	case 0:
		return r.Range(0, 8)
	case 1:
		return r.Range(60000, 70000)
	}
	return r.Range(0, 3000)
}

func TestVerif_C10_Audio(t *testing.T) {
	m := mon.New("C10", "audio")
	defer m.Finish(t)
	m.Rule("audio: exhaustive grid. frames = 16 formats x rate 0..3 x size x channels; AAC x trait byte 0..255; Opus x all 8 subsets of the trait flags " +
		"{0x02,0x04,0x08} x rate code {8,12,16,24,48} iff the rate flag is set (else rate 0) x level {0,1,0xFF,0x100,0xFFFF} iff the level flag is set; " +
		"canonical bodies = every first byte (Opus: rate bits 0 only) x trait byte 0..255 (AAC, Opus) x the same side-field values, built from the layout table; " +
		"each x payload length {0,1,2,3,4,5,1000} with PRNG payload bytes; thorough adds random frames/bodies with payloads up to 70000 bytes. " +
		"distinct = direction x observed first byte x header length x trait byte x payload length (x accepted, for canonical bodies)")
	cs := enumAudio()
	nr := m.N(0, 3000000)
	total := len(cs) + nr
	m.Require("evaluations", int64(total+len(cs)))
	m.Require("history_cases_on_long_lived_packagers", int64(len(cs)))
	m.Require("frames_roundtrip_checked", 20000)
	m.Require("canonical_accepted", 20000)
	m.Require("audio_formats_decoded_distinct", 16)
	m.Require("audio_first_byte_formats_distinct", 16)
	m.Require("aac_traits_decoded_distinct", 256)
	m.Require("opus_traits_decoded_distinct", 256)
	m.Require("opus_rate_codes_decoded_distinct", 5)
	m.Require("opus_levels_decoded_distinct", 5)
	m.Note("grid_cases", len(cs))
	sn := newSeen()
	vc := detviol.New(m)
	defer vc.Flush()
	nchunks := (total + chunk - 1) / chunk
	mon.Parallel(nchunks, func(w, ci int) {
		ap, err := flv.NewAudioPackager()
		if err != nil {
			m.Violationf("c10:new-packager-error:audio", nil, "%v", err)
			return
		}
		r := m.Rand("audio", ci)
		kp := &keeper{}
		for i := ci * chunk; i < (ci+1)*chunk && i < total; i++ {
			m.Case()
			if i < len(cs) {
				checkAudio(m, vc, sn, ap, kp, &cs[i], r, i)
			} else {
				c := randomAudio(r)
				m.Count("random_cases", 1)
				checkAudio(m, vc, sn, ap, kp, &c, r, i)
			}
		}
	})
	// history pass: the whole grid once more in a PRNG order on 8 long-lived packagers (one per session, never renewed), so that
	// every kind of body is also decoded/encoded AFTER arbitrary other kinds on the same packager — the grid order above always
	// meets the plain form of a first byte before its flagged forms, and renews the packager every 512 cases
	mon.Parallel(histSessions, func(w, s int) {
		ap, err := flv.NewAudioPackager()
		if err != nil {
			return
		}
		r := m.Rand("audio-history", s)
		kp := &keeper{}
		var mine []int
		for i := s; i < len(cs); i += histSessions {
			mine = append(mine, i)
		}
		for _, j := range r.Perm(len(mine)) {
			m.Case()
			m.Count("history_cases_on_long_lived_packagers", 1)
			checkAudio(m, vc, sn, ap, kp, &cs[mine[j]], r, mine[j])
		}
	})
	sn.flush(m)
	for k := 0; k <= len(payloadShapes); k++ {
		m.Count(fmt.Sprintf("payloads_shaped_%02d", k), atomic.LoadInt64(&shapeHits[k]))
		m.Require(fmt.Sprintf("payloads_shaped_%02d", k), 100)
	}
}

// ---------------------------------------------------------------------------------------------
// video

type vCase struct {
	canonical bool
	v         refflv.VideoBody
	plen      int
}

func videoScope(v *refflv.VideoBody) string {
	switch v.Codec {
	case refflv.VideoAVC:
		return ":avc"
	case refflv.VideoHEVC:
		return ":hevc"
	}
	return ""
}

func enumVideo() []vCase {
	var cs []vCase
	for _, canonical := range []bool{false, true} {
		// frames: frame type 0..15 x codec 0..15; canonical: first byte 0..255 — the same 256 combinations,
		// reached once through the frame's fields and once through the layout's first byte
		for b0 := 0; b0 < 256; b0++ {
			base := refflv.VideoBody{FrameType: byte(b0 >> 4), Codec: byte(b0 & 15)}
			if base.HasAVCHeader() {
				for tr := 0; tr < 256; tr++ {
					for _, cts := range ctsValues {
						v := base
						v.PacketType, v.CTS = byte(tr), cts
						for _, n := range payloadLens {
							cs = append(cs, vCase{canonical, v, n})
						}
					}
				}
			} else {
				for _, n := range payloadLens {
					cs = append(cs, vCase{canonical, base, n})
				}
			}
		}
	}
	return cs
}

func videoFrameOf(v *refflv.VideoBody) *flv.VideoFrame {
	f := &flv.VideoFrame{CodecID: flv.VideoCodec(v.Codec), FrameType: flv.VideoFrameType(v.FrameType), Raw: v.Payload}
	if v.HasAVCHeader() {
		f.Trait = flv.VideoFrameTrait(v.PacketType)
		f.CTS = int32(v.CTS)
	}
	return f
}

func videoFrameString(f *flv.VideoFrame) string {
	if f == nil {
		return "<nil>"
	}
	return fmt.Sprintf("{frametype %d codec %d trait %#02x cts %#x raw %d bytes}", f.FrameType, f.CodecID, uint8(f.Trait), f.CTS, len(f.Raw))
}

func diffVideo(g, w *flv.VideoFrame) []string {
	var d []string
	if g.CodecID != w.CodecID {
		d = append(d, "CodecID")
	}
	if g.FrameType != w.FrameType {
		d = append(d, "FrameType")
	}
	if g.Trait != w.Trait {
		d = append(d, "Trait")
	}
	if g.CTS != w.CTS {
		d = append(d, "CTS")
	}
	if !bytes.Equal(g.Raw, w.Raw) {
		d = append(d, "Raw")
	}
	return d
}

func observeVideo(sn *seen, g *flv.VideoFrame) {
	sn.add("video_frame_types_decoded_distinct", int(g.FrameType))
	sn.add("video_codecs_decoded_distinct", int(g.CodecID))
	switch g.CodecID {
	case flv.VideoCodecAVC:
		sn.add("avc_traits_decoded_distinct", int(g.Trait))
		sn.add("avc_cts_decoded_distinct", int(g.CTS))
	case flv.VideoCodecHEVC:
		sn.add("hevc_traits_decoded_distinct", int(g.Trait))
		sn.add("hevc_cts_decoded_distinct", int(g.CTS))
	}
}

func checkVideo(m *mon.M, vc *detviol.Collector, sn *seen, vp flv.VideoPackager, kp *keeper, c *vCase, r *vrand.Rand, idx int) {
	v := c.v
	v.Payload = payload(r, c.plen)
	scope := videoScope(&v)
	ref := v.Bytes()
	if c.canonical {
		rep := map[string]interface{}{"case": idx, "direction": "canonical", "body_hex": mon.Hex(ref), "layout": v.String()}
		m.Guard("flv.video.canonical", ref, func() {
			g, err := vp.Decode(append([]byte(nil), ref...))
			m.Classf("c/video/b0=%02x/hdr%d/tr%02x/len%s/ok%v", ref[0], v.HeaderLen(), v.PacketType, lenClass(c.plen), err == nil)
			if err != nil {
				m.Count("canonical_rejected", 1)
				m.Count(fmt.Sprintf("canonical_rejected_video_len%d", len(ref)), 1)
				return
			}
			m.Count("canonical_accepted", 1)
			observeVideo(sn, g)
			if len(diffVideo(g, videoFrameOf(&v))) == 0 {
				m.Count("canonical_decoded_as_layout_says", 1)
			} else {
				m.Count("canonical_decoded_otherwise", 1)
			}
			b2, err := vp.Encode(g)
			if err != nil {
				vc.Violationf(idx, "c10:encode-error:video"+scope, rep, "Encode(Decode(b)) failed: %v", err)
				return
			}
			if !bytes.Equal(b2, ref) {
				vc.Violationf(idx, "c10:canonical-reencode-differs:video"+scope, rep, "canonical body %s (%s) decodes to %s, which encodes to %s",
					mon.Hex(ref), v.String(), videoFrameString(g), mon.Hex(b2))
			}
		})
		return
	}
	f := videoFrameOf(&v)
	want := *f
	rep := map[string]interface{}{"case": idx, "direction": "frame", "frame": videoFrameString(f)}
	m.Guard("flv.video.frame", nil, func() {
		b, err := vp.Encode(f)
		if err != nil {
			vc.Violationf(idx, "c10:encode-error:video"+scope, rep, "Encode(%s): %v", videoFrameString(f), err)
			return
		}
		rep["body_hex"] = mon.Hex(b)
		if len(b) == 0 {
			vc.Violationf(idx, "c10:encoded-body-empty:video"+scope, rep, "Encode(%s) returned no bytes", videoFrameString(f))
			return
		}
		kp.keep(vc, m, "video", "the body Encode", idx, b)
		m.Classf("f/video/b0=%02x/hdr%d/tr%02x/len%s", b[0], len(b)-c.plen, v.PacketType, lenClass(c.plen))
		sn.add("video_first_bytes_distinct", int(b[0]))
		if bytes.Equal(b, ref) {
			m.Count("encoded_as_layout_says", 1)
		} else {
			m.Count("encoded_otherwise", 1)
		}
		if b[0]>>4 != v.FrameType {
			vc.Violationf(idx, "c10:first-byte-frametype-differs:video"+scope, rep, "Encode(%s) = %s: frame-type nibble %d", videoFrameString(f), mon.Hex(b), b[0]>>4)
		}
		if b[0]&15 != v.Codec {
			vc.Violationf(idx, "c10:first-byte-codec-differs:video"+scope, rep, "Encode(%s) = %s: codec nibble %d", videoFrameString(f), mon.Hex(b), b[0]&15)
		}
		g, err := vp.Decode(append([]byte(nil), b...))
		if err != nil || g == nil {
			m.Count("own_encoding_rejected", 1)
			sig := "c10:own-encoding-rejected:video" + scope
			if len(b) < 5 {
				sig = fmt.Sprintf("c10:short-body-rejected:video:len%d", len(b))
			}
			vc.Violationf(idx, sig, rep, "Encode(%s) = %s (%d bytes) but Decode of that body fails: %v", videoFrameString(f), mon.Hex(b), len(b), err)
			return
		}
		m.Count("frames_roundtrip_checked", 1)
		kp.keep(vc, m, "video", "the payload Decode", idx, g.Raw)
		observeVideo(sn, g)
		if d := diffVideo(g, &want); len(d) > 0 {
			vc.Violationf(idx, "c10:roundtrip-differs:video"+scope, rep, "Decode(Encode(f)) != f in %s: f = %s, body = %s, decoded = %s",
				strings.Join(d, ","), videoFrameString(&want), mon.Hex(b), videoFrameString(g))
		}
	})
}

func randomVideo(r *vrand.Rand) vCase {
	v := refflv.VideoBody{FrameType: byte(r.Intn(16)), Codec: byte(r.Intn(16))}
	if r.Bool() {
		v.Codec = byte(r.Pick(refflv.VideoAVC, refflv.VideoHEVC))
	}
	if v.HasAVCHeader() {
		v.PacketType = byte(r.Intn(256))
		v.CTS = r.Uint32() & 0xFFFFFF
	}
	return vCase{canonical: r.Bool(), v: v, plen: randLen(r)}
}

func TestVerif_C10_Video(t *testing.T) {
	m := mon.New("C10", "video")
	defer m.Finish(t)
	m.Rule("video: exhaustive grid in both directions. frame type 0..15 x codec id 0..15 (= every first byte); AVC (7) and HEVC (12) x packet trait byte 0..255 " +
		"x composition time {0,1,0xFFFF,0x10000,0xFFFFFF}; x payload length {0,1,2,3,4,5,1000} with PRNG payload bytes; thorough adds random frames/bodies " +
		"with random 24-bit composition times and payloads up to 70000 bytes. distinct = direction x observed first byte x header length x trait byte x payload length (x accepted)")
	cs := enumVideo()
	nr := m.N(0, 3000000)
	total := len(cs) + nr
	m.Require("evaluations", int64(total+len(cs)))
	m.Require("history_cases_on_long_lived_packagers", int64(len(cs)))
	m.Require("frames_roundtrip_checked", 100000)
	m.Require("canonical_accepted", 100000)
	m.Require("video_frame_types_decoded_distinct", 16)
	m.Require("video_codecs_decoded_distinct", 16)
	m.Require("video_first_bytes_distinct", 256)
	m.Require("avc_traits_decoded_distinct", 256)
	m.Require("hevc_traits_decoded_distinct", 256)
	m.Require("avc_cts_decoded_distinct", int64(len(ctsValues)))
	m.Require("hevc_cts_decoded_distinct", int64(len(ctsValues)))
	m.Note("grid_cases", len(cs))
	sn := newSeen()
	vc := detviol.New(m)
	defer vc.Flush()
	nchunks := (total + chunk - 1) / chunk
	mon.Parallel(nchunks, func(w, ci int) {
		vp, err := flv.NewVideoPackager()
		if err != nil {
			m.Violationf("c10:new-packager-error:video", nil, "%v", err)
			return
		}
		r := m.Rand("video", ci)
		kp := &keeper{}
		for i := ci * chunk; i < (ci+1)*chunk && i < total; i++ {
			m.Case()
			if i < len(cs) {
				checkVideo(m, vc, sn, vp, kp, &cs[i], r, i)
			} else {
				c := randomVideo(r)
				m.Count("random_cases", 1)
				checkVideo(m, vc, sn, vp, kp, &c, r, i)
			}
		}
	})
	// history pass: the whole grid once more in a PRNG order on 8 long-lived packagers (one per session, never renewed), so that
	// every kind of body is also decoded/encoded AFTER arbitrary other kinds on the same packager — the grid order above always
	// meets the plain form of a first byte before its flagged forms, and renews the packager every 512 cases
	mon.Parallel(histSessions, func(w, s int) {
		vp, err := flv.NewVideoPackager()
		if err != nil {
			return
		}
		r := m.Rand("video-history", s)
		kp := &keeper{}
		var mine []int
		for i := s; i < len(cs); i += histSessions {
			mine = append(mine, i)
		}
		for _, j := range r.Perm(len(mine)) {
			m.Case()
			m.Count("history_cases_on_long_lived_packagers", 1)
			checkVideo(m, vc, sn, vp, kp, &cs[mine[j]], r, mine[j])
		}
	})
	sn.flush(m)
	for k := 0; k <= len(payloadShapes); k++ {
		m.Count(fmt.Sprintf("payloads_shaped_%02d", k), atomic.LoadInt64(&shapeHits[k]))
		m.Require(fmt.Sprintf("payloads_shaped_%02d", k), 100)
	}
}

// ---------------------------------------------------------------------------------------------
// rate codes

func try(f func() int) (v int, panicked bool, pv interface{}) {
	defer func() {
		if r := recover(); r != nil {
			panicked, pv = true, r
		}
	}()
	return f(), false, nil
}

func TestVerif_C10_Rates(t *testing.T) {
	m := mon.New("C10", "rates")
	defer m.Finish(t)
	m.Exhaustive(true)
	m.Rule("rates: every value 0..255 of AudioSamplingRate through ToHz and through OpusToHz. Defined FLV codes 0..3 must give 5512/11025/22050/44100, " +
		"defined Opus codes 8/12/16/24/48 must give 8000/12000/16000/24000/48000; any other value may give anything but must return (no panic). " +
		"distinct = conversion x code")
	m.Require("evaluations", 512)
	m.Require("defined_flv_codes_checked", 4)
	m.Require("defined_opus_codes_checked", 5)
	for v := 0; v < 256; v++ {
		code := flv.AudioSamplingRate(v)
		// FLV table
		m.Case()
		m.Classf("flv/code%d", v)
		hz, panicked, pv := try(func() int { return code.ToHz() })
		rep := map[string]interface{}{"conversion": "ToHz", "code": v}
		if v < 4 {
			m.Count("defined_flv_codes_checked", 1)
			if panicked {
				m.Violationf(fmt.Sprintf("c10:rate-conversion-panics:flv:code%d", v), rep, "AudioSamplingRate(%d).ToHz() panics: %v", v, pv)
			} else if hz != refflv.FLVRateHz[v] {
				m.Violationf(fmt.Sprintf("c10:rate-conversion-wrong:flv:code%d", v), rep, "AudioSamplingRate(%d).ToHz() = %d, FLV defines %d", v, hz, refflv.FLVRateHz[v])
			} else {
				m.Count("defined_codes_correct", 1)
			}
		} else if panicked {
			m.Violationf("c10:rate-conversion-panics-undefined:flv", rep, "AudioSamplingRate(%d).ToHz() panics: %v (first such value; %d is not an FLV rate code, but the call must return)", v, pv, v)
		} else {
			m.Count("undefined_codes_returned", 1)
		}
		// Opus table
		m.Case()
		m.Classf("opus/code%d", v)
		hz, panicked, pv = try(func() int { return code.OpusToHz() })
		rep = map[string]interface{}{"conversion": "OpusToHz", "code": v}
		if want, ok := refflv.OpusRateHz[byte(v)]; ok {
			m.Count("defined_opus_codes_checked", 1)
			if panicked {
				m.Violationf(fmt.Sprintf("c10:rate-conversion-panics:opus:code%d", v), rep, "AudioSamplingRate(%d).OpusToHz() panics: %v", v, pv)
			} else if hz != want {
				m.Violationf(fmt.Sprintf("c10:rate-conversion-wrong:opus:code%d", v), rep, "AudioSamplingRate(%d).OpusToHz() = %d, Opus defines %d", v, hz, want)
			} else {
				m.Count("defined_codes_correct", 1)
			}
		} else if panicked {
			m.Violationf("c10:rate-conversion-panics-undefined:opus", rep, "AudioSamplingRate(%d).OpusToHz() panics: %v (first such value; %d is not an Opus rate code, but the call must return)", v, pv, v)
		} else {
			m.Count("undefined_codes_returned", 1)
		}
	}
}
