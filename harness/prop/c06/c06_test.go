// C06 — AMF0 wire format is the one defined by the AMF0 specification (black-box).
package c06

import (
	"bytes"
	"fmt"
	"testing"

	"github.com/ossrs/go-oryx-lib/amf0"
	"verifharness/lib/amfx"
	"verifharness/lib/mon"
	"verifharness/lib/refamf0"
)

func decodeLib(data []byte) (amf0.Amf0, error) {
	a, err := amf0.Discovery(data)
	if err != nil {
		return nil, err
	}
	if err = a.UnmarshalBinary(data); err != nil {
		return nil, err
	}
	return a, nil
}

func scope(tr *refamf0.Value) string {
	if _, ne := tr.HasStrict(); ne {
		return ":strict-nonempty"
	}
	return ""
}

// Direction 1: bytes the library produces are read by the specification decoder as the same value.
func TestVerif_C06_LibToRef(t *testing.T) {
	m := mon.New("C06", "lib2ref")
	defer m.Finish(t)
	m.Rule("lib2ref: PRNG value trees over the supported types (as C05) built through the public API, marshalled by the library, decoded by " +
		"the independent specification decoder; distinct = shape signature")
	n := m.N(30000, 1500000)
	m.Require("evaluations", int64(n))
	m.Require("strict_nonempty", 100)
	mon.Parallel(n, func(w, i int) {
		r := m.Rand("tree", i)
		tr := refamf0.Gen(r, refamf0.GenOpts{MaxDepth: r.Range(0, 6), MaxWidth: r.Range(1, 12), EmptyKeys: true, Strict: true, BigStrings: true})
		amfx.ZeroEcmaCounts(tr)
		m.Case()
		m.Class(tr.Shape())
		sc := scope(tr)
		if sc != "" {
			m.Count("strict_nonempty", 1)
		}
		rep := map[string]interface{}{"case": i, "tree": tr.Describe()}
		m.Guard("amf0.lib2ref", nil, func() {
			b, err := amfx.Build(tr).MarshalBinary()
			if err != nil {
				m.Violationf("c06:marshal-error"+sc, rep, "%v", err)
				return
			}
			got, used, err := refamf0.Decode(b)
			if err == nil && used == len(b) && refamf0.Equal(got, tr, true) {
				m.Count("spec_decoder_agrees", 1)
				return
			}
			// two-model rule: does "specification + keyed strict-array layout" explain it?
			if sc != "" {
				g2, u2, e2 := refamf0.DecodeKeyedStrict(b)
				if e2 == nil && u2 == len(b) && refamf0.Equal(g2, tr, true) {
					m.Violationf("c06:strict-array-keyed-layout:lib2ref", rep, "library writes strict arrays as (key,value) pairs; the specification decoder reads %s (err=%v used=%d/%d)", desc(got), err, used, len(b))
					return
				}
			}
			m.Violationf("c06:spec-decoder-disagrees"+sc, rep, "library bytes %s read by the specification decoder as %s (err=%v, used %d/%d), want %s", mon.Hex(b), desc(got), err, used, len(b), tr.Describe())
		})
	})
}

func desc(v *refamf0.Value) string {
	if v == nil {
		return "<nil>"
	}
	return v.Describe()
}

// Direction 2: specification-conformant encodings are decoded by the library to that value.
func TestVerif_C06_RefToLib(t *testing.T) {
	m := mon.New("C06", "ref2lib")
	defer m.Finish(t)
	m.Rule("ref2lib: PRNG trees and FFmpeg/Flash-style onMetaData shapes (ECMA count != pairs, nested strict arrays) encoded by the " +
		"independent specification encoder, decoded by the library; the library value is compared through the public accessors, through Size(), " +
		"and by re-marshalling and reading back with the specification decoder; distinct = shape signature x source")
	n := m.N(30000, 1500000)
	m.Require("evaluations", int64(n))
	m.Require("metadata_shapes", 100)
	m.Require("ecma_count_ne_pairs", 100)
	mon.Parallel(n, func(w, i int) {
		r := m.Rand("tree", i)
		var tr *refamf0.Value
		src := "gen"
		if r.Chance(1, 5) {
			tr = refamf0.OnMetaData(r)
			src = "meta"
			m.Count("metadata_shapes", 1)
		} else {
			tr = refamf0.Gen(r, refamf0.GenOpts{MaxDepth: r.Range(0, 6), MaxWidth: r.Range(1, 12), EmptyKeys: true, Strict: true, BigStrings: true})
		}
		if hasEcmaCountNE(tr) {
			m.Count("ecma_count_ne_pairs", 1)
		}
		m.Case()
		m.Class(src + "/" + tr.Shape())
		sc := scope(tr)
		data := refamf0.Encode(nil, tr)
		rep := map[string]interface{}{"case": i, "tree": tr.Describe(), "input_hex": mon.Hex(data)}
		if m.WantSample() {
			m.Sample(map[string]interface{}{"tree": tr.Describe(), "spec_bytes": mon.Hex(data)})
		}
		if sc != "" {
			// two-model rule, second model: the same tree in "specification + keyed strict arrays" must be read
			// exactly; only then is the disagreement below attributable to the one listed deviation.
			kd := refamf0.EncodeKeyedStrict(nil, tr, amfx.StrictKey)
			m.Guard("amf0.ref2lib.keyed", kd, func() {
				l, err := decodeLib(kd)
				if err != nil {
					m.Violationf("c06:deviation-model-rejected", rep, "keyed-layout encoding rejected: %v", firstLine(err))
					return
				}
				if ok, why := amfx.Matches(l, tr); !ok {
					m.Violationf("c06:deviation-model-misread", rep, "keyed-layout encoding mis-read: %s", why)
				} else if b2, err := l.MarshalBinary(); err != nil || !bytes.Equal(b2, kd) || l.Size() != len(kd) {
					m.Violationf("c06:deviation-model-misread", rep, "keyed-layout encoding does not re-marshal identically (err=%v size=%d/%d)", err, l.Size(), len(kd))
				} else {
					m.Count("deviation_model_agrees", 1)
				}
			})
		}
		m.Guard("amf0.ref2lib", data, func() {
			l, err := decodeLib(data)
			if err != nil {
				if sc != "" {
					m.Violationf("c06:strict-array-keyed-layout:ref2lib", rep, "library rejects a specification-conformant non-empty strict array: %v", firstLine(err))
				} else {
					m.Violationf("c06:spec-encoding-rejected", rep, "library rejects a specification-conformant encoding: %v", firstLine(err))
				}
				return
			}
			bad := ""
			if ok, why := amfx.Matches(l, tr); !ok {
				bad = "accessors: " + why
			} else if l.Size() != len(data) {
				bad = fmt.Sprintf("Size()=%d, encoding has %d bytes", l.Size(), len(data))
			} else if b2, err := l.MarshalBinary(); err != nil {
				bad = "re-marshal error " + err.Error()
			} else if got, used, err := refamf0.Decode(b2); err != nil || used != len(b2) || !refamf0.Equal(got, tr, true) {
				bad = "re-marshalled value reads back differently: " + desc(got)
			} else if !bytes.Equal(b2, data) {
				bad = "re-marshal differs from the canonical encoding"
			}
			if bad == "" {
				m.Count("library_agrees", 1)
				// "any non-zero byte is true" (specification 2.3): the same tree with its true Booleans written as another
				// non-zero byte, as encoders other than this library's do, reads as the same tree
				if sc == "" && hasTrue(tr) {
					tb := byte(r.Pick(2, 0x7f, 0x80, 0xff))
					d3 := refamf0.EncodeTrueAs(nil, tr, tb)
					l3, err := decodeLib(d3)
					if err != nil {
						m.Violationf("c06:spec-encoding-rejected:boolean-nonzero", rep, "true written as %#02x: %v", tb, firstLine(err))
					} else if ok, why := amfx.Matches(l3, tr); !ok || l3.Size() != len(d3) {
						m.Violationf("c06:spec-encoding-misread:boolean-nonzero", rep, "true written as %#02x: %s (Size %d, %d bytes)", tb, why, l3.Size(), len(d3))
					} else {
						m.Count("trees_with_true_as_other_nonzero_byte", 1)
					}
				}
				return
			}
			if sc != "" {
				m.Violationf("c06:strict-array-keyed-layout:ref2lib", rep, "library mis-reads a specification-conformant non-empty strict array: %s", bad)
			} else {
				m.Violationf("c06:spec-encoding-misread", rep, "%s (want %s)", bad, tr.Describe())
			}
		})
	})
}

func hasTrue(v *refamf0.Value) bool {
	if v.Kind == refamf0.Boolean && v.Bool {
		return true
	}
	for _, p := range v.Props {
		if hasTrue(p.Val) {
			return true
		}
	}
	for _, it := range v.Items {
		if hasTrue(it) {
			return true
		}
	}
	return false
}

func hasEcmaCountNE(v *refamf0.Value) bool {
	switch v.Kind {
	case refamf0.Ecma:
		if int(v.Count) != len(v.Props) {
			return true
		}
		fallthrough
	case refamf0.Object:
		for _, p := range v.Props {
			if hasEcmaCountNE(p.Val) {
				return true
			}
		}
	case refamf0.Strict:
		for _, it := range v.Items {
			if hasEcmaCountNE(it) {
				return true
			}
		}
	}
	return false
}

func firstLine(err error) string {
	s := err.Error()
	if len(s) > 140 {
		s = s[:140]
	}
	return s
}

// All 256 marker bytes: unsupported ones are errors, never skipped or mis-sized.
func TestVerif_C06_Markers(t *testing.T) {
	m := mon.New("C06", "markers")
	defer m.Finish(t)
	m.Rule("markers: all 256 marker bytes x {no body, 1..3 short bytes, a plausible body for that AMF0 type, 64 random bytes}, stand-alone and " +
		"as a property value inside an object and an ECMA array; supported set {00,01,02,03,05,06,08,0A}; distinct = marker x body kind x position")
	m.Exhaustive(true)
	supported := map[byte]bool{0: true, 1: true, 2: true, 3: true, 5: true, 6: true, 8: true, 10: true}
	plausible := func(mk byte) []byte {
		switch mk {
		case 0x00:
			return []byte{0x40, 0x45, 0, 0, 0, 0, 0, 0}
		case 0x01:
			return []byte{1}
		case 0x02:
			return []byte{0, 2, 'h', 'i'}
		case 0x03:
			return []byte{0, 1, 'a', 5, 0, 0, 9}
		case 0x05, 0x06:
			return []byte{}
		case 0x04: // movieclip: reserved
			return []byte{0, 0, 0}
		case 0x07: // reference: u16 index
			return []byte{0, 0}
		case 0x08:
			return []byte{0, 0, 0, 1, 0, 1, 'a', 5, 0, 0, 9}
		case 0x09:
			return []byte{}
		case 0x0a:
			return []byte{0, 0, 0, 0}
		case 0x0b: // date: double + s16 timezone
			return []byte{0x42, 0x75, 0, 0, 0, 0, 0, 0, 0, 0}
		case 0x0c: // long string: u32 length
			return []byte{0, 0, 0, 2, 'h', 'i'}
		case 0x0d:
			return []byte{}
		case 0x0e:
			return []byte{}
		case 0x0f: // xml document: long string
			return []byte{0, 0, 0, 4, '<', 'a', '/', '>'}
		case 0x10: // typed object: class name + object body
			return []byte{0, 1, 'C', 0, 1, 'a', 5, 0, 0, 9}
		case 0x11: // avmplus: AMF3 value follows (0x01 = null)
			return []byte{0x01}
		}
		return []byte{0, 0, 0, 0, 0, 0, 0, 0, 0, 0, 9}
	}
	r := m.Rand("markers", 0)
	for mk := 0; mk < 256; mk++ {
		bodies := map[string][]byte{
			"empty":     {},
			"short1":    {0},
			"short3":    {0, 0, 9},
			"plausible": plausible(byte(mk)),
			"random":    r.Bytes(64),
			"zeros":     make([]byte, 32),
		}
		for bk, body := range bodies {
			for _, pos := range []string{"alone", "in-object", "in-ecma"} {
				val := append([]byte{byte(mk)}, body...)
				var data []byte
				switch pos {
				case "alone":
					data = val
				case "in-object":
					data = append([]byte{3, 0, 1, 'k'}, val...)
					data = append(data, 0, 0, 9)
				case "in-ecma":
					data = append([]byte{8, 0, 0, 0, 1, 0, 1, 'k'}, val...)
					data = append(data, 0, 0, 9)
				}
				m.Case()
				m.Classf("m%02x/%s/%s", mk, bk, pos)
				rep := map[string]interface{}{"marker": mk, "body": bk, "pos": pos, "input_hex": mon.Hex(data)}
				m.Guard("amf0.marker", data, func() {
					l, err := decodeLib(data)
					if supported[byte(mk)] {
						// a supported marker with a plausible (well-formed) body must decode, and to the right size
						if bk == "plausible" {
							if err != nil {
								m.Violationf("c06:supported-marker-rejected", rep, "marker %#x with a well-formed body rejected: %v", mk, firstLine(err))
							} else if pos == "alone" && l.Size() != len(data) {
								m.Violationf("c06:supported-marker-missized", rep, "marker %#x: Size()=%d, encoding is %d bytes", mk, l.Size(), len(data))
							} else {
								m.Count("supported_decoded", 1)
							}
						}
						return
					}
					// unsupported marker (incl. 0x09 outside the end-of-object position): must be an error
					if pos == "alone" {
						if err == nil {
							m.Violationf("c06:unsupported-marker-accepted:alone", rep, "marker %#x accepted stand-alone, Size()=%d", mk, l.Size())
						} else {
							m.Count("unsupported_rejected", 1)
						}
						return
					}
					if err == nil {
						// accepted although the property value has an unsupported marker: it was skipped or mis-sized
						b2, _ := l.MarshalBinary()
						m.Violationf("c06:unsupported-marker-accepted:"+pos, rep, "container with a %#x-marked property value accepted; re-marshals as %s", mk, mon.Hex(b2))
					} else {
						m.Count("unsupported_rejected", 1)
					}
				})
			}
		}
	}
	m.Require("unsupported_rejected", 1000)
	m.Require("supported_decoded", 20)
}
