// C13 — WebSocket messages arrive intact, in order, on an RFC 6455-valid wire (in-package monitor).
//
// Two Conn endpoints built with newConn talk over a recording in-memory pipe.  Every byte
// each side writes is logged and parsed afterwards by refws.Parser for the sender's role.
package websocket

import (
	"bytes"
	"encoding/json"
	"fmt"
	"io"
	"net"
	"os"
	"reflect"
	"runtime/debug"
	"testing"
	"time"
	"unicode/utf8"

	"verifharness/lib/mon"
	"verifharness/lib/refws"
	"verifharness/lib/vrand"
)

// ---------------------------------------------------------------- recording pipe

// verifC13Half is one direction of the pipe: every byte written, kept in 64 KiB chunks
// (large contiguous buffers are very expensive under the race detector).
type verifC13Half struct {
	chunks [][]byte
	total  int
	rc, ro int // read position: chunk, offset
}

const verifC13Chunk = 64 << 10

func (h *verifC13Half) write(p []byte) {
	h.total += len(p)
	for len(p) > 0 {
		k := len(h.chunks) - 1
		if k < 0 || len(h.chunks[k]) == cap(h.chunks[k]) {
			c := verifC13Chunk
			if h.total < 4096 {
				c = 4096
			}
			h.chunks = append(h.chunks, make([]byte, 0, c))
			k++
		}
		n := cap(h.chunks[k]) - len(h.chunks[k])
		if n > len(p) {
			n = len(p)
		}
		h.chunks[k] = append(h.chunks[k], p[:n]...)
		p = p[n:]
	}
}

func (h *verifC13Half) read(p []byte) int {
	for h.rc < len(h.chunks) {
		c := h.chunks[h.rc]
		if h.ro < len(c) {
			n := copy(p, c[h.ro:])
			h.ro += n
			return n
		}
		if h.rc == len(h.chunks)-1 {
			return 0
		}
		h.rc, h.ro = h.rc+1, 0
	}
	return 0
}

// bytes returns the log as one slice (only for error reports).
func (h *verifC13Half) bytes() []byte {
	out := make([]byte, 0, h.total)
	for _, c := range h.chunks {
		out = append(out, c...)
	}
	return out
}

type verifC13End struct {
	out, in *verifC13Half
	maxRead int // transport read segmentation (0 = whatever is there)
	starved bool
}

func (e *verifC13End) Read(p []byte) (int, error) {
	if e.maxRead > 0 && len(p) > e.maxRead {
		p = p[:e.maxRead]
	}
	n := e.in.read(p)
	if n == 0 && len(p) > 0 {
		e.starved = true // the harness only reads what has been written: should not happen
		return 0, io.EOF
	}
	return n, nil
}
func (e *verifC13End) Write(p []byte) (int, error) {
	e.out.write(p)
	return len(p), nil
}
func (e *verifC13End) Close() error                       { return nil }
func (e *verifC13End) LocalAddr() net.Addr                { return nil }
func (e *verifC13End) RemoteAddr() net.Addr               { return nil }
func (e *verifC13End) SetDeadline(t time.Time) error      { return nil }
func (e *verifC13End) SetReadDeadline(t time.Time) error  { return nil }
func (e *verifC13End) SetWriteDeadline(t time.Time) error { return nil }

// ---------------------------------------------------------------- guarded buffers

const verifC13GuardLen = 24

// verifC13Guarded copies data into the middle of a canary-filled buffer at the given misalignment.
func verifC13Guarded(data []byte, n int, off int) (sub []byte, whole []byte) {
	whole = make([]byte, verifC13GuardLen+off+n+verifC13GuardLen)
	for i := range whole {
		whole[i] = byte(0xA5 ^ i)
	}
	lo := verifC13GuardLen + off
	sub = whole[lo : lo+n : lo+n]
	copy(sub, data)
	return sub, whole
}

func verifC13GuardsOK(whole []byte, off, n int) bool {
	lo := verifC13GuardLen + off
	for i := 0; i < lo; i++ {
		if whole[i] != byte(0xA5^i) {
			return false
		}
	}
	for i := lo + n; i < len(whole); i++ {
		if whole[i] != byte(0xA5^i) {
			return false
		}
	}
	return true
}

// ---------------------------------------------------------------- session

type verifC13Msg struct {
	typ  int
	data []byte
}

type verifC13ReadSpec struct {
	reader  string
	rchunk  int
	jsonVal interface{}
	idx     int
	size    int
}

type verifC13Side struct {
	c    *Conn
	role refws.Role
	end  *verifC13End
	sent []verifC13Msg
	got  []verifC13Msg
	pend []verifC13ReadSpec // how to read the messages that are on their way to this side, in wire order
	wbuf int
}

type verifC13Op struct {
	fromClient bool
	api        string // WriteMessage NextWriter WriteString ReadFrom Prepared WriteJSON
	typ        int
	data       []byte
	parts      []int       // Write sizes for NextWriter / WriteString; read chunk sizes for ReadFrom
	jsonVal    interface{} // WriteJSON
	reader     string      // ReadMessage NextReader ReadJSON
	rchunk     int         // NextReader read size
	// before the write:
	setCompress int // -1 leave, 0 disable, 1 enable
	setLevel    int // -100 leave
	ping        []byte
}

type verifC13Cfg struct {
	comp             bool
	wbufC, wbufS     int
	rbufC, rbufS     int
	maxReadC, maxRdS int
	closeAtEnd       bool
	label            string
}

type verifC13Pair struct {
	m      *mon.M
	cfg    verifC13Cfg
	cl, sv *verifC13Side
	c2s    *verifC13Half
	s2c    *verifC13Half
	rep    map[string]interface{}
	failed bool
	opLog  []string
}

func verifC13NewPair(m *mon.M, cfg verifC13Cfg, rep map[string]interface{}) *verifC13Pair {
	c2s, s2c := &verifC13Half{}, &verifC13Half{}
	ce := &verifC13End{out: c2s, in: s2c, maxRead: cfg.maxReadC}
	se := &verifC13End{out: s2c, in: c2s, maxRead: cfg.maxRdS}
	cc := newConn(ce, false, cfg.rbufC, cfg.wbufC)
	sc := newConn(se, true, cfg.rbufS, cfg.wbufS)
	if cfg.comp { // what Dial / Upgrade do once permessage-deflate is agreed
		cc.newCompressionWriter, cc.newDecompressionReader = compressNoContextTakeover, decompressNoContextTakeover
		sc.newCompressionWriter, sc.newDecompressionReader = compressNoContextTakeover, decompressNoContextTakeover
	}
	p := &verifC13Pair{m: m, cfg: cfg, c2s: c2s, s2c: s2c, rep: rep,
		cl: &verifC13Side{c: cc, role: refws.RoleClient, end: ce, wbuf: cfg.wbufC},
		sv: &verifC13Side{c: sc, role: refws.RoleServer, end: se, wbuf: cfg.wbufS}}
	rep["config"] = fmt.Sprintf("%+v", cfg)
	return p
}

func (p *verifC13Pair) viol(sig string, format string, a ...interface{}) {
	p.failed = true
	r := map[string]interface{}{}
	for k, v := range p.rep {
		r[k] = v
	}
	ops := p.opLog
	if len(ops) > 40 {
		ops = ops[len(ops)-40:]
	}
	r["ops"] = ops
	p.m.Violationf(sig, r, format, a...)
}

// chunked reader without WriteTo, so that io.Copy must use the writer's ReadFrom (or plain Write)
type verifC13Reader struct {
	data   []byte
	chunks []int
	i      int
	eofTog bool // return (n, io.EOF) together with the last bytes
}

func (r *verifC13Reader) Read(p []byte) (int, error) {
	if len(r.data) == 0 {
		return 0, io.EOF
	}
	n := len(p)
	if len(r.chunks) > 0 {
		if c := r.chunks[r.i%len(r.chunks)]; c < n {
			n = c
		}
		r.i++
	}
	if n > len(r.data) {
		n = len(r.data)
	}
	if n == 0 {
		n = 1
	}
	copy(p, r.data[:n])
	r.data = r.data[n:]
	if len(r.data) == 0 && r.eofTog {
		return n, io.EOF
	}
	return n, nil
}

func verifC13Role(fromClient bool) string {
	if fromClient {
		return "client"
	}
	return "server"
}

// write performs one op on the sending side (and, for Prepared, the same prepared message back from the peer).
func (p *verifC13Pair) write(op *verifC13Op, idx int) {
	from, to := p.sv, p.cl
	if op.fromClient {
		from, to = p.cl, p.sv
	}
	c := from.c
	p.opLog = append(p.opLog, fmt.Sprintf("#%d %s %s type=%d len=%d parts=%v comp=%d level=%d ping=%d reader=%s/%d", idx, verifC13Role(op.fromClient), op.api, op.typ, len(op.data), verifC13Short(op.parts), op.setCompress, op.setLevel, len(op.ping), op.reader, op.rchunk))
	if op.setCompress >= 0 {
		c.EnableWriteCompression(op.setCompress == 1)
	}
	if op.setLevel > -100 {
		if err := c.SetCompressionLevel(op.setLevel); err != nil {
			p.viol("c13:set-level-error", "SetCompressionLevel(%d): %v", op.setLevel, err)
		}
	}
	if op.ping != nil {
		if err := c.WriteControl(PingMessage, op.ping, time.Time{}); err != nil {
			p.viol("c13:write-error:ping", "WriteControl(ping): %v", err)
		}
	}
	sig := "c13:write-error:" + op.api + ":" + verifC13Role(op.fromClient)
	off := idx % 8
	switch op.api {
	case "WriteMessage":
		sub, whole := op.data, []byte(nil)
		if len(op.data) <= 256<<10 {
			sub, whole = verifC13Guarded(op.data, len(op.data), off)
		}
		if err := c.WriteMessage(op.typ, sub); err != nil {
			p.viol(sig, "WriteMessage(%d bytes): %v", len(op.data), err)
		}
		if whole != nil && !verifC13GuardsOK(whole, off, len(op.data)) {
			p.viol("c13:guard-bytes-changed:write", "bytes around the buffer given to WriteMessage changed")
		}
	case "NextWriter", "WriteString":
		w, err := c.NextWriter(op.typ)
		if err != nil {
			p.viol(sig, "NextWriter: %v", err)
			return
		}
		rest := op.data
		for k := 0; len(rest) > 0 || k < len(op.parts); k++ {
			n := len(rest)
			if k < len(op.parts) && op.parts[k] < n {
				n = op.parts[k]
			}
			var wn int
			if op.api == "WriteString" {
				wn, err = io.WriteString(w, string(rest[:n]))
			} else {
				sub, whole := verifC13Guarded(rest, n, (off+k)%8)
				wn, err = w.Write(sub)
				if !verifC13GuardsOK(whole, (off+k)%8, n) {
					p.viol("c13:guard-bytes-changed:write", "bytes around the buffer given to Write changed")
				}
			}
			if err != nil || wn != n {
				p.viol(sig, "Write part %d (%d bytes) = %d, %v", k, n, wn, err)
				return
			}
			rest = rest[n:]
			if k > len(op.parts)+2 {
				break
			}
		}
		if err := w.Close(); err != nil {
			p.viol(sig, "Close: %v", err)
		}
	case "ReadFrom":
		w, err := c.NextWriter(op.typ)
		if err != nil {
			p.viol(sig, "NextWriter: %v", err)
			return
		}
		n, err := io.Copy(w, &verifC13Reader{data: op.data, chunks: op.parts, eofTog: idx%2 == 0})
		if err != nil || n != int64(len(op.data)) {
			p.viol(sig, "io.Copy = %d, %v (want %d)", n, err, len(op.data))
			return
		}
		if err := w.Close(); err != nil {
			p.viol(sig, "Close: %v", err)
		}
	case "Prepared":
		src := append([]byte{}, op.data...)
		pm, err := NewPreparedMessage(op.typ, src)
		if err != nil {
			p.viol(sig, "NewPreparedMessage: %v", err)
			return
		}
		for i := range src { // the caller may reuse its buffer afterwards
			src[i] ^= 0x5a
		}
		if err := from.c.WritePreparedMessage(pm); err != nil {
			p.viol(sig, "WritePreparedMessage: %v", err)
		}
		// the same prepared message goes back over the peer's connection (other role, maybe other compression setting)
		if err := to.c.WritePreparedMessage(pm); err != nil {
			p.viol("c13:write-error:Prepared:"+verifC13Role(!op.fromClient), "WritePreparedMessage: %v", err)
		}
		to.sent = append(to.sent, verifC13Msg{op.typ, op.data})
		from.pend = append(from.pend, verifC13ReadSpec{"ReadMessage", 0, nil, idx, len(op.data)})
	case "WriteJSON":
		if err := c.WriteJSON(op.jsonVal); err != nil {
			p.viol(sig, "WriteJSON: %v", err)
		}
	}
	from.sent = append(from.sent, verifC13Msg{op.typ, op.data})
	to.pend = append(to.pend, verifC13ReadSpec{op.reader, op.rchunk, op.jsonVal, idx, len(op.data)})
}

func verifC13Short(v []int) string {
	if len(v) <= 8 {
		return fmt.Sprint(v)
	}
	return fmt.Sprintf("%v…(%d parts)", v[:8], len(v))
}

// read lets the receiving side read the next message with the op's reader API.
func (p *verifC13Pair) read(side *verifC13Side, reader string, rchunk int, jsonVal interface{}, idx int, sizeHint int) {
	c := side.c
	sig := "c13:read-error:" + reader + ":" + side.role.String()
	switch reader {
	case "ReadJSON":
		var v interface{}
		if err := c.ReadJSON(&v); err != nil {
			p.viol(sig, "ReadJSON: %v", err)
			return
		}
		// compare through encoding/json itself: what a standard decoder makes of the standard encoding
		want, _ := json.Marshal(jsonVal)
		var wv interface{}
		json.Unmarshal(want, &wv)
		if !reflect.DeepEqual(v, wv) {
			p.viol("c13:readjson-differs", "ReadJSON value differs from the value written")
			return
		}
		side.got = append(side.got, verifC13Msg{TextMessage, append(want, '\n')})
	case "NextReader":
		mt, r, err := c.NextReader()
		if err != nil {
			p.viol(sig, "NextReader: %v", err)
			return
		}
		data := make([]byte, 0, sizeHint+1) // capacity only: what arrives decides the length
		off := idx % 8
		_, whole := verifC13Guarded(nil, rchunk, off)
		lo := verifC13GuardLen + off
		for {
			buf := whole[lo : lo+rchunk : lo+rchunk]
			n, err := r.Read(buf)
			data = append(data, buf[:n]...)
			if !verifC13GuardsOK(whole, off, rchunk) {
				p.viol("c13:guard-bytes-changed:read", "bytes around the buffer given to Read changed")
				return
			}
			if err == io.EOF {
				break
			}
			if err != nil {
				p.viol(sig, "Read after %d bytes: %v", len(data), err)
				return
			}
		}
		side.got = append(side.got, verifC13Msg{mt, data})
	default:
		mt, data, err := c.ReadMessage()
		if err != nil {
			p.viol(sig, "ReadMessage: %v", err)
			return
		}
		side.got = append(side.got, verifC13Msg{mt, data})
	}
}

// run executes the ops: writes are batched (1..3 messages in flight per direction), then read back.
func (p *verifC13Pair) run(ops []verifC13Op, batch func() int) {
	i := 0
	for i < len(ops) && !p.failed {
		k := batch()
		j := i
		for ; j < len(ops) && j < i+k; j++ {
			p.write(&ops[j], j)
		}
		// read back, each side in the order the messages were written to it
		for _, side := range []*verifC13Side{p.sv, p.cl} {
			for _, rs := range side.pend {
				if p.failed {
					break
				}
				p.read(side, rs.reader, rs.rchunk, rs.jsonVal, rs.idx, rs.size)
			}
			side.pend = side.pend[:0]
		}
		i = j
	}
	if p.cfg.closeAtEnd && !p.failed {
		// closing handshake started by the client
		if err := p.cl.c.WriteControl(CloseMessage, FormatCloseMessage(CloseNormalClosure, "bye"), time.Time{}); err != nil {
			p.viol("c13:write-error:close", "WriteControl(close): %v", err)
		}
		if _, _, err := p.sv.c.ReadMessage(); !IsCloseError(err, CloseNormalClosure) {
			p.viol("c13:close-not-received", "server read after Close(1000): %v", err)
		}
		if _, _, err := p.cl.c.ReadMessage(); !IsCloseError(err, CloseNormalClosure) {
			p.viol("c13:close-not-echoed", "client read after the echo: %v", err)
		}
	}
}

// check applies the oracles to the two logs.
func (p *verifC13Pair) check() {
	m := p.m
	if p.cl.end.starved || p.sv.end.starved {
		if !p.failed {
			p.viol("c13:reader-wants-more", "an endpoint asked the transport for bytes beyond what the peer wrote for the messages sent")
		}
	}
	type dir struct {
		name     string
		from, to *verifC13Side
		half     *verifC13Half
	}
	for _, d := range []dir{{"client->server", p.cl, p.sv, p.c2s}, {"server->client", p.sv, p.cl, p.s2c}} {
		ps := refws.NewParser(d.from.role, p.cfg.comp)
		for _, c := range d.half.chunks {
			ps.Feed(c)
		}
		if e := ps.Finish(); e != nil {
			log := d.half.bytes()
			lo := int(e.Offset) - 32
			if lo < 0 {
				lo = 0
			}
			hi := int(e.Offset) + 64
			if hi > len(log) {
				hi = len(log)
			}
			p.viol("c13:wire-invalid:"+e.Code+":"+d.from.role.String(), "%s: %v; bytes around the frame: %x", d.name, e, log[lo:hi])
			continue
		}
		m.Count("wire_bytes", int64(d.half.total))
		for _, f := range ps.Frames() {
			m.Count("frames_parsed", 1)
			m.Count(fmt.Sprintf("frames_len%d", int(f.Form)), 1)
			if f.Masked {
				m.Count("frames_masked", 1)
			}
			if !f.Fin {
				m.Count("frames_nonfinal", 1)
			}
		}
		msgs := ps.Messages()
		for _, e := range msgs {
			if e.Compressed {
				m.Count("messages_compressed_on_wire", 1)
			}
			if e.NFrames > 1 {
				m.Count("messages_fragmented", 1)
			}
		}
		if p.failed {
			continue // something was already reported for this session: the wire was validated, the rest would only cascade
		}
		// wire == sent
		if len(msgs) != len(d.from.sent) {
			p.viol("c13:wire-message-count:"+d.from.role.String(), "%s: %d messages on the wire, %d sent", d.name, len(msgs), len(d.from.sent))
		} else {
			for i := range msgs {
				if int(msgs[i].Opcode) != d.from.sent[i].typ || !bytes.Equal(msgs[i].Payload, d.from.sent[i].data) {
					p.viol("c13:wire-payload-differs:"+d.from.role.String(), "%s message %d: wire (type %d, %d bytes, compressed=%v, %d frames) %s != sent (type %d, %d bytes) %s", d.name, i,
						msgs[i].Opcode, len(msgs[i].Payload), msgs[i].Compressed, msgs[i].NFrames, mon.Hex(msgs[i].Payload), d.from.sent[i].typ, len(d.from.sent[i].data), mon.Hex(d.from.sent[i].data))
					break
				}
			}
		}
		// received == sent
		if len(d.to.got) != len(d.from.sent) {
			p.viol("c13:received-count:"+d.to.role.String(), "%s: %d received, %d sent", d.name, len(d.to.got), len(d.from.sent))
		}
		n := len(d.to.got)
		if len(d.from.sent) < n {
			n = len(d.from.sent)
		}
		for i := 0; i < n; i++ {
			if d.to.got[i].typ != d.from.sent[i].typ || !bytes.Equal(d.to.got[i].data, d.from.sent[i].data) {
				p.viol("c13:received-differs:"+d.to.role.String(), "%s message %d: received (type %d, %d bytes) %s != sent (type %d, %d bytes) %s", d.name, i,
					d.to.got[i].typ, len(d.to.got[i].data), mon.Hex(d.to.got[i].data), d.from.sent[i].typ, len(d.from.sent[i].data), mon.Hex(d.from.sent[i].data))
				break
			}
		}
		m.Count("messages_checked", int64(n))
		m.Cases(n) // one evaluation per message compared end to end (plus one per session)
	}
}

// ---------------------------------------------------------------- workload

var verifC13Text = func() []byte {
	b := make([]byte, 0, 5<<20)
	words := []string{"lorem ", "ipsum ", "dolor ", "sit ", "amet ", "websocket ", "ünïcödé ", "帧 ", "0123456789 "}
	r := vrand.New(12345)
	for len(b) < 5<<20-16 {
		b = append(b, words[r.Intn(len(words))]...)
	}
	return b
}()

// verifC13Payload returns n bytes: valid UTF-8 for text, PRNG or compressible bytes for binary.
func verifC13Payload(r *vrand.Rand, typ int, n int) []byte {
	if n == 0 {
		if r.Bool() {
			return nil
		}
		return []byte{}
	}
	if typ == TextMessage {
		// cut the UTF-8 corpus at rune boundaries; pad with ASCII
		off := r.Intn(1 << 16)
		for off > 0 && verifC13Text[off]&0xc0 == 0x80 {
			off++
		}
		out := make([]byte, 0, n)
		out = append(out, verifC13Text[off:off+n]...)
		for i := n - 1; i >= 0 && i >= n-4; i-- {
			if utf8.RuneStart(out[i]) {
				if !utf8.FullRune(out[i:]) { // the last rune was cut: ASCII instead
					for j := i; j < n; j++ {
						out[j] = '.'
					}
				}
				break
			}
		}
		if !utf8.Valid(out) {
			panic("verif: text payload generator produced invalid UTF-8")
		}
		return out
	}
	switch r.Intn(3) {
	case 0:
		return r.Bytes(n)
	case 1:
		out := make([]byte, n)
		pat := r.Bytes(r.Range(1, 40))
		for i := range out {
			out[i] = pat[i%len(pat)]
		}
		return out
	}
	out := make([]byte, n)
	copy(out, verifC13Text[r.Intn(1000):])
	return out
}

func verifC13Sizes(b int) []int {
	s := []int{0, 1, 125, 126, 127, 65535, 65536, 65537, b - 1, b, b + 1, 2 * b, 2*b + 1, 2*b + 15, 3 * b, 2*b + 27, 2*b + 28, 2*b + 29, 3*b + 42}
	var out []int
	for _, v := range s {
		dup := false
		for _, o := range out {
			dup = dup || o == v
		}
		if v >= 0 && !dup {
			out = append(out, v)
		}
	}
	return out
}

var verifC13APIs = []string{"WriteMessage", "NextWriter", "WriteString", "ReadFrom", "Prepared", "WriteJSON"}

// verifC13Parts: a random k-partition of n (sizes of successive Write calls)
func verifC13Parts(r *vrand.Rand, n int, b int) []int {
	switch r.Intn(5) {
	case 0:
		return nil // one Write
	case 1: // two parts
		return []int{r.Intn(n + 1)}
	case 2: // around the buffer size
		return []int{verifC13Clamp(b+r.Range(-2, 2), 0, n), verifC13Clamp(b+r.Range(-2, 30), 0, n)}
	case 3: // many small
		k := r.Range(2, 12)
		out := make([]int, k)
		for i := range out {
			out[i] = r.Intn(verifC13Clamp(n/k+2, 1, 1<<30) * 2)
		}
		return out
	}
	out := []int{}
	for left := n; left > 0 && len(out) < 64; {
		c := r.Pick(0, 1, 2, 3, 7, b-1, b, b+1, 2*b+29, r.Intn(left+1))
		c = verifC13Clamp(c, 0, left)
		out = append(out, c)
		left -= c
	}
	return out
}

func verifC13Clamp(v, lo, hi int) int {
	if v < lo {
		return lo
	}
	if v > hi {
		return hi
	}
	return v
}

// verifC13MakeOp fills in the payload for an API and size.
func verifC13MakeOp(r *vrand.Rand, fromClient bool, api string, n int, b int) verifC13Op {
	op := verifC13Op{fromClient: fromClient, api: api, typ: r.Pick(TextMessage, BinaryMessage), setCompress: -1, setLevel: -100, reader: "ReadMessage"}
	if api == "WriteJSON" {
		op.typ = TextMessage
		if n < 3 {
			op.jsonVal = float64(r.Intn(10)) // "7\n"
		} else {
			s := make([]byte, n-3)
			for i := range s {
				s[i] = byte('a' + (i*11+n)%26)
			}
			op.jsonVal = string(s) // "\"…\"\n" is n bytes
		}
		enc, _ := json.Marshal(op.jsonVal)
		op.data = append(enc, '\n')
		if r.Bool() {
			op.reader = "ReadJSON"
		}
	} else {
		op.data = verifC13Payload(r, op.typ, n)
		if api == "NextWriter" || api == "WriteString" || api == "ReadFrom" {
			op.parts = verifC13Parts(r, n, b)
		}
	}
	if op.reader == "ReadMessage" && r.Chance(2, 5) {
		op.reader = "NextReader"
		op.rchunk = r.Pick(1, 2, 3, 7, 64, 125, 126, 512, 4096, 70000)
		if n > 1<<17 && op.rchunk < 512 {
			op.rchunk = 4096
		}
	}
	return op
}

func verifC13Count(m *mon.M, ops []verifC13Op, cfg verifC13Cfg) {
	for i := range ops {
		op := &ops[i]
		m.Count("api_"+op.api, 1)
		m.Count("reader_"+op.reader, 1)
		n := len(op.data)
		sz := "mid"
		switch {
		case n == 0:
			sz = "0"
		case n <= 125:
			sz = "le125"
		case n <= 65535:
			sz = "le65535"
		case n < 1<<20:
			sz = "ge65536"
		default:
			sz = "MiB"
		}
		b := cfg.wbufS
		if op.fromClient {
			b = cfg.wbufC
		}
		rel := "lt-b"
		switch {
		case n > 2*(b+14):
			rel = "gt-2buf"
		case n > b:
			rel = "gt-b"
		case n == b:
			rel = "eq-b"
		}
		m.Classf("%s/%s/%s/comp%v/size-%s/%s/parts%d/%s", verifC13Role(op.fromClient), op.api, verifC13BufClass(b), cfg.comp, sz, rel, verifC13Clamp(len(op.parts), 0, 3), op.reader)
	}
}

func verifC13BufClass(b int) string {
	switch {
	case b < 64:
		return "b-min"
	case b <= 256:
		return "b256"
	case b <= 1024:
		return "b1024"
	case b <= 4096:
		return "b4096"
	}
	return "b65536"
}

func TestVerif_C13_Mem(t *testing.T) {
	m := mon.New("C13", verifC13PartName())
	defer m.Finish(t)
	quick := m.Quick()
	// fewer GC cycles: the library's flate writer pools (~1 MB per writer) are emptied by every cycle; performance only
	defer debug.SetGCPercent(debug.SetGCPercent(800))
	m.Rule("in-memory client/server Conn pairs (newConn) over a recording pipe. grid: write buffer b in {1,256,1024,4096,65536} x compression {off, levels -2..9} x write API " +
		"{WriteMessage, NextWriter+Write, io.WriteString, io.Copy/ReadFrom, PreparedMessage shared by both conns, WriteJSON} x every size in {0,1,125,126,127,65535,65536,65537," +
		"b-1,b,b+1,2b,2b+1,2b+15,3b,2b+27..2b+29,3b+42} in both directions, + 1 MiB / 4 MiB messages for b>=1024 (quick tier prunes: b=65536 only with compression off/-2/0/1/9, " +
		"the 64 KiB classes at b=1 only for two configurations, six multi-megabyte sessions); partitions: all 2-partitions of selected sizes; random sessions: 6..14 " +
		"messages, random API/size/k-partition/reader (ReadMessage, NextReader with 1..70000-byte reads, ReadJSON), EnableWriteCompression and level toggled between messages, " +
		"pings, closing handshake, transport read segmentation; plus maskBytes on every alignment 0..15 x length 0..96 x position 0..3 of a guarded buffer. " +
		"distinct = role x API x buffer class x compression x size class x size-vs-buffer x partition count x reader API")
	levels := []int{-2, -1, 0, 1, 2, 3, 4, 5, 6, 7, 8, 9}
	bufs := []int{1, 256, 1024, 4096, 65536}
	m.Require("api_WriteMessage", 500)
	m.Require("api_NextWriter", 500)
	m.Require("api_WriteString", 500)
	m.Require("api_ReadFrom", 500)
	m.Require("api_Prepared", 500)
	m.Require("api_WriteJSON", 500)
	m.Require("reader_NextReader", 500)
	m.Require("reader_ReadJSON", 200)
	m.Require("frames_len7", 1000)
	m.Require("frames_len16", 1000)
	m.Require("frames_len64", 500)
	m.Require("frames_masked", 1000)
	m.Require("frames_nonfinal", 1000)
	m.Require("messages_compressed_on_wire", 1000)
	m.Require("messages_fragmented", 1000)
	m.Require("two_partitions", 2000)
	m.Require("mask_cases", 10000)
	m.Require("megabyte_messages", 8)
	m.Require("sessions", int64(m.N(3000, 150000)))

	// ---- (0) masking with canaries
	verifC13MaskSweep(m)

	var jobs []func() // longest first, so that the tail of the run is made of short sessions

	// ---- (1) grid
	type gridJob struct {
		b     int
		comp  bool
		level int
		api   string
		big   int
	}
	var grid []gridJob
	if quick {
		grid = append(grid,
			gridJob{b: 65536, api: "WriteMessage", big: 4 << 20}, gridJob{b: 4096, api: "NextWriter", big: 4 << 20},
			gridJob{b: 4096, api: "WriteMessage", big: 1 << 20}, gridJob{b: 1024, api: "NextWriter", comp: true, level: 1, big: 1 << 20},
			gridJob{b: 65536, api: "ReadFrom", big: 1 << 20}, gridJob{b: 4096, api: "Prepared", comp: true, level: 1, big: 1 << 20})
	} else {
		for _, b := range []int{1024, 4096, 65536} { // multi-megabyte messages
			grid = append(grid, gridJob{b: b, api: "WriteMessage", big: 4 << 20}, gridJob{b: b, api: "NextWriter", comp: true, level: -2, big: 4 << 20})
			for _, api := range []string{"WriteMessage", "NextWriter", "ReadFrom", "Prepared"} {
				grid = append(grid, gridJob{b: b, api: api, big: 1 << 20}, gridJob{b: b, api: api, comp: true, level: 1, big: 1 << 20})
			}
		}
	}
	// one message in more than 2^16 frames (a tiny write buffer and a megabyte): frame counters, continuation opcodes far in
	grid = append(grid, gridJob{b: 16, api: "NextWriter", big: 1<<20 + 4096}, gridJob{b: 14, api: "ReadFrom", big: 1 << 20})
	for bi := len(bufs) - 1; bi >= 0; bi-- {
		b := bufs[bi]
		for li := -1; li < len(levels); li++ {
			if quick && b == 65536 && li >= 0 && levels[li] != -2 && levels[li] != 0 && levels[li] != 1 && levels[li] != 9 {
				continue
			}
			for _, api := range verifC13APIs {
				j := gridJob{b: b, api: api}
				if li >= 0 {
					j.comp, j.level = true, levels[li]
				}
				grid = append(grid, j)
			}
		}
	}
	for gi := range grid {
		g, gi := grid[gi], gi
		jobs = append(jobs, func() {
			r := m.Rand("grid", gi)
			cfg := verifC13Cfg{comp: g.comp, wbufC: g.b, wbufS: g.b, rbufC: r.Pick(125, 256, 1024, 4096), rbufS: r.Pick(125, 256, 1024, 4096), label: "grid"}
			var ops []verifC13Op
			sizes := verifC13Sizes(g.b)
			if g.big > 0 {
				sizes = []int{g.big + gi%2}
				m.Count("megabyte_messages", 2)
			}
			for _, n := range sizes {
				if g.b == 1 && n > 40000 {
					// one-byte frames: 65537 transport writes per message.  Thorough: two APIs; quick: two configurations.
					if g.api != "WriteMessage" && g.api != "NextWriter" {
						continue
					}
					if quick && !((g.api == "WriteMessage" && !g.comp) || (g.api == "NextWriter" && g.comp && g.level == 1)) {
						continue
					}
				}
				for _, fc := range []bool{true, false} {
					if g.api == "Prepared" && !fc {
						continue // Prepared already goes both ways
					}
					ops = append(ops, verifC13MakeOp(r, fc, g.api, n, g.b))
				}
			}
			rep := map[string]interface{}{"part": "grid", "job": gi, "grid": fmt.Sprintf("%+v", g)}
			p := verifC13NewPair(m, cfg, rep)
			if g.comp {
				p.cl.c.SetCompressionLevel(g.level)
				p.sv.c.SetCompressionLevel(g.level)
			}
			m.Case()
			m.Count("sessions", 1)
			verifC13Count(m, ops, cfg)
			m.Guard("ws.session", nil, func() {
				p.run(ops, func() int { return r.Range(1, 3) })
				p.check()
			})
		})
	}

	// ---- (2) all 2-partitions of selected sizes
	type partJob struct {
		b, n       int
		comp       bool
		fromClient bool
		api        string
	}
	parts := []partJob{{1024, 2*1024 + 30, false, false, "NextWriter"}, {1024, 2*1024 + 30, false, true, "WriteString"}, {4096, 4096 + 200, true, true, "NextWriter"}}
	for _, b := range []int{256, 16, 1} {
		for _, n := range []int{3*b + 43, 2*b + 29, 2*b + 15, b + 1} {
			for _, comp := range []bool{false, true} {
				for _, fc := range []bool{true, false} {
					parts = append(parts, partJob{b, n, comp, fc, "NextWriter"})
				}
			}
		}
	}
	for pi := range parts {
		j, pi := parts[pi], pi
		jobs = append(jobs, func() {
			r := m.Rand("parts", pi)
			cfg := verifC13Cfg{comp: j.comp, wbufC: j.b, wbufS: j.b, rbufC: 256, rbufS: 256, label: "partitions"}
			rep := map[string]interface{}{"part": "partitions", "job": pi, "n": j.n}
			p := verifC13NewPair(m, cfg, rep)
			var ops []verifC13Op
			step := 1
			if j.n > 1200 {
				step = 7 // bounded: every 7th split point plus the ones around the buffer edges
			}
			for i := 0; i <= j.n; i++ {
				if step > 1 && i%step != 0 && !(i <= 2 || i >= j.n-2 || (i >= j.b-2 && i <= j.b+30) || (i >= 2*j.b+26 && i <= 2*j.b+30)) {
					continue
				}
				op := verifC13MakeOp(r, j.fromClient, j.api, j.n, j.b)
				op.parts = []int{i}
				ops = append(ops, op)
			}
			m.Case()
			m.Count("sessions", 1)
			m.Count("two_partitions", int64(len(ops)))
			verifC13Count(m, ops, cfg)
			m.Guard("ws.session", nil, func() {
				p.run(ops, func() int { return 2 })
				p.check()
			})
		})
	}

	// ---- (2b) long sessions: one connection pair carrying 70 000 small messages (state after 2^16 messages and frames:
	// counters, pooled compressors taken and returned tens of thousands of times, buffers reused)
	for li := 0; li < m.N(2, 8); li++ {
		li := li
		jobs = append([]func(){func() {
			r := m.Rand("long", li)
			cfg := verifC13Cfg{comp: li%2 == 0, wbufC: r.Pick(64, 256, 1024), wbufS: r.Pick(64, 256, 4096), rbufC: r.Pick(125, 1024), rbufS: r.Pick(125, 4096), label: "long"}
			rep := map[string]interface{}{"part": "long", "session": li}
			p := verifC13NewPair(m, cfg, rep)
			if cfg.comp {
				p.cl.c.SetCompressionLevel(1)
				p.sv.c.SetCompressionLevel(1)
			}
			const nops = 70000
			ops := make([]verifC13Op, 0, nops)
			apis := []string{"WriteMessage", "WriteMessage", "NextWriter", "Prepared", "WriteString"}
			for k := 0; k < nops; k++ {
				fc := r.Bool()
				b := cfg.wbufS
				if fc {
					b = cfg.wbufC
				}
				op := verifC13MakeOp(r, fc, apis[r.Intn(len(apis))], r.Pick(0, 1, 2, 17, 60, 125, 126, 200, 2*b+3), b)
				if cfg.comp {
					op.setCompress = 0
					if k%5 == 0 {
						op.setCompress = 1 // a fifth of the messages compressed
					}
				}
				if k%997 == 0 {
					op.ping = r.Bytes(r.Intn(126))
				}
				ops = append(ops, op)
			}
			m.Case()
			m.Count("long_sessions", 1)
			m.Count("sessions", 1)
			m.Count("long_session_messages", nops)
			m.Guard("ws.longsession", nil, func() {
				p.run(ops, func() int { return r.Range(1, 50) })
				p.check()
			})
		}}, jobs...)
	}
	m.Require("long_sessions", int64(m.N(2, 8)))

	// ---- (3) random sessions
	n := m.N(3000, 150000) - len(jobs)
	for si := 0; si < n; si++ {
		si := si
		jobs = append(jobs, func() {
			r := m.Rand("session", si)
			pickB := func() int {
				switch r.Intn(8) {
				case 0:
					return 1
				case 1:
					return r.Range(2, 40)
				}
				return r.Pick(256, 1024, 4096, 65536, r.Range(41, 5000))
			}
			cfg := verifC13Cfg{comp: r.Chance(3, 5), wbufC: pickB(), wbufS: pickB(), rbufC: r.Pick(1, 125, 256, 1024, 4096, 65536), rbufS: r.Pick(1, 125, 256, 1024, 4096, 65536),
				maxReadC: r.Pick(0, 0, 1, 3, 100), maxRdS: r.Pick(0, 0, 1, 3, 100), closeAtEnd: r.Bool(), label: "random"}
			rep := map[string]interface{}{"part": "sessions", "session": si}
			p := verifC13NewPair(m, cfg, rep)
			if cfg.comp {
				p.cl.c.SetCompressionLevel(levels[r.Intn(len(levels))])
				p.sv.c.SetCompressionLevel(levels[r.Intn(len(levels))])
			}
			nops := r.Range(6, 14)
			ops := make([]verifC13Op, 0, nops)
			bigLeft := 0
			if r.Chance(1, 3) {
				bigLeft = 1 // one message above 20 000 bytes in a third of the sessions
			}
			for k := 0; k < nops; k++ {
				fc := r.Bool()
				b := cfg.wbufS
				if fc {
					b = cfg.wbufC
				}
				var size int
				switch r.Intn(4) {
				case 0:
					sz := verifC13Sizes(b)
					size = sz[r.Intn(len(sz))]
				case 1:
					size = r.Range(0, 300)
				case 2:
					size = r.Range(0, 3*b+100)
				default:
					size = r.Pick(0, 1, 124, 125, 126, 127, 128, 65534, 65535, 65536, 65537)
				}
				if size > 20000 {
					if bigLeft == 0 || b < 16 {
						size = r.Range(0, 2000)
					} else {
						bigLeft--
					}
				}
				op := verifC13MakeOp(r, fc, verifC13APIs[r.Intn(len(verifC13APIs))], size, b)
				if cfg.comp && r.Chance(1, 3) {
					op.setCompress = r.Intn(2)
				}
				if cfg.comp && r.Chance(1, 4) {
					op.setLevel = levels[r.Intn(len(levels))]
				}
				if r.Chance(1, 6) {
					op.ping = r.Bytes(r.Pick(0, 1, 5, 125, r.Intn(126)))
				}
				ops = append(ops, op)
			}
			m.Case()
			m.Count("sessions", 1)
			verifC13Count(m, ops, cfg)
			m.Guard("ws.session", nil, func() {
				p.run(ops, func() int { return r.Range(1, 3) })
				p.check()
			})
			if os.Getenv("VERIF_C13_DEBUG_TIMES") != "" {
				mx := 0
				for k := range ops {
					if len(ops[k].data) > mx {
						mx = len(ops[k].data)
					}
				}
				fmt.Printf("SESSION %d comp=%v wb=%d/%d rb=%d/%d mr=%d/%d max=%d bytes=%d\n", si, cfg.comp, cfg.wbufC, cfg.wbufS, cfg.rbufC, cfg.rbufS, cfg.maxReadC, cfg.maxRdS, mx, p.c2s.total+p.s2c.total)
			}
			if m.WantSample() && !p.failed {
				m.Sample(map[string]interface{}{"config": fmt.Sprintf("%+v", cfg), "ops": p.opLog, "c2s_bytes": p.c2s.total, "s2c_bytes": p.s2c.total})
			}
		})
	}
	dbg := os.Getenv("VERIF_C13_DEBUG_TIMES") != "" // profiling aid only; never part of a verdict
	mon.Parallel(len(jobs), func(w, i int) {
		t0 := time.Now()
		jobs[i]()
		if dbg {
			fmt.Printf("JOB %d grid=%d parts=%d %.2f\n", i, len(grid), len(parts), time.Since(t0).Seconds())
		}
	})
}

// verifC13MaskSweep calls maskBytes on sub-slices of a guarded buffer and compares with the byte-wise definition.
func verifC13MaskSweep(m *mon.M) {
	keys := [][4]byte{{0x12, 0x34, 0x56, 0x78}, {0, 0, 0, 0}, {0xff, 0xff, 0xff, 0xff}, {0x00, 0x80, 0x01, 0xfe}}
	r := m.Rand("mask", 0)
	for ki := 0; ki < len(keys)+4; ki++ {
		var key [4]byte
		if ki < len(keys) {
			key = keys[ki]
		} else {
			r.Fill(key[:])
		}
		for off := 0; off < 16; off++ {
			for n := 0; n <= 96; n++ {
				for pos := 0; pos < 4; pos++ {
					data := r.Bytes(n)
					sub, whole := verifC13Guarded(data, n, off)
					want := append([]byte{}, data...)
					wantPos := refws.MaskByteWise(key, pos, want)
					var gotPos int
					m.Guard("ws.maskBytes", nil, func() { gotPos = maskBytes(key, pos, sub) })
					m.Count("mask_cases", 1)
					rep := map[string]interface{}{"key": fmt.Sprintf("%x", key), "off": off, "n": n, "pos": pos}
					if !bytes.Equal(sub, want) {
						m.Violationf("c13:mask-result-differs", rep, "maskBytes result differs from b[i]^=key[(pos+i)%%4]: got %x want %x", sub, want)
					}
					if gotPos != wantPos {
						m.Violationf("c13:mask-position-differs", rep, "maskBytes returned position %d, want %d", gotPos, wantPos)
					}
					if !verifC13GuardsOK(whole, off, n) {
						m.Violationf("c13:guard-bytes-changed:mask", rep, "maskBytes wrote outside the slice it was given")
					}
				}
			}
		}
	}
	// long buffers at every alignment
	for off := 0; off < 16; off++ {
		for _, n := range []int{127, 128, 1000, 4095, 4096, 65537} {
			var key [4]byte
			r.Fill(key[:])
			pos := r.Intn(4)
			data := r.Bytes(n)
			sub, whole := verifC13Guarded(data, n, off)
			want := append([]byte{}, data...)
			wantPos := refws.MaskByteWise(key, pos, want)
			gotPos := maskBytes(key, pos, sub)
			m.Count("mask_cases", 1)
			if !bytes.Equal(sub, want) || gotPos != wantPos || !verifC13GuardsOK(whole, off, n) {
				m.Violationf("c13:mask-result-differs", map[string]interface{}{"off": off, "n": n, "pos": pos}, "maskBytes differs on a %d-byte buffer at misalignment %d", n, off)
			}
		}
	}
}

// the same workload also runs as part "asan" (AddressSanitizer build, thorough tier)
func verifC13PartName() string {
	if os.Getenv("VERIF_PART") == "asan" {
		return "asan"
	}
	return "mem"
}
