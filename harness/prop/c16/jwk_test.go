package c16

import (
	"bytes"
	"crypto"
	"crypto/ecdsa"
	"crypto/elliptic"
	"crypto/rsa"
	"crypto/sha256"
	"crypto/sha512"
	"encoding/json"
	"fmt"
	"math/big"
	"testing"

	"github.com/ossrs/go-oryx-lib/https/jose"
	"verifharness/lib/mon"
	"verifharness/lib/refjose"
	"verifharness/lib/vkeys"
)

// RFC 7638 §3.1 example key and its SHA-256 thumbprint, and the RFC 7520 §3.1 P-521 key (its X starts with
// a zero byte) with the thumbprint computed with openssl (vector as used by golang.org/x/crypto/acme's tests).
const (
	rfc7638N = "0vx7agoebGcQSuuPiLJXZptN9nndrQmbXEps2aiAFbWhM78LhWx4cbbfAAt" +
		"VT86zwu1RK7aPFFxuhDR1L6tSoc_BJECPebWKRXjBZCiFV4n3oknjhMstn6" +
		"4tZ_2W-5JsGY4Hc5n9yBXArwl93lqt7_RN5w6Cf0h4QyQ5v-65YGjQR0_FD" +
		"W2QvzqY368QQMicAtaSqzs8KJZgnYb9c7d0zgdAZHzu6qMQvRL5hajrn1n9" +
		"1CbOpbISD08qNLyrdkt-bFTWhAI4vMQFh6WeZu0fM4lFd2NcRwr3XPksINH" +
		"aQ-G_xBniIqbw0Ls1jF44-csFCur-kEgU8awapJzKnqDKgw"
	rfc7638Thumb = "NzbLsXh8uDCcd-6MNwXF4W_7noWXFZAfHkxZsRGC9Xs"
	rfc7520X     = "AHKZLLOsCOzz5cY97ewNUajB957y-C-U88c3v13nmGZx6sYl_oJXu9A5RkTKqjqvjyekWF-7ytDyRXYgCF5cj0Kt"
	rfc7520Y     = "AdymlHvOiLxXkEhayXQnNCvDX4h9htZaCJN34kfmC6pV5OhQHiraVySsUdaQkAgDPrwQrJmbnX9cwlGfP-HqHZR1"
	rfc7520Thumb = "dHri3SADZkrush5HU_50AoRhcKFryN-PI6jPBtPL55M"
)

func keyKind(k interface{}) string {
	switch k := k.(type) {
	case *rsa.PrivateKey:
		return fmt.Sprintf("rsa-priv/e%d", k.E)
	case *rsa.PublicKey:
		return fmt.Sprintf("rsa-pub/e%d", k.E)
	case *ecdsa.PrivateKey:
		return "ec-priv/" + k.Params().Name + "/" + vkeys.Describe(k)
	case *ecdsa.PublicKey:
		w := vkeys.CoordSize(k.Curve)
		return fmt.Sprintf("ec-pub/%s/x%dy%d", k.Params().Name, vkeys.LeadingZeros(k.X, w), vkeys.LeadingZeros(k.Y, w))
	case []byte:
		return fmt.Sprintf("oct/%d", len(k))
	}
	return "?"
}

func sameKey(a, b interface{}) bool {
	switch a := a.(type) {
	case *rsa.PrivateKey:
		b, ok := b.(*rsa.PrivateKey)
		return ok && b != nil && a.N.Cmp(b.N) == 0 && a.E == b.E && a.D.Cmp(b.D) == 0 && len(b.Primes) == 2 &&
			a.Primes[0].Cmp(b.Primes[0]) == 0 && a.Primes[1].Cmp(b.Primes[1]) == 0
	case *rsa.PublicKey:
		b, ok := b.(*rsa.PublicKey)
		return ok && b != nil && a.N.Cmp(b.N) == 0 && a.E == b.E
	case *ecdsa.PrivateKey:
		b, ok := b.(*ecdsa.PrivateKey)
		return ok && b != nil && a.Curve == b.Curve && a.X.Cmp(b.X) == 0 && a.Y.Cmp(b.Y) == 0 && a.D.Cmp(b.D) == 0
	case *ecdsa.PublicKey:
		b, ok := b.(*ecdsa.PublicKey)
		return ok && b != nil && a.Curve == b.Curve && a.X.Cmp(b.X) == 0 && a.Y.Cmp(b.Y) == 0
	case []byte:
		b, ok := b.([]byte)
		return ok && bytes.Equal(a, b)
	}
	return false
}

func TestVerif_C16_JWK(t *testing.T) {
	m := mon.New("C16", "jwk")
	defer m.Finish(t)
	if _, replaying := replayFor(m, "jwk"); replaying {
		return
	}
	col := newCollector(m)
	defer col.flush()
	m.Rule("jwk: every fixed key (3 RSA incl. e=3, 15 EC incl. leading-zero X/Y/D, 10 symmetric) plus PRNG-derived EC keys on the three curves (leading zeros occur " +
		"naturally, about 1 member in 256) and symmetric keys of 1..64 bytes, each as private and as public key: MarshalJSON -> UnmarshalJSON gives the same key " +
		"(and kid/alg/use); the marshalled EC x/y are full-width base64url; a JWK written by hand (RFC 7517/7518 layout) unmarshals to the same key; " +
		"Thumbprint(SHA-256/SHA-384) equals the hash of a hand-built RFC 7638 canonical string. The reference is first checked against the RFC 7638 §3.1 " +
		"vector and a P-521 vector with a leading-zero X. distinct = key kind / curve / leading-zero pattern classes")

	// --- the oracle itself, against published vectors (a failure here is the harness's, not the library's)
	nb, _ := refjose.UnB64(rfc7638N)
	rfcRSA := &rsa.PublicKey{N: new(big.Int).SetBytes(nb), E: 65537}
	xb, _ := refjose.UnB64(rfc7520X)
	yb, _ := refjose.UnB64(rfc7520Y)
	rfcEC := &ecdsa.PublicKey{Curve: elliptic.P521(), X: new(big.Int).SetBytes(xb), Y: new(big.Int).SetBytes(yb)}
	for _, v := range []struct {
		k    interface{}
		want string
	}{{rfcRSA, rfc7638Thumb}, {rfcEC, rfc7520Thumb}} {
		th, err := refjose.ThumbprintSHA256(v.k)
		if err != nil || refjose.B64(th) != v.want {
			t.Fatalf("reference thumbprint fails the published vector: %v %s want %s", err, refjose.B64(th), v.want)
		}
	}
	m.Count("oracle_vectors_passed", 2)

	type item struct {
		name string
		key  interface{}
	}
	var items []item
	add := func(name string, k interface{}) {
		items = append(items, item{name, k})
		switch k.(type) {
		case *rsa.PrivateKey, *ecdsa.PrivateKey:
			items = append(items, item{name + ".pub", publicOf(k)})
		}
	}
	add("rfc7638-rsa", rfcRSA)
	add("rfc7520-p521", rfcEC)
	rounds := m.N(1, 6)
	for round := 0; round < rounds; round++ {
		ks := keysFor(m, round)
		for _, n := range []string{"a", "b", "e3"} {
			add(fmt.Sprintf("r%d/rsa-%s", round, n), ks.rsa[n])
		}
		for _, c := range curves {
			for _, v := range vkeys.ECVariants {
				add(fmt.Sprintf("r%d/%s-%s", round, c, v), ks.ec[c+"-"+v])
			}
		}
		for n, k := range ks.oct {
			add(fmt.Sprintf("r%d/%s", round, n), append([]byte{}, k...))
		}
	}
	nGen := m.N(1500, 150000)
	gen := make([]item, nGen)
	mon.Parallel(nGen, func(w, i int) {
		r := m.Rand("genkey", i)
		if i%4 == 3 {
			gen[i] = item{fmt.Sprintf("gen%d/oct", i), r.Bytes(r.Range(1, 64))}
			return
		}
		c := curves[i%3]
		gen[i] = item{fmt.Sprintf("gen%d/%s", i, c), vkeys.GenEC(vkeys.Curve(c), r)}
	})
	for _, g := range gen {
		add(g.name, g.key)
	}
	m.Require("evaluations", int64(len(items)))
	for _, c := range []string{"P-256", "P-384", "P-521"} {
		m.Require("ec_leading_zero_x/"+c, 1)
		m.Require("ec_leading_zero_y/"+c, 1)
		m.Require("ec_leading_zero_d/"+c, 1)
	}
	m.Require("rsa_short_e", 1)
	m.Require("thumbprints_checked", 60)

	mon.Parallel(len(items), func(w, i int) { checkJWK(m, col, items[i].name, items[i].key, i) })
	if n := m.Counter("ec_d_shorter_than_curve"); n > 0 {
		m.Note("observation_outside_statement", fmt.Sprintf("%d marshalled EC private keys carry a \"d\" shorter than the curve size "+
			"(RFC 7518 §6.2.2.1 asks for the full width); the statement only requires the round trip, which holds, so this is recorded, not judged", n))
	}
}

func checkJWK(m *mon.M, col *collector, name string, key interface{}, idx int) {
	m.Case()
	kind := keyKind(key)
	m.Class("jwk/" + kind)
	shortKind := kind
	if i := bytes.IndexByte([]byte(kind), '/'); i > 0 {
		shortKind = kind[:i]
	}
	dims := []dim{{"kty", shortKind}}
	var pub *ecdsa.PublicKey
	var d *big.Int
	switch k := key.(type) {
	case *ecdsa.PrivateKey:
		pub, d = &k.PublicKey, k.D
	case *ecdsa.PublicKey:
		pub = k
	case *rsa.PrivateKey:
		if k.E < 256 {
			m.Count("rsa_short_e", 1)
		}
	}
	lz := ""
	if pub != nil {
		w := vkeys.CoordSize(pub.Curve)
		cn := pub.Params().Name
		if vkeys.LeadingZeros(pub.X, w) > 0 {
			m.Count("ec_leading_zero_x/"+cn, 1)
			lz += "x"
		}
		if vkeys.LeadingZeros(pub.Y, w) > 0 {
			m.Count("ec_leading_zero_y/"+cn, 1)
			lz += "y"
		}
		if d != nil && vkeys.LeadingZeros(d, w) > 0 {
			m.Count("ec_leading_zero_d/"+cn, 1)
			lz += "d"
		}
	}
	if lz != "" {
		dims = append(dims, dim{"leading-zero", lz})
	} else {
		dims = append(dims, dim{"leading-zero", "none"})
	}
	col.seen("jwk", dims)
	hand, _ := refjose.JWKJSON(key, "")
	rep := map[string]interface{}{"key": name, "jwk_by_hand": hand}
	fail := func(stage, format string, a ...interface{}) {
		col.fail("jwk", stage, dims, idx, rep, format, a...)
	}

	m.Guard("jose.JsonWebKey", nil, func() {
		// marshal -> unmarshal
		in := jose.JsonWebKey{Key: key, KeyID: fmt.Sprintf("kid %d/ü", idx), Algorithm: "alg-x", Use: "sig"}
		doc, err := in.MarshalJSON()
		if err != nil {
			fail("marshal-error", "%v", err)
			return
		}
		rep["marshalled"] = string(doc)
		var back jose.JsonWebKey
		if err := back.UnmarshalJSON(doc); err != nil {
			fail("unmarshal-own-error", "%v", err)
			return
		}
		if !sameKey(key, back.Key) {
			fail("roundtrip-key-differs", "unmarshalled key %T differs from the marshalled one", back.Key)
		}
		if back.KeyID != in.KeyID || back.Algorithm != in.Algorithm || back.Use != in.Use {
			fail("roundtrip-attributes-differ", "kid/alg/use %q/%q/%q", back.KeyID, back.Algorithm, back.Use)
		}
		// the same through encoding/json on a containing structure (the way headers embed keys)
		wrapped, err := json.Marshal(map[string]interface{}{"jwk": &in})
		if err == nil {
			var w2 struct {
				Jwk *jose.JsonWebKey `json:"jwk"`
			}
			if err := json.Unmarshal(wrapped, &w2); err != nil || w2.Jwk == nil || !sameKey(key, w2.Jwk.Key) {
				fail("roundtrip-embedded-differs", "key embedded in a JSON object does not come back: %v", err)
			}
		} else {
			fail("marshal-error", "embedded: %v", err)
		}
		// layout of the marshalled document, read by hand
		mem, err := refjose.JWKMembers(doc)
		if err != nil {
			fail("marshalled-not-json", "%v", err)
			return
		}
		if pub != nil {
			w := vkeys.CoordSize(pub.Curve)
			x, errx := refjose.UnB64(mem["x"])
			y, erry := refjose.UnB64(mem["y"])
			switch {
			case mem["kty"] != "EC" || mem["crv"] != pub.Params().Name:
				fail("marshalled-members-wrong", "kty %q crv %q", mem["kty"], mem["crv"])
			case errx != nil || erry != nil:
				fail("marshalled-members-wrong", "x/y not base64url: %v %v", errx, erry)
			case len(x) != w || len(y) != w:
				fail("ec-coordinate-not-fixed-width", "x %d bytes, y %d bytes, curve size %d", len(x), len(y), w)
			case new(big.Int).SetBytes(x).Cmp(pub.X) != 0 || new(big.Int).SetBytes(y).Cmp(pub.Y) != 0:
				fail("marshalled-members-wrong", "x/y carry other values")
			}
			if d != nil {
				db, err := refjose.UnB64(mem["d"])
				if err != nil || new(big.Int).SetBytes(db).Cmp(d) != 0 {
					fail("marshalled-members-wrong", "d carries another value (%v)", err)
				} else if len(db) != w {
					m.Count("ec_d_shorter_than_curve", 1) // recorded only, see TestVerif_C16_JWK
				}
			}
		}
		// a JWK written by hand unmarshals to the same key
		var fromHand jose.JsonWebKey
		if err := fromHand.UnmarshalJSON([]byte(hand)); err != nil {
			fail("unmarshal-reference-error", "%v", err)
		} else if !sameKey(key, fromHand.Key) {
			fail("unmarshal-reference-differs", "key read from the hand-written JWK differs")
		}
		// thumbprints
		if _, isOct := key.([]byte); isOct {
			return // the library defines no thumbprint for symmetric keys (returns an error): nothing to compare
		}
		input, err := refjose.ThumbprintInput(key)
		if err != nil {
			return
		}
		rep["rfc7638_input"] = input
		for _, h := range []crypto.Hash{crypto.SHA256, crypto.SHA384} {
			var want []byte
			if h == crypto.SHA256 {
				s := sha256.Sum256([]byte(input))
				want = s[:]
			} else {
				s := sha512.Sum384([]byte(input))
				want = s[:]
			}
			for _, jk := range []*jose.JsonWebKey{&in, &back} {
				got, err := jk.Thumbprint(h)
				m.Count("thumbprints_checked", 1)
				if err != nil {
					fail("thumbprint-error", "%v", err)
				} else if !bytes.Equal(got, want) {
					fail("thumbprint-differs", "%v: library %s, RFC 7638 %s", h, refjose.B64(got), refjose.B64(want))
				}
			}
		}
	})
}
