// C16, in-package part: the ACME client's request signing (signContent) and key authorization
// (getKeyAuthorization) built on the jose package.  Compiled into /repo/https/acme through the
// overlay; language version of /repo/go.mod applies (no generics, no range-over-int).
package acme

import (
	"bytes"
	"crypto/ecdsa"
	"crypto/rsa"
	"crypto/sha256"
	"fmt"
	"testing"

	"github.com/ossrs/go-oryx-lib/https/jose"
	"verifharness/lib/mon"
	"verifharness/lib/refjose"
	"verifharness/lib/vkeys"
)

type verifC16Key struct {
	name  string
	priv  interface{}
	pub   interface{}
	other interface{} // public half of a different key of the same kind
}

func verifC16Keys() []verifC16Key {
	var out []verifC16Key
	rsaNames := []string{"rsa2048-a", "rsa2048-b", "rsa2048-e3"}
	for i, n := range rsaNames {
		k := vkeys.RSA(n)
		o := vkeys.RSA(rsaNames[(i+1)%len(rsaNames)])
		out = append(out, verifC16Key{name: n, priv: k, pub: &k.PublicKey, other: &o.PublicKey})
	}
	// the ACME client knows P-256 and P-384 only (KeyType EC256 / EC384)
	for _, c := range []string{"p256", "p384"} {
		names := vkeys.ECNames(c)
		for i, n := range names {
			k := vkeys.EC(n)
			o := vkeys.EC(names[(i+1)%len(names)])
			out = append(out, verifC16Key{name: n, priv: k, pub: &k.PublicKey, other: &o.PublicKey})
		}
	}
	return out
}

func verifC16Pub(k interface{}) interface{} {
	switch k := k.(type) {
	case *rsa.PrivateKey:
		return &k.PublicKey
	case *ecdsa.PrivateKey:
		return &k.PublicKey
	}
	return k
}

func TestVerif_C16_Acme(t *testing.T) {
	m := mon.New("C16", "acme")
	defer m.Finish(t)
	if m.ReplayField("part") != nil || m.ReplayField("entry") != nil {
		return // replays of C16 are addressed to the black-box parts
	}
	m.Rule("acme: signContent with a pre-filled nonce list (no network) for every fixed RSA key (incl. e=3) and every fixed P-256/P-384 key (incl. leading-zero X/Y/D) " +
		"x content sizes {0,1,2,64,300,5000} + ACME-like JSON bodies -> FullSerialize -> jose.ParseSigned -> Verify(public key) returns the content; a different key is rejected; " +
		"getKeyAuthorization(token, key) == token + '.' + base64url(SHA-256 of the hand-built RFC 7638 string) for PRNG tokens. distinct = key/size classes")
	keys := verifC16Keys()
	sizes := []int{0, 1, 2, 64, 300, 5000, -1, -2}
	nTok := m.N(40, 2000)
	m.Require("evaluations", int64(len(keys)*len(sizes)+len(keys)*nTok))
	m.Require("acme_sign_ok", int64(len(keys)))
	m.Require("acme_keyauth_ok", int64(len(keys)))

	mon.Parallel(len(keys)*len(sizes), func(w, i int) {
		k := keys[i/len(sizes)]
		size := sizes[i%len(sizes)]
		r := m.Rand("content", i)
		var content []byte
		switch size {
		case -1:
			content = []byte(`{"resource":"new-reg","contact":["mailto:verif@example.org"],"agreement":"https://example.org/tos"}`)
		case -2:
			content = []byte(fmt.Sprintf(`{"resource":"challenge","type":"http-01","keyAuthorization":"%x.%x"}`, r.Bytes(16), r.Bytes(32)))
		default:
			content = r.Bytes(size)
		}
		nonce := fmt.Sprintf("nonce-%x", r.Bytes(8))
		m.Case()
		m.Classf("acme-sign/%s/len%d", k.name, len(content))
		rep := map[string]interface{}{"key": k.name, "content_hex": mon.Hex(content), "nonce": nonce}
		m.Guard("acme.signContent", content, func() {
			j := &jws{privKey: k.priv, nonces: []string{nonce}}
			signed, err := j.signContent(content)
			if err != nil {
				m.Violationf("c16:acme:sign-roundtrip-fails:sign-error", rep, "signContent: %v", err)
				return
			}
			full := signed.FullSerialize()
			rep["serialized"] = full
			parsed, err := jose.ParseSigned(full)
			if err != nil {
				m.Violationf("c16:acme:sign-roundtrip-fails:parse-error", rep, "ParseSigned: %v", err)
				return
			}
			out, err := parsed.Verify(k.pub)
			if err != nil {
				m.Violationf("c16:acme:sign-roundtrip-fails:verify-error", rep, "Verify: %v", err)
				return
			}
			if !bytes.Equal(out, content) {
				m.Violationf("c16:acme:sign-roundtrip-fails:payload-differs", rep, "Verify returned %s", mon.Hex(out))
				return
			}
			m.Count("acme_sign_ok", 1)
			// observations (not part of the statement): the nonce travels in the protected header, the account key is embedded
			if len(parsed.Signatures) == 1 && parsed.Signatures[0].Header.Nonce == nonce {
				m.Count("acme_nonce_in_header", 1)
			}
			if len(parsed.Signatures) == 1 && parsed.Signatures[0].Header.JsonWebKey != nil {
				m.Count("acme_jwk_embedded", 1)
			}
			if m.WantSample() {
				m.Sample(map[string]interface{}{"key": k.name, "serialized": full})
			}
			// a different key must not verify
			if _, err := parsed.Verify(k.other); err == nil {
				m.Violationf("c16:acme:wrong-key-accepted", rep, "object signed with %s verifies with another key", k.name)
			}
			m.Count("acme_wrong_key_trials", 1)
		})
	})

	mon.Parallel(len(keys)*nTok, func(w, i int) {
		k := keys[i/nTok]
		r := m.Rand("token", i)
		const alphabet = "ABCDEFGHIJKLMNOPQRSTUVWXYZabcdefghijklmnopqrstuvwxyz0123456789-_"
		tok := make([]byte, r.Range(0, 64))
		for x := range tok {
			tok[x] = alphabet[r.Intn(len(alphabet))]
		}
		token := string(tok)
		m.Case()
		m.Classf("acme-keyauth/%s", k.name)
		rep := map[string]interface{}{"key": k.name, "token": token}
		m.Guard("acme.getKeyAuthorization", nil, func() {
			got, err := getKeyAuthorization(token, k.priv)
			if err != nil {
				m.Violationf("c16:acme:key-authorization-error", rep, "%v", err)
				return
			}
			input, err := refjose.ThumbprintInput(verifC16Pub(k.priv))
			if err != nil {
				t.Fatalf("reference: %v", err)
			}
			sum := sha256.Sum256([]byte(input))
			want := token + "." + refjose.B64(sum[:])
			rep["rfc7638_input"] = input
			if got != want {
				m.Violationf("c16:acme:key-authorization-differs", rep, "got %q want %q", got, want)
				return
			}
			m.Count("acme_keyauth_ok", 1)
		})
	})
}
