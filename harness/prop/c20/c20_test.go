// C20 — public surface of the rate meters on the real clock (black-box smoke; the window arithmetic is
// decided in virtual time by the in-package monitor).
package c20

import (
	"time"
	"math"
	"sync/atomic"
	"testing"

	"github.com/ossrs/go-oryx-lib/kxps"
	"verifharness/lib/mon"
)

type src struct{ n uint64 }

func (s *src) TotalBytes() uint64 { return atomic.LoadUint64(&s.n) }
func (s *src) NbRequests() uint64 { return atomic.LoadUint64(&s.n) }

func refused(f func() float64) (ok bool) {
	defer func() {
		if recover() != nil {
			ok = true
		}
	}()
	f()
	return false
}

func TestVerif_C20_PublicAPI(t *testing.T) {
	m := mon.New("C20", "publicapi")
	defer m.Finish(t)
	m.Rule("publicapi: Kbps and Krps meters through their exported constructors: every getter is refused (documented panic) before Start; after Start " +
		"(real clock, sampling goroutine running) every getter returns a finite non-negative value while the counter grows, stalls and jumps; after Close " +
		"the meter is not started any more; distinct = (meter, phase, getter)")
	for run := 0; run < m.N(20, 500); run++ {
		s := &src{}
		kb := kxps.NewKbps(nil, s)
		kr := kxps.NewKrps(nil, s)
		getters := map[string]func() float64{
			"kbps10": kb.Kbps10s, "kbps30": kb.Kbps30s, "kbps300": kb.Kbps300s, "kbpsAvg": kb.Average,
			"krps10": kr.Rps10s, "krps30": kr.Rps30s, "krps300": kr.Rps300s, "krpsAvg": kr.Average,
		}
		for name, g := range getters {
			m.Case()
			m.Class("before-start/" + name)
			if !refused(g) {
				m.Violationf("c20:read-before-start-not-refused:"+name, map[string]interface{}{"getter": name}, "%s returned a value before Start", name)
			}
		}
		// a meter that is closed without ever having been started has still never been started: a reader racing a deferred
		// Close on a meter whose Start was never reached must be refused like any other read before Start
		{
			kb0 := kxps.NewKbps(nil, s)
			kr0 := kxps.NewKrps(nil, s)
			kb0.Close()
			kr0.Close()
			for name, g := range map[string]func() float64{"kbps10": kb0.Kbps10s, "kbps30": kb0.Kbps30s, "kbps300": kb0.Kbps300s, "kbpsAvg": kb0.Average,
				"krps10": kr0.Rps10s, "krps30": kr0.Rps30s, "krps300": kr0.Rps300s, "krpsAvg": kr0.Average} {
				m.Case()
				m.Class("closed-never-started/" + name)
				if !refused(g) {
					m.Violationf("c20:read-before-start-not-refused:closed-never-started:"+name, map[string]interface{}{"getter": name, "sequence": "New, Close, read"},
						"%s returned a value on a meter that was closed without ever being started", name)
				}
			}
			m.Count("never_started_meters_closed_then_read", 2)
		}
		m.Guard("kxps.public", nil, func() {
			if err := kb.Start(); err != nil {
				m.Violationf("c20:start-error", nil, "%v", err)
			}
			if err := kr.Start(); err != nil {
				m.Violationf("c20:start-error", nil, "%v", err)
			}
			r := m.Rand("pub", run)
			for step := 0; step < 50; step++ {
				switch r.Intn(4) {
				case 0:
					atomic.AddUint64(&s.n, uint64(r.Range(1, 100000)))
				case 1:
					atomic.AddUint64(&s.n, uint64(1)<<uint(r.Range(20, 55)))
				}
				for name, g := range getters {
					m.Case()
					m.Class("started/" + name)
					v := g()
					if math.IsNaN(v) || math.IsInf(v, 0) || v < 0 {
						m.Violationf("c20:value-not-finite-nonnegative:public:"+name, map[string]interface{}{"getter": name, "value": v}, "%s = %v", name, v)
					}
				}
			}
			kb.Close()
			kr.Close()
			m.Count("meters_exercised", 2)
		})
	}
	m.Require("meters_exercised", 40)
	m.Require("never_started_meters_closed_then_read", 40)
	// a meter started on a counter that is already large and then does not move (a process that attaches a meter to a
	// connection that has been up for a while): no increase was ever observed, every rate and the average are exactly 0
	for run := 0; run < m.N(6, 60); run++ {
		s := &src{n: uint64(5000000000 + run)}
		kb := kxps.NewKbps(nil, s)
		kr := kxps.NewKrps(nil, s)
		m.Guard("kxps.public.stalled", nil, func() {
			kb.Start()
			kr.Start()
			for k := 0; k < 3; k++ {
				time.Sleep(time.Duration(5+10*k) * time.Millisecond)
				for name, g := range map[string]func() float64{"kbps10": kb.Kbps10s, "kbps30": kb.Kbps30s, "kbps300": kb.Kbps300s, "kbpsAvg": kb.Average,
					"krps10": kr.Rps10s, "krps30": kr.Rps30s, "krps300": kr.Rps300s, "krpsAvg": kr.Average} {
					m.Case()
					m.Class("stalled-from-start/" + name)
					if v := g(); v != 0 {
						m.Violationf("c20:nonzero-rate-without-any-increase:public:"+name, map[string]interface{}{"getter": name, "value": v, "counter": s.n},
							"%s = %v for a counter that has stood at %d since before Start", name, v, s.n)
					}
				}
			}
			kb.Close()
			kr.Close()
			m.Count("meters_started_on_a_large_stalled_counter", 2)
		})
	}
	m.Require("meters_started_on_a_large_stalled_counter", 12)
}
