// genkeys writes the fixed test keys of the harness (run once; the output is committed):
//
//	cd /verif/harness && go run ./cmd/genkeys -out testdata/keys
//
// Everything is derived from a fixed PRNG label per key (independent of VERIF_SEED), so a
// re-run reproduces the same files.  EC keys named -lzx/-lzy/-lzd are found by generating
// keys until X / Y / D has a leading zero byte at the curve's coordinate width (P-521: at
// most 64 significant bytes, i.e. both leading bytes zero), the 1-in-256 class in which
// fixed-width encodings (JWK coordinates, thumbprints) go wrong.
package main

import (
	"crypto/x509"
	"encoding/hex"
	"encoding/json"
	"encoding/pem"
	"flag"
	"fmt"
	"hash/fnv"
	"os"
	"path/filepath"

	"verifharness/lib/vkeys"
	"verifharness/lib/vrand"
)

func stream(label string) *vrand.Rand {
	h := fnv.New64a()
	h.Write([]byte("verif-genkeys/v1/" + label))
	return vrand.New(h.Sum64())
}

func writePEM(dir, name, typ string, der []byte) {
	p := filepath.Join(dir, name+".pem")
	if err := os.WriteFile(p, pem.EncodeToMemory(&pem.Block{Type: typ, Bytes: der}), 0o644); err != nil {
		panic(err)
	}
}

func main() {
	out := flag.String("out", "testdata/keys", "output directory")
	flag.Parse()
	if err := os.MkdirAll(*out, 0o755); err != nil {
		panic(err)
	}
	index := map[string]interface{}{}

	for _, spec := range []struct {
		name string
		e    int
	}{{"rsa2048-a", 65537}, {"rsa2048-b", 65537}, {"rsa2048-e3", 3}} {
		k := vkeys.GenRSA(stream(spec.name), 2048, spec.e)
		writePEM(*out, spec.name, "RSA PRIVATE KEY", x509.MarshalPKCS1PrivateKey(k))
		index[spec.name] = map[string]interface{}{"kty": "RSA", "bits": k.N.BitLen(), "e": k.E}
		fmt.Printf("%s: n=%d bits e=%d\n", spec.name, k.N.BitLen(), k.E)
	}

	for _, cn := range []string{"p256", "p384", "p521"} {
		c := vkeys.Curve(cn)
		for _, variant := range vkeys.ECVariants {
			name := cn + "-" + variant
			k, tries := vkeys.SearchEC(cn, variant, stream(name))
			der, err := x509.MarshalECPrivateKey(k)
			if err != nil {
				panic(err)
			}
			writePEM(*out, name, "EC PRIVATE KEY", der)
			index[name] = map[string]interface{}{"kty": "EC", "crv": c.Params().Name, "tries": tries,
				"leading_zero_bytes": vkeys.Describe(k)}
			fmt.Printf("%s: %s after %d tries\n", name, vkeys.Describe(k), tries)
		}
	}

	oct := map[string]string{}
	for _, n := range []int{16, 24, 32, 48, 64} {
		for _, v := range []string{"a", "b"} {
			name := fmt.Sprintf("oct%d-%s", n, v)
			oct[name] = hex.EncodeToString(stream(name).Bytes(n))
			index[name] = map[string]interface{}{"kty": "oct", "bytes": n}
		}
	}
	b, _ := json.MarshalIndent(oct, "", " ")
	if err := os.WriteFile(filepath.Join(*out, "oct.json"), append(b, '\n'), 0o644); err != nil {
		panic(err)
	}
	b, _ = json.MarshalIndent(index, "", " ")
	if err := os.WriteFile(filepath.Join(*out, "index.json"), append(b, '\n'), 0o644); err != nil {
		panic(err)
	}
}
