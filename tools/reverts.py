#!/usr/bin/env python3
"""tools/reverts.py <out file>: for every repaired defect listed in known_findings.json ("fixed: property=<id> <commit> ..."),
build the reverse patch of that /repo commit (git show -R), and run the property's quick check against it through a build
overlay (tools/mutant.py check): each one must be CAUGHT.  Reverse patches that no longer apply (later fixes touched the
same lines) are reported as NOAPPLY; hand-made equivalents of those are in reverts/manual/."""
import json, os, re, shutil, subprocess, sys, tempfile
here = os.path.dirname(os.path.dirname(os.path.abspath(__file__)))
out = open(sys.argv[1], "w")
root = tempfile.mkdtemp(prefix="reverts-", dir="/tmp")
try:
    seen = set()
    for f in json.load(open(os.path.join(here, "known_findings.json")))["fixed"]:
        m = re.match(r"fixed: property=(C\d+) ([0-9a-f]{7,}) (.*)", f)
        if not m or (m.group(1), m.group(2)) in seen:
            continue
        prop, commit, what = m.groups()
        seen.add((prop, commit))
        d = os.path.join(root, commit)
        os.makedirs(d)
        p = subprocess.run(["git", "-C", "/repo", "show", "-R", "--format=", commit, "--", ".", ":(exclude)*_test.go"], capture_output=True, text=True).stdout
        open(os.path.join(d, "patch.diff"), "w").write(p)
        json.dump({"property": prop, "what": "revert of " + commit, "needs": "-"}, open(os.path.join(d, "meta.json"), "w"))
        if subprocess.run(["git", "-C", "/repo", "apply", "--check", os.path.join(d, "patch.diff")], capture_output=True).returncode != 0:
            out.write("%s %s NOAPPLY %s\n" % (commit, prop, what[:100]))
            continue
        r = subprocess.run(["python3", os.path.join(here, "tools", "mutant.py"), "check", d], capture_output=True, text=True)
        line = [l for l in r.stdout.splitlines() if re.search(r"CAUGHT|MISSED|INCONCLUSIVE", l)]
        out.write("%s %s %s\n" % (commit, prop, (line[-1] if line else "?")[:220]))
        out.flush()
    for d in sorted(os.listdir(os.path.join(here, "reverts", "manual"))):
        dd = os.path.join(here, "reverts", "manual", d)
        if os.path.isdir(dd):
            r = subprocess.run(["python3", os.path.join(here, "tools", "mutant.py"), "check", dd], capture_output=True, text=True)
            line = [l for l in r.stdout.splitlines() if re.search(r"CAUGHT|MISSED|INCONCLUSIVE", l)]
            out.write("%s manual %s\n" % (d, (line[-1] if line else "?")[:220]))
finally:
    shutil.rmtree(root, ignore_errors=True)
out.write("DONE\n")
