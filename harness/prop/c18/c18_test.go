// C18 — connection ids unique, log lines whole, under concurrency (black-box, -race).
//
// Workload: N in {2..64} goroutines create contexts (WithContext, AliasContext of contexts made by
// other goroutines, application objects with Cid(), plain context.Context, nil) and log through
// every level function and the Logger objects.  The writer installed with Switch (at quiescent
// points only) records every Write separately.  Oracle: every Write is exactly one complete line
// `<label><date time.micros> [pid][cid] message\n`, every call's unique token is in exactly one
// Write, with the cid of the context passed; ids of fresh contexts pairwise distinct in the whole
// process; alias ids equal their source's.  The race detector's verdict is collected by check.py.
package c18

import (
	"context"
	"fmt"
	"io"
	"os"
	"regexp"
	"runtime"
	"strconv"
	"strings"
	"sync"
	"sync/atomic"
	"testing"

	"github.com/ossrs/go-oryx-lib/logger"
	"verifharness/lib/mon"
	"verifharness/lib/vrand"
)

// ---------------------------------------------------------------------------------------------
// the recording writer (implements io.Closer, so colour escapes never go to stdout)

type recWriter struct {
	mu     sync.Mutex
	buf    []byte
	ends   []int // end offset of every Write in buf
	done   bool
	late   int
	closed int
}

func (w *recWriter) Write(p []byte) (int, error) {
	w.mu.Lock()
	if w.done {
		w.late++
	}
	w.buf = append(w.buf, p...)
	w.ends = append(w.ends, len(w.buf))
	w.mu.Unlock()
	return len(p), nil
}

func (w *recWriter) Close() error {
	w.mu.Lock()
	w.closed++
	w.mu.Unlock()
	return nil
}

var _ io.Closer = (*recWriter)(nil)

// plainWriter hides Close: logger.Switch sees a writer that is not an io.Closer.
type plainWriter struct{ w *recWriter }

func (p plainWriter) Write(b []byte) (int, error) { return p.w.Write(b) }

// VERIF_C18_PLAIN=1 (part "plain") must run in a process where no io.Closer writer was ever installed.
func plainWriterMode() bool { return os.Getenv("VERIF_C18_PLAIN") == "1" }

// ---------------------------------------------------------------------------------------------
// context kinds

const (
	kNil        = iota // nil context: "[pid]" only
	kObjPtr            // application object, pointer receiver Cid()
	kObjVal            // application object, value receiver Cid()
	kLib               // logger.WithContext(parent): fresh id
	kAlias             // logger.AliasContext(parent, source with id): source's id
	kAliasFresh        // logger.AliasContext(parent, nil or id-less source): documented to get a fresh id
	kPlain             // context.Context without id: prefix not constrained by the statement
	nKinds
)

var kindName = [nKinds]string{"nil", "obj-ptr", "obj-val", "lib", "alias", "alias-nosrc", "plain"}

type appConn struct{ id int }

func (c *appConn) Cid() int { return c.id }

type appID int

func (a appID) Cid() int { return int(a) }

// a key with the same text as the library's private key but another type: must not count as an id
type decoyKey string

type ctxRec struct {
	kind   int
	ctx    logger.Context  // what is passed to the logging functions
	cctx   context.Context // lib kinds: usable as parent / alias source
	objCid int
	src    *ctxRec // kAlias: the source
	g, seq int
	// filled after the run, single-threaded
	id       int
	resolved bool
	lines    int
}

// ---------------------------------------------------------------------------------------------
// entry points

const (
	lvInfo = iota
	lvTrace
	lvWarn
	lvError
)

// label strings as declared in logger.go
var labelOf = [4]string{"info", "trace", "warn", "error"}

type entry struct {
	name   string
	level  int
	printf bool
	call   func(ctx logger.Context, format string, a []interface{})
}

var entries = []entry{
	{"I", lvInfo, false, func(c logger.Context, _ string, a []interface{}) { logger.I(c, a...) }},
	{"If", lvInfo, true, func(c logger.Context, f string, a []interface{}) { logger.If(c, f, a...) }},
	{"Info.Println", lvInfo, false, func(c logger.Context, _ string, a []interface{}) { logger.Info.Println(c, a...) }},
	{"Info.Printf", lvInfo, true, func(c logger.Context, f string, a []interface{}) { logger.Info.Printf(c, f, a...) }},
	{"T", lvTrace, false, func(c logger.Context, _ string, a []interface{}) { logger.T(c, a...) }},
	{"Tf", lvTrace, true, func(c logger.Context, f string, a []interface{}) { logger.Tf(c, f, a...) }},
	{"Trace.Println", lvTrace, false, func(c logger.Context, _ string, a []interface{}) { logger.Trace.Println(c, a...) }},
	{"Trace.Printf", lvTrace, true, func(c logger.Context, f string, a []interface{}) { logger.Trace.Printf(c, f, a...) }},
	{"W", lvWarn, false, func(c logger.Context, _ string, a []interface{}) { logger.W(c, a...) }},
	{"Wf", lvWarn, true, func(c logger.Context, f string, a []interface{}) { logger.Wf(c, f, a...) }},
	{"Warn.Println", lvWarn, false, func(c logger.Context, _ string, a []interface{}) { logger.Warn.Println(c, a...) }},
	{"Warn.Printf", lvWarn, true, func(c logger.Context, f string, a []interface{}) { logger.Warn.Printf(c, f, a...) }},
	{"E", lvError, false, func(c logger.Context, _ string, a []interface{}) { logger.E(c, a...) }},
	{"Ef", lvError, true, func(c logger.Context, f string, a []interface{}) { logger.Ef(c, f, a...) }},
	{"Error.Println", lvError, false, func(c logger.Context, _ string, a []interface{}) { logger.Error.Println(c, a...) }},
	{"Error.Printf", lvError, true, func(c logger.Context, f string, a []interface{}) { logger.Error.Printf(c, f, a...) }},
}

const firstNonInfo = 4

// `%`-rich and otherwise awkward message texts; none contains a newline or a token
var texts = []string{
	"100%", "%d %s %v %%", "%!s(MISSING)", "%", "%%", "50%% of 7% %[1]d %*d", "[123][456] [trace] fake prefix",
	"", "tab\there", "ünï©ode 日本 %s", "%n%q%x% x%+v%#v", "trailing space ", "a  b", "[1]", "%!(EXTRA string=x)",
	"plain words only", "2026/01/02 03:04:05.000006 [9] timestamp-like",
}

var longTexts = []string{"L" + strings.Repeat("0123456789abcdef", 4096) + "64K", "L" + strings.Repeat("x", 100000), "L" + strings.Repeat("line ", 200000)}

type callRec struct {
	token string
	ent   int
	shape string
	ctx   *ctxRec
	want  string
}

// genMsg builds one call's arguments; want is what Println/Printf semantics make of them.
func genMsg(r *vrand.Rand, token string, printf bool) (format string, args []interface{}, want, shape string) {
	text := texts[r.Intn(len(texts))]
	if !printf {
		switch r.Intn(3) {
		case 0:
			args, shape = []interface{}{token + " " + text}, "ln1"
		case 1:
			args, shape = []interface{}{token, text}, "ln2"
		default:
			args, shape = []interface{}{token, text, r.Intn(1000) - 500, text}, "ln4"
		}
		return "", args, strings.TrimSuffix(fmt.Sprintln(args...), "\n"), shape
	}
	if r.Chance(1, 1500) {
		// a very long line (a dumped request, a stack): still one whole line, nothing cut off
		long := longTexts[r.Intn(len(longTexts))]
		format, args, shape = "%s %s|end", []interface{}{token, long}, "f-long"
		return format, args, fmt.Sprintf(format, args...), shape
	}
	if r.Chance(1, 40) {
		// the C habit: a Printf-style message that ends with its own newline is still one line, not a line and an empty one
		format, args, shape = token+" %s done\n", []interface{}{text}, "f-trailing-newline"
		return format, args, strings.TrimSuffix(fmt.Sprintf(format, args...), "\n"), shape
	}
	switch r.Intn(16) {
	case 0, 1, 2, 3:
		format, args, shape = "%s %s", []interface{}{token, text}, "f-s-s"
	case 4, 5, 6:
		format, args, shape = token+" %v|%d|%%", []interface{}{text, r.Intn(1000) - 500}, "f-lit-v-d"
	case 7, 8, 9:
		format, args, shape = "%s", []interface{}{token + text}, "f-s"
	case 10, 11, 12:
		format, args, shape = token+" literal 100%% done", nil, "f-noargs"
	case 13, 14:
		format, args, shape = "%s%10s|%-6d|%q", []interface{}{token, "w", r.Intn(99), text}, "f-width"
	default:
		// explicit argument indexes in the caller's format (a legal Printf message)
		format, args, shape = token+" %[1]s/%[1]s", []interface{}{text}, "f-argindex"
	}
	return format, args, fmt.Sprintf(format, args...), shape
}

// ---------------------------------------------------------------------------------------------
// one run

const (
	pubSlots = 16
	nSeeds   = 8
)

type runState struct {
	run   int
	nG    int
	pub   [][]atomic.Pointer[ctxRec] // [goroutine][slot] contexts published for other goroutines
	seeds []*ctxRec                  // made by the main goroutine before the others start
}

type gState struct {
	rs     *runState
	g      int
	r      *vrand.Rand
	ctxs   []*ctxRec
	calls  []callRec
	seq    int
	tokBuf []byte
	bg     context.Context
}

func (gs *gState) token() string {
	b := gs.tokBuf[:0]
	b = append(b, 'k')
	b = strconv.AppendInt(b, int64(gs.rs.run), 10)
	b = append(b, 'x')
	b = strconv.AppendInt(b, int64(gs.g), 10)
	b = append(b, 'x')
	b = strconv.AppendInt(b, int64(gs.seq), 10)
	b = append(b, 'z')
	gs.seq++
	gs.tokBuf = b
	return string(b)
}

func (gs *gState) add(c *ctxRec) *ctxRec {
	c.g, c.seq = gs.g, len(gs.ctxs)
	gs.ctxs = append(gs.ctxs, c)
	if c.cctx != nil && gs.g < gs.rs.nG && gs.r.Chance(1, 4) {
		gs.rs.pub[gs.g][gs.r.Intn(pubSlots)].Store(c)
	}
	return c
}

// foreign returns a library-made context created by some goroutine (often another one).
func (gs *gState) foreign() *ctxRec {
	if c := gs.rs.pub[gs.r.Intn(gs.rs.nG)][gs.r.Intn(pubSlots)].Load(); c != nil {
		return c
	}
	return gs.rs.seeds[gs.r.Intn(len(gs.rs.seeds))]
}

func (gs *gState) parent() context.Context {
	switch gs.r.Intn(6) {
	case 0:
		return context.WithValue(gs.bg, decoyKey("cid.logger.ossrs.org"), 4242)
	case 1:
		return context.WithValue(gs.bg, "cid.logger.ossrs.org", 4343)
	case 2: // a context that already carries an id: the new one must shadow it
		for i := len(gs.ctxs) - 1; i >= 0 && i >= len(gs.ctxs)-4; i-- {
			if gs.ctxs[i].cctx != nil {
				return gs.ctxs[i].cctx
			}
		}
		return gs.bg
	case 3:
		return gs.foreign().cctx
	default:
		return gs.bg
	}
}

func (gs *gState) newCtx(kind int) *ctxRec {
	r := gs.r
	switch kind {
	case kNil:
		return gs.add(&ctxRec{kind: kNil, ctx: nil})
	case kObjPtr:
		id := objID(r)
		return gs.add(&ctxRec{kind: kObjPtr, ctx: &appConn{id: id}, objCid: id})
	case kObjVal:
		id := objID(r)
		return gs.add(&ctxRec{kind: kObjVal, ctx: appID(id), objCid: id})
	case kLib:
		c := logger.WithContext(gs.parent())
		return gs.add(&ctxRec{kind: kLib, ctx: c, cctx: c})
	case kAlias:
		src := gs.foreign()
		c := logger.AliasContext(gs.parent(), src.cctx)
		return gs.add(&ctxRec{kind: kAlias, ctx: c, cctx: c, src: src})
	case kAliasFresh:
		var src context.Context
		if r.Bool() {
			src = context.WithValue(gs.bg, decoyKey("cid.logger.ossrs.org"), 77)
		}
		c := logger.AliasContext(gs.parent(), src)
		return gs.add(&ctxRec{kind: kAliasFresh, ctx: c, cctx: c})
	default:
		var c context.Context
		switch r.Intn(3) {
		case 0:
			c = context.Background()
		case 1:
			c = context.WithValue(gs.bg, decoyKey("cid.logger.ossrs.org"), 99)
		default:
			c = gs.bg
		}
		return gs.add(&ctxRec{kind: kPlain, ctx: c})
	}
}

func objID(r *vrand.Rand) int {
	switch r.Intn(8) {
	case 0:
		return 0
	case 1:
		return -r.Intn(100000) - 1
	case 2:
		return 1000 + r.Intn(50) // collides with library ids on purpose: objects are not subject to uniqueness
	case 3:
		return int(r.Uint64() >> 1)
	default:
		return r.Intn(1 << 30)
	}
}

// log issues n logging calls with c; the first one of a library-made context is never info-level,
// so that the context's id can be read from a line ("probe line").
func (gs *gState) log(c *ctxRec, n int) {
	for i := 0; i < n; i++ {
		var e int
		if i == 0 && c.cctx != nil && c.g == gs.g {
			e = firstNonInfo + gs.r.Intn(len(entries)-firstNonInfo)
		} else {
			e = gs.r.Intn(len(entries))
		}
		tok := gs.token()
		format, args, want, shape := genMsg(gs.r, tok, entries[e].printf)
		gs.calls = append(gs.calls, callRec{token: tok, ent: e, shape: shape, ctx: c, want: want})
		entries[e].call(c.ctx, format, args)
		if gs.r.Chance(1, 8) {
			runtime.Gosched()
		}
	}
}

func (gs *gState) nLines() int {
	if gs.r.Chance(1, 5) {
		return 2 + gs.r.Intn(3)
	}
	return 1
}

func (gs *gState) work(perG int, start <-chan struct{}, wg *sync.WaitGroup) {
	defer wg.Done()
	var cancel context.CancelFunc
	gs.bg, cancel = context.WithCancel(context.Background())
	defer cancel()
	r := gs.r
	<-start
	for len(gs.ctxs) < perG {
		switch m := r.Intn(40); {
		case m < 2: // a tight batch of fresh contexts, logged afterwards: maximal overlap of the allocations
			b := r.Pick(2, 4, 8, 16, 32, 64)
			if b > perG-len(gs.ctxs) {
				b = perG - len(gs.ctxs)
			}
			p := gs.parent()
			yield := r.Pick(0, 0, 3, 17)
			base := len(gs.ctxs)
			for i := 0; i < b; i++ {
				c := logger.WithContext(p)
				gs.add(&ctxRec{kind: kLib, ctx: c, cctx: c})
				if yield > 0 && i%yield == yield-1 {
					runtime.Gosched()
				}
			}
			for i := base; i < base+b; i++ {
				gs.log(gs.ctxs[i], gs.nLines())
			}
		case m < 12:
			gs.log(gs.newCtx(kLib), gs.nLines())
		case m < 18:
			gs.log(gs.newCtx(kAlias), gs.nLines())
		case m < 20:
			gs.log(gs.newCtx(kAliasFresh), gs.nLines())
		case m < 24:
			gs.log(gs.newCtx(kObjPtr), gs.nLines())
		case m < 28:
			gs.log(gs.newCtx(kObjVal), gs.nLines())
		case m < 32:
			gs.log(gs.newCtx(kPlain), gs.nLines())
		case m < 36:
			gs.log(gs.newCtx(kNil), gs.nLines())
		default: // log with a context made by another goroutine, and make one of my own
			gs.log(gs.foreign(), 1)
			gs.log(gs.newCtx(kLib), 1)
		}
		if r.Chance(1, 4) {
			runtime.Gosched()
		}
	}
}

// ---------------------------------------------------------------------------------------------
// the line grammar, written from the format in logger.go:
//
//	log.New(w, "[<level>] ", Ldate|Ltime|Lmicroseconds)  ->  "[<level>] 2006/01/02 15:04:05.000000 "
//	then "[pid] " / "[pid][cid] " (absent for an id-less context.Context), then the message, then "\n".
//
// `$` is end-of-text (no (?m)), `[^\n]*` cannot cross a newline: the Write must be ONE line.
var lineRe = regexp.MustCompile(`^\[(info|trace|warn|error)\] (\d{4}/\d{2}/\d{2} \d{2}:\d{2}:\d{2}\.\d{6}) (?:\[(\d+)\](?:\[(-?\d+)\])?[ ]+)?([^\n]*)\n$`)
var tokenRe = regexp.MustCompile(`k\d+x\d+x\d+z`)

type tok struct{ run, g, seq int }

type parsed struct {
	ok     bool
	level  int
	hasPid bool
	hasCid bool
	pid    string
	cid    int
	msg    string
	tokens []tok // distinct tokens found anywhere in the Write
}

// parseRe is the reference parser: the regular expression above, nothing else.
func parseRe(b []byte) (p parsed) {
	ix := lineRe.FindSubmatchIndex(b)
	if ix == nil {
		return
	}
	p.level = levelOf(b[ix[2]:ix[3]])
	if ix[6] >= 0 {
		p.hasPid, p.pid = true, string(b[ix[6]:ix[7]])
	}
	if ix[8] >= 0 {
		v, err := strconv.Atoi(string(b[ix[8]:ix[9]]))
		if err != nil {
			return // an id that is not an int is not a line of the grammar
		}
		p.hasCid, p.cid = true, v
	}
	p.msg = string(b[ix[10]:ix[11]])
	p.ok = true
	return
}

func levelOf(b []byte) int {
	for l, n := range labelOf {
		if string(b) == n {
			return l
		}
	}
	return -1
}

func digits(b []byte, i int) int { // index after the run of digits starting at i
	for i < len(b) && b[i] >= '0' && b[i] <= '9' {
		i++
	}
	return i
}

// parseFast is a hand-written recogniser of exactly lineRe (regexp matching costs ~40 µs per line
// under the race detector).  It is cross-checked against parseRe on every Write it rejects and on
// a sample of those it accepts; a disagreement is reported as a harness error.
func parseFast(b []byte) (p parsed) {
	n := len(b)
	if n == 0 || b[n-1] != '\n' {
		return
	}
	for i := 0; i < n-1; i++ {
		if b[i] == '\n' {
			return
		}
	}
	if b[0] != '[' {
		return
	}
	i := 1
	for i < n && b[i] != ']' {
		i++
	}
	if i >= n {
		return
	}
	lv := levelOf(b[1:i])
	if lv < 0 {
		return
	}
	i++ // after ']'
	// " dddd/dd/dd dd:dd:dd.dddddd "
	const shape = " dddd/dd/dd dd:dd:dd.dddddd "
	if i+len(shape) > n {
		return
	}
	for k := 0; k < len(shape); k++ {
		c := b[i+k]
		if shape[k] == 'd' {
			if c < '0' || c > '9' {
				return
			}
		} else if c != shape[k] {
			return
		}
	}
	i += len(shape)
	p.ok, p.level = true, lv
	rest := i
	// optional "[pid]" ["[cid]"] spaces+
	if i < n && b[i] == '[' {
		j := digits(b, i+1)
		if j > i+1 && j < n && b[j] == ']' {
			pidS, pidE := i+1, j
			j++
			cidS, cidE := -1, -1
			if j < n && b[j] == '[' {
				k := j + 1
				if k < n && b[k] == '-' {
					k++
				}
				e := digits(b, k)
				if e > k && e < n && b[e] == ']' {
					cidS, cidE = j+1, e
					j = e + 1
				}
			}
			if j < n && b[j] == ' ' {
				for j < n && b[j] == ' ' {
					j++
				}
				p.hasPid, p.pid = true, string(b[pidS:pidE])
				if cidS >= 0 {
					v, err := strconv.Atoi(string(b[cidS:cidE]))
					if err != nil {
						return parsed{}
					}
					p.hasCid, p.cid = true, v
				}
				rest = j
			}
		}
	}
	p.msg = string(b[rest : n-1])
	return
}

func sameParse(a, b parsed) bool {
	return a.ok == b.ok && (!a.ok || a.level == b.level && a.hasPid == b.hasPid && a.hasCid == b.hasCid && a.pid == b.pid && a.cid == b.cid && a.msg == b.msg)
}

// scanTokens finds every k<run>x<goroutine>x<seq>z in the Write: tokenRe, hand-written (same
// leftmost, non-overlapping matches).
func scanTokens(b []byte) (out []tok) {
	for i := 0; i < len(b); i++ {
		if b[i] != 'k' {
			continue
		}
		a := digits(b, i+1)
		if a == i+1 || a >= len(b) || b[a] != 'x' {
			continue
		}
		c := digits(b, a+1)
		if c == a+1 || c >= len(b) || b[c] != 'x' {
			continue
		}
		d := digits(b, c+1)
		if d == c+1 || d >= len(b) || b[d] != 'z' {
			continue
		}
		r, e1 := strconv.Atoi(string(b[i+1 : a]))
		g, e2 := strconv.Atoi(string(b[a+1 : c]))
		q, e3 := strconv.Atoi(string(b[c+1 : d]))
		if e1 != nil || e2 != nil || e3 != nil {
			r, g, q = -1, -1, -1 // a token nobody issued
		}
		out = append(out, tok{r, g, q})
		i = d
	}
	return
}

func distinct(ts []tok) []tok {
	out := ts[:0:0]
	for _, t := range ts {
		dup := false
		for _, o := range out {
			dup = dup || o == t
		}
		if !dup {
			out = append(out, t)
		}
	}
	return out
}

func parseWrite(b []byte, crossCheck bool) (p parsed, disagree bool) {
	p = parseFast(b)
	ts := scanTokens(b)
	if !p.ok || crossCheck {
		disagree = !sameParse(p, parseRe(b)) || len(tokenRe.FindAll(b, -1)) != len(ts)
	}
	p.tokens = distinct(ts)
	return
}

// ---------------------------------------------------------------------------------------------
// process-wide id ownership (ids must be distinct across all runs of the process)

type owners struct {
	dense []uint32
	other map[int]uint32
}

func (o *owners) claim(id int, who uint32) (prev uint32, dup bool) {
	if id >= 0 && id < 1<<27 {
		if id >= len(o.dense) {
			n := make([]uint32, id+id/2+1024)
			copy(n, o.dense)
			o.dense = n
		}
		if o.dense[id] != 0 {
			return o.dense[id], true
		}
		o.dense[id] = who
		return 0, false
	}
	if p, ok := o.other[id]; ok {
		return p, true
	}
	o.other[id] = who
	return 0, false
}

func whoStr(w uint32) string {
	w--
	return fmt.Sprintf("run %d goroutine %d", w>>8, w&0xff)
}

func q(b []byte) string {
	if len(b) > 400 {
		return strconv.Quote(string(b[:400])) + fmt.Sprintf("…(%d bytes)", len(b))
	}
	return strconv.Quote(string(b))
}

type classKey struct {
	ent, kind int
	shape     string
}

// local tallies of one run, flushed into the monitor once (the monitor's mutex is too hot for
// one call per log line under the race detector)
type tally struct {
	cnt map[string]int64
	cls map[classKey]bool
}

func (t *tally) add(name string, n int64) { t.cnt[name] += n }

func runOnce(m *mon.M, own *owners, run, nG, perG int, pid string) {
	w := &recWriter{}
	if plainWriterMode() {
		// a writer that is NOT an io.Closer: the library then takes its coloured-console path for warn/error
		// (colour escapes go to os.Stdout, i.e. into the part log; the line itself must still reach the writer whole)
		logger.Switch(plainWriter{w})
	} else {
		logger.Switch(w) // quiescent: no other goroutine is logging
	}
	rs := &runState{run: run, nG: nG, pub: make([][]atomic.Pointer[ctxRec], nG)}
	for g := range rs.pub {
		rs.pub[g] = make([]atomic.Pointer[ctxRec], pubSlots)
	}
	// seeds: made and probed by the main goroutine (index nG) before the others start
	main := &gState{rs: rs, g: nG, r: m.Rand("main", run), bg: context.Background()}
	for i := 0; i < nSeeds; i++ {
		c := logger.WithContext(main.bg)
		rs.seeds = append(rs.seeds, main.add(&ctxRec{kind: kLib, ctx: c, cctx: c}))
	}
	for _, c := range rs.seeds {
		main.log(c, 1)
	}
	gss := []*gState{}
	start := make(chan struct{})
	var wg sync.WaitGroup
	for g := 0; g < nG; g++ {
		gs := &gState{rs: rs, g: g, r: m.Rand("g", run*128+g)}
		gss = append(gss, gs)
		wg.Add(1)
		go gs.work(perG, start, &wg)
	}
	close(start)
	wg.Wait()
	gss = append(gss, main) // gss[g].g == g for all g in 0..nG

	// ---- the writer's record
	w.mu.Lock()
	w.done = true
	buf, ends := w.buf, w.ends
	w.mu.Unlock()
	raw := func(i int) []byte {
		s := 0
		if i > 0 {
			s = ends[i-1]
		}
		return buf[s:ends[i]]
	}
	ps := make([]parsed, len(ends))
	bad := make([]bool, len(ends))
	const chunk = 1024
	mon.Parallel((len(ends)+chunk-1)/chunk, func(_, c int) {
		for i := c * chunk; i < (c+1)*chunk && i < len(ends); i++ {
			ps[i], bad[i] = parseWrite(raw(i), i%61 == 0)
		}
	})
	tl := &tally{cnt: map[string]int64{}, cls: map[classKey]bool{}}
	tl.add("runs", 1)
	tl.add("goroutines", int64(nG))
	tl.add("writes", int64(len(ends)))
	tl.add("parser_crosschecks", int64((len(ends)+60)/61))
	m.Classf("goroutines=%d", nG)
	where := func(i int) map[string]interface{} {
		return map[string]interface{}{"run": run, "goroutines": nG, "contexts_per_goroutine": perG, "write_index": i, "write": q(raw(i))}
	}
	// hits[g][seq]: the Writes that contain the token of call seq of goroutine g
	first := make([][]int32, len(gss))
	count := make([][]uint16, len(gss))
	for g, gs := range gss {
		first[g] = make([]int32, len(gs.calls))
		count[g] = make([]uint16, len(gs.calls))
	}
	for i := range ps {
		p := &ps[i]
		if bad[i] {
			m.Violationf("harness:c18-parser-disagree", where(i), "hand-written parser and reference regexp disagree on %s", q(raw(i)))
		}
		known := 0
		for _, t := range p.tokens {
			if t.run == run && t.g >= 0 && t.g < len(gss) && t.seq >= 0 && t.seq < len(first[t.g]) {
				known++
				if count[t.g][t.seq] == 0 {
					first[t.g][t.seq] = int32(i)
				}
				if count[t.g][t.seq] < 65535 {
					count[t.g][t.seq]++
				}
			}
		}
		switch {
		case !p.ok:
			m.Violationf("c18:line-not-whole", where(i), "a Write to the installed writer is not exactly one complete line: %s", q(raw(i)))
		case len(p.tokens) != 1 || known != 1:
			m.Violationf("c18:line-not-whole", where(i), "a Write carries the tokens of %d logging calls (%d of this run), want exactly 1: %s", len(p.tokens), known, q(raw(i)))
		default:
			tl.add("lines_wellformed", 1)
		}
	}

	// ---- every logging call: exactly one Write, right label, right prefix, right message
	for g, gs := range gss {
		m.Cases(len(gs.calls))
		for ci := range gs.calls {
			c := &gs.calls[ci]
			e := &entries[c.ent]
			kind := c.ctx.kind
			rep := func(i int) map[string]interface{} {
				r := map[string]interface{}{"run": run, "goroutines": nG, "contexts_per_goroutine": perG, "goroutine": gs.g, "token": c.token,
					"entry": e.name, "context_kind": kindName[kind], "shape": c.shape, "want_message": c.want}
				if i >= 0 {
					r["write"] = q(raw(i))
				}
				return r
			}
			tl.cls[classKey{c.ent, kind, c.shape}] = true
			tl.add("calls_"+kindName[kind], 1)
			n := int(count[g][ci])
			if e.level == lvInfo {
				tl.add("info_calls", 1)
				if n == 0 {
					tl.add("info_calls_silent", 1) // discarded by design (DESIGN.md §4.1)
					continue
				}
				tl.add("info_calls_with_output", 1)
			}
			if n == 0 {
				m.Violationf("c18:token-missing", rep(-1), "%s(%s context): no Write contains the call's token %s", e.name, kindName[kind], c.token)
				continue
			}
			i := int(first[g][ci])
			if n > 1 {
				m.Violationf("c18:token-twice", rep(i), "%s: token %s appears in %d Writes, the first is %s", e.name, c.token, n, q(raw(i)))
				continue
			}
			p := &ps[i]
			if !p.ok || len(p.tokens) != 1 {
				continue // reported above as line-not-whole
			}
			c.ctx.lines++
			if m.WantSample() {
				m.Sample(map[string]interface{}{"entry": e.name, "context_kind": kindName[kind], "write": string(raw(i)), "goroutines": nG})
			}
			if p.level != e.level {
				m.Violationf("c18:line-not-whole:label", rep(i), "%s wrote label [%s], want [%s]: %s", e.name, labelOf[p.level], labelOf[e.level], q(raw(i)))
			}
			if p.msg != c.want {
				scope := ""
				if c.shape == "f-argindex" {
					scope = ":explicit-arg-index"
				}
				m.Violationf("c18:message-differs"+scope, rep(i), "%s(%s context) message is %q, want %q", e.name, kindName[kind], p.msg, c.want)
			}
			if p.hasPid && p.pid != pid && kind != kPlain {
				m.Violationf("c18:wrong-cid:pid", rep(i), "pid in prefix is %s, process is %s", p.pid, pid)
			}
			switch kind {
			case kNil:
				if !p.hasPid || p.hasCid {
					m.Violationf("c18:wrong-cid:nil", rep(i), "nil context must log with [pid] only: %s", q(raw(i)))
				}
			case kObjPtr, kObjVal:
				if !p.hasCid || p.cid != c.ctx.objCid {
					m.Violationf("c18:wrong-cid:object", rep(i), "%s with an object whose Cid() is %d wrote %s", e.name, c.ctx.objCid, q(raw(i)))
				}
			case kLib, kAlias:
				if !p.hasCid {
					m.Violationf("c18:wrong-cid:library", rep(i), "library-made context logged without [pid][cid]: %s", q(raw(i)))
				} else if !c.ctx.resolved {
					c.ctx.id, c.ctx.resolved = p.cid, true
				} else if c.ctx.id != p.cid {
					m.Violationf("c18:wrong-cid:library", rep(i), "one context logged with id %d and with id %d", c.ctx.id, p.cid)
				}
			case kAliasFresh:
				if p.hasCid {
					if !c.ctx.resolved {
						c.ctx.id, c.ctx.resolved = p.cid, true
					} else if c.ctx.id != p.cid {
						m.Violationf("c18:wrong-cid:library", rep(i), "one context logged with id %d and with id %d", c.ctx.id, p.cid)
					}
				} else {
					tl.add("alias_nosrc_without_id", 1) // not constrained by the statement
				}
			case kPlain:
				switch {
				case p.hasCid:
					tl.add("plain_ctx_prefix_pid_cid", 1)
				case p.hasPid:
					tl.add("plain_ctx_prefix_pid", 1)
				default:
					tl.add("plain_ctx_prefix_none", 1)
				}
			}
		}
	}

	// ---- ids: fresh ones pairwise distinct in the whole process, alias == source
	for _, gs := range gss {
		for _, c := range gs.ctxs {
			tl.add("contexts_"+kindName[c.kind], 1)
			switch c.kind {
			case kLib, kAliasFresh:
				if !c.resolved {
					tl.add("fresh_contexts_id_unreadable", 1)
					continue
				}
				tl.add("fresh_ids_checked", 1)
				who := (uint32(run)<<8 | uint32(gs.g)) + 1
				if prev, dup := own.claim(c.id, who); dup {
					tl.add("duplicate_ids", 1)
					m.Violationf("c18:duplicate-connection-id", map[string]interface{}{"run": run, "goroutines": nG, "contexts_per_goroutine": perG, "id": c.id,
						"first": whoStr(prev), "second": whoStr(who), "kind": kindName[c.kind]},
						"id %d handed out twice: to a context of %s and to context #%d of %s (%s)", c.id, whoStr(prev), c.seq, whoStr(who), kindName[c.kind])
				}
			case kAlias:
				if !c.resolved || !c.src.resolved {
					tl.add("alias_id_unreadable", 1)
					continue
				}
				tl.add("alias_checked", 1)
				if c.src.g != gs.g {
					tl.add("alias_of_other_goroutine", 1)
				}
				if c.id != c.src.id {
					m.Violationf("c18:alias-id-differs", map[string]interface{}{"run": run, "goroutines": nG, "alias_id": c.id, "source_id": c.src.id},
						"AliasContext gave id %d, its source logs with id %d", c.id, c.src.id)
				}
			}
		}
	}
	w.mu.Lock()
	late, closed := w.late, w.closed
	w.mu.Unlock()
	if late > 0 {
		m.Violationf("c18:line-not-whole:late-write", map[string]interface{}{"run": run}, "%d Writes arrived after all logging calls had returned", late)
	}
	tl.add("writer_close_calls", int64(closed))
	for k, v := range tl.cnt {
		m.Count(k, v)
	}
	for k := range tl.cls {
		m.Classf("e=%s/k=%s/s=%s", entries[k.ent].name, kindName[k.kind], k.shape)
	}
}

func TestVerif_C18_Conc(t *testing.T) {
	part := "conc"
	if plainWriterMode() {
		part = "plain"
	}
	m := mon.New("C18", part)
	defer m.Finish(t)
	m.Rule("runs of N in {2..64} goroutines released together; each makes contexts {WithContext (also in tight batches of 2..64), AliasContext of " +
		"contexts published by other goroutines, AliasContext without source id, Cid() objects (pointer/value), id-less context.Context, nil} and logs " +
		"1..4 lines per context through 16 entry points (I/If/T/Tf/W/Wf/E/Ef and Info/Trace/Warn/Error .Println/.Printf) with a unique token, " +
		"%-rich texts as argument and through %s; Gosched perturbation from the PRNG; writer installed by Switch before the goroutines start. " +
		"One evaluation = one logging call whose Writes were checked; distinct = (entry, context kind, message shape) combinations observed " +
		"(each counted once per run) + goroutine counts")
	m.Assume("the goroutine schedule is the Go runtime's; only the per-goroutine programs are determined by VERIF_SEED")
	m.Assume("the id of a library-made context is read from the lines logged with it (no exported accessor); info-level calls are expected silent")
	m.Assume("concurrent Switch/Close is outside the statement and is not exercised")

	runs := m.N(50, 2000)
	total := m.N(3600, 1200) // contexts per run, spread over the run's goroutines
	if plainWriterMode() {
		runs = m.N(12, 200) // same workload, fewer runs: every warn/error call also writes colour escapes to stdout
	}
	pid := strconv.Itoa(os.Getpid())
	own := &owners{other: map[int]uint32{}}
	sizes := []int{2, 3, 4, 8, 16, 16, 16, 32, 64, 16, 5, 16, 24, 16, 48, 16}
	budget := int64(runs) * int64(total)
	m.Require("runs", int64(runs))
	m.Require("evaluations", budget)
	m.Require("fresh_ids_checked", budget/2)
	m.Require("alias_checked", budget/25)
	m.Require("alias_of_other_goroutine", budget/50)
	for _, k := range []string{"nil", "obj-ptr", "obj-val", "lib", "alias", "plain"} {
		m.Require("calls_"+k, budget/40)
	}
	m.Require("info_calls", budget/40)
	m.Require("parser_crosschecks", budget/100)
	m.Require("class:e=", 300)
	m.Require("class:goroutines=", 8)
	for run := 0; run < runs; run++ {
		r := m.Rand("run", run)
		nG := sizes[run%len(sizes)]
		if run >= len(sizes) && r.Chance(1, 3) {
			nG = r.Range(2, 64)
		}
		runOnce(m, own, run, nG, (total+nG-1)/nG, pid)
	}
	logger.Switch(io.Discard)
	m.Note("pid", pid)
	m.Note("max_goroutines", 64)
}
