package refws

import (
	"bytes"
	"testing"
)

func TestDeflateExact(t *testing.T) {
	for _, n := range []int{1, 2, 3, 4, 5, 6, 7, 125, 126, 127, 65535, 65536, 65541, 65542, 70000, 140000, 1 << 20} {
		w, p, err := DeflateExact(n, nil)
		if err != nil || len(w) != n {
			t.Fatalf("n=%d: len=%d err=%v", n, len(w), err)
		}
		out, err := Inflate(w)
		if err != nil || !bytes.Equal(out, p) {
			t.Fatalf("n=%d: inflate err=%v len=%d want %d", n, err, len(out), len(p))
		}
	}
	for _, lvl := range []int{-2, -1, 0, 1, 5, 9} {
		msg := bytes.Repeat([]byte("hello websocket "), 500)
		out, err := Inflate(Deflate(msg, lvl))
		if err != nil || !bytes.Equal(out, msg) {
			t.Fatalf("level %d: %v", lvl, err)
		}
	}
	if _, err := Inflate(nil); err == nil {
		t.Fatalf("empty payload must not inflate")
	}
}

func TestGenParseReceive(t *testing.T) {
	k := [4]byte{1, 2, 3, 4}
	comp, plain, _ := DeflateExact(300, nil)
	frames := []Frame{
		{Opcode: OpText, Masked: true, Key: k, Payload: []byte("he")},
		{Opcode: OpPing, Fin: true, Masked: true, Key: k, Payload: []byte("p1")},
		{Opcode: OpCont, Fin: true, Masked: true, Key: k, Payload: []byte("llo")},
		{Opcode: OpBinary, Fin: true, Rsv1: true, Masked: true, Key: k, Payload: comp},
		{Opcode: OpBinary, Fin: true, Masked: true, Key: k, Payload: make([]byte, 70000)},
		{Opcode: OpClose, Fin: true, Masked: true, Key: k, Payload: []byte{3, 232, 'o', 'k'}},
		{Opcode: OpText, Fin: true, Masked: true, Key: k, Payload: []byte("late")},
	}
	wire, ends := Gen(frames)
	for _, seg := range []int{1, 3, 7, 4096, len(wire)} {
		p := NewParser(RoleClient, true)
		for i := 0; i < len(wire); i += seg {
			j := i + seg
			if j > len(wire) {
				j = len(wire)
			}
			p.Feed(wire[i:j])
		}
		if err := p.Finish(); err != nil {
			t.Fatalf("seg %d: %v", seg, err)
		}
		ms := p.Messages()
		if len(ms) != 4 || string(ms[0].Payload) != "hello" || !bytes.Equal(ms[1].Payload, plain) || !ms[1].Compressed || len(ms[2].Payload) != 70000 {
			t.Fatalf("seg %d: messages %v", seg, len(ms))
		}
		if p.CloseIndex() != 5 || p.BytesAfterClose() != int64(len(wire)-ends[5]) || len(p.FramesAfterClose()) != 1 {
			t.Fatalf("close accounting: %d %d", p.CloseIndex(), p.BytesAfterClose())
		}
		if ev := p.Events(); ev[0].Kind != EvControl || ev[0].Opcode != OpPing || ev[1].Kind != EvMessage || ev[1].LastFrame != 2 {
			t.Fatalf("event order: %+v", ev[:2])
		}
	}
	if ParseLog(RoleServer, true, wire).Err().Code != "masked-server-frame" {
		t.Fatal("role check")
	}
	if e := ParseLog(RoleClient, false, wire).Err(); e.Code != "rsv1-not-negotiated" || e.Frame != 3 {
		t.Fatalf("rsv1: %v", e)
	}
	r := Receive(RecvConfig{Role: RoleServer, Compression: true}, frames, -1)
	if r.Term != TermCloseReceived || r.CloseCode != 1000 || len(r.Messages) != 3 || len(r.Pongs) != 1 || string(r.Pongs[0]) != "p1" {
		t.Fatalf("receive: %+v", r)
	}
	r = Receive(RecvConfig{Role: RoleServer, Compression: true, Limit: 299}, frames, -1)
	if r.Term != TermLimit || len(r.Messages) != 1 {
		t.Fatalf("limit: %+v", r)
	}
	r = Receive(RecvConfig{Role: RoleClient, Compression: true}, frames, -1)
	if r.Term != TermProtocolError || !r.MustSendClose1002() || len(r.Messages) != 0 {
		t.Fatalf("mask: %+v", r)
	}
	r = Receive(RecvConfig{Role: RoleServer, Compression: true}, frames, ends[1]+3)
	if r.Term != TermCut || len(r.Messages) != 0 || len(r.Pongs) != 1 {
		t.Fatalf("cut: %+v", r)
	}
	tb := []Frame{{Opcode: OpText, Fin: true, Masked: true, Key: k, Form: Form64, HasDeclared: true, Declared: 1 << 63}}
	if r = Receive(RecvConfig{Role: RoleServer}, tb, -1); r.Term != TermTopBit {
		t.Fatalf("topbit: %+v", r)
	}
	w, _ := Gen(tb)
	if e := ParseLog(RoleClient, false, w).Err(); e == nil || e.Code != "length-top-bit" {
		t.Fatalf("topbit parse: %v", e)
	}
	bad := []struct {
		f    Frame
		code string
	}{
		{Frame{Opcode: OpText, Fin: true, Rsv2: true}, "rsv2-set"},
		{Frame{Opcode: OpText, Fin: true, Rsv3: true}, "rsv3-set"},
		{Frame{Opcode: 3, Fin: true}, "reserved-opcode"},
		{Frame{Opcode: OpPing}, "control-fragmented"},
		{Frame{Opcode: OpPing, Fin: true, Payload: make([]byte, 126)}, "control-too-long"},
		{Frame{Opcode: OpCont, Fin: true}, "continuation-without-message"},
		{Frame{Opcode: OpText, Fin: true, Form: Form16, Payload: make([]byte, 5)}, "nonminimal-length"},
		{Frame{Opcode: OpText, Fin: true, Form: Form64, Payload: make([]byte, 65535)}, "nonminimal-length"},
		{Frame{Opcode: OpClose, Fin: true, Payload: []byte{3}}, "close-payload-1byte"},
		{Frame{Opcode: OpClose, Fin: true, Payload: []byte{3, 237}}, "close-code-invalid"},
		{Frame{Opcode: OpClose, Fin: true, Payload: []byte{3, 232, 0xff}}, "close-reason-not-utf8"},
		{Frame{Opcode: OpPing, Fin: true, Rsv1: true}, "rsv1-on-control"},
	}
	for _, c := range bad {
		w, _ := Gen([]Frame{c.f})
		if e := ParseLog(RoleServer, true, w).Err(); e == nil || e.Code != c.code {
			t.Fatalf("%s: got %v", c.code, e)
		}
	}
	w, _ = Gen([]Frame{{Opcode: OpText}, {Opcode: OpBinary, Fin: true}})
	if e := ParseLog(RoleServer, false, w).Err(); e == nil || e.Code != "data-frame-inside-message" || e.Frame != 1 {
		t.Fatalf("seq: %v", e)
	}
}

func TestMaskRef(t *testing.T) {
	for n := 0; n < 100; n++ {
		for pos := 0; pos < 4; pos++ {
			a := make([]byte, n)
			for i := range a {
				a[i] = byte(i * 13)
			}
			b := append([]byte{}, a...)
			k := [4]byte{0x11, 0, 0xfe, 0x80}
			if MaskRef(k, pos, a) != MaskByteWise(k, pos, b) || !bytes.Equal(a, b) {
				t.Fatalf("n=%d pos=%d", n, pos)
			}
		}
	}
}
