#!/bin/bash
# tools/seedrun.sh <seed root> <out file>: verify every candidate under the root and run its property's check against it
root=$1; out=$2
for d in $(ls -d $root/*/m* 2>/dev/null | sort); do
  echo "=== $d" >> $out
  python3 /verif/tools/mutant.py verify $d 2>&1 | grep -E '"applies"|"suite_passes|"demo_fails|"demo_passes' >> $out
  python3 /verif/tools/mutant.py check $d 2>&1 | tail -2 >> $out
done
echo DONE >> $out
