// Package refocsp builds OCSP responses (RFC 6960 §4.2.1) with encoding/asn1, independently of the
// library, as grammar seeds for the hostile-input monitor: every CHOICE arm and OPTIONAL field can be
// selected, and field values may be outside their defined ranges (the parser is the code under test).
package refocsp

import (
	"crypto/x509/pkix"
	"encoding/asn1"
	"math/big"
	"time"
)

var (
	oidBasic  = asn1.ObjectIdentifier{1, 3, 6, 1, 5, 5, 7, 48, 1, 1}
	oidSHA1   = asn1.ObjectIdentifier{1, 3, 14, 3, 2, 26}
	oidSHA256 = asn1.ObjectIdentifier{2, 16, 840, 1, 101, 3, 4, 2, 1}
	oidRSASHA = asn1.ObjectIdentifier{1, 2, 840, 113549, 1, 1, 11}
	oidNonce  = asn1.ObjectIdentifier{1, 3, 6, 1, 5, 5, 7, 48, 1, 2}
)

type certID struct {
	Hash     pkix.AlgorithmIdentifier
	NameHash []byte
	KeyHash  []byte
	Serial   *big.Int
}

type revokedInfo struct {
	Time   time.Time       `asn1:"generalized"`
	Reason asn1.Enumerated `asn1:"explicit,tag:0,optional"`
}

type revokedInfoNoReason struct {
	Time time.Time `asn1:"generalized"`
}

// Options select the shape of the response.
type Options struct {
	ResponseStatus int  // 0 successful, 1..6 error statuses (no response bytes)
	CertStatus     int  // 0 good, 1 revoked, 2 unknown
	Reason         int  // revocation reason value (any integer)
	WithReason     bool // include the optional explicit [0] reason
	WithNext       bool
	ByKey          bool // responder id by key hash instead of by name
	SHA256         bool
	SingleExt      bool
	RespExt        bool
	Certs          [][]byte // DER certificates to embed
	Responses      int      // number of SingleResponses (>=1)
	Serial         int64
}

func raw(class, tag int, compound bool, b []byte) asn1.RawValue {
	return asn1.RawValue{Class: class, Tag: tag, IsCompound: compound, Bytes: b}
}

func must(b []byte, err error) []byte {
	if err != nil {
		panic(err)
	}
	return b
}

// Build returns the DER bytes of an OCSPResponse.
func Build(o Options) []byte {
	if o.ResponseStatus != 0 {
		return must(asn1.Marshal(struct{ Status asn1.Enumerated }{asn1.Enumerated(o.ResponseStatus)}))
	}
	now := time.Date(2026, 1, 2, 3, 4, 5, 0, time.UTC)
	hash := oidSHA1
	hlen := 20
	if o.SHA256 {
		hash, hlen = oidSHA256, 32
	}
	n := o.Responses
	if n < 1 {
		n = 1
	}
	var singles []asn1.RawValue
	for i := 0; i < n; i++ {
		cid := certID{Hash: pkix.AlgorithmIdentifier{Algorithm: hash, Parameters: asn1.NullRawValue}, NameHash: make([]byte, hlen), KeyHash: make([]byte, hlen), Serial: big.NewInt(o.Serial + int64(i))}
		var status asn1.RawValue
		switch o.CertStatus {
		case 1:
			var body []byte
			if o.WithReason {
				body = must(asn1.Marshal(revokedInfo{Time: now.Add(-time.Hour), Reason: asn1.Enumerated(o.Reason)}))
			} else {
				body = must(asn1.Marshal(revokedInfoNoReason{Time: now.Add(-time.Hour)}))
			}
			var inner asn1.RawValue
			asn1.Unmarshal(body, &inner)
			status = raw(asn1.ClassContextSpecific, 1, true, inner.Bytes)
		case 2:
			status = raw(asn1.ClassContextSpecific, 2, false, nil)
		default:
			status = raw(asn1.ClassContextSpecific, 0, false, nil)
		}
		fields := []byte{}
		fields = append(fields, must(asn1.Marshal(cid))...)
		fields = append(fields, must(asn1.Marshal(status))...)
		fields = append(fields, must(asn1.MarshalWithParams(now, "generalized"))...)
		if o.WithNext {
			nu := must(asn1.MarshalWithParams(now.Add(24*time.Hour), "generalized"))
			fields = append(fields, must(asn1.Marshal(raw(asn1.ClassContextSpecific, 0, true, nu)))...)
		}
		if o.SingleExt {
			ext := must(asn1.Marshal([]pkix.Extension{{Id: oidNonce, Critical: false, Value: []byte{4, 2, 1, 2}}}))
			fields = append(fields, must(asn1.Marshal(raw(asn1.ClassContextSpecific, 1, true, ext)))...)
		}
		singles = append(singles, raw(asn1.ClassUniversal, asn1.TagSequence, true, fields))
	}
	var rd []byte
	if o.ByKey {
		kh := must(asn1.Marshal(make([]byte, 20)))
		rd = append(rd, must(asn1.Marshal(raw(asn1.ClassContextSpecific, 2, true, kh)))...)
	} else {
		name := must(asn1.Marshal(pkix.Name{CommonName: "verif responder"}.ToRDNSequence()))
		rd = append(rd, must(asn1.Marshal(raw(asn1.ClassContextSpecific, 1, true, name)))...)
	}
	rd = append(rd, must(asn1.MarshalWithParams(now, "generalized"))...)
	rd = append(rd, must(asn1.Marshal(singles))...)
	if o.RespExt {
		ext := must(asn1.Marshal([]pkix.Extension{{Id: oidNonce, Value: []byte{4, 1, 9}}}))
		rd = append(rd, must(asn1.Marshal(raw(asn1.ClassContextSpecific, 1, true, ext)))...)
	}
	tbs := must(asn1.Marshal(raw(asn1.ClassUniversal, asn1.TagSequence, true, rd)))
	basic := append([]byte{}, tbs...)
	basic = append(basic, must(asn1.Marshal(pkix.AlgorithmIdentifier{Algorithm: oidRSASHA, Parameters: asn1.NullRawValue}))...)
	basic = append(basic, must(asn1.Marshal(asn1.BitString{Bytes: make([]byte, 64), BitLength: 512}))...)
	if len(o.Certs) > 0 {
		var cs []byte
		for _, c := range o.Certs {
			cs = append(cs, c...)
		}
		seq := must(asn1.Marshal(raw(asn1.ClassUniversal, asn1.TagSequence, true, cs)))
		basic = append(basic, must(asn1.Marshal(raw(asn1.ClassContextSpecific, 0, true, seq)))...)
	}
	basicDER := must(asn1.Marshal(raw(asn1.ClassUniversal, asn1.TagSequence, true, basic)))
	rb := append(must(asn1.Marshal(oidBasic)), must(asn1.Marshal(basicDER))...)
	rbSeq := must(asn1.Marshal(raw(asn1.ClassUniversal, asn1.TagSequence, true, rb)))
	body := append(must(asn1.Marshal(asn1.Enumerated(0))), must(asn1.Marshal(raw(asn1.ClassContextSpecific, 0, true, rbSeq)))...)
	return must(asn1.Marshal(raw(asn1.ClassUniversal, asn1.TagSequence, true, body)))
}
