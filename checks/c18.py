CHECK = {
    "level": "exploration",
    "engine": "logger-conc",
    "technique": "runtime monitoring under the race detector: N goroutines create contexts and log through every entry point; a recording writer installed with Switch checks every Write against the line grammar, exactly-once delivery per call token, the cid per context kind, process-wide uniqueness of WithContext ids and alias==source; race reports are counted by the driver",
    "level_text": "Held on the executions observed: tens of runs (quick) to thousands (thorough) of 2..64 goroutines released together, about 180 000 contexts and 230 000 log lines per quick run (2.4 million contexts in the thorough tier), every Write parsed. The schedules are those the Go runtime produced under Gosched perturbation, not all interleavings; a clean run does not prove the absence of a race the runtime never scheduled.",
    "level_note": "Trusts the Go race detector and runtime, the standard log package's one-Write-per-line behaviour being observable at the writer, and the harness's parser. Ids of library-made contexts are read from the lines logged with them (no exported accessor). Concurrent Switch/Close is outside the statement and not exercised.",
    "parts": [
        {"name": "conc", "pkg": "verifharness/prop/c18", "run": "^TestVerif_C18_Conc$", "race": True,
         "timeout": {"quick": 900, "thorough": 7200}},
        # same workload with a writer that is not an io.Closer (the library's coloured-console path for warn/error);
        # needs its own process: once a Closer was installed the library never takes that path again
        {"name": "plain", "pkg": "verifharness/prop/c18", "run": "^TestVerif_C18_Conc$", "race": True, "env": {"VERIF_C18_PLAIN": "1"},
         "timeout": {"quick": 900, "thorough": 7200}},
    ],
    "assumptions": [
        "info-level calls are discarded by design (DESIGN.md 4.1): zero Writes accepted for them, at most one",
        "for a context.Context without id the statement names no prefix: the line must be whole and carry the message, the prefix is recorded, not asserted",
        "amount of whitespace between prefix and message is not constrained beyond one space",
    ],
}
