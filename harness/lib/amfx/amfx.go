// Package amfx builds library AMF0 values from abstract refamf0 trees through the
// library's public constructors (NewX + Set), the way an application would.
package amfx

import (
	"math"
	"strconv"

	"github.com/ossrs/go-oryx-lib/amf0"
	"verifharness/lib/refamf0"
)

// Build constructs the library value.  ECMA count hints cannot be set through the public
// API (they stay 0); strict array items are added with Set under keys "0","1",….
func Build(v *refamf0.Value) amf0.Amf0 {
	switch v.Kind {
	case refamf0.Number:
		return amf0.NewNumber(v.Num)
	case refamf0.Boolean:
		return amf0.NewBoolean(v.Bool)
	case refamf0.String:
		return amf0.NewString(v.Str)
	case refamf0.Null:
		return amf0.NewNull()
	case refamf0.Undefined:
		return amf0.NewUndefined()
	case refamf0.Object:
		o := amf0.NewObject()
		for _, p := range v.Props {
			o.Set(p.Key, Build(p.Val))
		}
		return o
	case refamf0.Ecma:
		o := amf0.NewEcmaArray()
		for _, p := range v.Props {
			o.Set(p.Key, Build(p.Val))
		}
		return o
	case refamf0.Strict:
		o := amf0.NewStrictArray()
		for i, it := range v.Items {
			o.Set(StrictKey(i), Build(it))
		}
		return o
	}
	panic("bad kind")
}

func StrictKey(i int) string { return strconv.Itoa(i) }

// BuildObject builds an *amf0.Object from an Object-kind tree (for RTMP command objects).
func BuildObject(v *refamf0.Value) *amf0.Object {
	o := amf0.NewObject()
	for _, p := range v.Props {
		o.Set(p.Key, Build(p.Val))
	}
	return o
}

// ZeroEcmaCounts sets every ECMA count hint to 0 (what the public API can express).
func ZeroEcmaCounts(v *refamf0.Value) {
	switch v.Kind {
	case refamf0.Ecma, refamf0.Object:
		v.Count = 0
		for _, p := range v.Props {
			ZeroEcmaCounts(p.Val)
		}
	case refamf0.Strict:
		for _, it := range v.Items {
			ZeroEcmaCounts(it)
		}
	}
}

// Matches compares a library value with an abstract tree through the public API only
// (type switches, Get by key, marshal bytes for the marker-only types).  It cannot see
// property order or surplus properties; callers add Size()/bytes checks for those.
func Matches(l amf0.Amf0, t *refamf0.Value) (bool, string) {
	if l == nil {
		return false, "nil value"
	}
	switch t.Kind {
	case refamf0.Number:
		n, ok := l.(*amf0.Number)
		if !ok {
			return false, "not a number"
		}
		if math.Float64bits(float64(*n)) != math.Float64bits(t.Num) {
			return false, "number bits differ"
		}
	case refamf0.Boolean:
		b, ok := l.(*amf0.Boolean)
		if !ok || bool(*b) != t.Bool {
			return false, "boolean differs"
		}
	case refamf0.String:
		s, ok := l.(*amf0.String)
		if !ok || string(*s) != t.Str {
			return false, "string differs"
		}
	case refamf0.Null, refamf0.Undefined:
		b, err := l.MarshalBinary()
		want := byte(5)
		if t.Kind == refamf0.Undefined {
			want = 6
		}
		if err != nil || len(b) != 1 || b[0] != want {
			return false, "null/undefined differs"
		}
	case refamf0.Object, refamf0.Ecma:
		var get func(string) amf0.Amf0
		switch o := l.(type) {
		case *amf0.Object:
			if t.Kind != refamf0.Object {
				return false, "object where ecma expected"
			}
			get = o.Get
		case *amf0.EcmaArray:
			if t.Kind != refamf0.Ecma {
				return false, "ecma where object expected"
			}
			get = o.Get
		default:
			return false, "not an object"
		}
		for _, p := range t.Props {
			if ok, why := Matches(get(p.Key), p.Val); !ok {
				return false, "." + p.Key + ": " + why
			}
		}
	case refamf0.Strict:
		o, ok := l.(*amf0.StrictArray)
		if !ok {
			return false, "not a strict array"
		}
		_ = o
	}
	return true, ""
}
