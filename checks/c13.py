# tsan re-mmaps the shadow of every allocation > 64 KiB; with 16 workers that is tens of thousands of contended mmap/madvise calls.
# The threshold only changes how shadow memory is cleared, not what is detected.  Race reports go to the part log (scanned by check.py).
RACE_ENV = {"GORACE": "halt_on_error=0 clear_shadow_mmap_threshold=4294967296"}

CHECK = {
    "level": "exploration",
    "engine": "ws-wire",
    "technique": "runtime monitors: (mem) client/server Conn pairs over a recording in-memory pipe, every byte each side writes parsed by an independent RFC 6455/7692 "
                 "frame parser (refws.Parser: sequencing, masking per role, minimal length form, control-frame rules, RSV1 placement, independent unmask + inflate) and "
                 "compared with the messages sent and received; canary bytes around every buffer handed to the library and a byte-wise reference for maskBytes; "
                 "(loopback) httptest server + Dialer over a teeing net.Conn, both directions parsed after the HTTP header, Sec-WebSocket-Accept recomputed; -race builds (checkptr)",
    "level_text": "Held on the executions observed: a grid of write-buffer sizes {1,256,1024,4096,65536} x compression {off, levels -2..9} x six write APIs x the size classes "
                  "around 0/125/126/65535/65536 and the buffer size and its multiples (plus 1 MiB / 4 MiB), all 2-partitions of selected sizes, thousands (quick) to "
                  "~150 000 (thorough) random sessions mixing APIs, partitions, reader APIs, compression toggling and pings, and 60 / 3 000 loopback sessions through the real "
                  "opening handshake, hand-written client offers / server-first frames / implicitly closed writers, and 160 / 6 000 broadcast rounds in which one prepared message is "
                  "written for the first time by 2-12 goroutines at once on connections of mixed role/compression. Not a proof: sizes, buffer sizes and API interleavings outside the generated ones are not covered; one goroutine drives each in-memory session (the broadcast part: one per connection).",
    "level_note": "Trusts refws.Parser (written from RFC 6455 section 5 / RFC 7692 section 7), compress/flate for the independent inflate, encoding/json for the expected JSON text, "
                  "and crypto/sha1 for the accept key. Text payloads are generated as valid UTF-8. The -asan pass of the design is not part of these parts (canaries + checkptr are).",
    "parts": [
        {"name": "mem", "pkg": "websocket", "run": "^TestVerif_C13_Mem$", "race": True, "env": RACE_ENV,
         "timeout": {"quick": 900, "thorough": 7200}},
        # AddressSanitizer build of the same in-memory workload (quick-sized), thorough tier only: the only unsafe code in
        # scope is the word-wise masking in mask.go; the harness canaries cover what red zones miss
        {"name": "asan", "pkg": "websocket", "run": "^TestVerif_C13_Mem$", "asan": True, "env": {"VERIF_TIER": "quick"},
         "tiers": ("thorough",), "timeout": {"thorough": 3600}},
        {"name": "broadcast", "pkg": "websocket", "run": "^TestVerif_C13_Broadcast$", "race": True, "env": RACE_ENV,
         "timeout": {"quick": 900, "thorough": 7200}},
        {"name": "rawoffers", "pkg": "verifharness/prop/c13", "run": "^TestVerif_C13_RawClientOffers$", "race": True, "env": RACE_ENV,
         "timeout": {"quick": 600, "thorough": 3600}},
        {"name": "serverfirst", "pkg": "verifharness/prop/c13", "run": "^TestVerif_C13_ServerSpeaksFirst$", "race": True, "env": RACE_ENV,
         "timeout": {"quick": 600, "thorough": 3600}},
        {"name": "implicitclose", "pkg": "verifharness/prop/c13", "run": "^TestVerif_C13_ImplicitClose$", "race": True, "env": RACE_ENV,
         "timeout": {"quick": 600, "thorough": 3600}},
        {"name": "loopback", "pkg": "verifharness/prop/c13", "run": "^TestVerif_C13_Loopback$", "race": True, "env": RACE_ENV,
         "timeout": {"quick": 600, "thorough": 3600}},
    ],
    "assumptions": [
        "in-memory endpoints are built with the unexported newConn and the compression fields are set the way Upgrade/Dial set them after negotiating permessage-deflate",
        "in-memory sessions are single-goroutine: a message is read after it was written completely (the pipe never blocks)",
        "loopback: TCP delivers what the peer wrote, so the bytes the client read are the bytes the server put on the wire",
    ],
}
