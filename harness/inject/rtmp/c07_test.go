// C07 — untrusted bytes never crash or stall a decoder: RTMP entries (in-package).
package rtmp

import (
	"bytes"
	"io"
	"testing"

	"github.com/ossrs/go-oryx-lib/amf0"
	"verifharness/lib/amfx"
	"verifharness/lib/hostile"
	"verifharness/lib/mon"
	"verifharness/lib/refamf0"
	"verifharness/lib/refrtmp"
	"verifharness/lib/vnet"
	"verifharness/lib/vrand"
)

func verifC07Protocol(data []byte) *Protocol {
	p := NewProtocol(vnet.RW{Reader: bytes.NewReader(data), Writer: io.Discard})
	// outstanding requests, so that the _result/_error paths are live
	c := NewConnectAppPacket()
	p.onPacketWriten(nil, c)
	for tid := 2; tid <= 5; tid++ {
		cs := NewCreateStreamPacket()
		cs.TransactionID = amf0.Number(tid)
		p.onPacketWriten(nil, cs)
	}
	return p
}

// the chunk reader driven to the end of the input, every message handed to the message decoder
func verifC07ReadLoop(data []byte) string {
	p := verifC07Protocol(data)
	n, dec := 0, 0
	for {
		m, err := p.ReadMessage()
		if err != nil {
			break
		}
		n++
		if n > len(data)+1 {
			panic("verif: more messages than input bytes (no progress)")
		}
		if _, err := p.DecodeMessage(m); err == nil {
			dec++
		}
	}
	switch {
	case n == 0:
		return "msgs0"
	case dec == 0:
		return "msgs+/decoded0"
	}
	return "msgs+/decoded+"
}

// the message decoder alone: first byte selects the message type, the rest is the payload
func verifC07Decode(data []byte) string {
	if len(data) == 0 {
		return "empty"
	}
	types := []MessageType{1, 2, 3, 4, 5, 6, 8, 9, 15, 17, 18, 20, 22, MessageType(data[0])}
	p := verifC07Protocol(nil)
	m := NewMessage()
	m.MessageType = types[int(data[0])%len(types)]
	m.Payload = data[1:]
	if _, err := p.DecodeMessage(m); err != nil {
		return "err"
	}
	return "ok"
}

// every packet type's unmarshaler directly
func verifC07Unmarshal(data []byte) string {
	if len(data) == 0 {
		return "empty"
	}
	fresh := []func() Packet{
		func() Packet { return NewConnectAppPacket() },
		func() Packet { return NewConnectAppResPacket(1) },
		func() Packet { return NewCreateStreamPacket() },
		func() Packet { return NewCreateStreamResPacket(2) },
		func() Packet { return NewPublishPacket() },
		func() Packet { return NewPlayPacket() },
		func() Packet { return NewCallPacket() },
		func() Packet { return NewCloseStreamPacket() },
		func() Packet { return NewSetChunkSize() },
		func() Packet { return NewWindowAcknowledgementSize() },
		func() Packet { return NewSetPeerBandwidth() },
		func() Packet { return NewUserControl() },
	}
	pkt := fresh[int(data[0])%len(fresh)]()
	if err := pkt.UnmarshalBinary(data[1:]); err != nil {
		return "err"
	}
	return "ok"
}

// grammar: packets of every kind, and AMF0 command shapes that stop after each field
func verifC07PacketBytes(r *vrand.Rand) []byte {
	if r.Chance(1, 3) {
		// hand-built command: name, tid, then 0..3 further values of arbitrary kinds
		names := []string{"connect", "_result", "_error", "publish", "play", "createStream", "closeStream", "onStatus", "x"}
		b := refamf0.Encode(nil, &refamf0.Value{Kind: refamf0.String, Str: names[r.Intn(len(names))]})
		if r.Chance(5, 6) {
			b = refamf0.Encode(b, &refamf0.Value{Kind: refamf0.Number, Num: float64(r.Range(0, 6))})
			for k := r.Intn(4); k > 0; k-- {
				v := refamf0.Gen(r, refamf0.GenOpts{MaxDepth: 2, MaxWidth: 3, EmptyKeys: true, Strict: true})
				b = refamf0.Encode(b, v)
			}
		}
		return b
	}
	c := verifGenPacket(r, verifPktKinds[r.Intn(len(verifPktKinds))])
	b, _ := c.pkt.MarshalBinary()
	return b
}

func verifC07TypeFor(r *vrand.Rand, payload []byte) uint8 {
	if len(payload) > 0 && payload[0] == 2 {
		return uint8(r.Pick(20, 20, 20, 18, 17, 15))
	}
	return uint8(r.Pick(1, 4, 5, 6, 20, 8, 9))
}

// a chunk stream carrying packets (reference chunker, all header types and basic-header forms)
func verifC07StreamSeed(r *vrand.Rand) []byte {
	c := refrtmp.NewChunker()
	if r.Chance(1, 4) {
		v := uint32(r.Pick(1, 2, 64, 4096, 0x7fffffff, 0))
		c.WriteWhole(refrtmp.SetChunkSizeMsg(v, 0), 0, 1)
		if v > 0 {
			c.ChunkSize = v
		}
	}
	for k := 0; k < r.Range(1, 6); k++ {
		payload := verifC07PacketBytes(r)
		typ := verifC07TypeFor(r, payload)
		if typ == 17 || typ == 15 {
			payload = append([]byte{0}, payload...)
		}
		if len(payload) == 0 {
			payload = []byte{0}
		}
		id := uint32(r.Pick(2, 3, 5, 63, 64, 319, 320, 65599))
		forms := refrtmp.FormsFor(id)
		used, pts, _, _, _, psid := c.Peek(id)
		msg := refrtmp.Msg{Csid: id, Type: typ, StreamID: uint32(r.Intn(2)), Timestamp: uint32(r.PickU64(0, 100, 0xffffff, 0x1000000, 0xffffffff)), Payload: payload}
		f := 0
		if used && r.Bool() {
			f = 1
			msg.StreamID = psid
			msg.Timestamp = pts + uint32(r.Intn(50))
		}
		c.WriteWhole(msg, f, forms[r.Intn(len(forms))])
	}
	return c.Out
}

func verifC07Families() []hostile.Family {
	rep := func(unit []byte, n int) []byte {
		b := make([]byte, 0, n+len(unit))
		for len(b) < n {
			b = append(b, unit...)
		}
		return b
	}
	return []hostile.Family{
		{Name: "many-1byte-messages", Gen: func(n int) []byte {
			return rep([]byte{3, 0, 0, 0, 0, 0, 1, 8, 0, 0, 0, 0, 0xaa}, n)
		}},
		{Name: "many-type3-messages", Gen: func(n int) []byte {
			return append([]byte{3, 0, 0, 1, 0, 0, 1, 8, 0, 0, 0, 0, 0xaa}, rep([]byte{0xc3, 0xaa}, n)...)
		}},
		{Name: "chunk-size-1", Gen: func(n int) []byte {
			b := []byte{2, 0, 0, 0, 0, 0, 4, 1, 0, 0, 0, 0, 0, 0, 0, 1} // Set Chunk Size 1
			k := n / 2
			b = append(b, 3, 0, 0, 0, byte(k>>16), byte(k>>8), byte(k), 9, 0, 0, 0, 0, 0xaa)
			return append(b, rep([]byte{0xc3, 0xaa}, 2*(k-1))...)
		}},
		{Name: "many-chunk-streams", Gen: func(n int) []byte {
			var b []byte
			for i := 0; len(b) < n; i++ {
				id := 64 + i%65000
				b = append(b, 1, byte(id-64), byte((id-64)>>8), 0, 0, 0, 0, 0, 1, 8, 0, 0, 0, 0, 0xaa)
			}
			return b
		}},
		{Name: "many-commands", Gen: func(n int) []byte {
			p := NewCallPacket()
			p.CommandName = "onStatus"
			p.CommandObject = amf0.NewNull()
			p.Args = amfx.BuildObject(&refamf0.Value{Kind: refamf0.Object, Props: []refamf0.Prop{{Key: "code", Val: &refamf0.Value{Kind: refamf0.String, Str: "NetStream.Play.Start"}}}})
			body, _ := p.MarshalBinary()
			c := refrtmp.NewChunker()
			c.WriteWhole(refrtmp.Msg{Csid: 3, Type: 20, Payload: body}, 0, 1)
			return rep(c.Out, n)
		}},
		{Name: "many-user-controls", Gen: func(n int) []byte {
			return rep([]byte{2, 0, 0, 0, 0, 0, 6, 4, 0, 0, 0, 0, 0, 6, 0, 0, 0, 1}, n)
		}},
		{Name: "one-command-deep-amf0", Gen: func(n int) []byte {
			body := refamf0.Encode(nil, &refamf0.Value{Kind: refamf0.String, Str: "onStatus"})
			body = refamf0.Encode(body, &refamf0.Value{Kind: refamf0.Number})
			k := (n - 40) / 7
			for i := 0; i < k; i++ {
				body = append(body, 3, 0, 1, 'a')
			}
			body = append(body, 5)
			for i := 0; i < k; i++ {
				body = append(body, 0, 0, 9)
			}
			b := []byte{2, 0, 0, 0, 0, 0, 4, 1, 0, 0, 0, 0, 0, 1, 0, 0} // Set Chunk Size 65536
			b = append(b, 3, 0, 0, 0, byte(len(body)>>16), byte(len(body)>>8), byte(len(body)), 20, 0, 0, 0, 0)
			for off := 0; off < len(body); off += 65536 {
				if off > 0 {
					b = append(b, 0xc3)
				}
				end := off + 65536
				if end > len(body) {
					end = len(body)
				}
				b = append(b, body[off:end]...)
			}
			return b
		}},
	}
}

func TestVerif_C07_Rtmp(t *testing.T) {
	part := "rtmp"
	if hostile.Ticks() {
		part = "rtmpticks"
	}
	m := mon.New("C07", part)
	defer m.Finish(t)
	m.Rule("rtmp entries: chunk reader driven to the end of the input with every message handed to DecodeMessage (requests pre-registered so " +
		"_result/_error paths are live), DecodeMessage alone for every message type, every Packet.UnmarshalBinary; inputs as in the hostile part " +
		"(random, reference-chunked streams carrying generated packets, mutations); families: many tiny messages / type-3 starts / chunk size 1 / " +
		"65000 chunk streams / many commands / one deeply nested command")
	es := []hostile.Entry{
		{Name: "rtmp.ReadMessage-loop+DecodeMessage", F: verifC07ReadLoop, Seed: verifC07StreamSeed, Families: verifC07Families()},
		{Name: "rtmp.DecodeMessage", F: verifC07Decode, Seed: func(r *vrand.Rand) []byte { return append([]byte{byte(r.Intn(256))}, verifC07PacketBytes(r)...) }},
		{Name: "rtmp.Packet.UnmarshalBinary", F: verifC07Unmarshal, Seed: func(r *vrand.Rand) []byte { return append([]byte{byte(r.Intn(256))}, verifC07PacketBytes(r)...) }},
	}
	per := 20000
	if hostile.Ticks() {
		per = 3000
	}
	hostile.Run(m, es, hostile.Options{PerEntryQuick: per, PerEntryThorough: per * 50})
	for _, e := range es {
		m.Require("inputs:"+e.Name, 100)
	}
}
