"""Check registry: every checks/cNN.py defines CHECK = {...}; see c05.py for the shape."""
import importlib, os, glob

CHECKS = {}
for _f in sorted(glob.glob(os.path.join(os.path.dirname(__file__), "c[0-9][0-9].py"))):
    _n = os.path.basename(_f)[:-3]
    _m = importlib.import_module("checks." + _n)
    CHECKS[_n.upper()] = _m.CHECK
