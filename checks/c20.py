CHECK = {
    "level": "exploration",
    "engine": "kxps-model",
    "technique": "runtime reference-model monitor compiled into package kxps: PRNG (time, counter) histories are fed to the unexported sampling steps doSample/sampleAverage in virtual time (the wall-clock goroutine is never started), rates are read through the public Krps/Kbps getters and compared after every observation with a window model written from the property statement (set of admissible model states where the statement leaves an observation of 0 open)",
    "level_text": "Held on the executions observed: tens of thousands (quick) to millions (thorough) of histories of up to 200 observations each, for both meters, with every reading compared after every observation; counters show how often each window sampled, non-zero 300 s rates, stall/backwards steps that yielded 0, wrap-arounds across 2^64 that yielded the small true rate, zero observations, refusals before start and non-zero averages. Not a proof; time only moves forwards, counter steps stay below 2^62.",
    "level_note": "Trusts the reference model lib/refkxps (written from the statement: increase since the window's previous sample divided by the window LENGTH, cascade 10->30->300, increase taken modulo 2^64), Go's runtime and float64 arithmetic to 1e-9 relative. The bitrate meter's Average() applies its x8/1000 scale only on the wall-clock path, which is not driven; the average is checked unscaled at sampleAverage(t). The `started` flag is set in-package instead of calling Start().",
    "parts": [
        {"name": "publicapi", "pkg": "verifharness/prop/c20", "run": "^TestVerif_C20_PublicAPI$", "timeout": {"quick": 300, "thorough": 900}},
        {"name": "windows", "pkg": "kxps", "run": "^TestVerif_C20_Windows$",
         "timeout": {"quick": 600, "thorough": 3600}},
    ],
    "assumptions": [
        "observation times never go backwards; counter steps and resets stay below 2^62 (DESIGN 4.1)",
        "two thirds of the histories use whole-millisecond instants (average compared to 1e-9); one third arbitrary nanoseconds incl. window lengths +-1 ns, where the average is accepted within a time resolution of 1 ms (the statement does not fix a resolution)",
        "an observation with counter 0 may be ignored or treated as an ordinary observation; both readings are tracked (DESIGN 4.1)",
        "the average is undefined while no time has passed since the first non-zero observation: any finite non-negative value is accepted there",
    ],
}
