// C03 — RTMP packets survive encode, wire and decode with the right type (in-package).
package rtmp

import (
	"bytes"
	"fmt"
	"io"
	"math"
	"reflect"
	"testing"

	"github.com/ossrs/go-oryx-lib/amf0"
	"verifharness/lib/amfx"
	"verifharness/lib/mon"
	"verifharness/lib/refamf0"
	"verifharness/lib/vnet"
	"verifharness/lib/vrand"
)

// ---- packet generators ---------------------------------------------------------------------

func verifGenObjTree(r *vrand.Rand) *refamf0.Value {
	v := refamf0.Gen(r, refamf0.GenOpts{MaxDepth: r.Range(0, 3), MaxWidth: r.Range(0, 6), EmptyKeys: true, Strict: true, BigStrings: r.Chance(1, 20)})
	if v.Kind != refamf0.Object {
		v = &refamf0.Value{Kind: refamf0.Object, Props: []refamf0.Prop{{Key: "v", Val: v}}}
	}
	amfx.ZeroEcmaCounts(v)
	return v
}

func verifGenAny(r *vrand.Rand) amf0.Amf0 {
	v := refamf0.Gen(r, refamf0.GenOpts{MaxDepth: r.Range(0, 3), MaxWidth: r.Range(0, 5), EmptyKeys: true, Strict: true})
	amfx.ZeroEcmaCounts(v)
	return amfx.Build(v)
}

func verifGenObjOrNull(r *vrand.Rand) amf0.Amf0 {
	if r.Bool() {
		return amf0.NewNull()
	}
	return amfx.BuildObject(verifGenObjTree(r))
}

func verifGenStr(r *vrand.Rand) amf0.String {
	switch r.Intn(8) {
	case 0:
		return ""
	case 1:
		return amf0.String(r.Bytes(r.Range(1, 40)))
	case 2:
		return amf0.String(bytes.Repeat([]byte("x"), r.Pick(255, 256, 65535, 1000)))
	}
	return amf0.String([]string{"live", "livestream", "stream?token=a&b=c", "录制", "a/b/c", "record", "append"}[r.Intn(7)])
}

func verifGenTid(r *vrand.Rand) amf0.Number {
	switch r.Intn(8) {
	case 0:
		return 0
	case 1:
		return amf0.Number(-float64(r.Range(1, 5)))
	case 2:
		return amf0.Number(float64(r.Range(1, 5)) + 0.5)
	case 3:
		return amf0.Number(math.Float64frombits(r.Uint64()&^(0x7ff<<52) | uint64(r.Range(1000, 1100))<<52))
	}
	return amf0.Number(r.Range(1, 9))
}

type verifPktCase struct {
	kind  string
	pkt   Packet
	fresh func() Packet // empty packet of the same Go type, as the decoder would construct it
	// dispatch expectation at the peer: Go type expected from DecodeMessage ("" = needs the transaction model)
	expect reflect.Type
}

var (
	verifTConnect   = reflect.TypeOf(&ConnectAppPacket{})
	verifTPublish   = reflect.TypeOf(&PublishPacket{})
	verifTCall      = reflect.TypeOf(&CallPacket{})
	verifTSCS       = reflect.TypeOf(&SetChunkSize{})
	verifTWAS       = reflect.TypeOf(&WindowAcknowledgementSize{})
	verifTSPB       = reflect.TypeOf(&SetPeerBandwidth{})
	verifTUC        = reflect.TypeOf(&UserControl{})
	verifTConnRes   = reflect.TypeOf(&ConnectAppResPacket{})
	verifTCreateRes = reflect.TypeOf(&CreateStreamResPacket{})
)

func verifGenU32(r *vrand.Rand) uint32 {
	return uint32(r.PickU64(0, 1, 127, 128, 0x7fffffff, 0x80000000, 0xffffffff, uint64(r.Uint32())))
}

func verifGenUserControl(r *vrand.Rand, et uint16) *UserControl {
	uc := NewUserControl()
	uc.EventType = EventType(et)
	data := int32(uint32(r.PickU64(0, 1, 0x7fffffff, 0xffffffff, uint64(r.Uint32()))))
	switch uc.EventType {
	case EventTypeFmsEvent0:
		uc.EventData = int32(r.Pick(0, 1, 127, 128, 255, r.Intn(256))) // one byte of event data
	case EventTypeSetBufferLength:
		uc.EventData = data
		uc.ExtraData = int32(uint32(r.PickU64(0, 1, 0x7fffffff, 0xffffffff, uint64(r.Uint32()))))
	default:
		uc.EventData = data
	}
	return uc
}

// verifGenPacket returns a well-formed packet of the given kind.
func verifGenPacket(r *vrand.Rand, kind string) verifPktCase {
	c := verifPktCase{kind: kind}
	switch kind {
	case "connect":
		p := NewConnectAppPacket()
		p.CommandObject = amfx.BuildObject(verifGenObjTree(r))
		if r.Bool() {
			p.Args = amfx.BuildObject(verifGenObjTree(r))
		}
		c.pkt, c.fresh, c.expect = p, func() Packet { return NewConnectAppPacket() }, verifTConnect
	case "connectRes":
		p := NewConnectAppResPacket(verifGenTid(r))
		p.CommandObject = amfx.BuildObject(verifGenObjTree(r))
		if r.Bool() {
			p.Args = amfx.BuildObject(verifGenObjTree(r))
		}
		c.pkt, c.fresh = p, func() Packet { return NewConnectAppResPacket(0) }
	case "createStream":
		p := NewCreateStreamPacket()
		p.TransactionID = verifGenTid(r)
		p.CommandObject = verifGenObjOrNull(r)
		c.pkt, c.fresh, c.expect = p, func() Packet { return NewCreateStreamPacket() }, verifTCall
	case "createStreamRes":
		p := NewCreateStreamResPacket(verifGenTid(r))
		p.CommandObject = verifGenObjOrNull(r)
		p.StreamID = amf0.Number(r.FloatBits())
		c.pkt, c.fresh = p, func() Packet { return NewCreateStreamResPacket(0) }
	case "publish":
		p := NewPublishPacket()
		p.TransactionID = verifGenTid(r)
		p.CommandObject = verifGenObjOrNull(r)
		p.StreamName, p.StreamType = verifGenStr(r), verifGenStr(r)
		c.pkt, c.fresh, c.expect = p, func() Packet { return NewPublishPacket() }, verifTPublish
	case "play":
		p := NewPlayPacket()
		p.TransactionID = verifGenTid(r)
		p.CommandObject = verifGenObjOrNull(r)
		p.StreamName = verifGenStr(r)
		c.pkt, c.fresh, c.expect = p, func() Packet { return NewPlayPacket() }, verifTCall
	case "call":
		p := NewCallPacket()
		names := []string{"onStatus", "onBWDone", "releaseStream", "FCPublish", "FCUnpublish", "pause", "getStreamLength", "|RtmpSampleAccess", "x", ""}
		p.CommandName = amf0.String(names[r.Intn(len(names))])
		p.TransactionID = verifGenTid(r)
		switch r.Intn(4) { // optional trailing fields only after the preceding ones
		case 0:
		case 1:
			p.CommandObject = verifGenAny(r)
		default:
			p.CommandObject = verifGenAny(r)
			p.Args = verifGenAny(r)
		}
		c.pkt, c.fresh, c.expect = p, func() Packet { return NewCallPacket() }, verifTCall
	case "closeStream":
		p := NewCloseStreamPacket()
		p.TransactionID = verifGenTid(r)
		c.pkt, c.fresh, c.expect = p, func() Packet { return NewCallPacket() }, verifTCall
	case "setChunkSize":
		p := NewSetChunkSize()
		p.ChunkSize = verifGenU32(r)
		c.pkt, c.fresh, c.expect = p, func() Packet { return NewSetChunkSize() }, verifTSCS
	case "windowAck":
		p := NewWindowAcknowledgementSize()
		p.AckSize = verifGenU32(r)
		c.pkt, c.fresh, c.expect = p, func() Packet { return NewWindowAcknowledgementSize() }, verifTWAS
	case "setPeerBandwidth":
		p := NewSetPeerBandwidth()
		p.Bandwidth = verifGenU32(r)
		p.LimitType = LimitType(r.Pick(0, 1, 2, 255, r.Intn(256)))
		c.pkt, c.fresh, c.expect = p, func() Packet { return NewSetPeerBandwidth() }, verifTSPB
	case "userControl":
		p := verifGenUserControl(r, uint16(r.PickU64(0, 1, 2, 3, 4, 6, 7, 0x1a, 0x19, 0x1b, 0xffff, uint64(r.Intn(65536)))))
		c.pkt, c.fresh, c.expect = p, func() Packet { return NewUserControl() }, verifTUC
	}
	return c
}

var verifPktKinds = []string{"connect", "connectRes", "createStream", "createStreamRes", "publish", "play", "call", "closeStream",
	"setChunkSize", "windowAck", "setPeerBandwidth", "userControl"}

// verifRoundTrip checks Size / marshal / unmarshal / re-marshal for one packet.
func verifRoundTrip(m *mon.M, c verifPktCase, rep map[string]interface{}) []byte {
	b, err := c.pkt.MarshalBinary()
	if err != nil {
		m.Violationf("c03:marshal-error:"+c.kind, rep, "%v", err)
		return nil
	}
	if c.pkt.Size() != len(b) {
		m.Violationf("c03:size-ne-marshal-len:"+c.kind, rep, "Size()=%d, marshalled %d bytes (%s)", c.pkt.Size(), len(b), mon.Hex(b))
	}
	f := c.fresh()
	if err := f.UnmarshalBinary(b); err != nil {
		// connect must carry tid 1; any other fresh type accepts its own bytes
		m.Violationf("c03:own-bytes-rejected:"+c.kind, rep, "unmarshal of own bytes: %v (%s)", err, mon.Hex(b))
		return b
	}
	b2, err := f.MarshalBinary()
	if err != nil || !bytes.Equal(b, b2) {
		m.Violationf("c03:unmarshal-differs:"+c.kind, rep, "unmarshalled packet re-marshals differently (err=%v): %s vs %s", err, mon.Hex(b), mon.Hex(b2))
	}
	if f.Size() != len(b) {
		m.Violationf("c03:decoded-size-differs:"+c.kind, rep, "Size() after unmarshal %d, bytes %d", f.Size(), len(b))
	}
	// scalar fields, compared directly
	switch p := c.pkt.(type) {
	case *SetChunkSize:
		if f.(*SetChunkSize).ChunkSize != p.ChunkSize {
			m.Violationf("c03:field-differs:"+c.kind, rep, "chunk size")
		}
	case *WindowAcknowledgementSize:
		if f.(*WindowAcknowledgementSize).AckSize != p.AckSize {
			m.Violationf("c03:field-differs:"+c.kind, rep, "ack size")
		}
	case *SetPeerBandwidth:
		if *f.(*SetPeerBandwidth) != *p {
			m.Violationf("c03:field-differs:"+c.kind, rep, "bandwidth/limit")
		}
	case *UserControl:
		if *f.(*UserControl) != *p {
			m.Violationf("c03:field-differs:"+c.kind, rep, "user control %+v vs %+v", *f.(*UserControl), *p)
		}
	case *PublishPacket:
		g := f.(*PublishPacket)
		if g.StreamName != p.StreamName || g.StreamType != p.StreamType || !verifNumEq(g.TransactionID, p.TransactionID) || g.CommandName != p.CommandName {
			m.Violationf("c03:field-differs:"+c.kind, rep, "publish fields")
		}
	case *PlayPacket:
		g := f.(*PlayPacket)
		if g.StreamName != p.StreamName || !verifNumEq(g.TransactionID, p.TransactionID) {
			m.Violationf("c03:field-differs:"+c.kind, rep, "play fields")
		}
	case *CreateStreamResPacket:
		g := f.(*CreateStreamResPacket)
		if !verifNumEq(g.StreamID, p.StreamID) || !verifNumEq(g.TransactionID, p.TransactionID) {
			m.Violationf("c03:field-differs:"+c.kind, rep, "createStream response fields")
		}
	}
	return b
}

func verifNumEq(a, b amf0.Number) bool {
	return math.Float64bits(float64(a)) == math.Float64bits(float64(b))
}

func TestVerif_C03_RoundTrip(t *testing.T) {
	m := mon.New("C03", "roundtrip")
	defer m.Finish(t)
	m.Rule("roundtrip: well-formed packets from every constructor with PRNG AMF0 trees / strings / numbers / uint32 boundary values; " +
		"len(Marshal)==Size(), unmarshal into a fresh packet of the same type, re-marshal identical, scalar fields compared; distinct = kind x size bucket x optional-field shape")
	n := m.N(20000, 2000000)
	m.Require("evaluations", int64(n))
	mon.Parallel(n, func(w, i int) {
		r := m.Rand("pkt", i)
		kind := verifPktKinds[i%len(verifPktKinds)]
		c := verifGenPacket(r, kind)
		m.Case()
		rep := map[string]interface{}{"case": i, "kind": kind}
		m.Guard("rtmp.packet."+kind, nil, func() {
			b := verifRoundTrip(m, c, rep)
			m.Classf("%s/len%d", kind, verifBucket(len(b)))
			if m.WantSample() {
				m.Sample(map[string]interface{}{"kind": kind, "bytes": mon.Hex(b), "size": c.pkt.Size()})
			}
		})
	})
}

func verifBucket(n int) int {
	switch {
	case n < 16:
		return n
	case n < 64:
		return 64
	case n < 256:
		return 256
	case n < 4096:
		return 4096
	}
	return 65536
}

// All 65536 user-control event types x 5 event data values, exhaustively.
func TestVerif_C03_UserControlSweep(t *testing.T) {
	m := mon.New("C03", "ucsweep")
	defer m.Finish(t)
	m.Rule("ucsweep: every event type 0..65535 x event data {0,1,0x7FFFFFFF,-1,PRNG} (one byte of data for the FMS event 0x1a; extra data for " +
		"SetBufferLength): Size()==len(Marshal), unmarshal equal, and decoded as UserControl by DecodeMessage; distinct = event type")
	m.Exhaustive(true)
	mon.Parallel(65536, func(w, et int) {
		r := m.Rand("uc", et)
		for k, d := range []int32{0, 1, 0x7fffffff, -1, int32(r.Uint32())} {
			uc := NewUserControl()
			uc.EventType = EventType(et)
			uc.EventData = d
			if uc.EventType == EventTypeFmsEvent0 {
				uc.EventData = int32(uint8(d))
			}
			if uc.EventType == EventTypeSetBufferLength {
				uc.ExtraData = int32(r.Uint32())
			}
			m.Case()
			rep := map[string]interface{}{"event_type": et, "event_data": d}
			m.Guard("rtmp.UserControl", nil, func() {
				b := verifRoundTrip(m, verifPktCase{kind: "userControl", pkt: uc, fresh: func() Packet { return NewUserControl() }}, rep)
				want := 6
				if et == 0x1a {
					want = 3
				} else if et == 3 {
					want = 10
				}
				if len(b) != want {
					m.Violationf("c03:user-control-length", rep, "event type %#x marshals to %d bytes, the protocol defines %d", et, len(b), want)
				}
				p := NewProtocol(vnet.RW{Reader: bytes.NewReader(nil), Writer: io.Discard})
				msg := NewMessage()
				msg.MessageType = MessageTypeUserControl
				msg.Payload = b
				pkt, err := p.DecodeMessage(msg)
				if err != nil {
					m.Violationf("c03:user-control-not-decoded", rep, "%v", err)
				} else if g, ok := pkt.(*UserControl); !ok || *g != *uc {
					m.Violationf("c03:user-control-decoded-differently", rep, "%+v vs %+v", pkt, *uc)
				}
			})
			if k == 0 {
				m.Classf("et%04x", et)
			}
		}
	})
}

// ---- end-to-end: wire + dispatch + transaction model ----------------------------------------

// verifTxnModel is the reference model of the outstanding-request table.
type verifTxnModel struct {
	out     map[uint64]string // float bits of tid -> request name
	unknown map[uint64]bool   // tids whose state the statement leaves open (after an _error)
}

func verifNewTxnModel() *verifTxnModel {
	return &verifTxnModel{out: map[uint64]string{}, unknown: map[uint64]bool{}}
}

func (t *verifTxnModel) sent(name string, tid amf0.Number) {
	if float64(tid) > 0 {
		k := math.Float64bits(float64(tid))
		t.out[k] = name
		delete(t.unknown, k)
	}
}

func TestVerif_C03_Wire(t *testing.T) {
	m := mon.New("C03", "wire")
	defer m.Finish(t)
	m.Rule("wire: histories of <=30 packets A->B over a segmenting transport interleaved with B->A responses; B decodes with ReadMessage+DecodeMessage; " +
		"expected Go type from the dispatch table of the statement, _result/_error judged by a 15-line outstanding-table model run in lock-step " +
		"(tids from a small pool incl. repeats, 0, negatives, fractions; duplicates, unsolicited and re-used tids); payload must re-marshal identically; " +
		"distinct = (packet kind or response situation) x decoded type")
	n := m.N(2000, 400000)
	m.Require("evaluations", int64(n))
	m.Require("result_matched", int64(n))
	m.Require("result_without_request", int64(n/4))
	m.Require("result_duplicate", int64(n/10))
	mon.Parallel(n, func(w, i int) {
		r := m.Rand("wire", i)
		m.Case()
		ca, cb, _, _ := vnet.Pair(vnet.PickSeg(r), vnet.PickSeg(r))
		pa, pb := NewProtocol(ca), NewProtocol(cb)
		model := verifNewTxnModel() // requests written by A, responses read by A
		rep := map[string]interface{}{"case": i}
		var trace []string
		m.Guard("rtmp.wire", nil, func() {
			steps := r.Range(3, 30)
			for s := 0; s < steps; s++ {
				if r.Chance(1, 2) {
					// A sends a packet, B decodes it
					kind := verifPktKinds[r.Intn(len(verifPktKinds))]
					if kind == "connectRes" || kind == "createStreamRes" {
						kind = "createStream" // responses travel B->A below
					}
					c := verifGenPacket(r, kind)
					if kind == "setChunkSize" {
						c.pkt.(*SetChunkSize).ChunkSize = uint32(r.Pick(1, 2, 128, 4096, 65536, 0x7fffffff))
					}
					want, _ := c.pkt.MarshalBinary()
					if err := pa.WritePacket(c.pkt, r.Intn(3)); err != nil {
						m.Violationf("c03:write-error:"+kind, rep, "%v", err)
						return
					}
					switch p := c.pkt.(type) {
					case *ConnectAppPacket:
						model.sent("connect", p.TransactionID)
					case *CreateStreamPacket:
						model.sent("createStream", p.TransactionID)
					}
					trace = append(trace, "A>"+kind)
					msg, err := pb.ReadMessage()
					if err != nil {
						m.Violationf("c03:read-error:"+kind, rep, "%v; trace=%v", err, trace)
						return
					}
					if !bytes.Equal(msg.Payload, want) || msg.MessageType != c.pkt.Type() {
						m.Violationf("c03:wire-payload-differs:"+kind, rep, "payload/type changed on the wire; trace=%v", trace)
						return
					}
					pkt, err := pb.DecodeMessage(msg)
					if err != nil {
						m.Violationf("c03:decode-error:"+kind, rep, "peer cannot decode a %s packet: %v; trace=%v", kind, err, trace)
						return
					}
					got := reflect.TypeOf(pkt)
					m.Classf("%s->%v", kind, got)
					if got != c.expect {
						m.Violationf("c03:wrong-type:"+kind, rep, "%s decoded as %v, the protocol defines %v; trace=%v", kind, got, c.expect, trace)
						return
					}
					if b2, err := pkt.MarshalBinary(); err != nil || !bytes.Equal(b2, want) {
						m.Violationf("c03:decoded-remarshal-differs:"+kind, rep, "decoded %v re-marshals to %s, payload was %s", got, mon.Hex(b2), mon.Hex(want))
						return
					}
					m.Count("packets_decoded_by_peer", 1)
					if (kind == "publish" || kind == "play" || kind == "call" || kind == "closeStream") && r.Chance(1, 3) {
						// the same command as a Flash Player with objectEncoding 3 sends it: message type 17, one 0x00 byte, then the
						// AMF0 body.  The dispatch anchored in the statement covers it: same packet type, same body after the prefix.
						am := NewStreamMessage(r.Intn(3))
						am.MessageType = MessageTypeAMF3Command
						am.Payload = append([]byte{0}, want...)
						if err := pa.WriteMessage(am); err != nil {
							m.Violationf("c03:write-error:"+kind, rep, "%v", err)
							return
						}
						msg3, err := pb.ReadMessage()
						if err != nil || !bytes.Equal(msg3.Payload, am.Payload) {
							m.Violationf("c03:read-error:"+kind+":amf3", rep, "%v; trace=%v", err, trace)
							return
						}
						pkt3, err := pb.DecodeMessage(msg3)
						if err != nil {
							m.Violationf("c03:decode-error:"+kind+":amf3", rep, "peer cannot decode a %s command sent as message type 17 (0x00 + AMF0 body): %v", kind, err)
							return
						}
						if reflect.TypeOf(pkt3) != c.expect {
							m.Violationf("c03:wrong-type:"+kind+":amf3", rep, "%s sent as message type 17 decoded as %T, the protocol defines %v", kind, pkt3, c.expect)
							return
						}
						if b3, err := pkt3.MarshalBinary(); err != nil || !bytes.Equal(b3, want) {
							m.Violationf("c03:decoded-remarshal-differs:"+kind+":amf3", rep, "decoded %T re-marshals to %s, body was %s", pkt3, mon.Hex(b3), mon.Hex(want))
							return
						}
						m.Count("commands_also_sent_as_amf3_messages", 1)
					}
				} else {
					// B sends a response, A decodes it under the transaction model
					var tid amf0.Number
					situation := "matched"
					var name string
					pick := r.Intn(10)
					var keys []uint64
					for k := range model.out {
						keys = append(keys, k)
					}
					if len(keys) > 0 && pick < 6 {
						// deterministic choice among outstanding tids
						best := keys[0]
						for _, k := range keys {
							if k < best {
								best = k
							}
						}
						if r.Bool() {
							for _, k := range keys {
								if k > best {
									best = k
								}
							}
						}
						tid = amf0.Number(math.Float64frombits(best))
						name = model.out[best]
					} else {
						tid = verifGenTid(r)
						k := math.Float64bits(float64(tid))
						if n, ok := model.out[k]; ok {
							name = n
						} else if model.unknown[k] {
							situation = "unknown"
						} else {
							situation = "none"
						}
					}
					isError := r.Chance(1, 6)
					var resp Packet
					if name == "connect" || (name == "" && r.Bool()) {
						p := NewConnectAppResPacket(tid)
						p.CommandObject = amfx.BuildObject(verifGenObjTree(r))
						if r.Bool() {
							p.Args = amfx.BuildObject(verifGenObjTree(r))
						}
						if isError {
							p.CommandName = commandError
						}
						resp = p
					} else {
						p := NewCreateStreamResPacket(tid)
						p.StreamID = amf0.Number(r.Range(1, 100))
						if isError {
							p.CommandName = commandError
						}
						resp = p
					}
					want, _ := resp.MarshalBinary()
					if err := pb.WritePacket(resp, 0); err != nil {
						m.Violationf("c03:write-error:response", rep, "%v", err)
						return
					}
					trace = append(trace, fmt.Sprintf("B>res(tid=%v,%s,err=%v)", float64(tid), situation, isError))
					msg, err := pa.ReadMessage()
					if err != nil || !bytes.Equal(msg.Payload, want) {
						m.Violationf("c03:read-error:response", rep, "%v; trace=%v", err, trace)
						return
					}
					pkt, err := pa.DecodeMessage(msg)
					k := math.Float64bits(float64(tid))
					if isError {
						// statement speaks of _result only: no type asserted, the tid's state becomes open
						delete(model.out, k)
						model.unknown[k] = true
						m.Count("error_responses", 1)
						m.Classf("_error/%s/err=%v", situation, err != nil)
						continue
					}
					switch situation {
					case "matched":
						wantT := verifTCreateRes
						if name == "connect" {
							wantT = verifTConnRes
						}
						if err != nil {
							sig := "c03:result-not-matched"
							m.Violationf(sig, rep, "_result for outstanding %s tid=%v failed: %v; trace=%v", name, float64(tid), err, trace)
							return
						}
						if reflect.TypeOf(pkt) != wantT {
							m.Violationf("c03:result-wrong-type", rep, "_result for %s decoded as %T; trace=%v", name, pkt, trace)
							return
						}
						if b2, _ := pkt.MarshalBinary(); !bytes.Equal(b2, want) {
							m.Violationf("c03:result-remarshal-differs", rep, "response re-marshals differently; trace=%v", trace)
							return
						}
						delete(model.out, k) // consumed exactly once
						m.Count("result_matched", 1)
						m.Classf("_result/matched/%s", name)
						// exactly once: the same response again must now be an error
						if r.Chance(1, 3) {
							pb.WritePacket(resp, 0)
							msg2, err := pa.ReadMessage()
							if err != nil {
								m.Violationf("c03:read-error:response", rep, "%v", err)
								return
							}
							if pkt2, err := pa.DecodeMessage(msg2); err == nil {
								m.Violationf("c03:result-matched-twice", rep, "duplicate _result for tid=%v decoded again as %T; trace=%v", float64(tid), pkt2, trace)
								return
							}
							m.Count("result_duplicate", 1)
							m.Class("_result/duplicate")
						}
					case "none":
						if err == nil {
							m.Violationf("c03:result-without-request-accepted", rep, "_result tid=%v without an outstanding request decoded as %T; trace=%v", float64(tid), pkt, trace)
							return
						}
						m.Count("result_without_request", 1)
						m.Class("_result/none")
					default:
						m.Class("_result/unknown-state")
					}
				}
			}
			if m.WantSample() {
				m.Sample(map[string]interface{}{"case": i, "trace": trace})
			}
		})
	})
}

// ---- many requests outstanding at once ------------------------------------------------------

// The statement's "matched to the request with the same transaction id exactly once" has no bound on how many
// requests are outstanding: A pipelines N requests with pairwise distinct ids (integers, fractions, huge values),
// B answers them all afterwards in a PRNG order; every _result must match, with the right type, once.
func TestVerif_C03_ManyOutstanding(t *testing.T) {
	m := mon.New("C03", "outstanding")
	defer m.Finish(t)
	m.Rule("outstanding: A pipelines N in {1..64, 1000..1100, 1500..6000, once 2^20+k (thorough also 20000..70000)} requests with pairwise distinct transaction ids " +
		"(i+1, i+1.5, i*2^33, PRNG doubles) before B answers any; B then answers all in PRNG order, some twice; every first _result must decode as the " +
		"response type of its request, every second one must be an error; distinct = N bucket x id family x outcome")
	n := m.N(24, 400)
	m.Require("evaluations", int64(n))
	m.Require("result_matched", int64(n*40))
	m.Require("sessions_with_more_than_1024_outstanding", int64(n/6))
	mon.Parallel(n, func(w, i int) {
		r := m.Rand("outstanding", i)
		var N int
		switch i % 4 {
		case 0:
			N = r.Range(1, 64)
		case 1:
			N = r.Range(1000, 1100)
		default:
			N = r.Range(1500, 6000)
			if !m.Quick() && i%8 == 7 {
				N = r.Range(20000, 70000)
			}
		}
		fam := r.Intn(4)
		if i == 7 {
			N, fam = 1<<20+r.Range(1, 5000), 0 // more than a million requests outstanding at once, ids 1, 2, 3, ...
		}
		rep := map[string]interface{}{"case": i, "N": N, "idfamily": fam}
		m.Guard("rtmp.outstanding", nil, func() {
			ca, cb, _, _ := vnet.Pair(vnet.PickSeg(r), vnet.SegWhole())
			pa, pb := NewProtocol(ca), NewProtocol(cb)
			type req struct {
				tid     amf0.Number
				connect bool
			}
			reqs := make([]req, N)
			seen := map[uint64]bool{}
			for k := 0; k < N; k++ {
				var tid float64
				for {
					switch fam {
					case 0:
						tid = float64(k + 1)
					case 1:
						tid = float64(k) + 1.5
					case 2:
						tid = float64(k+1) * 8589934592.0
					default:
						tid = math.Float64frombits(r.Uint64()&^(0xfff<<52) | uint64(r.Range(1000, 1100))<<52) // positive, finite
					}
					if !seen[math.Float64bits(tid)] {
						break
					}
				}
				seen[math.Float64bits(tid)] = true
				q := req{tid: amf0.Number(tid), connect: tid == 1} // well-formed connect carries id 1
				reqs[k] = q
				var pkt Packet
				if q.connect {
					p := NewConnectAppPacket()
					p.TransactionID = q.tid
					pkt = p
				} else {
					p := NewCreateStreamPacket()
					p.TransactionID = q.tid
					pkt = p
				}
				if err := pa.WritePacket(pkt, 0); err != nil {
					m.Violationf("c03:write-error:outstanding", rep, "request #%d: %v", k, err)
					return
				}
				// B consumes the request so that only A's table grows
				msg, err := pb.ReadMessage()
				if err != nil {
					m.Violationf("c03:read-error:outstanding", rep, "request #%d: %v", k, err)
					return
				}
				if _, err := pb.DecodeMessage(msg); err != nil {
					m.Violationf("c03:decode-error:outstanding", rep, "request #%d: %v", k, err)
					return
				}
			}
			if N > 1024 {
				m.Count("sessions_with_more_than_1024_outstanding", 1)
			}
			order := r.Perm(N)
			for _, k := range order {
				q := reqs[k]
				var resp Packet
				wantT := verifTCreateRes
				if q.connect {
					resp, wantT = NewConnectAppResPacket(q.tid), verifTConnRes
				} else {
					p := NewCreateStreamResPacket(q.tid)
					p.StreamID = amf0.Number(r.Range(1, 100))
					resp = p
				}
				twice := r.Chance(1, 16)
				for round := 0; round < 2; round++ {
					if round == 1 && !twice {
						break
					}
					if err := pb.WritePacket(resp, 0); err != nil {
						m.Violationf("c03:write-error:response", rep, "%v", err)
						return
					}
					msg, err := pa.ReadMessage()
					if err != nil {
						m.Violationf("c03:read-error:response", rep, "%v", err)
						return
					}
					pkt, err := pa.DecodeMessage(msg)
					m.Case()
					if round == 0 {
						if err != nil {
							m.Violationf("c03:result-not-matched:many-outstanding", rep, "_result for request #%d (tid=%v) of %d outstanding failed: %v", k, float64(q.tid), N, err)
							return
						}
						if reflect.TypeOf(pkt) != wantT {
							m.Violationf("c03:result-wrong-type:many-outstanding", rep, "_result for request #%d (tid=%v, connect=%v) decoded as %T", k, float64(q.tid), q.connect, pkt)
							return
						}
						m.Count("result_matched", 1)
					} else {
						if err == nil {
							m.Violationf("c03:result-matched-twice:many-outstanding", rep, "second _result for tid=%v decoded as %T", float64(q.tid), pkt)
							return
						}
						m.Count("result_duplicate", 1)
					}
				}
			}
			m.Classf("N:%d/fam:%d/all-matched", verifBucket(N), fam)
		})
	})
	// a connection that lives long: 70 000 request/response exchanges one after the other (ids 1, 2, 3, ... as clients
	// count them): the table must neither fill up nor keep answering for ids long consumed
	m.Guard("rtmp.sequential", nil, func() {
		r := m.Rand("sequential", 0)
		ca, cb, _, _ := vnet.Pair(vnet.SegRandom(r.Split(), 4096), vnet.SegWhole())
		pa, pb := NewProtocol(ca), NewProtocol(cb)
		rep := map[string]interface{}{"mode": "sequential"}
		for k := 1; k <= 70000; k++ {
			tid := amf0.Number(float64(k))
			var req Packet
			if k == 1 {
				p := NewConnectAppPacket()
				p.TransactionID = tid
				req = p
			} else {
				p := NewCreateStreamPacket()
				p.TransactionID = tid
				req = p
			}
			if err := pa.WritePacket(req, 0); err != nil {
				m.Violationf("c03:write-error:sequential", rep, "request %d: %v", k, err)
				return
			}
			if msg, err := pb.ReadMessage(); err != nil {
				m.Violationf("c03:read-error:sequential", rep, "request %d: %v", k, err)
				return
			} else if _, err := pb.DecodeMessage(msg); err != nil {
				m.Violationf("c03:decode-error:sequential", rep, "request %d: %v", k, err)
				return
			}
			var resp Packet
			wantT := verifTCreateRes
			if k == 1 {
				resp, wantT = NewConnectAppResPacket(tid), verifTConnRes
			} else {
				p := NewCreateStreamResPacket(tid)
				p.StreamID = amf0.Number(k)
				resp = p
			}
			pb.WritePacket(resp, 0)
			msg, err := pa.ReadMessage()
			if err != nil {
				m.Violationf("c03:read-error:response", rep, "%v", err)
				return
			}
			pkt, err := pa.DecodeMessage(msg)
			if err != nil || reflect.TypeOf(pkt) != wantT {
				m.Violationf("c03:result-not-matched:sequential", rep, "exchange %d of a long connection: _result for tid=%d: %T, %v", k, k, pkt, err)
				return
			}
			m.Case()
			m.Count("result_matched", 1)
			if k%5000 == 0 {
				// an answer for an id consumed long ago must still be refused
				old := NewCreateStreamResPacket(amf0.Number(float64(k - 4000)))
				pb.WritePacket(old, 0)
				if msg, err := pa.ReadMessage(); err == nil {
					if p2, err := pa.DecodeMessage(msg); err == nil {
						m.Violationf("c03:result-matched-twice:sequential", rep, "after %d exchanges a second _result for tid=%d decoded as %T", k, k-4000, p2)
						return
					}
				}
				m.Classf("sequential/%dk", k/1000)
			}
		}
		m.Count("sequential_exchanges_on_one_connection", 70000)
	})
	// the same long connection with transaction ids RE-USED from a small pool (a client that counts modulo something, or
	// always asks with the same few ids) and answers lagging 0..3 requests behind: an id may be asked again as soon as its
	// answer was read, and every answer must reach the request of that id that is outstanding NOW
	m.Guard("rtmp.sequential.reuse", nil, func() {
		r := m.Rand("sequential-reuse", 0)
		ca, cb, _, _ := vnet.Pair(vnet.SegRandom(r.Split(), 4096), vnet.SegWhole())
		pa, pb := NewProtocol(ca), NewProtocol(cb)
		rep := map[string]interface{}{"mode": "sequential-reuse"}
		pool := r.Pick(5, 40, 300)
		var outstanding []float64
		inFlight := map[float64]bool{}
		answer := func(k int) bool {
			tid := outstanding[0]
			outstanding = outstanding[1:]
			p := NewCreateStreamResPacket(amf0.Number(tid))
			p.StreamID = amf0.Number(k % 1000)
			pb.WritePacket(p, 0)
			msg, err := pa.ReadMessage()
			if err != nil {
				m.Violationf("c03:read-error:response", rep, "%v", err)
				return false
			}
			pkt, err := pa.DecodeMessage(msg)
			if err != nil || reflect.TypeOf(pkt) != verifTCreateRes {
				m.Violationf("c03:result-not-matched:sequential-reuse", rep, "exchange %d of a long connection (ids re-used from a pool of %d, %d still outstanding): _result for tid=%v: %T, %v", k, pool, len(outstanding), tid, pkt, err)
				return false
			}
			delete(inFlight, tid)
			m.Case()
			m.Count("result_matched", 1)
			return true
		}
		for k := 1; k <= 40000; k++ {
			var tid float64
			for {
				tid = float64(2 + r.Intn(pool))
				if !inFlight[tid] {
					break
				}
			}
			p := NewCreateStreamPacket()
			p.TransactionID = amf0.Number(tid)
			if err := pa.WritePacket(p, 0); err != nil {
				m.Violationf("c03:write-error:sequential", rep, "request %d: %v", k, err)
				return
			}
			if msg, err := pb.ReadMessage(); err != nil {
				m.Violationf("c03:read-error:sequential", rep, "request %d: %v", k, err)
				return
			} else if _, err := pb.DecodeMessage(msg); err != nil {
				m.Violationf("c03:decode-error:sequential", rep, "request %d: %v", k, err)
				return
			}
			inFlight[tid] = true
			outstanding = append(outstanding, tid)
			for len(outstanding) > r.Intn(4) {
				if !answer(k) {
					return
				}
			}
		}
		for len(outstanding) > 0 {
			if !answer(40000) {
				return
			}
		}
		m.Count("sequential_exchanges_with_reused_ids", 40000)
		m.Classf("sequential-reuse/pool%d", pool)
	})
}

// ---- typed waits ---------------------------------------------------------------------------

func TestVerif_C03_Expect(t *testing.T) {
	m := mon.New("C03", "expect")
	defer m.Finish(t)
	m.Rule("expect: a PRNG prefix of control and command packets (Set Chunk Size, window ack, peer bandwidth, user control, calls, responses to " +
		"registered requests) followed by a target and a suffix; ExpectPacket(&typed) / ExpectMessage(types...) must return the first element of " +
		"the requested type, having consumed exactly the elements before it (the next read returns the element after it); distinct = target kind x API x prefix length")
	n := m.N(2000, 400000)
	m.Require("evaluations", int64(n))
	mon.Parallel(n, func(w, i int) {
		r := m.Rand("expect", i)
		m.Case()
		ca, cb, _, _ := vnet.Pair(vnet.PickSeg(r), vnet.SegWhole())
		pa, pb := NewProtocol(ca), NewProtocol(cb)
		rep := map[string]interface{}{"case": i}
		m.Guard("rtmp.expect", nil, func() {
			targets := []string{"publish", "connect", "call", "userControl", "windowAck", "setPeerBandwidth", "setChunkSize", "createStreamRes", "connectRes"}
			tk := targets[r.Intn(len(targets))]
			useMsg := r.Chance(1, 3)
			prefixKinds := []string{"setChunkSize", "windowAck", "setPeerBandwidth", "userControl", "call", "closeStream", "play", "createStream", "publish", "connect", "res", "connectRes"}
			var kinds []string
			var payloads [][]byte
			var types []MessageType
			nextTid := 2
			send := func(kind string) {
				var pkt Packet
				if kind == "res" || kind == "createStreamRes" || kind == "connectRes" {
					// B registers a request first, so that the response is decodable by B
					if kind == "connectRes" {
						req := NewConnectAppPacket()
						req.TransactionID = amf0.Number(nextTid) // distinct ids: several responses may be in flight before B reads them
						pb.onPacketWriten(nil, req)
						p := NewConnectAppResPacket(amf0.Number(nextTid))
						nextTid++
						p.CommandObject = amfx.BuildObject(verifGenObjTree(r))
						pkt = p
					} else {
						req := NewCreateStreamPacket()
						req.TransactionID = amf0.Number(nextTid)
						pb.onPacketWriten(nil, req)
						p := NewCreateStreamResPacket(amf0.Number(nextTid))
						p.StreamID = amf0.Number(nextTid * 10)
						nextTid++
						pkt = p
					}
				} else {
					c := verifGenPacket(r, kind)
					if kind == "setChunkSize" {
						c.pkt.(*SetChunkSize).ChunkSize = uint32(r.Pick(1, 64, 128, 4096))
					}
					pkt = c.pkt
				}
				b, _ := pkt.MarshalBinary()
				if err := pa.WritePacket(pkt, 0); err != nil {
					m.Violationf("c03:write-error:expect", rep, "%v", err)
				}
				kinds = append(kinds, kind)
				payloads = append(payloads, b)
				types = append(types, pkt.Type())
			}
			goType := func(kind string) reflect.Type {
				switch kind {
				case "publish":
					return verifTPublish
				case "connect":
					return verifTConnect
				case "call", "closeStream", "play", "createStream":
					return verifTCall
				case "userControl":
					return verifTUC
				case "windowAck":
					return verifTWAS
				case "setPeerBandwidth":
					return verifTSPB
				case "setChunkSize":
					return verifTSCS
				case "createStreamRes", "res":
					return verifTCreateRes
				case "connectRes":
					return verifTConnRes
				}
				return nil
			}
			np := r.Range(0, 8)
			for k := 0; k < np; k++ {
				pk := prefixKinds[r.Intn(len(prefixKinds))]
				// structurally identical packet types before the target (a connect request before an awaited
				// connect response and vice versa) are the interesting neighbours of a typed wait
				if (tk == "connectRes" || tk == "connect") && r.Chance(1, 3) {
					pk = map[string]string{"connectRes": "connect", "connect": "connectRes"}[tk]
				}
				send(pk)
			}
			ti := len(kinds)
			send(tk)
			ns := r.Range(1, 3)
			for k := 0; k < ns; k++ {
				send([]string{"windowAck", "userControl", "call"}[r.Intn(3)])
			}
			// model: first element of the requested type
			wantT := goType(tk)
			first := -1
			if useMsg {
				for k := range kinds {
					if types[k] == types[ti] {
						first = k
						break
					}
				}
			} else {
				for k := range kinds {
					if goType(kinds[k]) == wantT {
						first = k
						break
					}
				}
			}
			var gotPayload []byte
			if useMsg {
				msg, err := pb.ExpectMessage(types[ti])
				if err != nil {
					m.Violationf("c03:expect-message-error", rep, "ExpectMessage failed: %v; kinds=%v", err, kinds)
					return
				}
				gotPayload = msg.Payload
			} else {
				var err error
				var msg *Message
				switch tk {
				case "publish":
					var p *PublishPacket
					msg, err = pb.ExpectPacket(&p)
					if err == nil && p == nil {
						err = fmt.Errorf("target not set")
					}
				case "connect":
					var p *ConnectAppPacket
					msg, err = pb.ExpectPacket(&p)
				case "call":
					var p *CallPacket
					msg, err = pb.ExpectPacket(&p)
				case "userControl":
					var p *UserControl
					msg, err = pb.ExpectPacket(&p)
				case "windowAck":
					var p *WindowAcknowledgementSize
					msg, err = pb.ExpectPacket(&p)
				case "setPeerBandwidth":
					var p *SetPeerBandwidth
					msg, err = pb.ExpectPacket(&p)
				case "setChunkSize":
					var p *SetChunkSize
					msg, err = pb.ExpectPacket(&p)
				case "createStreamRes":
					var p *CreateStreamResPacket
					msg, err = pb.ExpectPacket(&p)
				case "connectRes":
					var p *ConnectAppResPacket
					msg, err = pb.ExpectPacket(&p)
				}
				if err != nil {
					m.Violationf("c03:expect-packet-error", rep, "ExpectPacket(%s) failed: %v; kinds=%v", tk, err, kinds)
					return
				}
				gotPayload = msg.Payload
			}
			m.Classf("%s/msgapi=%v/prefix%d/first%d", tk, useMsg, np, first)
			if !bytes.Equal(gotPayload, payloads[first]) {
				m.Violationf("c03:expect-returned-wrong-element", rep, "typed wait for %s did not return element %d of %v", tk, first, kinds)
				return
			}
			// everything after it is still readable, in order
			for k := first + 1; k < len(kinds); k++ {
				msg, err := pb.ReadMessage()
				if err != nil || !bytes.Equal(msg.Payload, payloads[k]) {
					m.Violationf("c03:expect-consumed-too-much", rep, "after the typed wait, element %d of %v is not the next message (err=%v)", k, kinds, err)
					return
				}
			}
			m.Count("typed_waits_ok", 1)
		})
	})
	m.Require("typed_waits_ok", int64(n*9/10))
}

