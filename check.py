#!/usr/bin/env python3
"""Driver: one property per invocation.

  python3 check.py C05 [--tier quick|thorough] [--replay replays/x.json] [--keep]
  python3 check.py --setup            warm the build cache (MANIFEST.setup_cmd)
  python3 check.py --list

Runs the property's monitor parts as `go test` child processes against /repo's current
working tree (overlay-injected in-package tests, tag `verif`), merges what the monitors
observed, applies known_findings.json, writes evidence/<id>.json and prints
  VIOLATION property=<id> replay=<path>      (exit 1)
  KNOWN-FINDING: property=<id> <what fails>  (exit 0)
  INCONCLUSIVE property=<id> <why>           (exit 2, never a VIOLATION line)
"""
import argparse, glob, hashlib, json, os, re, shutil, subprocess, sys, time

VERIF = os.path.dirname(os.path.abspath(__file__))
HARNESS = os.path.join(VERIF, "harness")
REPO = "/repo"
BUILD = os.path.join(VERIF, "build")
LIBMOD = "github.com/ossrs/go-oryx-lib"

sys.path.insert(0, VERIF)
from checks import CHECKS  # noqa: E402


def goenv(extra=None):
    e = dict(os.environ)
    e.update({"GOFLAGS": "-mod=mod", "GOPROXY": "off", "GOSUMDB": "off", "GOTOOLCHAIN": "local",
              "GONOSUMDB": "*", "GONOSUMCHECK": "1", "GOFLAGS_EXTRA": ""})
    if extra:
        e.update(extra)
    return e


def make_overlay(path, extra=None):
    """Every file under harness/inject/<pkgdir>/ is mapped into /repo/<pkgdir>/zz_verif_<name>."""
    rep = {}
    inj = os.path.join(HARNESS, "inject")
    for root, _, files in os.walk(inj):
        rel = os.path.relpath(root, inj)
        for f in files:
            if f.endswith(".go"):
                rep[os.path.join(REPO, rel, "zz_verif_" + f)] = os.path.join(root, f)
    # experiments only (never used by MANIFEST commands): VERIF_EXTRA_OVERLAY=<json {"/repo/x.go": "/tmp/mutant/x.go"}>
    # lets a candidate patch or a mutant be tried without touching /repo
    xo = os.environ.get("VERIF_EXTRA_OVERLAY")
    if xo:
        rep.update(json.load(open(xo)))
    if extra:
        rep.update(extra)  # instrumented copies (generated from the possibly patched sources) win
    with open(path, "w") as fh:
        json.dump({"Replace": rep}, fh, indent=1)
    return path


def instrument(pkgs, outdir):
    """Run the step-counter pass over the given repo package dirs; returns overlay additions."""
    os.makedirs(outdir, exist_ok=True)
    cmd = ["go", "run", "./cmd/instrument", "-repo", REPO, "-out", outdir]
    if os.environ.get("VERIF_EXTRA_OVERLAY"):
        cmd += ["-subst", os.environ["VERIF_EXTRA_OVERLAY"]]  # experiments: instrument the patched file, not /repo's
    cmd += pkgs
    r = subprocess.run(cmd, cwd=HARNESS, env=goenv(), capture_output=True, text=True)
    if r.returncode != 0:
        raise RuntimeError("instrument failed: " + r.stdout + r.stderr)
    return json.loads(r.stdout)


def part_cmd(part, overlay, tier):
    pkg = part["pkg"]
    if not pkg.startswith("verifharness") and not pkg.startswith("github.com"):
        pkg = LIBMOD + "/" + pkg
    cmd = ["go", "test", "-vet=off", "-count=1", "-tags", "verif", "-overlay", overlay,
           "-run", part["run"], "-timeout", "0", "-v"]
    if part.get("race"):
        cmd.append("-race")
    elif part.get("asan"):
        cmd.append("-asan")
    elif part.get("checkptr", True):
        cmd.append("-gcflags=all=-d=checkptr")
    if os.environ.get("VERIF_COVER") and not part.get("fuzz") and not part.get("instrument"):
        # experiments only: statement coverage of the library by this part (merged by tools/coverage.sh)
        cmd += ["-coverpkg", LIBMOD + "/...", "-coverprofile", os.path.join(os.environ["VERIF_COVER"], "%s.cov" % part["name"])]
    if part.get("fuzz"):
        cmd += ["-fuzz", part["fuzz"], "-fuzztime", part["fuzztime"][tier], "-parallel", "16"]
    cmd.append(pkg)
    return cmd


RACE_RE = re.compile(r"WARNING: DATA RACE")


def race_blocks(text):
    """Split race detector output into blocks; key = outermost library-ish frames, line numbers stripped."""
    blocks = []
    cur = None
    for line in text.splitlines():
        if RACE_RE.search(line):
            cur = []
            blocks.append(cur)
        elif cur is not None:
            if line.startswith("=================="):
                cur = None
            else:
                cur.append(line)
    keys = {}
    for b in blocks:
        funcs = [l.strip() for l in b if re.match(r"^\s+\S+\(.*\)$", l) or re.match(r"^\s+[\w./*()\-\[\]]+\(\)$", l)]
        funcs = [re.sub(r"\(0x[0-9a-f, x]*\)", "()", f) for f in funcs]
        libf = [f for f in funcs if "go-oryx-lib" in f and "erif" not in f]
        key = " | ".join(sorted(set(libf[:2]))) if libf else " | ".join(funcs[:2])
        keys.setdefault(key, []).append("\n".join(b[:40]))
    return keys


def run_part(pid, part, tier, seed, outdir, replay):
    overlay_extra = None
    if part.get("instrument"):
        overlay_extra = instrument(part["instrument"], os.path.join(outdir, "instr"))
    overlay = make_overlay(os.path.join(outdir, "overlay.%s.json" % part["name"]), overlay_extra)
    cmd = part_cmd(part, overlay, tier)
    log = os.path.join(outdir, part["name"] + ".log")
    env = goenv({"VERIF_TIER": tier, "VERIF_SEED": str(seed), "VERIF_OUT": outdir, "VERIF_PART": part["name"],
                 "GORACE": "halt_on_error=0 clear_shadow_mmap_threshold=4294967296 log_path=%s" % os.path.join(outdir, "race." + part["name"])})
    if part.get("env"):
        env.update(part["env"])
    if replay:
        env["VERIF_REPLAY"] = replay
    tmo = part.get("timeout", {"quick": 900, "thorough": 7200})[tier]
    t0 = time.time()
    with open(log, "w") as fh:
        fh.write("# " + " ".join(cmd) + "\n")
        fh.flush()
        p = subprocess.run(["timeout", "-s", "QUIT", "-k", "30", str(tmo)] + cmd, cwd=HARNESS, env=env,
                           stdout=fh, stderr=subprocess.STDOUT)
    wall = time.time() - t0
    text = open(log, errors="replace").read()
    res = {"name": part["name"], "exit": p.returncode, "wall": wall, "result": None, "fatal": [], "races": {},
           "timeout": p.returncode in (124, 137) or (p.returncode == 2 and "SIGQUIT" in text and wall >= tmo - 1),
           "build_failed": "[build failed]" in text or "[setup failed]" in text}
    rf = os.path.join(outdir, "result.%s.%s.json" % (pid, part["name"]))
    if os.path.exists(rf):
        try:
            res["result"] = json.load(open(rf))
        except Exception as ex:  # truncated file = the child died while writing
            res["fatal"].append("unreadable result file: %s" % ex)
    if part.get("fuzz") and not res["build_failed"]:
        # native fuzzing: workers are separate processes; the coordinator's log gives the exec count, the fuzz
        # function records recovered panics as fuzzviol.*.json files
        execs = [int(x) for x in re.findall(r"execs: (\d+)", text)]
        interesting = re.findall(r"new interesting: \d+ \(total: (\d+)\)", text)
        viols = []
        for f in sorted(glob.glob(os.path.join(outdir, "fuzzviol.*.json"))):
            try:
                v = json.load(open(f))
                v["count"] = 1
                viols.append(v)
            except Exception:
                pass
            os.rename(f, f + ".seen")
        res["result"] = {"evaluations": max(execs) if execs else 0, "distinct": int(interesting[-1]) if interesting else 0,
                         "samples": [], "violations": viols, "unmet": [] if execs else ["fuzz engine reported no executions"],
                         "counters": {"fuzz_execs": max(execs) if execs else 0, "coverage_interesting_inputs": int(interesting[-1]) if interesting else 0},
                         "notes": {}, "class_top": {}, "wall_s": wall, "rule": "", "exhaustive": False, "assumptions": []}
    # process-fatal reports
    for m in re.finditer(r"^(fatal error: .*|panic: .*|SIGSEGV.*|runtime: goroutine stack exceeds.*)$", text, re.M):
        line = m.group(1)
        if res["timeout"] and "SIGQUIT" in line:
            continue
        if line.startswith("panic: test timed out"):
            res["timeout"] = True
            continue
        res["fatal"].append(line)
    # races: log files plus anything in the main log
    rtext = text
    for f in glob.glob(os.path.join(outdir, "race.%s.*" % part["name"])):
        rtext += "\n" + open(f, errors="replace").read()
    res["races"] = race_blocks(rtext)
    res["log"] = log
    return res


def load_findings():
    p = os.path.join(VERIF, "known_findings.json")
    if not os.path.exists(p):
        return {"open": [], "fixed": []}
    return json.load(open(p))


def run_check(pid, tier, seed, replay=None, keep=False):
    spec = CHECKS[pid]
    outdir = os.path.join(BUILD, "out", pid)
    # one run per property at a time: concurrent runs of the same check would share this directory (overlay, race logs,
    # result files) and read each other's observations; a second run waits for the first
    os.makedirs(os.path.join(BUILD, "out"), exist_ok=True)
    import fcntl
    lock = open(os.path.join(BUILD, "out", pid + ".lock"), "w")
    fcntl.flock(lock, fcntl.LOCK_EX)
    globals().setdefault("_LOCKS", []).append(lock)  # held until the process exits
    shutil.rmtree(outdir, ignore_errors=True)
    os.makedirs(outdir)
    os.makedirs(os.path.join(VERIF, "evidence"), exist_ok=True)
    os.makedirs(os.path.join(VERIF, "replays"), exist_ok=True)
    git_before = subprocess.run(["git", "-C", REPO, "status", "--porcelain"], capture_output=True, text=True).stdout
    t0 = time.time()
    parts = []
    for part in spec["parts"]:
        if tier not in part.get("tiers", ("quick", "thorough")):
            continue
        dep = part.get("skip_if_budget_exceeded_in")
        if dep:
            # a decoder that does not return would only cost the uninstrumented twin of this part its whole watchdog
            # period: the instrumented part has already decided "does not return" deterministically
            prev = [x for x in parts if x["name"] == dep and x.get("result")]
            if prev and any(v["sig"].startswith("c07:tick-budget-exceeded") for v in prev[0]["result"]["violations"]):
                print("[check] %s part %-14s skipped: part %s already reported a tick-budget overrun" % (pid, part["name"], dep), flush=True)
                continue
        r = run_part(pid, part, tier, seed, outdir, replay)
        parts.append(r)
        print("[check] %s part %-14s exit=%s wall=%.1fs%s" % (pid, r["name"], r["exit"], r["wall"],
              " TIMEOUT" if r["timeout"] else ""), flush=True)
    wall = time.time() - t0
    git_after = subprocess.run(["git", "-C", REPO, "status", "--porcelain"], capture_output=True, text=True).stdout
    if git_after != git_before:
        print("[check] WARNING: /repo working tree changed during the run:\n" + git_after)

    violations = []   # dicts: sig, detail, replay, part, count
    inconclusive = []
    evaluations = 0
    distinct = 0
    samples = []
    coverage_extra = {}
    assumptions = list(spec.get("assumptions", []))
    rules = []
    exhaustive = None
    for r in parts:
        res = r["result"]
        if r["build_failed"]:
            tail = "\n".join(open(r["log"], errors="replace").read().splitlines()[-30:])
            inconclusive.append("part %s: build failed\n%s" % (r["name"], tail))
            continue
        if r["timeout"]:
            inconclusive.append("part %s: watchdog fired after %.0fs (no verdict from that part)" % (r["name"], r["wall"]))
        for line in r["fatal"]:
            li = sorted(glob.glob(os.path.join(outdir, "last_input.%s.%s.*" % (pid, r["name"]))))
            rep = {"log": r["log"], "last_inputs": {}}
            for f in li:
                b = open(f, "rb").read()
                rep["last_inputs"][os.path.basename(f)] = b[:8192].hex()
            violations.append({"sig": "fatal:%s:%s" % (r["name"], re.sub(r"0x[0-9a-f]+|\d+", "N", line)[:200]),
                               "detail": line, "replay": rep, "part": r["name"], "count": 1})
        for key, blocks in r["races"].items():
            violations.append({"sig": "race:%s:%s" % (r["name"], key), "detail": blocks[0], "part": r["name"],
                               "replay": {"log": r["log"], "reports": len(blocks)}, "count": len(blocks)})
        coverage_extra.setdefault("race_reports", 0)
        coverage_extra["race_reports"] += sum(len(b) for b in r["races"].values())
        if res is None:
            if not r["timeout"] and not r["fatal"]:
                tail = "\n".join(open(r["log"], errors="replace").read().splitlines()[-25:])
                inconclusive.append("part %s: no result file (exit %s)\n%s" % (r["name"], r["exit"], tail))
            continue
        evaluations += res["evaluations"]
        distinct += res["distinct"]
        for s in res["samples"]:
            samples.append({"part": r["name"], "case": s})
        for v in res["violations"]:
            v = dict(v)
            v["part"] = r["name"]
            violations.append(v)
        for u in res.get("unmet") or []:
            inconclusive.append("part %s: mandatory observation not reached: %s" % (r["name"], u))
        coverage_extra.setdefault("parts", {})[r["name"]] = {
            "evaluations": res["evaluations"], "distinct": res["distinct"], "counters": res["counters"],
            "notes": res.get("notes") or {}, "class_top": res.get("class_top") or {}, "wall_s": round(res["wall_s"], 2),
            "race_build": bool([p for p in spec["parts"] if p["name"] == r["name"]][0].get("race"))}
        assumptions += res.get("assumptions") or []
        if res.get("rule"):
            rules.append("%s: %s" % (r["name"], res["rule"]))
        exhaustive = res["exhaustive"] if exhaustive is None else (exhaustive and res["exhaustive"])

    # known findings
    kf = load_findings()
    open_f = [f for f in kf.get("open", []) if f["property"] == pid]
    new_viol, known_hits = [], {}
    for v in violations:
        hit = None
        for f in open_f:
            if re.search(f["match"], v["sig"]):
                hit = f
                break
        if hit:
            known_hits[hit["id"]] = known_hits.get(hit["id"], 0) + v.get("count", 1)
        else:
            new_viol.append(v)

    status = 0
    for f in open_f:
        print("KNOWN-FINDING: property=%s %s [%s; observed %d times in this run]" % (pid, f["what"], f["id"], known_hits.get(f["id"], 0)))
    for v in new_viol:
        h = hashlib.sha1(v["sig"].encode()).hexdigest()[:10]
        rp = os.path.join(VERIF, "replays", "%s-%s.json" % (pid, h))
        json.dump({"property": pid, "tier": tier, "seed": seed, "part": v.get("part"), "sig": v["sig"],
                   "detail": v["detail"], "count": v.get("count", 1), "replay": v.get("replay")}, open(rp, "w"), indent=1)
        print("VIOLATION property=%s replay=%s" % (pid, rp))
        print("  sig: %s\n  count: %d\n  detail: %s" % (v["sig"], v.get("count", 1), str(v["detail"]).splitlines()[0][:300] if v["detail"] else ""))
        status = 1
    if status == 0 and inconclusive:
        for i in inconclusive:
            print("INCONCLUSIVE property=%s %s" % (pid, i))
        status = 2

    if not samples:
        # a monitor that recorded no explicit samples: fall back to class signatures it actually observed
        for pn, pv in (coverage_extra.get("parts") or {}).items():
            for k in list(pv.get("class_top", {}))[:4]:
                samples.append({"part": pn, "case": {"observed_class": k, "times": pv["class_top"][k]}})
    cov = {"evaluations": int(evaluations), "distinct_nontrivial": int(distinct),
           "rule": " || ".join(rules) if rules else spec.get("rule", ""),
           "samples": samples[:12] if samples else [], "exhaustive": bool(exhaustive)}
    cov.update(coverage_extra)
    cov["known_findings_observed"] = known_hits
    cov["inconclusive"] = inconclusive
    cov["verdict"] = {0: "held on what was observed", 1: "violated", 2: "inconclusive"}[status]
    ev = {"property_id": pid, "tier": tier, "seed": int(seed), "level": spec["level"], "coverage": cov,
          "assumptions": assumptions, "wall_s": round(wall, 2), "violations": len(new_viol)}
    if not replay:
        json.dump(ev, open(os.path.join(VERIF, "evidence", pid + ".json"), "w"), indent=1)
    print("[check] %s tier=%s seed=%s evaluations=%d distinct=%d violations=%d known=%s wall=%.1fs -> %s" % (
        pid, tier, seed, evaluations, distinct, len(new_viol), known_hits, wall, cov["verdict"]), flush=True)
    if not keep and status == 0:
        shutil.rmtree(os.path.join(outdir, "instr"), ignore_errors=True)
    return status


def setup():
    """Warm the build cache: compile every part's test binary once (no tests run)."""
    os.makedirs(os.path.join(BUILD, "out", "_setup"), exist_ok=True)
    overlay = make_overlay(os.path.join(BUILD, "out", "_setup", "overlay.json"))
    seen = set()
    ok = True
    for pid, spec in CHECKS.items():
        for part in spec["parts"]:
            if part.get("instrument") or part.get("fuzz"):
                continue
            cmd = part_cmd(part, overlay, "quick")
            i = cmd.index("-run")
            cmd[i + 1] = "^$"
            key = tuple(cmd)
            if key in seen:
                continue
            seen.add(key)
            r = subprocess.run(cmd, cwd=HARNESS, env=goenv(), capture_output=True, text=True)
            print("[setup] %s/%s: %s" % (pid, part["name"], "ok" if r.returncode == 0 else "FAILED\n" + r.stdout + r.stderr), flush=True)
            ok = ok and r.returncode == 0
    return 0 if ok else 1


def main():
    ap = argparse.ArgumentParser()
    ap.add_argument("property", nargs="?")
    ap.add_argument("--tier", default=os.environ.get("VERIF_TIER", "quick"))
    ap.add_argument("--seed", default=os.environ.get("VERIF_SEED", "1"))
    ap.add_argument("--replay")
    ap.add_argument("--keep", action="store_true")
    ap.add_argument("--setup", action="store_true")
    ap.add_argument("--list", action="store_true")
    a = ap.parse_args()
    if a.setup:
        sys.exit(setup())
    if a.list:
        for k in CHECKS:
            print(k, [p["name"] for p in CHECKS[k]["parts"]])
        return
    if a.property not in CHECKS:
        print("unknown property", a.property)
        sys.exit(3)
    tier, seed = a.tier, int(a.seed)
    if a.replay:
        a.replay = os.path.abspath(a.replay)
        rp = json.load(open(a.replay))
        tier, seed = rp.get("tier", tier), rp.get("seed", seed)
    if tier not in ("quick", "thorough"):
        tier = "quick"
    sys.exit(run_check(a.property, tier, seed, replay=a.replay, keep=a.keep))


if __name__ == "__main__":
    main()
