CHECK = {
    "level": "exploration",
    "engine": "flv-tags",
    "technique": "exhaustive runtime sweeps of the audio/video packagers over the statement's field grid in two directions (frame -> Encode -> Decode, and layout-built canonical body -> Decode -> Encode), once in grid order on short-lived packagers and once in PRNG order on long-lived packagers (state carried between calls) plus an exhaustive sweep of the rate-code conversions over all 256 values of the enum's underlying type",
    "level_text": "Held on the executions observed: the whole declared grid is executed in both tiers - audio: 16 formats x rate x size x channels, AAC trait byte 0..255, Opus all 8 trait-flag subsets (canonical bodies: all 256 trait bytes) x rate codes 8/12/16/24/48 x levels 0/1/0xFF/0x100/0xFFFF; video: all 256 first bytes, AVC/HEVC trait byte 0..255 x composition time 0/1/0xFFFF/0x10000/0xFFFFFF; payload lengths 0..5 and 1000 with PRNG bytes (about 1.5 million Encode/Decode pairs: every grid case twice, the second time in PRNG order on 8 long-lived packagers), and every value 0..255 through ToHz and OpusToHz. Field values are exhaustive over that grid; payload contents, payload lengths beyond the list and composition times beyond the five values are sampled (thorough tier only adds random ones). Not a proof.",
    "level_note": "Trusts the harness's layout table (refflv/bodies.go: FLV E.4.2/E.4.3 as in DESIGN.md section 6, Opus side fields from the library's own documentation comments) for what a canonical body is, and Go's runtime. Only the placement of codec id / frame type in byte 0 is asserted against the layout; whether Encode equals the layout in the other bits is counted, not asserted. A body produced by Encode and rejected by Decode is a violation; a canonical body that is rejected is only counted (the statement quantifies over accepted bodies). Opus frames without the rate flag have rate 0 by definition. Composition times are the unsigned 24-bit values of the statement (negative CTS is outside it). Beyond the letter of the statement, the rates part also requires ToHz/OpusToHz to return (any value) for codes that are not defined - reported under the separate signature c10:rate-conversion-panics-undefined:* so it can be dispositioned on its own.",
    "parts": [
        {"name": "audio", "pkg": "verifharness/prop/c10", "run": "^TestVerif_C10_Audio$",
         "timeout": {"quick": 600, "thorough": 3600}},
        {"name": "video", "pkg": "verifharness/prop/c10", "run": "^TestVerif_C10_Video$",
         "timeout": {"quick": 600, "thorough": 3600}},
        {"name": "rates", "pkg": "verifharness/prop/c10", "run": "^TestVerif_C10_Rates$",
         "timeout": {"quick": 300, "thorough": 300}},
    ],
    "assumptions": [
        "frames outside the wire's field widths (format > 15, FLV rate > 3 on non-Opus frames, size/type > 1, CTS >= 2^24 or negative) are outside the statement and not generated",
        "for formats other than AAC/Opus the frame's Trait and AudioLevel are zero (the body has no place for them); for codecs other than AVC/HEVC the frame's Trait and CTS are zero",
        "Opus side fields follow the trait byte in flag order: rate byte (flag 0x04), then big-endian 16-bit level (flag 0x08)",
    ],
}
