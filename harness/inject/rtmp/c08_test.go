// C08 — I/O failures surface as errors that keep their root cause (RTMP part, in-package).
package rtmp

import (
	"bytes"
	"errors"
	"fmt"
	"io"
	"math/rand"
	"net"
	"sort"
	"testing"

	oe "github.com/ossrs/go-oryx-lib/errors"
	"verifharness/lib/mon"
	"verifharness/lib/refrtmp"
	"verifharness/lib/vnet"
	"verifharness/lib/vrand"
)

var verifSentinel = errors.New("verif: injected transport failure")

// a transport error that is itself a standard-library wrapper (as real sockets return): the root cause the
// statement asks for is this very value, not what it wraps
var verifSentinelOp error = &net.OpError{Op: "read", Net: "tcp", Err: fmt.Errorf("verif: %w", errors.New("connection reset by peer"))}

// counters of the re-used C02 trace generator go here when C08 borrows it (never written out)
var verifScratchMon = mon.New("C08", "scratch-unused")

// verifC08Session builds a byte stream and the reference completion offsets.
func verifC08Session(r *vrand.Rand, big bool) (data []byte, msgs []verifMsg, ends []int, src string) {
	if r.Bool() {
		// written by the library writer
		q := vnet.NewQueue(vnet.SegWhole())
		q.KeepLog = true
		p := NewProtocol(vnet.RW{Reader: bytes.NewReader(nil), Writer: q})
		c := uint32(128)
		for k := 0; k < r.Range(1, 8); k++ {
			if r.Chance(1, 5) {
				c = uint32(r.Pick(1, 64, 128, 300, 4096))
				pkt := NewSetChunkSize()
				pkt.ChunkSize = c
				p.WritePacket(pkt, 0)
			}
			cap := 600
			if big {
				cap = 20000
			}
			p.WriteMessage(verifToLib(verifGenMessage(r, c, cap)))
		}
		data = q.Log
		src = "libwriter"
	} else {
		// written by the reference chunker, with interleaving
		w, _ := verifRandomTraceSmall(r, big)
		data = w.data
		src = "refchunker"
	}
	d := refrtmp.NewDechunker()
	rm, e, _ := d.All(data)
	for _, x := range rm {
		msgs = append(msgs, verifFromRef(x))
	}
	if d.ExtOnNonType0Start > 0 {
		// The trace contains the one timestamp deviation that C02 lists as a known finding (extended timestamp on
		// a type 1/2/3 message start read as absolute).  C08 is not about that: expect the timestamps of the
		// "specification + that deviation" model here, so that C08 judges only completeness, order and root cause.
		d2 := refrtmp.NewDechunker()
		d2.AbsExt = true
		rm2, _, _ := d2.All(data)
		msgs = msgs[:0]
		for _, x := range rm2 {
			msgs = append(msgs, verifFromRef(x))
		}
	}
	return data, msgs, e, src
}

// a shorter variant of the C02 random trace (conformant, no terminal fault)
func verifRandomTraceSmall(r *vrand.Rand, big bool) (verifWire, string) {
	for {
		w, d := verifRandomTrace(r, verifScratchMon)
		max := 6000
		if big {
			max = 60000
		}
		if !w.faulty && len(w.data) <= max && len(w.data) > 0 {
			return w, d
		}
	}
}

func verifIsEOF(err error) bool {
	c := oe.Cause(err)
	return c == io.EOF || c == io.ErrUnexpectedEOF
}

// verifReadUntilError reads messages until the first error.
func verifReadUntilError(rd io.Reader, max int) ([]verifMsg, error) {
	p := NewProtocol(vnet.RW{Reader: rd, Writer: io.Discard})
	var out []verifMsg
	for len(out) <= max {
		m, err := p.ReadMessage()
		if err != nil {
			return out, err
		}
		if m == nil {
			return out, fmt.Errorf("verif: nil message with nil error")
		}
		out = append(out, verifFromLib(m))
	}
	return out, nil
}

func verifCheckPrefix(m *mon.M, sig string, rep map[string]interface{}, msgs []verifMsg, ends []int, delivered int, got []verifMsg, err error, wantSentinel bool) bool {
	return verifCheckPrefixS(m, sig, rep, msgs, ends, delivered, got, err, wantSentinel, verifSentinel)
}

func verifCheckPrefixS(m *mon.M, sig string, rep map[string]interface{}, msgs []verifMsg, ends []int, delivered int, got []verifMsg, err error, wantSentinel bool, sentinel error) bool {
	// expected: exactly the messages wholly inside the delivered prefix
	nexp := sort.SearchInts(ends, delivered+1)
	if err == nil {
		m.Violationf(sig+":nil-error", rep, "reader returned no error although the transport failed after %d bytes", delivered)
		return false
	}
	if len(got) != nexp {
		m.Violationf(sig+":wrong-message-count", rep, "%d bytes delivered contain %d complete messages, the reader returned %d before failing with %v", delivered, nexp, len(got), err)
		return false
	}
	for k := range got {
		if ok, why := verifSame(msgs[k], got[k]); !ok {
			m.Violationf(sig+":message-altered", rep, "message %d before the failure: %s", k, why)
			return false
		}
	}
	if wantSentinel {
		if oe.Cause(err) != sentinel {
			m.Violationf(sig+":root-cause-lost", rep, "root cause is %T %q, not the transport's error %T (full error: %v)", oe.Cause(err), oe.Cause(err), sentinel, err)
			return false
		}
	} else if !verifIsEOF(err) {
		m.Violationf(sig+":root-cause-not-eof", rep, "cut stream: root cause is %T %q (full error: %v)", oe.Cause(err), oe.Cause(err), err)
		return false
	}
	return true
}

func TestVerif_C08_RtmpRead(t *testing.T) {
	m := mon.New("C08", "rtmpread")
	defer m.Finish(t)
	m.Rule("rtmpread: generated sessions (library writer; reference chunker with interleaving); for each: EVERY cut offset 0..N (all structure " +
		"boundaries +-2 plus a PRNG sample when N > 8 KiB) under a PRNG segmentation, and an injected sentinel error at EVERY read call index under " +
		"{whole, random, 1-byte (N<=2000)} segmentation, each once as a permanent and once as a transient (one call only) failure; completion offsets from the reference parser; distinct = (session, fault position)")
	n := m.N(40, 12000)
	m.Require("cut_offsets_enumerated", int64(n*100))
	m.Require("read_call_indexes_enumerated", int64(n*20))
	m.Require("transient_read_faults_enumerated", int64(n*20))
	m.Require("sessions_exhaustive_in_offsets", int64(n/2))
	mon.Parallel(n, func(w, i int) {
		r := m.Rand("sess", i)
		big := i%10 == 9
		data, msgs, ends, src := verifC08Session(r, big)
		N := len(data)
		rep := map[string]interface{}{"case": i, "source": src, "length": N, "messages": len(msgs)}
		if m.WantSample() {
			m.Sample(map[string]interface{}{"case": i, "source": src, "length": N, "message_ends": ends})
		}
		// 1. cut offsets
		var cuts []int
		if N <= 8192 {
			for c := 0; c <= N; c++ {
				cuts = append(cuts, c)
			}
			m.Count("sessions_exhaustive_in_offsets", 1)
		} else {
			set := map[int]bool{0: true, N: true}
			for _, e := range ends {
				for d := -2; d <= 2; d++ {
					if e+d >= 0 && e+d <= N {
						set[e+d] = true
					}
				}
			}
			for k := 0; k < 1500; k++ {
				set[r.Intn(N+1)] = true
			}
			for c := range set {
				cuts = append(cuts, c)
			}
			sort.Ints(cuts)
		}
		m.Guard("rtmp.c08.cut", nil, func() {
			for _, c := range cuts {
				m.Case()
				rep["cut"] = c
				rd := &vnet.CutReader{Data: data, Cut: c, Seg: vnet.PickSeg(r)}
				got, err := verifReadUntilError(rd, len(msgs)+1)
				m.Count("cut_offsets_enumerated", 1)
				if !verifCheckPrefix(m, "c08:rtmp-cut", rep, msgs, ends, c, got, err, false) {
					return
				}
				// the same cut, with the last bytes arriving together with io.EOF in one Read
				rd = &vnet.CutReader{Data: data, Cut: c, Seg: vnet.PickSeg(r), DataWithErr: true}
				got, err = verifReadUntilError(rd, len(msgs)+1)
				m.Count("cut_offsets_data_with_eof", 1)
				if !verifCheckPrefix(m, "c08:rtmp-cut:data+eof", rep, msgs, ends, c, got, err, false) {
					return
				}
			}
			m.Classf("cuts/%s/msgs%d", src, len(msgs))
		})
		delete(rep, "cut")
		// 2. injected error at every read call index
		segs := []func() vnet.Seg{vnet.SegWhole, func() vnet.Seg { return vnet.SegRandom(r.Split(), 200) }}
		if N <= 2000 {
			segs = append(segs, vnet.SegOne)
		}
		m.Guard("rtmp.c08.readfault", nil, func() {
			for si, mk := range segs {
				// how many read calls does a clean run make?
				clean := &vnet.CutReader{Data: data, Cut: N, Seg: mk()}
				verifReadUntilError(clean, len(msgs)+1)
				calls := clean.Reads
				for k := 1; k <= calls; k++ {
					m.Case()
					rep["fail_read_call"] = k
					rep["seg"] = si
					var rd *vnet.CutReader
					if si == 1 {
						// the random segmentation must be replayed identically: re-seed per k
						rd = &vnet.CutReader{Data: data, Cut: N, Seg: vnet.SegRandom(vrand.New(uint64(i)*7919+uint64(k)), 200), Err: verifSentinel, FailAtCall: k}
					} else {
						rd = &vnet.CutReader{Data: data, Cut: N, Seg: mk(), Err: verifSentinel, FailAtCall: k}
					}
					variant := k % 4 // 0: (0,err) plain; 1: (n,err) plain; 2: (0,err) std-wrapper error; 3: (n,err) std-wrapper error
					sentinel := verifSentinel
					if variant >= 2 {
						sentinel = verifSentinelOp
					}
					rd.Err = sentinel
					rd.DataWithErr = variant%2 == 1
					got, err := verifReadUntilError(rd, len(msgs)+1)
					m.Count("read_call_indexes_enumerated", 1)
					m.Count(fmt.Sprintf("read_fault_variant_%d", variant), 1)
					if rd.Reads < k {
						// the reader finished before reaching call k (possible under the re-seeded random segmentation)
						continue
					}
					if !verifCheckPrefixS(m, fmt.Sprintf("c08:rtmp-read-fault:v%d", variant), rep, msgs, ends, rd.Offset(), got, err, true, sentinel) {
						return
					}
					// the same fault as a TRANSIENT one (a deadline, an interrupted call): only call k fails, later calls would go on
					// delivering the rest of the stream.  The operation in progress at call k must still return the transport's error;
					// an error that is dropped shows as a message that was never sent (the bytes behind the fault, shifted)
					var rt *vnet.CutReader
					if si == 1 {
						rt = &vnet.CutReader{Data: data, Cut: N, Seg: vnet.SegRandom(vrand.New(uint64(i)*7919+uint64(k)), 200), FailAtCall: k}
					} else {
						rt = &vnet.CutReader{Data: data, Cut: N, Seg: mk(), FailAtCall: k}
					}
					rt.Err, rt.DataWithErr, rt.Transient = sentinel, variant%2 == 1, true
					got, err = verifReadUntilError(rt, len(msgs)+1)
					m.Count("transient_read_faults_enumerated", 1)
					if rt.Reads < k {
						continue
					}
					if !verifCheckPrefixS(m, fmt.Sprintf("c08:rtmp-transient-read-fault:v%d", variant), rep, msgs, ends, rt.Offset(), got, err, true, sentinel) {
						return
					}
				}
				m.Classf("readfault/%s/seg%d", src, si)
			}
		})
	})
}

func TestVerif_C08_RtmpWrite(t *testing.T) {
	m := mon.New("C08", "rtmpwrite")
	defer m.Finish(t)
	m.Rule("rtmpwrite: message sequences written through WriteMessage/WritePacket with the transport failing at EVERY write call index, with " +
		"and without a short write; the operation in progress must return an error whose root cause is the sentinel, and the bytes that reached " +
		"the transport must be a prefix of the fault-free serialisation; distinct = (sequence, call index, short)")
	n := m.N(60, 12000)
	m.Require("write_call_indexes_enumerated", int64(n*3))
	mon.Parallel(n, func(w, i int) {
		r := m.Rand("wsess", i)
		var seq []verifMsg
		for k := 0; k < r.Range(1, 6); k++ {
			cap := 700
			if r.Chance(1, 4) {
				cap = 20000
			}
			seq = append(seq, verifGenMessage(r, 128, cap))
		}
		write := func(q *vnet.Queue) (failedOp int, opErr error, writesBefore []int) {
			p := NewProtocol(vnet.RW{Reader: bytes.NewReader(nil), Writer: q})
			failedOp = -1
			for k, vm := range seq {
				writesBefore = append(writesBefore, q.Writes)
				if err := p.WriteMessage(verifToLib(vm)); err != nil {
					return k, err, writesBefore // an application stops at the first error
				}
			}
			writesBefore = append(writesBefore, q.Writes)
			return
		}
		ref := vnet.NewQueue(vnet.SegWhole())
		ref.KeepLog = true
		_, _, wb := write(ref)
		calls := ref.Writes
		rep := map[string]interface{}{"case": i, "messages": len(seq), "write_calls": calls}
		m.Guard("rtmp.c08.writefault", nil, func() {
			for k := 1; k <= calls; k++ {
				for _, short := range []int{0, 1, 7} {
					m.Case()
					m.Count("write_call_indexes_enumerated", 1)
					q := vnet.NewQueue(vnet.SegWhole())
					q.KeepLog = true
					q.FailWriteAt, q.FailErr, q.ShortWrite = k, verifSentinel, short
					failedOp, opErr, _ := write(q)
					rep["fail_write_call"], rep["short"] = k, short
					// the operation in progress: the one during which the reference run made its k-th transport write
					inProgress := sort.SearchInts(wb[1:], k)
					if failedOp != inProgress {
						m.Violationf("c08:rtmp-write-fault:wrong-operation-failed", rep, "transport failed during WriteMessage #%d, the first error was reported by #%d (%v)", inProgress, failedOp, opErr)
						return
					}
					if oe.Cause(opErr) != verifSentinel {
						m.Violationf("c08:rtmp-write-fault:root-cause-lost", rep, "root cause %T %q (full: %v)", oe.Cause(opErr), oe.Cause(opErr), opErr)
						return
					}
					if !bytes.HasPrefix(ref.Log, q.Log) {
						m.Violationf("c08:rtmp-write-fault:bytes-not-a-prefix", rep, "%d bytes reached the transport and are not a prefix of the fault-free stream", len(q.Log))
						return
					}
				}
			}
			m.Classf("writefault/msgs%d/calls%d", len(seq), calls)
		})
	})
}

func TestVerif_C08_Handshake(t *testing.T) {
	m := mon.New("C08", "handshake")
	defer m.Finish(t)
	m.Rule("handshake: each of the six handshake read/write calls individually: every cut offset of its input, an injected sentinel at every read " +
		"call index (1-byte segmentation: every byte position), and a failing writer at every write call index; distinct = (call, fault kind, position bucket)")
	m.Exhaustive(true)
	h := NewHandshake(rand.New(rand.NewSource(1)))
	type rdcall struct {
		name string
		n    int
		f    func(io.Reader) ([]byte, error)
	}
	reads := []rdcall{{"ReadC0S0", 1, h.ReadC0S0}, {"ReadC1S1", 1536, h.ReadC1S1}, {"ReadC2S2", 1536, h.ReadC2S2}}
	data := vrand.New(5).Bytes(1536)
	for _, rc := range reads {
		for cut := 0; cut < rc.n; cut++ {
			m.Case()
			rep := map[string]interface{}{"call": rc.name, "cut": cut}
			b, err := rc.f(&vnet.CutReader{Data: data, Cut: cut, Seg: vnet.SegRandom(vrand.New(uint64(cut)), 100)})
			if err == nil {
				m.Violationf("c08:handshake-cut:nil-error", rep, "%s returned %d bytes and no error from a %d-byte stream", rc.name, len(b), cut)
			} else if !verifIsEOF(err) {
				m.Violationf("c08:handshake-cut:root-cause-not-eof", rep, "%v", err)
			}
			m.Case()
			b, err = rc.f(&vnet.CutReader{Data: data, Cut: rc.n, Seg: vnet.SegOne(), Err: verifSentinel, FailAtCall: cut + 1})
			if err == nil {
				m.Violationf("c08:handshake-read-fault:nil-error", rep, "%s returned %d bytes and no error", rc.name, len(b))
			} else if oe.Cause(err) != verifSentinel {
				m.Violationf("c08:handshake-read-fault:root-cause-lost", rep, "%v", err)
			}
			m.Classf("%s/pos%d", rc.name, cut/256)
		}
		// complete input: succeeds with exactly n bytes
		b, err := rc.f(&vnet.CutReader{Data: data, Cut: rc.n, Seg: vnet.SegOne()})
		if err != nil || !bytes.Equal(b, data[:rc.n]) {
			m.Violationf("c08:handshake-complete-input-fails", map[string]interface{}{"call": rc.name}, "err=%v len=%d", err, len(b))
		}
	}
	writes := []struct {
		name string
		f    func(io.Writer) error
	}{{"WriteC0S0", h.WriteC0S0}, {"WriteC1S1", h.WriteC1S1}, {"WriteC2S2", func(w io.Writer) error { return h.WriteC2S2(w, data) }}}
	for _, wc := range writes {
		ref := vnet.NewQueue(vnet.SegWhole())
		wc.f(ref)
		for k := 1; k <= ref.Writes; k++ {
			for _, short := range []int{0, 1, 100} {
				m.Case()
				q := vnet.NewQueue(vnet.SegWhole())
				q.FailWriteAt, q.FailErr, q.ShortWrite = k, verifSentinel, short
				err := wc.f(q)
				rep := map[string]interface{}{"call": wc.name, "fail_write_call": k, "short": short}
				if err == nil {
					m.Violationf("c08:handshake-write-fault:nil-error", rep, "%s reported success", wc.name)
				} else if oe.Cause(err) != verifSentinel {
					m.Violationf("c08:handshake-write-fault:root-cause-lost", rep, "%v", err)
				}
				m.Classf("%s/call%d/short%d", wc.name, k, short)
			}
		}
	}
}
