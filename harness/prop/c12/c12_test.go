// C12 — AVC configuration records, samples and NAL units round-trip in ISO layout (black-box).
//
// Oracle: refavc (ISO/IEC 14496-15 §5.2.4.1.1 record writer/reader with the reserved bits, 14496-10 NAL
// header bits, §5.3.4.2 length-prefixed samples).  Nothing here is derived from what the library does.
package c12

import (
	"bytes"
	"fmt"
	"testing"

	"github.com/ossrs/go-oryx-lib/avc"
	"verifharness/lib/mon"
	"verifharness/lib/refavc"
	"verifharness/lib/vrand"
)

// ---- bridge between reference byte strings and the library's public value types ----

// libNALU builds a library NAL unit from whole NAL bytes through the exported fields (not through Unmarshal).
func libNALU(b []byte) *avc.NALU {
	h := refavc.ParseNALHeader(b[0])
	n := avc.NewNALU()
	n.NALRefIDC = avc.NALRefIDC(h.RefIDC)
	n.NALUType = avc.NALUType(h.Type)
	n.Data = b[1:]
	return n
}

// nalBytes reads a library NAL unit back through its exported fields.
func nalBytes(n *avc.NALU) ([]byte, bool) {
	if n == nil || n.NALUHeader == nil || n.NALRefIDC > 3 || n.NALUType > 31 {
		return nil, false
	}
	b := []byte{refavc.NALHeader{RefIDC: int(n.NALRefIDC), Type: int(n.NALUType)}.Byte()}
	return append(b, n.Data...), true
}

func nalList(ns []*avc.NALU) ([][]byte, bool) {
	var out [][]byte
	for _, n := range ns {
		b, ok := nalBytes(n)
		if !ok {
			return nil, false
		}
		out = append(out, b)
	}
	return out, true
}

func equalLists(a, b [][]byte) bool {
	if len(a) != len(b) {
		return false
	}
	for i := range a {
		if !bytes.Equal(a[i], b[i]) {
			return false
		}
	}
	return true
}

func isHigh(profile int) bool { return refavc.HasExtProfile(profile) }

// buildRecord makes the library value for ref through the public API.  profile_compatibility is not an
// exported field: when it is non-zero the value is first loaded from a minimal reference-written record
// (no parameter sets) and every exported field is then assigned.
func buildRecord(ref *refavc.Record) (*avc.AVCDecoderConfigurationRecord, error) {
	x := avc.NewAVCDecoderConfigurationRecord()
	if ref.Compatibility != 0 || ref.Version != 1 {
		seed, err := (&refavc.Record{Version: ref.Version, Profile: ref.Profile, Compatibility: ref.Compatibility, Level: ref.Level, LengthSize: ref.LengthSize}).WriteBase(nil)
		if err != nil {
			panic(err)
		}
		if err := x.UnmarshalBinary(seed); err != nil {
			return nil, fmt.Errorf("minimal reference record %s rejected: %v", mon.Hex(seed), err)
		}
	}
	x.AVCProfileIndication = avc.AVCProfile(ref.Profile)
	x.AVCLevelIndication = avc.AVCLevel(ref.Level)
	x.LengthSizeMinusOne = uint8(ref.LengthSize - 1)
	x.SequenceParameterSetNALUnits = nil
	x.PictureParameterSetNALUnits = nil
	for _, s := range ref.SPS {
		x.SequenceParameterSetNALUnits = append(x.SequenceParameterSetNALUnits, libNALU(s))
	}
	for _, p := range ref.PPS {
		x.PictureParameterSetNALUnits = append(x.PictureParameterSetNALUnits, libNALU(p))
	}
	return x, nil
}

// diffRecord names the first base field in which a library value differs from the reference value
// ("" = equal).  Version and compatibility are not exported; they are observed in the marshalled bytes.
func diffRecord(y *avc.AVCDecoderConfigurationRecord, ref *refavc.Record) string {
	if int(y.AVCProfileIndication) != ref.Profile {
		return fmt.Sprintf("profile: %d vs %d", y.AVCProfileIndication, ref.Profile)
	}
	if int(y.AVCLevelIndication) != ref.Level {
		return fmt.Sprintf("level: %d vs %d", y.AVCLevelIndication, ref.Level)
	}
	if int(y.LengthSizeMinusOne)+1 != ref.LengthSize {
		return fmt.Sprintf("length-size: %d vs %d", int(y.LengthSizeMinusOne)+1, ref.LengthSize)
	}
	sps, ok := nalList(y.SequenceParameterSetNALUnits)
	if !ok || !equalLists(sps, ref.SPS) {
		return fmt.Sprintf("sps: %d units vs %d", len(y.SequenceParameterSetNALUnits), len(ref.SPS))
	}
	pps, ok := nalList(y.PictureParameterSetNALUnits)
	if !ok || !equalLists(pps, ref.PPS) {
		return fmt.Sprintf("pps: %d units vs %d", len(y.PictureParameterSetNALUnits), len(ref.PPS))
	}
	if b, err := y.MarshalBinary(); err != nil || len(b) < 3 {
		return fmt.Sprintf("marshal: %v", err)
	} else if int(b[0]) != ref.Version {
		return fmt.Sprintf("version: %d vs %d", b[0], ref.Version)
	} else if int(b[2]) != ref.Compatibility {
		return fmt.Sprintf("compatibility: %d vs %d", b[2], ref.Compatibility)
	}
	return ""
}

func fieldOf(diff string) string {
	for i := 0; i < len(diff); i++ {
		if diff[i] == ':' {
			return diff[:i]
		}
	}
	return diff
}

// compareRecordBytes compares library-written record bytes with the reference base record.  Reserved-bit
// defects get their own signatures (per byte, whatever the path that produced the bytes: it is the one
// writer); anything else is "<what>-bytes-differ" with the scope of the case.  what = "record" for
// marshal(x), "remarshal" for marshal(unmarshal(canonical)).
func compareRecordBytes(m *mon.M, what string, got, want []byte, high bool, scope string, rep map[string]interface{}) {
	if bytes.Equal(got, want) {
		return
	}
	if high && len(got) > len(want) && bytes.Equal(got[:len(want)], want) {
		// a writer of a later edition appends the High-profile tail: the common prefix is what is demanded
		m.Count("high_profile_tail_written", 1)
		return
	}
	if len(got) != len(want) || len(got) < 7 {
		m.Violationf("c12:"+what+"-bytes-differ:length"+scope, rep, "%s: %d bytes, ISO layout has %d: %s vs %s", what, len(got), len(want), mon.Hex(got), mon.Hex(want))
		return
	}
	g := append([]byte(nil), got...)
	reservedOnly := true
	if g[4]&0x03 != want[4]&0x03 {
		reservedOnly = false
	} else if g[4]&0xfc != 0xfc {
		kind := "wrong"
		if g[4]&0xfc == 0 {
			kind = "zero"
		}
		m.Violationf("c12:reserved-bits-"+kind+":byte4", rep, "%s: byte 4 is %#02x, ISO 14496-15 prescribes '111111'+lengthSizeMinusOne = %#02x (header %s vs %s)",
			what, got[4], want[4], mon.Hex(got[:6]), mon.Hex(want[:6]))
		g[4] |= 0xfc
	}
	if g[5]&0x1f != want[5]&0x1f {
		reservedOnly = false
	} else if g[5]&0xe0 != 0xe0 {
		kind := "wrong"
		if g[5]&0xe0 == 0 {
			kind = "zero"
		}
		m.Violationf("c12:reserved-bits-"+kind+":byte5", rep, "%s: byte 5 is %#02x, ISO 14496-15 prescribes '111'+numOfSequenceParameterSets = %#02x (header %s vs %s)",
			what, got[5], want[5], mon.Hex(got[:6]), mon.Hex(want[:6]))
		g[5] |= 0xe0
	}
	if !reservedOnly || !bytes.Equal(g, want) {
		at := 0
		for at < len(g) && g[at] == want[at] {
			at++
		}
		m.Violationf("c12:"+what+"-bytes-differ"+scope, rep, "%s differs from the ISO layout beyond the reserved bits, first at offset %d: %s vs %s", what, at, mon.Hex(got), mon.Hex(want))
	}
}

// ---------------------------------------------------------------------------------------------
// NAL headers and units

var nalDataLens = []int{0, 1, 254, 255, 65534}

func TestVerif_C12_NALU(t *testing.T) {
	m := mon.New("C12", "nalu")
	defer m.Finish(t)
	m.Exhaustive(true)
	m.Rule("nalu: all 256 header bytes through NALUHeader and through NALU with payloads of {0,1,254,255,65534} random bytes (unit sizes 1,2,255,256,65535); " +
		"fields compared with the bit layout forbidden(1) ref_idc(2) type(5); re-marshal compared for the 128 canonical bytes (forbidden_zero_bit = 0) only; " +
		"all 128 (ref_idc,type) values built through the exported fields; distinct = header byte x unit size")
	m.Require("evaluations", int64(256*(1+len(nalDataLens))+128))
	m.Require("canonical_headers", 128)
	m.Require("forbidden_bit_headers", 128)
	mon.Parallel(256, func(w, i int) {
		hb := byte(i)
		want := refavc.ParseNALHeader(hb)
		canonical := !want.Forbidden
		if canonical {
			m.Count("canonical_headers", 1)
		} else {
			m.Count("forbidden_bit_headers", 1)
		}
		scope := ""
		if !canonical {
			scope = ":forbidden-bit"
		}
		rep := map[string]interface{}{"header_byte": i}
		m.Case()
		m.Classf("hdr/%02x", hb)
		m.Guard("avc.NALUHeader", []byte{hb}, func() {
			h := avc.NewNALUHeader()
			if err := h.UnmarshalBinary([]byte{hb}); err != nil {
				if canonical {
					m.Violationf("c12:nal-header-rejected", rep, "header byte %#02x rejected: %v", hb, firstLine(err))
				}
				return // a reader may refuse forbidden_zero_bit = 1
			}
			if int(h.NALRefIDC) != want.RefIDC || int(h.NALUType) != want.Type {
				m.Violationf("c12:nal-header-field-wrong"+scope, rep, "byte %#02x read as ref_idc %d type %d, layout says %d / %d", hb, h.NALRefIDC, h.NALUType, want.RefIDC, want.Type)
			}
			if canonical {
				out, err := h.MarshalBinary()
				if err != nil || len(out) != 1 || out[0] != hb {
					m.Violationf("c12:nal-header-remarshal-differs", rep, "byte %#02x re-marshals to %s (err %v)", hb, mon.Hex(out), err)
				}
				if m.WantSample() {
					m.Sample(map[string]interface{}{"nal_header": fmt.Sprintf("%02x", hb), "ref_idc": int(h.NALRefIDC), "type": int(h.NALUType), "remarshal": mon.Hex(out)})
				}
			}
		})
		r := m.Rand("nalu", i)
		for _, dl := range nalDataLens {
			unit := append([]byte{hb}, r.Shaped(dl)...)
			m.Case()
			m.Classf("unit/%02x/size%d", hb, len(unit))
			rep := map[string]interface{}{"header_byte": i, "unit_size": len(unit)}
			m.Guard("avc.NALU", unit[:min(len(unit), 64)], func() {
				n := avc.NewNALU()
				if err := n.UnmarshalBinary(unit); err != nil {
					if canonical {
						m.Violationf("c12:nal-unit-rejected", rep, "unit of %d bytes with header %#02x rejected: %v", len(unit), hb, firstLine(err))
					}
					return
				}
				if int(n.NALRefIDC) != want.RefIDC || int(n.NALUType) != want.Type || !bytes.Equal(n.Data, unit[1:]) {
					m.Violationf("c12:nal-unit-read-differs"+scope, rep, "unit with header %#02x, %d bytes: ref_idc %d type %d data %d bytes", hb, len(unit), n.NALRefIDC, n.NALUType, len(n.Data))
				}
				if !canonical {
					return
				}
				out, err := n.MarshalBinary()
				if err != nil || !bytes.Equal(out, unit) {
					m.Violationf("c12:nal-unit-remarshal-differs", rep, "unit of %d bytes re-marshals to %d bytes (err %v): %s vs %s", len(unit), len(out), err, mon.Hex(out), mon.Hex(unit))
				}
				// value -> bytes -> value, the value built through the exported fields
				x := libNALU(unit)
				b, err := x.MarshalBinary()
				if err != nil || !bytes.Equal(b, unit) {
					m.Violationf("c12:nal-unit-bytes-differ", rep, "NALU{ref_idc %d, type %d, %d data bytes} marshals to %s (err %v), layout says %s", want.RefIDC, want.Type, dl, mon.Hex(b), err, mon.Hex(unit))
					return
				}
				y := avc.NewNALU()
				if err := y.UnmarshalBinary(b); err != nil {
					m.Violationf("c12:nal-unit-roundtrip-differs", rep, "own bytes rejected: %v", firstLine(err))
				} else if yb, ok := nalBytes(y); !ok || !bytes.Equal(yb, unit) {
					m.Violationf("c12:nal-unit-roundtrip-differs", rep, "unmarshal(marshal(x)) != x for a unit of %d bytes", len(unit))
				}
			})
		}
	})
	// every (ref_idc, type) value through the exported fields of the header
	for v := 0; v < 128; v++ {
		want := refavc.NALHeader{RefIDC: v >> 5, Type: v & 0x1f}
		m.Case()
		rep := map[string]interface{}{"ref_idc": want.RefIDC, "type": want.Type}
		m.Guard("avc.NALUHeader.MarshalBinary", nil, func() {
			h := avc.NewNALUHeader()
			h.NALRefIDC, h.NALUType = avc.NALRefIDC(want.RefIDC), avc.NALUType(want.Type)
			out, err := h.MarshalBinary()
			if err != nil || len(out) != 1 || out[0] != want.Byte() {
				m.Violationf("c12:nal-header-bytes-differ", rep, "header{ref_idc %d, type %d} marshals to %s (err %v), layout says %02x", want.RefIDC, want.Type, mon.Hex(out), err, want.Byte())
				return
			}
			h2 := avc.NewNALUHeader()
			if err := h2.UnmarshalBinary(out); err != nil || h2.NALRefIDC != h.NALRefIDC || h2.NALUType != h.NALUType {
				m.Violationf("c12:nal-header-roundtrip-differs", rep, "unmarshal(marshal(header)) = %+v (err %v)", h2, err)
			}
		})
	}
}

// ---------------------------------------------------------------------------------------------
// configuration records

func genNAL(r *vrand.Rand, size int, usualType int) []byte {
	h := refavc.NALHeader{RefIDC: r.Intn(4), Type: usualType}
	if r.Chance(1, 3) {
		h.Type = r.Intn(32)
	}
	b := r.Shaped(size) // NAL payloads may contain anything, start codes and length-looking prefixes included
	b[0] = h.Byte()
	return b
}

// nalSizeForRecord picks from the design's {1, 2, 255, 256, 65535} and small random sizes; big units are rare so
// that maximal records stay around a megabyte.
func nalSizeForRecord(r *vrand.Rand, allowBig bool) int {
	switch k := r.Intn(24); {
	case k == 0 && allowBig:
		return 65535
	case k <= 2:
		return 255
	case k <= 4:
		return 256
	case k <= 8:
		return 1
	case k <= 11:
		return 2
	case k == 12 && allowBig:
		return r.Range(257, 65534)
	}
	return r.Range(3, 64)
}

var commonProfiles = []int{66, 77, 88, 100, 110, 122, 144, 244, 44, 83, 86, 118, 128}

func genRecord(r *vrand.Rand) *refavc.Record {
	ref := &refavc.Record{Version: 1, LengthSize: r.Range(1, 4)}
	switch r.Intn(4) {
	case 0:
		ref.Profile = r.Intn(256)
	case 1:
		ref.Profile = r.Pick(100, 110, 122, 144)
	default:
		ref.Profile = commonProfiles[r.Intn(len(commonProfiles))]
	}
	if r.Chance(2, 3) {
		ref.Compatibility = r.Pick(0, 0, 0x40, 0x80, 0xc0, 0xe0, 0xff, r.Intn(256))
	}
	ref.Level = r.Pick(10, 11, 12, 13, 20, 21, 22, 30, 31, 32, 40, 41, 42, 50, 51, 52, 0, 9, 255, r.Intn(256))
	count := func(max int) int {
		switch k := r.Intn(100); {
		case k < 80:
			return r.Range(0, 3)
		case k < 96:
			return r.Range(4, max)
		}
		return max
	}
	nsps, npps := count(31), count(255)
	allowBig := true
	for i := 0; i < nsps; i++ {
		ref.SPS = append(ref.SPS, genNAL(r, nalSizeForRecord(r, allowBig), 7))
	}
	for i := 0; i < npps; i++ {
		ref.PPS = append(ref.PPS, genNAL(r, nalSizeForRecord(r, allowBig), 8))
	}
	return ref
}

func genExt(r *vrand.Rand) *refavc.Ext {
	e := &refavc.Ext{ChromaFormat: r.Intn(4), BitDepthLuma8: r.Intn(7), BitDepthChroma: r.Intn(7)}
	for i, n := 0, r.Pick(0, 0, 1, 2, 255); i < n; i++ {
		e.SPSExt = append(e.SPSExt, genNAL(r, r.Pick(1, 2, 17, 255, 256), 13))
	}
	return e
}

func countClass(n, max int) string {
	switch {
	case n <= 1:
		return fmt.Sprint(n)
	case n <= 3:
		return "2-3"
	case n == max:
		return "max"
	}
	return "4+"
}

// observe derives the class signature and the counters from a parsed record (what was actually written).
func observe(m *mon.M, p *refavc.Record) string {
	var sizes [6]bool
	note := func(n int) {
		switch n {
		case 1:
			sizes[0] = true
		case 2:
			sizes[1] = true
		case 255:
			sizes[2] = true
		case 256:
			sizes[3] = true
		case 65535:
			sizes[4] = true
		default:
			sizes[5] = true
		}
	}
	for _, s := range p.SPS {
		note(len(s))
	}
	for _, s := range p.PPS {
		note(len(s))
	}
	sz := ""
	for i, name := range []string{"1", "2", "255", "256", "65535", "o"} {
		if sizes[i] {
			sz += name + ","
			m.Count("records_with_nal_size_"+name, 1)
		}
	}
	m.Count(fmt.Sprintf("records_length_size_%d", p.LengthSize), 1)
	if len(p.SPS) == 31 {
		m.Count("records_with_31_sps", 1)
	}
	if len(p.PPS) == 255 {
		m.Count("records_with_255_pps", 1)
	}
	if len(p.SPS) == 0 {
		m.Count("records_with_0_sps", 1)
	}
	if len(p.PPS) == 0 {
		m.Count("records_with_0_pps", 1)
	}
	prof := "other"
	if isHigh(p.Profile) {
		prof = "high"
		m.Count("records_high_profile", 1)
	}
	return fmt.Sprintf("rec/ls%d/sps%s/pps%s/prof-%s/sizes[%s]", p.LengthSize, countClass(len(p.SPS), 31), countClass(len(p.PPS), 255), prof, sz)
}

func describe(ref *refavc.Record) string {
	s := fmt.Sprintf("profile %d compat %#02x level %d lengthSize %d sps[", ref.Profile, ref.Compatibility, ref.Level, ref.LengthSize)
	for i, n := range ref.SPS {
		if i == 8 {
			s += "…"
			break
		}
		s += fmt.Sprintf("%d ", len(n))
	}
	s += fmt.Sprintf("](%d) pps[", len(ref.SPS))
	for i, n := range ref.PPS {
		if i == 8 {
			s += "…"
			break
		}
		s += fmt.Sprintf("%d ", len(n))
	}
	return s + fmt.Sprintf("](%d)", len(ref.PPS))
}

func checkRecord(m *mon.M, r *vrand.Rand, ref *refavc.Record, label string, i int) {
	m.Case()
	high := isHigh(ref.Profile)
	scope := ""
	if high {
		scope = ":highprofile"
	}
	want, err := ref.WriteBase(nil)
	if err != nil {
		panic(err)
	}
	// self-check of the reference: reader against writer
	if p, res, bl, perr := refavc.Parse(want); perr != nil || !refavc.EqualBase(p, ref) || res.Byte4 != 0x3f || res.Byte5 != 7 || bl != len(want) {
		panic(fmt.Sprintf("refavc self-check failed: %v", perr))
	}
	rep := map[string]interface{}{"case": i, "set": label, "record": describe(ref), "iso_head_hex": mon.Hex(want[:min(len(want), 40)])}
	if len(want) <= 2048 {
		rep["iso_record_hex"] = fmt.Sprintf("%x", want)
	}
	m.Guard("avc.AVCDecoderConfigurationRecord", want[:min(len(want), 4096)], func() {
		// value -> bytes
		x, err := buildRecord(ref)
		if err != nil {
			m.Violationf("c12:ref-record-rejected"+scope, rep, "%v", err)
			return
		}
		b, err := x.MarshalBinary()
		if err != nil {
			m.Violationf("c12:record-marshal-error"+scope, rep, "marshal failed: %v", firstLine(err))
			return
		}
		if p, _, _, perr := refavc.Parse(b); perr == nil {
			m.Class(observe(m, p))
		} else {
			m.Classf("rec/unparsed/%s", label)
		}
		if m.WantSample() && len(b) < 200 {
			m.Sample(map[string]interface{}{"record": describe(ref), "library_bytes": fmt.Sprintf("%x", b), "iso_bytes": fmt.Sprintf("%x", want)})
		}
		compareRecordBytes(m, "record", b, want, high, scope, rep)
		// bytes -> value: unmarshal(marshal(x)) == x
		bCopy, yWas := append([]byte(nil), b...), false
		y := avc.NewAVCDecoderConfigurationRecord()
		if err := y.UnmarshalBinary(append([]byte(nil), b...)); err != nil {
			m.Violationf("c12:own-record-rejected"+scope, rep, "unmarshal of own bytes failed: %v", firstLine(err))
		} else if d := diffRecord(y, ref); d != "" {
			m.Violationf("c12:record-roundtrip-differs:"+fieldOf(d)+scope, rep, "unmarshal(marshal(x)) != x: %s", d)
		} else {
			yWas = true
		}
		// canonical bytes -> value -> bytes
		z := avc.NewAVCDecoderConfigurationRecord()
		if err := z.UnmarshalBinary(want); err != nil {
			m.Violationf("c12:ref-record-rejected"+scope, rep, "reference-written record rejected: %v", firstLine(err))
			return
		}
		m.Count("reference_records_read", 1)
		if d := diffRecord(z, ref); d != "" {
			m.Violationf("c12:ref-record-read-differs:"+fieldOf(d)+scope, rep, "reference-written record read differently: %s", d)
		}
		b2, err := z.MarshalBinary()
		if err != nil {
			m.Violationf("c12:remarshal-error"+scope, rep, "marshal(unmarshal(canonical)) failed: %v", firstLine(err))
		} else {
			compareRecordBytes(m, "remarshal", b2, want, high, scope, rep)
		}
		if !bytes.Equal(b, bCopy) {
			m.Violationf("c12:earlier-result-changed-by-a-later-call:record", rep, "the bytes MarshalBinary returned first were changed by the later unmarshal/marshal calls")
		}
		if yWas && diffRecord(y, ref) != "" {
			m.Violationf("c12:earlier-result-changed-by-a-later-call:record", rep, "the first unmarshalled record was changed by the later calls: %s", diffRecord(y, ref))
		}
		m.Count("earlier_results_rechecked", 2)
		// reference records with the High-profile tail: same base values, same base bytes on the common prefix
		if high {
			re := *ref
			re.Ext = genExt(r)
			wext, err := re.Write(nil)
			if err != nil {
				panic(err)
			}
			if p, _, bl, perr := refavc.Parse(wext); perr != nil || !refavc.EqualBase(p, ref) || bl != len(want) || p.Ext == nil || !equalLists(p.Ext.SPSExt, re.Ext.SPSExt) {
				panic(fmt.Sprintf("refavc ext self-check failed: %v", perr))
			}
			rep2 := map[string]interface{}{"case": i, "set": label, "record": describe(ref), "ext_tail_hex": mon.Hex(wext[len(want):])}
			if len(wext) <= 2048 {
				rep2["iso_record_hex"] = fmt.Sprintf("%x", wext)
			}
			e := avc.NewAVCDecoderConfigurationRecord()
			if err := e.UnmarshalBinary(wext); err != nil {
				m.Violationf("c12:ref-record-rejected:ext", rep2, "reference record with the High-profile extension (%d extra bytes) rejected: %v", len(wext)-len(want), firstLine(err))
				return
			}
			m.Count("reference_records_with_ext_read", 1)
			if d := diffRecord(e, ref); d != "" {
				m.Violationf("c12:ref-record-read-differs:"+fieldOf(d)+":ext", rep2, "record with the High-profile extension read differently: %s", d)
			}
			if b3, err := e.MarshalBinary(); err != nil {
				m.Violationf("c12:remarshal-error:ext", rep2, "marshal failed: %v", firstLine(err))
			} else {
				compareRecordBytes(m, "remarshal", b3, want, true, ":ext", rep2)
			}
		}
	})
}

func TestVerif_C12_Records(t *testing.T) {
	m := mon.New("C12", "records")
	defer m.Finish(t)
	n := m.N(6000, 400000)
	m.Rule(fmt.Sprintf("records: field sweeps (every profile byte x length size 1..4; every compatibility byte x length size; every level byte; 0..31 SPS x {0,1,2,254,255} PPS x length size; "+
		"0..255 PPS) with 1..3-byte units, then %d PRNG records: profile from the named profile_idc values or any byte, compatibility/level any byte, length size 1..4, 0..31 SPS and 0..255 PPS "+
		"(80%% 0..3, 16%% up to the maximum, 4%% exactly 31/255), unit sizes from {1,2,255,256,65535} and 3..64; for profile_idc 100/110/122/144 additionally the same record with a random "+
		"chroma/bit-depth/SPS-extension tail; distinct = (length size, SPS count class, PPS count class, high profile?, set of boundary unit sizes) parsed from the bytes the library wrote", n))
	sweep := 256*4 + 256*4 + 256 + 32*5*4 + 256 + 6*5*2*4 + 256
	m.Require("evaluations", int64(sweep+n))
	m.Require("reference_records_read", int64(sweep+n))
	m.Require("reference_records_with_ext_read", 100)
	for _, c := range []string{"records_with_nal_size_1", "records_with_nal_size_2", "records_with_nal_size_255", "records_with_nal_size_256", "records_with_nal_size_65535",
		"records_with_31_sps", "records_with_255_pps", "records_with_0_sps", "records_with_0_pps",
		"records_length_size_1", "records_length_size_2", "records_length_size_3", "records_length_size_4"} {
		m.Require(c, 20)
	}
	// field sweeps
	var sweeps []func(r *vrand.Rand) *refavc.Record
	tiny := func(r *vrand.Rand, n int, typ int) [][]byte {
		var out [][]byte
		for i := 0; i < n; i++ {
			out = append(out, genNAL(r, r.Range(1, 3), typ))
		}
		return out
	}
	for v := 0; v < 256; v++ {
		for ls := 1; ls <= 4; ls++ {
			v, ls := v, ls
			sweeps = append(sweeps, func(r *vrand.Rand) *refavc.Record {
				return &refavc.Record{Version: 1, Profile: v, Compatibility: r.Pick(0, r.Intn(256)), Level: r.Intn(256), LengthSize: ls, SPS: tiny(r, 1, 7), PPS: tiny(r, 1, 8)}
			})
			sweeps = append(sweeps, func(r *vrand.Rand) *refavc.Record {
				return &refavc.Record{Version: 1, Profile: r.Pick(66, 77, 100), Compatibility: v, Level: r.Intn(256), LengthSize: ls, SPS: tiny(r, r.Intn(3), 7), PPS: tiny(r, r.Intn(3), 8)}
			})
		}
		v := v
		sweeps = append(sweeps, func(r *vrand.Rand) *refavc.Record {
			return &refavc.Record{Version: 1, Profile: r.Pick(66, 77, 100), Compatibility: r.Pick(0, 0xc0), Level: v, LengthSize: r.Range(1, 4), SPS: tiny(r, 1, 7), PPS: tiny(r, 1, 8)}
		})
		sweeps = append(sweeps, func(r *vrand.Rand) *refavc.Record {
			return &refavc.Record{Version: 1, Profile: r.Pick(66, 77, 100), Compatibility: r.Pick(0, 0xc0), Level: 31, LengthSize: r.Range(1, 4), SPS: tiny(r, r.Intn(3), 7), PPS: tiny(r, v, 8)}
		})
	}
	for nsps := 0; nsps <= 31; nsps++ {
		for _, npps := range []int{0, 1, 2, 254, 255} {
			for ls := 1; ls <= 4; ls++ {
				nsps, npps, ls := nsps, npps, ls
				sweeps = append(sweeps, func(r *vrand.Rand) *refavc.Record {
					return &refavc.Record{Version: 1, Profile: r.Pick(66, 77, 88, 100, 244), Compatibility: r.Pick(0, 0xe0), Level: 40, LengthSize: ls, SPS: tiny(r, nsps, 7), PPS: tiny(r, npps, 8)}
				})
			}
		}
	}
	// configurationVersion: 1 today, but a record read from a file is written back as it was
	for v := 0; v < 256; v++ {
		v := v
		sweeps = append(sweeps, func(r *vrand.Rand) *refavc.Record {
			return &refavc.Record{Version: v, Profile: r.Pick(66, 77, 100), Compatibility: r.Pick(0, 0xc0), Level: 31, LengthSize: r.Range(1, 4), SPS: tiny(r, 1, 7), PPS: tiny(r, 1, 8)}
		})
	}
	// pairs of boundary values: fields that look "unset" together (profile 0 with level 0), with parameter sets long enough
	// to carry profile/level bytes of their own (a record's fields are what it says, never what its SPS says)
	for _, pv := range []int{0, 1, 66, 77, 100, 255} {
		for _, lv := range []int{0, 1, 31, 51, 255} {
			for _, cv := range []int{0, 255} {
				for _, spsSize := range []int{1, 4, 16, 200} {
					pv, lv, cv, spsSize := pv, lv, cv, spsSize
					sweeps = append(sweeps, func(r *vrand.Rand) *refavc.Record {
						sps := genNAL(r, spsSize, 7)
						sps[0] = sps[0]&0xe0 | 7 // a real SPS header
						return &refavc.Record{Version: 1, Profile: pv, Compatibility: cv, Level: lv, LengthSize: r.Range(1, 4), SPS: [][]byte{sps}, PPS: tiny(r, 1, 8)}
					})
				}
			}
		}
	}
	if len(sweeps) != sweep {
		t.Fatalf("sweep size %d != %d", len(sweeps), sweep)
	}
	mon.Parallel(len(sweeps), func(w, i int) {
		r := m.Rand("sweep", i)
		checkRecord(m, r, sweeps[i](r), "sweep", i)
	})
	mon.Parallel(n, func(w, i int) {
		r := m.Rand("record", i)
		checkRecord(m, r, genRecord(r), "random", i)
	})
}

// ---------------------------------------------------------------------------------------------
// samples

// boundary unit sizes per length size: around 2^8, 2^16, 2^24 as far as the length field reaches
func sampleSizes(ls int) []int {
	switch ls {
	case 1:
		return []int{1, 2, 3, 127, 128, 254, 255}
	case 2:
		return []int{1, 2, 254, 255, 256, 257, 65534, 65535}
	case 3:
		return []int{1, 2, 255, 256, 257, 65535, 65536, 65537}
	}
	return []int{1, 2, 255, 256, 65535, 65536, 65537, 70000}
}

func sizeClass(n int) string {
	switch {
	case n <= 2:
		return fmt.Sprint(n)
	case n < 255:
		return "<255"
	case n <= 257:
		return fmt.Sprint(n)
	case n < 65534:
		return "<64K"
	case n <= 65537:
		return fmt.Sprint(n)
	case n < 1<<24-1:
		return "<16M"
	}
	return fmt.Sprint(n)
}

func checkSample(m *mon.M, ls int, nals [][]byte, i int) {
	m.Case()
	scope := fmt.Sprintf(":ls%d", ls)
	want, err := refavc.WriteSample(nil, ls, nals)
	if err != nil {
		panic(err)
	}
	if back, perr := refavc.ParseSample(want, ls); perr != nil || !equalLists(back, nals) {
		panic("refavc sample self-check failed")
	}
	sizes := ""
	maxSize := 0
	for k, n := range nals {
		if k < 10 {
			sizes += fmt.Sprintf("%d ", len(n))
		}
		if len(n) > maxSize {
			maxSize = len(n)
		}
		m.Count(fmt.Sprintf("sample_units_ls%d_size_%s", ls, sizeClass(len(n))), 1)
	}
	m.Classf("sample/ls%d/units%d/max%s", ls, len(nals), sizeClass(maxSize))
	rep := map[string]interface{}{"case": i, "length_size": ls, "unit_sizes": sizes, "units": len(nals), "iso_head_hex": mon.Hex(want[:min(len(want), 32)])}
	if len(want) <= 1024 {
		rep["iso_sample_hex"] = fmt.Sprintf("%x", want)
	}
	m.Guard("avc.AVCSample", want[:min(len(want), 1024)], func() {
		x := avc.NewAVCSample(uint8(ls - 1))
		for _, n := range nals {
			x.NALUs = append(x.NALUs, libNALU(n))
		}
		b, err := x.MarshalBinary()
		if err != nil {
			m.Violationf("c12:sample-marshal-error"+scope, rep, "marshal failed: %v", firstLine(err))
			return
		}
		if m.WantSample() && len(b) < 100 {
			m.Sample(map[string]interface{}{"length_size": ls, "unit_sizes": sizes, "library_bytes": fmt.Sprintf("%x", b)})
		}
		if !bytes.Equal(b, want) {
			at := 0
			for at < len(b) && at < len(want) && b[at] == want[at] {
				at++
			}
			m.Violationf("c12:sample-bytes-differ"+scope, rep, "marshalled sample (%d bytes) differs from the ISO layout (%d bytes), first at offset %d: %s vs %s", len(b), len(want), at, mon.Hex(b), mon.Hex(want))
		}
		bWas, yWas := bytes.Equal(b, want), false
		y := avc.NewAVCSample(uint8(ls - 1))
		if err := y.UnmarshalBinary(append([]byte(nil), b...)); err != nil {
			m.Violationf("c12:own-sample-rejected"+scope, rep, "unmarshal of own bytes failed: %v", firstLine(err))
		} else if got, ok := nalList(y.NALUs); !ok || !equalLists(got, nals) {
			m.Violationf("c12:sample-roundtrip-differs"+scope, rep, "unmarshal(marshal(x)) != x: %d units vs %d", len(y.NALUs), len(nals))
		} else {
			yWas = true
		}
		z := avc.NewAVCSample(uint8(ls - 1))
		if err := z.UnmarshalBinary(want); err != nil {
			m.Violationf("c12:ref-sample-rejected"+scope, rep, "reference-written sample rejected: %v", firstLine(err))
			return
		}
		m.Count("reference_samples_read", 1)
		if got, ok := nalList(z.NALUs); !ok || !equalLists(got, nals) {
			m.Violationf("c12:ref-sample-read-differs"+scope, rep, "reference-written sample read as %d units, written %d", len(z.NALUs), len(nals))
		}
		if b2, err := z.MarshalBinary(); err != nil || !bytes.Equal(b2, want) {
			m.Violationf("c12:sample-remarshal-differs"+scope, rep, "marshal(unmarshal(canonical)) differs (err %v): %d vs %d bytes", err, len(b2), len(want))
		}
		// what the earlier calls returned is the caller's: the later calls above must not have changed it
		if bWas && !bytes.Equal(b, want) {
			m.Violationf("c12:earlier-result-changed-by-a-later-call:sample", rep, "the bytes MarshalBinary returned first were changed by the later unmarshal/marshal calls")
		}
		if yWas {
			if got, ok := nalList(y.NALUs); !ok || !equalLists(got, nals) {
				m.Violationf("c12:earlier-result-changed-by-a-later-call:sample", rep, "the units of the first unmarshalled sample were changed by the later unmarshal/marshal calls")
			}
		}
		m.Count("earlier_results_rechecked", 2)
	})
}

func TestVerif_C12_Samples(t *testing.T) {
	m := mon.New("C12", "samples")
	defer m.Finish(t)
	n := m.N(8000, 400000)
	m.Rule(fmt.Sprintf("samples: for each NAL length size 1..4: every boundary unit size alone and in pairs (ls1 {1,2,3,127,128,254,255}; ls2 {…,255,256,257,65534,65535}; "+
		"ls3/4 {…,65535,65536,65537}), units of 2^24-1 bytes (ls3, ls4) and 2^24, 2^24+1 bytes (ls4), then %d PRNG samples of 1..8 units (sizes from the boundary list or random up to 300 / "+
		"up to the field's reach, any header byte with forbidden_zero_bit = 0, random payload); distinct = (length size, unit count, class of the largest unit)", n))
	fixed := 0
	for ls := 1; ls <= 4; ls++ {
		k := len(sampleSizes(ls))
		fixed += k + k*k
	}
	big := [][2]int{{3, 1<<24 - 1}, {4, 1<<24 - 1}, {4, 1 << 24}, {4, 1<<24 + 1}}
	m.Require("evaluations", int64(fixed+len(big)+n))
	m.Require("reference_samples_read", int64(fixed+len(big)+n))
	for _, c := range []string{"sample_units_ls1_size_255", "sample_units_ls2_size_255", "sample_units_ls2_size_256", "sample_units_ls2_size_65535", "sample_units_ls3_size_65535",
		"sample_units_ls3_size_65536", "sample_units_ls4_size_65536"} {
		m.Require(c, 10)
	}
	m.Require("sample_units_ls3_size_16777215", 1)
	m.Require("sample_units_ls4_size_16777216", 1)
	type fx struct {
		ls    int
		sizes []int
	}
	var fixedCases []fx
	for ls := 1; ls <= 4; ls++ {
		ss := sampleSizes(ls)
		for _, a := range ss {
			fixedCases = append(fixedCases, fx{ls, []int{a}})
			for _, b := range ss {
				fixedCases = append(fixedCases, fx{ls, []int{a, b}})
			}
		}
	}
	mon.Parallel(len(fixedCases), func(w, i int) {
		r := m.Rand("fixed", i)
		var nals [][]byte
		for _, s := range fixedCases[i].sizes {
			nals = append(nals, genNAL(r, s, r.Pick(1, 5, 6, 9)))
		}
		checkSample(m, fixedCases[i].ls, nals, i)
	})
	// the 3-byte boundary: one at a time (each case holds several 16 MiB buffers)
	for i, bc := range big {
		r := m.Rand("big", i)
		nals := [][]byte{genNAL(r, bc[1], 5)}
		if r.Bool() {
			nals = append(nals, genNAL(r, r.Range(1, 9), 1))
		}
		checkSample(m, bc[0], nals, i)
	}
	mon.Parallel(n, func(w, i int) {
		r := m.Rand("sample", i)
		ls := 1 + i%4
		ss := sampleSizes(ls)
		reach := int(min(refavc.MaxNAL(ls), 100000))
		var nals [][]byte
		total := 0
		for k, cnt := 0, r.Range(1, 8); k < cnt; k++ {
			s := 0
			switch r.Intn(4) {
			case 0:
				s = ss[r.Intn(len(ss))]
			case 1:
				s = r.Range(1, reach)
			default:
				s = r.Range(1, min(300, reach))
			}
			if total+s > 400000 {
				s = r.Range(1, min(64, reach))
			}
			total += s
			nals = append(nals, genNAL(r, s, r.Pick(1, 5, 6, 7, 8, 9)))
		}
		checkSample(m, ls, nals, i)
	})
}

func firstLine(err error) string {
	if err == nil {
		return "<nil>"
	}
	s := err.Error()
	for i := 0; i < len(s); i++ {
		if s[i] == '\n' {
			s = s[:i]
			break
		}
	}
	if len(s) > 160 {
		s = s[:160]
	}
	return s
}
