package c05

import (
	"bytes"
	"testing"

	"github.com/ossrs/go-oryx-lib/amf0"
	"verifharness/lib/amfx"
	"verifharness/lib/mon"
	"verifharness/lib/refamf0"
	"verifharness/lib/vrand"
)

// Trees built top-down and mutated after they were attached, with Size()/MarshalBinary() called on
// ancestors in between (as an application filling in a command object does): the size reported by any
// container must follow every later change below it.
func TestVerif_C05_Incremental(t *testing.T) {
	m := mon.New("C05", "incremental")
	defer m.Finish(t)
	m.Rule("incremental: containers are attached to their parent EMPTY and filled afterwards (recursively, depth<=5), a property of an attached child " +
		"is replaced by a larger/smaller value, and after every single mutation Size() and len(MarshalBinary()) are read on a PRNG-chosen ancestor and on " +
		"the root; oracle: they are equal at every step, and the final bytes decode (reference decoder, library layout) to the abstract tree built in " +
		"parallel; distinct = (depth of the mutated container, kind, operation, which ancestor was read)")
	n := m.N(8000, 400000)
	m.Require("evaluations", int64(n))
	m.Require("mutations_below_a_sized_ancestor", int64(n*3))
	mon.Parallel(n, func(w, i int) {
		r := m.Rand("inc", i)
		m.Case()
		rep := map[string]interface{}{"case": i}
		m.Guard("amf0.incremental", nil, func() {
			type node struct {
				lib   amf0.Amf0
				set   func(string, amf0.Amf0)
				abs   *refamf0.Value
				depth int
				anc   []amf0.Amf0 // ancestors, root first
			}
			mkContainer := func(r *vrand.Rand) (amf0.Amf0, func(string, amf0.Amf0), *refamf0.Value) {
				switch r.Intn(3) {
				case 0:
					o := amf0.NewObject()
					return o, func(k string, v amf0.Amf0) { o.Set(k, v) }, &refamf0.Value{Kind: refamf0.Object}
				case 1:
					o := amf0.NewEcmaArray()
					return o, func(k string, v amf0.Amf0) { o.Set(k, v) }, &refamf0.Value{Kind: refamf0.Ecma}
				}
				o := amf0.NewObject()
				return o, func(k string, v amf0.Amf0) { o.Set(k, v) }, &refamf0.Value{Kind: refamf0.Object}
			}
			rootLib, rootSet, rootAbs := mkContainer(r)
			nodes := []*node{{rootLib, rootSet, rootAbs, 0, nil}}
			steps := r.Range(3, 30)
			kept := map[amf0.Amf0][2][]byte{}
			check := func(what string, nd *node) bool {
				// read sizes on a PRNG-chosen ancestor first (this is what would fill a cache), then on the root
				targets := []amf0.Amf0{rootLib}
				if len(nd.anc) > 0 {
					targets = append([]amf0.Amf0{nd.anc[r.Intn(len(nd.anc))]}, targets...)
				}
				for ti, tg := range targets {
					b, err := tg.MarshalBinary()
					if err != nil {
						m.Violationf("c05:marshal-error:incremental", rep, "%v", err)
						return false
					}
					// the bytes returned for this container the last time are the caller's: marshalling it again, after it was
					// changed, must not have touched them (a per-object encode buffer would)
					if k, ok := kept[tg]; ok && !bytes.Equal(k[0], k[1]) {
						m.Violationf("c05:marshalled-bytes-changed-by-a-later-marshal:incremental", rep, "the %d bytes MarshalBinary returned earlier for this container changed when it was marshalled again after %s", len(k[1]), what)
						return false
					}
					kept[tg] = [2][]byte{b, append([]byte(nil), b...)}
					if tg.Size() != len(b) {
						m.Violationf("c05:size-ne-marshal-len:incremental", rep, "after %s at depth %d: Size()=%d but MarshalBinary gives %d bytes (container read #%d of %d)", what, nd.depth, tg.Size(), len(b), ti, len(targets))
						return false
					}
				}
				return true
			}
			rootLib.Size() // a size read before anything is attached
			for s := 0; s < steps; s++ {
				nd := nodes[r.Intn(len(nodes))]
				key := []string{"a", "b", "c", "d", "code", "level", ""}[r.Intn(7)]
				op := r.Intn(3)
				if nd.depth >= 5 && op == 0 {
					op = 1
				}
				var val amf0.Amf0
				var av *refamf0.Value
				what := ""
				switch op {
				case 0: // attach an EMPTY container, to be filled later
					l, set, a := mkContainer(r)
					val, av = l, a
					nodes = append(nodes, &node{l, set, a, nd.depth + 1, append(append([]amf0.Amf0(nil), nd.anc...), nd.lib)})
					what = "attach-empty-container"
				case 1: // scalar
					t := refamf0.Gen(r, refamf0.GenOpts{MaxDepth: 0, MaxWidth: 1, BigStrings: r.Chance(1, 8)})
					val, av = amfx.Build(t), t
					what = "set-scalar"
				default: // a small ready-made subtree
					t := refamf0.Gen(r, refamf0.GenOpts{MaxDepth: 2, MaxWidth: 3, EmptyKeys: true})
					amfx.ZeroEcmaCounts(t)
					val, av = amfx.Build(t), t
					what = "set-subtree"
				}
				nd.set(key, val)
				// mirror Set's replace-or-append semantics in the abstract tree
				replaced := false
				for k := range nd.abs.Props {
					if nd.abs.Props[k].Key == key {
						// a replaced container is no longer part of the tree: drop it from the mutable nodes
						old := nd.abs.Props[k].Val
						for q := 0; q < len(nodes); q++ {
							if nodes[q].abs == old {
								nodes = append(nodes[:q], nodes[q+1:]...)
								q--
							}
						}
						nd.abs.Props[k].Val = av
						replaced = true
					}
				}
				if !replaced {
					nd.abs.Props = append(nd.abs.Props, refamf0.Prop{Key: key, Val: av})
				}
				if nd.depth > 0 {
					m.Count("mutations_below_a_sized_ancestor", 1)
				}
				m.Classf("d%d/%s/replaced%v/anc%d", nd.depth, what, replaced, len(nd.anc))
				if !check(what, nd) {
					return
				}
			}
			b, _ := rootLib.MarshalBinary()
			got, used, err := refamf0.DecodeKeyedStrict(b)
			if err != nil || used != len(b) || !refamf0.Equal(got, rootAbs, false) {
				d := ""
				if got != nil {
					d = got.Describe()
				}
				m.Violationf("c05:decoded-tree-differs:incremental", rep, "final bytes decode to %s (err=%v), built %s", d, err, rootAbs.Describe())
			}
			if m.WantSample() {
				m.Sample(map[string]interface{}{"steps": steps, "final_tree": rootAbs.Describe(), "bytes": len(b)})
			}
		})
	})
}
