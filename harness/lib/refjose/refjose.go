// Package refjose holds the independent oracles of property C16, written from the RFCs
// (never from the library): the RFC 7638 JWK thumbprint built from a hand-made canonical JSON
// string, a hand-made JWK encoder/decoder (RFC 7517/7518 member layout, fixed-width EC
// members), and field access to serialized JWS/JWE objects (RFC 7515 §7, RFC 7516 §7) so that
// a monitor can flip a bit of a field's BYTES and re-encode the object.
package refjose

import (
	"crypto/ecdsa"
	"crypto/elliptic"
	"crypto/rsa"
	"crypto/sha256"
	"encoding/base64"
	"encoding/json"
	"fmt"
	"math/big"
	"strings"
)

func B64(b []byte) string { return base64.RawURLEncoding.EncodeToString(b) }

func UnB64(s string) ([]byte, error) { return base64.RawURLEncoding.DecodeString(s) }

func curveName(c elliptic.Curve) (string, int, error) {
	switch c.Params().BitSize {
	case 256:
		return "P-256", 32, nil
	case 384:
		return "P-384", 48, nil
	case 521:
		return "P-521", 66, nil
	}
	return "", 0, fmt.Errorf("refjose: unsupported curve")
}

func fixed(v *big.Int, n int) []byte {
	out := make([]byte, n)
	v.FillBytes(out)
	return out
}

// uintBytes is Base64urlUInt's octet string: minimal big-endian, zero is one zero octet.
func uintBytes(v *big.Int) []byte {
	b := v.Bytes()
	if len(b) == 0 {
		return []byte{0}
	}
	return b
}

// ThumbprintInput builds the RFC 7638 §3 hash input: only the required members, in
// lexicographic order, no whitespace.  EC coordinates are full-width octet strings
// (RFC 7518 §6.2.1.2/3), RSA members are Base64urlUInt (minimal) values.
func ThumbprintInput(pub interface{}) (string, error) {
	switch k := pub.(type) {
	case *ecdsa.PublicKey:
		crv, n, err := curveName(k.Curve)
		if err != nil {
			return "", err
		}
		return `{"crv":"` + crv + `","kty":"EC","x":"` + B64(fixed(k.X, n)) + `","y":"` + B64(fixed(k.Y, n)) + `"}`, nil
	case *rsa.PublicKey:
		return `{"e":"` + B64(uintBytes(big.NewInt(int64(k.E)))) + `","kty":"RSA","n":"` + B64(uintBytes(k.N)) + `"}`, nil
	case *ecdsa.PrivateKey:
		return ThumbprintInput(&k.PublicKey)
	case *rsa.PrivateKey:
		return ThumbprintInput(&k.PublicKey)
	}
	return "", fmt.Errorf("refjose: no thumbprint for %T", pub)
}

// ThumbprintSHA256 is the RFC 7638 thumbprint with SHA-256.
func ThumbprintSHA256(pub interface{}) ([]byte, error) {
	in, err := ThumbprintInput(pub)
	if err != nil {
		return nil, err
	}
	h := sha256.Sum256([]byte(in))
	return h[:], nil
}

// JWKJSON writes a key as a JWK by hand (public or private; []byte = "oct").  All EC members
// incl. "d" are fixed-width; RSA private keys carry d, p, q, dp, dq, qi.
func JWKJSON(key interface{}, kid string) (string, error) {
	var mem []string
	add := func(k, v string) { mem = append(mem, `"`+k+`":"`+v+`"`) }
	switch k := key.(type) {
	case *ecdsa.PublicKey:
		crv, n, err := curveName(k.Curve)
		if err != nil {
			return "", err
		}
		add("kty", "EC")
		add("crv", crv)
		add("x", B64(fixed(k.X, n)))
		add("y", B64(fixed(k.Y, n)))
	case *ecdsa.PrivateKey:
		crv, n, err := curveName(k.Curve)
		if err != nil {
			return "", err
		}
		add("kty", "EC")
		add("crv", crv)
		add("x", B64(fixed(k.X, n)))
		add("y", B64(fixed(k.Y, n)))
		add("d", B64(fixed(k.D, n)))
	case *rsa.PublicKey:
		add("kty", "RSA")
		add("n", B64(uintBytes(k.N)))
		add("e", B64(uintBytes(big.NewInt(int64(k.E)))))
	case *rsa.PrivateKey:
		if len(k.Primes) != 2 {
			return "", fmt.Errorf("refjose: multi-prime RSA")
		}
		one := big.NewInt(1)
		p, q := k.Primes[0], k.Primes[1]
		add("kty", "RSA")
		add("n", B64(uintBytes(k.N)))
		add("e", B64(uintBytes(big.NewInt(int64(k.E)))))
		add("d", B64(uintBytes(k.D)))
		add("p", B64(uintBytes(p)))
		add("q", B64(uintBytes(q)))
		add("dp", B64(uintBytes(new(big.Int).Mod(k.D, new(big.Int).Sub(p, one)))))
		add("dq", B64(uintBytes(new(big.Int).Mod(k.D, new(big.Int).Sub(q, one)))))
		add("qi", B64(uintBytes(new(big.Int).ModInverse(q, p))))
	case []byte:
		add("kty", "oct")
		add("k", B64(k))
	default:
		return "", fmt.Errorf("refjose: cannot encode %T", key)
	}
	if kid != "" {
		kb, _ := json.Marshal(kid)
		mem = append(mem, `"kid":`+string(kb))
	}
	return "{" + strings.Join(mem, ",") + "}", nil
}

// JWKMembers decodes a JWK document into its string members (non-string members are dropped).
func JWKMembers(doc []byte) (map[string]string, error) {
	var raw map[string]interface{}
	if err := json.Unmarshal(doc, &raw); err != nil {
		return nil, err
	}
	out := map[string]string{}
	for k, v := range raw {
		if s, ok := v.(string); ok {
			out[k] = s
		}
	}
	return out, nil
}

// -------------------------------------------------------------------------------------------
// serialized objects

// Field names one byte-string field of a serialized object.
type Field struct {
	Name  string // protected | payload | signature | encrypted_key | iv | ciphertext | tag | aad
	Index int    // element of "signatures"/"recipients" for per-signature / per-recipient fields, else -1
}

func (f Field) String() string {
	if f.Index >= 0 {
		return fmt.Sprintf("%s[%d]", f.Name, f.Index)
	}
	return f.Name
}

// Object is a parsed serialization (compact or JSON) whose fields can be replaced.
type Object struct {
	Kind    string // "jws" | "jwe"
	Compact bool
	parts   []string               // compact
	doc     map[string]interface{} // JSON
}

var compactNames = map[string][]string{
	"jws": {"protected", "payload", "signature"},
	"jwe": {"protected", "encrypted_key", "iv", "ciphertext", "tag"},
}

var jsonTop = map[string][]string{
	"jws": {"protected", "payload", "signature"},
	"jwe": {"protected", "encrypted_key", "iv", "ciphertext", "tag", "aad"},
}

var jsonPer = map[string]struct {
	array string
	names []string
}{
	"jws": {"signatures", []string{"protected", "signature"}},
	"jwe": {"recipients", []string{"encrypted_key"}},
}

// ParseObject reads a serialization produced by the library.
func ParseObject(kind, s string) (*Object, error) {
	if _, ok := compactNames[kind]; !ok {
		return nil, fmt.Errorf("refjose: kind %q", kind)
	}
	o := &Object{Kind: kind}
	if strings.HasPrefix(strings.TrimSpace(s), "{") {
		dec := json.NewDecoder(strings.NewReader(s))
		if err := dec.Decode(&o.doc); err != nil {
			return nil, err
		}
		return o, nil
	}
	o.Compact = true
	o.parts = strings.Split(s, ".")
	if len(o.parts) != len(compactNames[kind]) {
		return nil, fmt.Errorf("refjose: compact %s with %d parts", kind, len(o.parts))
	}
	return o, nil
}

func (o *Object) slot(f Field) (get func() (string, bool), set func(string)) {
	if o.Compact {
		for i, n := range compactNames[o.Kind] {
			if n == f.Name && f.Index < 0 {
				i := i
				return func() (string, bool) { return o.parts[i], true }, func(v string) { o.parts[i] = v }
			}
		}
		return func() (string, bool) { return "", false }, func(string) {}
	}
	m := o.doc
	if f.Index >= 0 {
		arr, _ := o.doc[jsonPer[o.Kind].array].([]interface{})
		if f.Index >= len(arr) {
			return func() (string, bool) { return "", false }, func(string) {}
		}
		m, _ = arr[f.Index].(map[string]interface{})
		if m == nil {
			return func() (string, bool) { return "", false }, func(string) {}
		}
	}
	return func() (string, bool) { s, ok := m[f.Name].(string); return s, ok }, func(v string) { m[f.Name] = v }
}

// Fields lists the byte-string fields present in the object (present = member exists; it may be empty).
func (o *Object) Fields() []Field {
	var out []Field
	if o.Compact {
		for _, n := range compactNames[o.Kind] {
			out = append(out, Field{n, -1})
		}
		return out
	}
	per := jsonPer[o.Kind]
	arr, general := o.doc[per.array].([]interface{})
	general = general && len(arr) > 0
	for _, n := range jsonTop[o.Kind] {
		if general && contains(per.names, n) {
			// General syntax (RFC 7515 §7.2.1, RFC 7516 §7.2.1): per-signature / per-recipient members live in
			// the array; a top-level member of that name is not part of the syntax (see StrayMembers).
			continue
		}
		if _, ok := o.doc[n].(string); ok {
			out = append(out, Field{n, -1})
		}
	}
	if general {
		for i, e := range arr {
			if m, ok := e.(map[string]interface{}); ok {
				for _, n := range per.names {
					if _, ok := m[n].(string); ok {
						out = append(out, Field{n, i})
					}
				}
			}
		}
	}
	return out
}

func contains(l []string, s string) bool {
	for _, x := range l {
		if x == s {
			return true
		}
	}
	return false
}

// StrayMembers lists top-level members that the general JSON syntax does not define but the
// document carries next to its "signatures"/"recipients" array (e.g. a top-level "encrypted_key").
func (o *Object) StrayMembers() []string {
	if o.Compact {
		return nil
	}
	per := jsonPer[o.Kind]
	arr, ok := o.doc[per.array].([]interface{})
	if !ok || len(arr) == 0 {
		return nil
	}
	var out []string
	for _, n := range per.names {
		if _, ok := o.doc[n]; ok {
			out = append(out, n)
		}
	}
	return out
}

// Get returns the decoded bytes of a field.
func (o *Object) Get(f Field) ([]byte, error) {
	get, _ := o.slot(f)
	s, ok := get()
	if !ok {
		return nil, fmt.Errorf("refjose: no field %s", f)
	}
	return UnB64(s)
}

func (o *Object) serialize() string {
	if o.Compact {
		return strings.Join(o.parts, ".")
	}
	b, err := json.Marshal(o.doc)
	if err != nil {
		panic(err)
	}
	return string(b)
}

// With returns the serialization in which field f carries the given bytes; o is unchanged afterwards.
func (o *Object) With(f Field, b []byte) string {
	get, set := o.slot(f)
	old, ok := get()
	if !ok {
		panic("refjose: no field " + f.String())
	}
	set(B64(b))
	s := o.serialize()
	set(old)
	return s
}

// FlipBit returns a copy of b with bit i (0 = most significant bit of byte 0) inverted.
func FlipBit(b []byte, i int) []byte {
	out := append([]byte{}, b...)
	out[i/8] ^= 0x80 >> uint(i%8)
	return out
}
