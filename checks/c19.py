CHECK = {
    "level": "exploration",
    "engine": "http-envelope",
    "technique": "runtime monitor over the real handlers and the real client: PRNG value trees, error kinds/codes (a third of the application/status errors with a Cause()/Unwrap() chain ending in an error of another kind and code) and callbacks are served into an httptest.ResponseRecorder and by a loopback httptest.Server read back with the library's ApiRequest; bodies are parsed independently with encoding/json and compared as JSON-normalised trees (expected data = encoding/json's own rendering of the value)",
    "level_text": "Held on the executions observed: thousands (quick) to hundreds of thousands (thorough) of generated responses, every one checked on the recorder and every second one over a real loopback connection through ApiRequest or a plain GET; counters show how many successes the client read back as code 0, how many errors it reported, JSONP bodies unwrapped, coded errors matched, plain-error statuses matched, unmarshalable values answered with an error status and values containing invalid UTF-8. Not a proof; value shapes, codes and callbacks outside the generators are not covered.",
    "level_note": "Trusts encoding/json (both as the parser of the bodies and as the definition of the JSON form of a value), net/http and httptest. The client's returned code is only required to be non-zero with an error, not to be identical (it travels through float64); Content-Type is compared as a media type; the status of coded errors and the text of plain errors are not asserted (DESIGN 4.1); a coded error answered to a request with a callback must be callback(json) with the JavaScript content type (DESIGN 7.7). Plain errors whose message is itself a JSON text have their own signature scope (:json-message).",
    "parts": [
        {"name": "envelope", "pkg": "verifharness/prop/c19", "run": "^TestVerif_C19_Envelope$",
         "timeout": {"quick": 600, "thorough": 3600}},
    ],
    "assumptions": [
        "error values are of exactly one kind (SystemError, SystemComplexError by value, AppError, or plain with/without Status()); wrapped or pointer-to-struct forms of the library's own error types are outside the statement",
        "callback parameters are identifier-shaped and non-empty; Status() values are in 400..599; codes are non-zero",
        "the Server header variable is changed only between phases, never while handlers run",
    ],
}
