CHECK = {
    "level": "exploration",
    "engine": "avc",
    "technique": "runtime round-trip and byte-equality monitors against an independent ISO/IEC 14496-15 section 5.2.4.1.1 record writer/reader (reserved bits included): all 256 NAL header bytes x boundary unit sizes exhaustively, field sweeps over every profile/compatibility/level byte, length size 1..4, 0..31 SPS, 0..255 PPS, then PRNG records and length-prefixed samples with unit sizes on the 2^8/2^16/2^24 length boundaries; value->bytes->value, canonical bytes->value->bytes, library bytes == reference bytes, reference bytes read back to the same values (also with the High-profile extension tail)",
    "level_text": "Held on the executions observed. Exhaustive over the 256 NAL header bytes (x unit sizes 1, 2, 255, 256, 65535), the 128 (nal_ref_idc, nal_unit_type) values, every profile / compatibility / level byte, every SPS count 0..31 and PPS count 0..255 and every length size; sampled (PRNG, fixed case counts per tier: thousands quick, hundreds of thousands thorough) over combinations of counts, unit sizes from {1, 2, 255, 256, 65535} and payload bytes, and over samples of 1..8 units. Not a proof for combinations that were not generated.",
    "level_note": "Trusts the harness's reference writer/reader (written from the syntax in ISO/IEC 14496-15 section 5.2.4.1.1 as quoted in DESIGN.md section 6; writer self-checked against reader on every case) and Go's runtime. profile_compatibility and configurationVersion are unexported in the library: non-zero compatibility is set by first unmarshalling a minimal reference-written record and is read back from the marshalled bytes. For profile_idc 100/110/122/144 byte equality is demanded on the base record only (a longer output whose prefix is the base record is accepted), and records carrying the chroma/bit-depth/SPS-extension tail must read back to the same base values. NAL header bytes with forbidden_zero_bit = 1 are not canonical: only field extraction (if accepted) is compared for them. Units larger than the length field can announce, more than 31 SPS / 255 PPS, parameter sets above 65535 bytes and empty units are outside the statement's domain and are not generated.",
    "parts": [
        {"name": "nalu", "pkg": "verifharness/prop/c12", "run": "^TestVerif_C12_NALU$",
         "timeout": {"quick": 600, "thorough": 600}},
        {"name": "records", "pkg": "verifharness/prop/c12", "run": "^TestVerif_C12_Records$",
         "timeout": {"quick": 600, "thorough": 3600}},
        {"name": "samples", "pkg": "verifharness/prop/c12", "run": "^TestVerif_C12_Samples$",
         "timeout": {"quick": 600, "thorough": 3600}},
    ],
    "assumptions": [
        "library values are built through NewNALU/NewAVCDecoderConfigurationRecord/NewAVCSample and their exported fields; every unmarshal goes into a fresh object (accumulation across repeated UnmarshalBinary calls on one object is not part of the statement)",
        "equality of values is judged on profile, compatibility, level, length size and the ordered SPS/PPS lists (header fields + payload of each unit)",
    ],
}
