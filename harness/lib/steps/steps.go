// Package steps is the runtime side of the step-counter pass (cmd/instrument): the
// instrumented library calls Tick() at every function entry and loop iteration.  A
// per-call budget turns "does not return" into a deterministic overrun, and the
// count is the input of the growth-law check.  Decoders are driven single-threaded,
// so a plain counter is enough; the overrun is also latched because some library
// paths recover() from panics.
package steps

type overrun struct{}

func (overrun) Error() string { return "steps: tick budget exceeded" }

// Overrun is the sentinel panic value.
var Overrun error = overrun{}

var (
	n      int64
	budget int64
	over   bool
	calls  int64 // total Tick calls in this process: tells whether the build is instrumented
)

// Tick is called by instrumented code.
func Tick() {
	n++
	calls++
	if budget > 0 && n > budget {
		over = true
		panic(Overrun)
	}
}

// Begin starts counting with a budget (0 = unlimited).
func Begin(b int64) { n, budget, over = 0, b, false }

// End returns the ticks counted since Begin and whether the budget was exceeded.
func End() (int64, bool) {
	c, o := n, over
	budget, over = 0, false
	return c, o
}

// Instrumented reports whether any instrumented code has run in this process.
func Instrumented() bool { return calls > 0 }

// Budget is B(n) = 20000*(n+4096) ticks for an n-byte input.
func Budget(inputLen int) int64 { return 20000 * (int64(inputLen) + 4096) }
