// Package refkxps is the reference model of the rate meters, written from the C20 property
// statement (not from the library):
//
//   - a meter has three windows of 10 s, 30 s and 300 s; each remembers its previous sample
//     (time, counter) and the rate computed at its last sample;
//   - the first non-zero observation becomes the previous sample of every window; rates stay 0;
//   - at a later observation a window takes a sample when at least its length has passed since
//     its previous sample, and — the cascade — a longer window is consulted only at observations
//     where every shorter window took a sample;
//   - the rate after a sample is the counter's increase since that window's previous sample
//     divided by the window LENGTH (not by the time that really passed); a stall or a backwards
//     step yields 0; the increase is taken modulo 2^64 (a wrap-around with a small true increase is
//     an increase, a step of 2^63 or more "forwards" is a step backwards);
//   - the average is the total increase since the first non-zero observation divided by the time
//     since then; 0 when the increase is not positive;
//   - an observation with counter 0 is left open by the statement: Observe() returns both
//     readings — "nothing happened" and "an ordinary observation of the value 0".
//
// Time is in integer nanoseconds.  All values are per second; the caller applies the unit scale
// (x8/1000 for the kbit/s meter).
package refkxps

// Lengths of the windows in nanoseconds.
var Lengths = [3]int64{10e9, 30e9, 300e9}

type Window struct {
	PrevT int64
	PrevC uint64
	Rate  float64
}

// State is one reading of the history so far (a plain value: copy freely).
type State struct {
	Init bool
	W    [3]Window
	// what happened to each window at the last observation: 0 not consulted / not due, 1 sampled with an
	// increase, 2 sampled with a stall or backwards step
	Last [3]int
}

func increase(now, prev uint64) int64 { return int64(now - prev) }

// observe applies one ordinary observation.
func (s State) observe(t int64, c uint64) State {
	s.Last = [3]int{}
	if !s.Init {
		s.Init = true
		for i := range s.W {
			s.W[i] = Window{PrevT: t, PrevC: c}
		}
		return s
	}
	for i := range s.W {
		w := &s.W[i]
		if t-w.PrevT < Lengths[i] {
			break // not due; longer windows are not consulted
		}
		inc := increase(c, w.PrevC)
		w.PrevT, w.PrevC = t, c
		if inc > 0 {
			w.Rate = float64(inc) / (float64(Lengths[i]) / 1e9)
			s.Last[i] = 1
		} else {
			w.Rate = 0
			s.Last[i] = 2
		}
	}
	return s
}

// Observe returns the states the statement allows after observing (t, c): one state, or two when c == 0
// (first: the observation had no effect; second: it was an ordinary observation of the value 0).
func (s State) Observe(t int64, c uint64) []State {
	if c != 0 {
		return []State{s.observe(t, c)}
	}
	idle := s
	idle.Last = [3]int{}
	if !s.Init {
		// before the first non-zero observation nothing can have been sampled
		return []State{idle}
	}
	return []State{idle, s.observe(t, 0)}
}

// Average is the model of the average reading.
type Average struct {
	Init bool
	T0   int64
	C0   uint64
}

// Read returns the expected average at (t, c).  any=true: the statement defines no value (no time has
// passed since the first non-zero observation) — every finite non-negative value is acceptable.
func (a *Average) Read(t int64, c uint64) (want float64, any bool) {
	if c == 0 {
		return 0, false
	}
	if !a.Init {
		a.Init, a.T0, a.C0 = true, t, c
		return 0, false
	}
	inc := increase(c, a.C0)
	if inc <= 0 {
		return 0, false
	}
	if t <= a.T0 {
		return 0, true
	}
	return float64(inc) / (float64(t-a.T0) / 1e9), false
}
