// C16 — JOSE objects verify/decrypt only if untampered, for every algorithm (black-box parts).
//
//	sign     signature matrix, multi-signature objects, ECDSA r/s padding classes, JWS tampering + wrong keys
//	encrypt  encryption matrix (key management x content encryption x zip x size x serialization), multi-recipient
//	tamper   JWE tampering (every field, per bit) + wrong keys
//	jwk      JWK codec and RFC 7638 thumbprints
//
// The in-package part (acme) lives in harness/inject/https/acme/c16_test.go.
package c16

import (
	"bytes"
	"fmt"
	"strings"
	"testing"

	"github.com/ossrs/go-oryx-lib/https/jose"
	"verifharness/lib/mon"
	"verifharness/lib/refjose"
)

type nonceStub string

func (s nonceStub) Nonce() (string, error) { return string(s), nil }

var sigAlgs = []jose.SignatureAlgorithm{jose.HS256, jose.HS384, jose.HS512, jose.RS256, jose.RS384, jose.RS512,
	jose.PS256, jose.PS384, jose.PS512, jose.ES256, jose.ES384, jose.ES512}

// sigKeyNames lists the fitting keys of an algorithm and, for each, a different key of the same kind.
func sigKeyNames(alg jose.SignatureAlgorithm) (names, others []string) {
	a := string(alg)
	switch {
	case strings.HasPrefix(a, "HS"):
		for _, n := range []int{16, 32, 48, 64} {
			names = append(names, fmt.Sprintf("oct%d-a", n))
			others = append(others, fmt.Sprintf("oct%d-b", n))
		}
	case strings.HasPrefix(a, "RS"), strings.HasPrefix(a, "PS"):
		names, others = []string{"rsa-a", "rsa-b", "rsa-e3"}, []string{"rsa-b", "rsa-a", "rsa-a"}
	default:
		c := map[string]string{"ES256": "p256", "ES384": "p384", "ES512": "p521"}[a]
		for _, v := range []string{"a", "b", "lzx", "lzy", "lzd"} {
			names = append(names, c+"-"+v)
			others = append(others, otherEC(c+"-"+v))
		}
	}
	return
}

func algFamily(alg string) string { return alg[:2] }

// verifyJWS parses and verifies; stage is "" on success, else parse-error / verify-error / panic.
func verifyJWS(m *mon.M, s string, key interface{}) (out []byte, stage string, err error) {
	var parsed *jose.JsonWebSignature
	if m.Guard("jose.ParseSigned", []byte(s), func() { parsed, err = jose.ParseSigned(s) }) {
		return nil, "panic", fmt.Errorf("panic in ParseSigned")
	}
	if err != nil {
		return nil, "parse-error", err
	}
	if m.Guard("jose.JsonWebSignature.Verify", []byte(s), func() { out, err = parsed.Verify(key) }) {
		return nil, "panic", fmt.Errorf("panic in Verify")
	}
	if err != nil {
		return nil, "verify-error", err
	}
	return out, "", nil
}

type signJob struct {
	round       int
	alg         jose.SignatureAlgorithm
	key, other  string
	embed, wrap bool
	nonce       bool
}

var jwsSizes = []int{0, 1, 32, 255, 4096}

func TestVerif_C16_Sign(t *testing.T) {
	m := mon.New("C16", "sign")
	defer m.Finish(t)
	if mine, replaying := replayFor(m, "sign"); replaying {
		if mine {
			replayObject(m, "jws")
		}
		return
	}
	col := newCollector(m)
	defer col.flush()
	m.Rule("sign: every signature algorithm (12) x every fitting key (HS: 16/32/48/64-byte keys; RS/PS: 3 RSA-2048 keys incl. e=3; ES: 5 keys per " +
		"curve incl. leading-zero X/Y/D) x embed-jwk on/off x payload sizes {0,1,32,255,4096} x {compact, flattened JSON}; keys raw or as JsonWebKey " +
		"with kid, nonce source on/off alternating; ECDSA repeated until r/s with leading zero bytes were seen; multi-signature general JSON objects; " +
		"tampering: every bit of protected header, payload and signature of one object per (alg, serialization) + multi-signature objects; every " +
		"different key of the same kind and every 1-bit variant of the HMAC key must be rejected. distinct = alg/key/embed/len/serialization classes and tamper field classes")
	rounds := m.N(1, 12)
	m.Note("rounds", rounds)
	m.Note("round0_keys", "testdata/keys (fixed); later rounds: PRNG-derived keys")

	// ---- A. matrix
	var jobs []signJob
	for round := 0; round < rounds; round++ {
		for _, alg := range sigAlgs {
			names, others := sigKeyNames(alg)
			for ki, kn := range names {
				embeds := []bool{true, false}
				if algFamily(string(alg)) == "HS" {
					embeds = []bool{true} // no public key to embed
				}
				for ei, e := range embeds {
					jobs = append(jobs, signJob{round: round, alg: alg, key: kn, other: others[ki], embed: e,
						wrap: (ki+ei+round)%2 == 1, nonce: (ki+round)%2 == 0})
				}
			}
		}
	}
	m.Require("evaluations", int64(len(jobs)*len(jwsSizes)*2))
	m.Require("class:jws/", int64(12*2))
	for _, alg := range sigAlgs {
		m.Require("jws_roundtrip_ok/"+string(alg), 1) // the quantifier names every algorithm
	}
	mon.Parallel(len(jobs), func(w, i int) { runSignJob(m, col, jobs[i], i) })

	// ---- B. ECDSA: r and s are left-padded to the curve size; about 1 signature in 128 has a short r or s
	nEC := m.N(1500, 20000)
	for _, alg := range []jose.SignatureAlgorithm{jose.ES256, jose.ES384, jose.ES512} {
		m.Require("ecdsa_short_r_or_s/"+string(alg), 1)
	}
	ks0 := keysFor(m, 0)
	mon.Parallel(3*nEC, func(w, i int) {
		alg := []jose.SignatureAlgorithm{jose.ES256, jose.ES384, jose.ES512}[i%3]
		kn := map[jose.SignatureAlgorithm]string{jose.ES256: "p256-a", jose.ES384: "p384-lzd", jose.ES512: "p521-a"}[alg]
		priv := ks0.ec[kn]
		pl := payload(m, "ecpl", i, 24, false)
		dims := []dim{{"alg", string(alg)}, {"key", kn}, {"embed", "false"}, {"len", "24"}, {"ser", "compact"}}
		col.seen("roundtrip-fails:jws", dims)
		m.Case()
		m.Guard("jose.Sign", nil, func() {
			signer, err := jose.NewSigner(alg, priv)
			if err != nil {
				col.fail("roundtrip-fails:jws", "sign-error", dims, 24, nil, "NewSigner: %v", err)
				return
			}
			signer.SetEmbedJwk(false)
			obj, err := signer.Sign(pl)
			if err != nil {
				col.fail("roundtrip-fails:jws", "sign-error", dims, 24, nil, "Sign: %v", err)
				return
			}
			s, err := obj.CompactSerialize()
			if err != nil {
				col.fail("roundtrip-fails:jws", "serialize-error", dims, 24, nil, "CompactSerialize: %v", err)
				return
			}
			sigBytes, _ := refjose.UnB64(s[strings.LastIndexByte(s, '.')+1:])
			half := len(sigBytes) / 2
			short := len(sigBytes) > 0 && (sigBytes[0] == 0 || sigBytes[half] == 0)
			if short {
				m.Count("ecdsa_short_r_or_s/"+string(alg), 1)
				m.Class("jws-ecdsa-short/" + string(alg))
			}
			if alg == jose.ES512 && len(sigBytes) == 132 && ((sigBytes[0] == 0 && sigBytes[1] == 0) || (sigBytes[66] == 0 && sigBytes[67] == 0)) {
				m.Count("ecdsa_two_zero_bytes/ES512", 1)
			}
			out, stage, err := verifyJWS(m, s, &priv.PublicKey)
			rep := map[string]interface{}{"part": "sign", "op": "verify", "round": 0, "key": kn, "serialized": s, "expect_payload": hexOf(pl)}
			if stage != "" {
				if short {
					dims = append(dims, dim{"rs", "short"})
				}
				col.fail("roundtrip-fails:jws", stage, dims, 24, rep, "%v", err)
			} else if !bytes.Equal(out, pl) {
				col.fail("roundtrip-fails:jws", "payload-differs", dims, 24, rep, "got %s want %s", hexOf(out), hexOf(pl))
			}
		})
	})

	// ---- C. multi-signature objects (general JSON serialization)
	runMultiSig(m, col, rounds)

	// ---- D. tampering and wrong keys
	runJWSTamper(m, col, rounds)
}

func runSignJob(m *mon.M, col *collector, j signJob, idx int) {
	ks := keysFor(m, j.round)
	priv := ks.byName(j.key)
	pub := publicOf(priv)
	for si, size := range jwsSizes {
		pl := payload(m, "jwspl", idx*16+si, size, false)
		base := []dim{{"alg", string(j.alg)}, {"key", j.key}, {"embed", fmt.Sprint(j.embed)}, {"len", fmt.Sprint(size)}}
		var obj *jose.JsonWebSignature
		var err error
		stage := ""
		if m.Guard("jose.Sign", nil, func() {
			var signer jose.Signer
			signer, err = jose.NewSigner(j.alg, wrapKey(priv, j.wrap, "kid-"+j.key))
			if err != nil {
				stage = "sign-error"
				return
			}
			signer.SetEmbedJwk(j.embed)
			if j.nonce {
				signer.SetNonceSource(nonceStub("nonce-" + j.key))
			}
			obj, err = signer.Sign(pl)
			if err != nil {
				stage = "sign-error"
			}
		}) {
			stage, err = "panic", fmt.Errorf("panic while signing")
		}
		for _, ser := range []string{"compact", "json"} {
			dims := append(append([]dim{}, base...), dim{"ser", ser})
			col.seen("roundtrip-fails:jws", dims)
			m.Case()
			m.Classf("jws/%s/%s/embed=%v/len%d/%s", j.alg, j.key, j.embed, size, ser)
			rep := map[string]interface{}{"part": "sign", "op": "verify", "round": j.round, "key": j.key, "expect_payload": hexOf(pl)}
			if stage != "" {
				col.fail("roundtrip-fails:jws", stage, dims, size, rep, "%v", err)
				continue
			}
			var s string
			var serr error
			if m.Guard("jose.JWS.serialize", nil, func() {
				if ser == "compact" {
					s, serr = obj.CompactSerialize()
				} else {
					s = obj.FullSerialize()
				}
			}) {
				continue
			}
			if serr != nil {
				col.fail("roundtrip-fails:jws", "serialize-error", dims, size, rep, "%v", serr)
				continue
			}
			rep["serialized"] = clip(s)
			out, st, verr := verifyJWS(m, s, wrapKey(pub, j.wrap, ""))
			switch {
			case st == "panic":
			case st != "":
				col.fail("roundtrip-fails:jws", st, dims, size, rep, "%v", verr)
			case !bytes.Equal(out, pl):
				col.fail("roundtrip-fails:jws", "payload-differs", dims, size, rep, "got %s want %s", hexOf(out), hexOf(pl))
			default:
				m.Count("jws_roundtrip_ok/"+string(j.alg), 1)
				if m.WantSample() && size == 32 {
					m.Sample(map[string]interface{}{"alg": string(j.alg), "key": j.key, "ser": ser, "serialized": clip(s)})
				}
			}
		}
	}
}

type multiSigSet struct {
	name string
	algs []jose.SignatureAlgorithm
	keys []string
}

var multiSigSets = []multiSigSet{
	{"hs+es+rs", []jose.SignatureAlgorithm{jose.HS256, jose.ES256, jose.RS256}, []string{"oct32-a", "p256-a", "rsa-a"}},
	{"ps+es512+hs", []jose.SignatureAlgorithm{jose.PS384, jose.ES512, jose.HS512}, []string{"rsa-b", "p521-lzx", "oct64-a"}},
	{"es384x2", []jose.SignatureAlgorithm{jose.ES384, jose.ES384}, []string{"p384-a", "p384-b"}},
	{"hs256x2", []jose.SignatureAlgorithm{jose.HS256, jose.HS256}, []string{"oct32-a", "oct32-b"}},
}

// strangers are keys that signed nothing in any multi-signature set.
var strangers = []string{"oct48-b", "p256-b", "p521-b", "p384-lzx", "rsa-e3"}

func signMulti(m *mon.M, ks *keyset, set multiSigSet, pl []byte) (s string, err error) {
	if m.Guard("jose.MultiSigner", nil, func() {
		signer := jose.NewMultiSigner()
		for i, a := range set.algs {
			if err = signer.AddRecipient(a, ks.byName(set.keys[i])); err != nil {
				return
			}
		}
		var obj *jose.JsonWebSignature
		if obj, err = signer.Sign(pl); err != nil {
			return
		}
		s = obj.FullSerialize()
	}) {
		return "", fmt.Errorf("panic")
	}
	return s, err
}

func runMultiSig(m *mon.M, col *collector, rounds int) {
	m.Require("jws_multi_ok", int64(len(multiSigSets)*2))
	type job struct {
		round, set, size int
	}
	var jobs []job
	for r := 0; r < rounds; r++ {
		for si := range multiSigSets {
			for _, sz := range []int{0, 33, 255} {
				jobs = append(jobs, job{r, si, sz})
			}
		}
	}
	mon.Parallel(len(jobs), func(w, i int) {
		j := jobs[i]
		ks := keysFor(m, j.round)
		set := multiSigSets[j.set]
		pl := payload(m, "multipl", i, j.size, false)
		s, err := signMulti(m, ks, set, pl)
		for ki, kn := range set.keys {
			dims := []dim{{"set", set.name}, {"signer", fmt.Sprint(ki)}, {"len", fmt.Sprint(j.size)}}
			col.seen("roundtrip-fails:jws-multi", dims)
			m.Case()
			m.Classf("jws-multi/%s/signer%d/len%d", set.name, ki, j.size)
			rep := map[string]interface{}{"part": "sign", "op": "verify", "round": j.round, "key": kn, "serialized": clip(s), "expect_payload": hexOf(pl)}
			if err != nil {
				col.fail("roundtrip-fails:jws-multi", "sign-error", dims, j.size, rep, "%v", err)
				continue
			}
			out, st, verr := verifyJWS(m, s, publicOf(ks.byName(kn)))
			switch {
			case st == "panic":
			case st != "":
				col.fail("roundtrip-fails:jws-multi", st, dims, j.size, rep, "%v", verr)
			case !bytes.Equal(out, pl):
				col.fail("roundtrip-fails:jws-multi", "payload-differs", dims, j.size, rep, "got %s want %s", hexOf(out), hexOf(pl))
			default:
				m.Count("jws_multi_ok", 1)
			}
		}
		if err != nil {
			return
		}
		for _, kn := range strangers {
			dims := []dim{{"set", set.name}, {"stranger", kn}}
			col.seen("wrong-key-accepted:jws-multi", dims)
			m.Case()
			m.Count("jws_wrong_key_trials", 1)
			if _, st, _ := verifyJWS(m, s, publicOf(ks.byName(kn))); st == "" {
				col.fail("wrong-key-accepted:jws-multi", "verify", dims, 0,
					map[string]interface{}{"part": "sign", "op": "verify", "round": j.round, "key": kn, "serialized": clip(s), "expect": "reject"},
					"a key that signed nothing verifies the object")
			}
		}
	})
}

// -------------------------------------------------------------------------------------------
// JWS tampering

type jwsTamperObj struct {
	round   int
	desc    string // alg or multi set
	ser     string
	s       string
	keys    []string // verification keys, by signature index
	pl      []byte
	multi   bool
	algs    []string
	symName string // HMAC key name for the 1-bit key sweep ("" otherwise)
	others  []string
}

func runJWSTamper(m *mon.M, col *collector, rounds int) {
	var objs []jwsTamperObj
	for round := 0; round < rounds; round++ {
		ks := keysFor(m, round)
		for ai, alg := range sigAlgs {
			names, others := sigKeyNames(alg)
			pick := (ai + round) % len(names)
			if algFamily(string(alg)) == "HS" {
				pick = 1 + (ai+round)%3 // 32/48/64-byte keys
			}
			kn := names[pick]
			pl := payload(m, "tamperpl", round*100+ai, 33, false)
			var obj *jose.JsonWebSignature
			var err error
			m.Guard("jose.Sign", nil, func() {
				var signer jose.Signer
				if signer, err = jose.NewSigner(alg, ks.byName(kn)); err == nil {
					if ai%2 == 0 {
						signer.SetNonceSource(nonceStub("n0nce"))
					}
					obj, err = signer.Sign(pl)
				}
			})
			if err != nil || obj == nil {
				continue // reported by the matrix
			}
			for _, ser := range []string{"compact", "json"} {
				var s string
				if ser == "compact" {
					if s, err = obj.CompactSerialize(); err != nil {
						continue
					}
				} else {
					s = obj.FullSerialize()
				}
				o := jwsTamperObj{round: round, desc: string(alg), ser: ser, s: s, keys: []string{kn}, pl: pl, algs: []string{string(alg)}, others: []string{others[pick]}}
				if algFamily(string(alg)) == "HS" {
					o.symName = kn
				}
				objs = append(objs, o)
			}
		}
		for _, si := range []int{0, 2, 3} {
			set := multiSigSets[si]
			pl := payload(m, "tampermulti", round*10+si, 33, false)
			s, err := signMulti(m, ks, set, pl)
			if err != nil {
				continue
			}
			var algs []string
			for _, a := range set.algs {
				algs = append(algs, string(a))
			}
			objs = append(objs, jwsTamperObj{round: round, desc: "multi:" + set.name, ser: "json-general", s: s, keys: set.keys, pl: pl, multi: true, algs: algs})
		}
	}
	type job struct {
		obj   int
		field refjose.Field
	}
	var jobs []job
	for oi, o := range objs {
		ro, err := refjose.ParseObject("jws", o.s)
		if err != nil {
			m.Violationf("c16:harness:cannot-read-own-serialization", map[string]interface{}{"serialized": clip(o.s)}, "%v", err)
			continue
		}
		for _, f := range ro.Fields() {
			jobs = append(jobs, job{oi, f})
		}
	}
	m.Require("jws_tamper_trials", 10000)
	for _, f := range []string{"protected", "payload", "signature"} {
		m.Require("jws_tamper_trials/"+f, 1000)
	}
	m.Require("jws_wrong_key_trials", 24)
	m.Note("jws_tamper_objects", len(objs))
	mon.Parallel(len(jobs), func(w, ji int) {
		j := jobs[ji]
		o := objs[j.obj]
		ks := keysFor(m, o.round)
		ro, _ := refjose.ParseObject("jws", o.s)
		orig, err := ro.Get(j.field)
		if err != nil {
			m.Violationf("c16:harness:field-not-base64url", map[string]interface{}{"serialized": clip(o.s), "field": j.field.String()}, "%v", err)
			return
		}
		// which keys must reject a change of this field
		var vkeys []int
		if j.field.Index >= 0 {
			vkeys = []int{j.field.Index}
		} else {
			for i := range o.keys {
				vkeys = append(vkeys, i)
			}
		}
		dims0 := []dim{{"alg", o.desc}, {"ser", o.ser}, {"field", j.field.Name}}
		// self-check of the re-encoding: the untouched field, re-encoded, must still verify
		same := ro.With(j.field, orig)
		for _, ki := range vkeys {
			out, st, err := verifyJWS(m, same, publicOf(ks.byName(o.keys[ki])))
			if st != "" || !bytes.Equal(out, o.pl) {
				col.seen("reencoded-object-rejected:jws", dims0)
				col.fail("reencoded-object-rejected:jws", "verify", dims0, 0, map[string]interface{}{"part": "sign", "op": "verify", "round": o.round,
					"key": o.keys[ki], "serialized": clip(same), "expect_payload": hexOf(o.pl)}, "object re-serialized by the harness without change does not verify: %s %v", st, err)
				return
			}
		}
		if len(orig) == 0 {
			m.Count("jws_empty_fields", 1)
			return
		}
		for bit := 0; bit < len(orig)*8; bit++ {
			mut := ro.With(j.field, refjose.FlipBit(orig, bit))
			for _, ki := range vkeys {
				m.Case()
				m.Count("jws_tamper_trials", 1)
				m.Count("jws_tamper_trials/"+j.field.Name, 1)
				col.seen("tamper-accepted:jws", dims0)
				_, st, _ := verifyJWS(m, mut, publicOf(ks.byName(o.keys[ki])))
				switch st {
				case "":
					col.fail("tamper-accepted:jws", j.field.Name, dims0, bit, map[string]interface{}{"part": "sign", "op": "verify", "round": o.round, "key": o.keys[ki],
						"serialized": clip(mut), "expect": "reject", "field": j.field.String(), "bit": bit, "original": clip(o.s)},
						"bit %d of %s flipped, Verify still succeeds", bit, j.field)
				case "parse-error":
					m.Count("jws_tamper_rejected_at_parse", 1)
				case "verify-error":
					m.Count("jws_tamper_rejected_at_verify", 1)
				}
			}
		}
		m.Classf("jws-tamper/%s/%s/%s", o.desc, o.ser, j.field.Name)
		if j.field.Name != "payload" || o.multi {
			return
		}
		// once per object: different keys
		for _, on := range o.others {
			dims := []dim{{"alg", o.desc}, {"ser", o.ser}, {"how", "other-key"}}
			col.seen("wrong-key-accepted:jws", dims)
			m.Case()
			m.Count("jws_wrong_key_trials", 1)
			if _, st, _ := verifyJWS(m, o.s, publicOf(ks.byName(on))); st == "" {
				col.fail("wrong-key-accepted:jws", "verify", dims, 0, map[string]interface{}{"part": "sign", "op": "verify", "round": o.round, "key": on,
					"serialized": clip(o.s), "expect": "reject"}, "verifies with %s although signed with %s", on, o.keys[0])
			}
		}
		if o.symName != "" {
			key := ks.byName(o.symName).([]byte)
			for bit := 0; bit < len(key)*8; bit++ {
				dims := []dim{{"alg", o.desc}, {"ser", o.ser}, {"how", "1bit-key"}}
				col.seen("wrong-key-accepted:jws", dims)
				m.Case()
				m.Count("jws_wrong_key_trials", 1)
				if _, st, _ := verifyJWS(m, o.s, refjose.FlipBit(key, bit)); st == "" {
					col.fail("wrong-key-accepted:jws", "verify", dims, bit, map[string]interface{}{"part": "sign", "round": o.round, "key": o.symName, "keybit": bit,
						"serialized": clip(o.s)}, "HMAC key with bit %d flipped still verifies", bit)
				}
			}
		}
	})
}
