#!/usr/bin/env python3
"""tools/fixed.py <property> <commit-subject-substring> <what failed>  -- appends a 'fixed:' line to known_findings.json"""
import json, subprocess, sys
prop, sub, what = sys.argv[1:4]
log = subprocess.run(['git', '-C', '/repo', 'log', '--format=%h %s'], capture_output=True, text=True).stdout.splitlines()
hs = [l.split()[0] for l in log if sub in l]
assert len(hs) == 1, hs
k = json.load(open('/verif/known_findings.json'))
line = "fixed: property=%s %s %s" % (prop, hs[0], what)
if not any(hs[0] in f and ("property=%s " % prop) in f for f in k['fixed']):
    k['fixed'].append(line)
json.dump(k, open('/verif/known_findings.json', 'w'), indent=1)
print(line)
