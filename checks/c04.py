CHECK = {
    "level": "exploration",
    "engine": "rtmp-txn-schedules",
    "technique": "schedule-driving transport (answers from inside Write, blocks the writer until the reader has decoded) + happens-before assertions + porcupine linearizability check of recorded send/recv histories against an outstanding-set model + deep-pipeline runs (up to 1025 requests outstanding before any answer, three answer orders, AMF0- and AMF3-typed answers) + Go race detector",
    "level_text": "Held on the interleavings observed: hundreds (quick) to tens of thousands (thorough) of runs of one endpoint with a writer and a reader goroutine under the race detector. The harness transport sees each flushed request inside Write and forces the critical interleavings with certainty (alpha: the response is delivered AND fully decoded by the reader before Write returns; beta: delivered before Write returns; gamma: after WritePacket returned; delta: duplicates and unsolicited responses). Every answer delivered after its request was handed over must decode as the request's response type; the recorded history {send:[call,handed], recv:[delivered,decoded]} must be linearizable under the outstanding-set model (porcupine, partitioned by transaction id); duplicates/unsolicited responses must be refused; zero race reports. Evidence lists the distinct per-request event orders observed. Not a proof.",
    "level_note": "One reader and one writer goroutine (the usage the statement describes). A transaction id is re-used only after its previous answer was decoded. Watchdogs (20 s) only turn a hang into INCONCLUSIVE.",
    "parts": [
        {"name": "schedules", "pkg": "rtmp", "run": "^TestVerif_C04_Schedules$", "race": True, "timeout": {"quick": 900, "thorough": 5400}},
        {"name": "stress", "pkg": "rtmp", "run": "^TestVerif_C04_Stress$", "race": True, "timeout": {"quick": 900, "thorough": 5400}},
    ],
    "assumptions": [
        "the request counts as handed to the transport when its last byte has been passed to the transport's Write",
    ],
}
