// Package refavc is an independent writer/reader for the AVCDecoderConfigurationRecord of
// ISO/IEC 14496-15 §5.2.4.1.1, the NAL unit header of ISO/IEC 14496-10 §7.3.1 and the
// length-prefixed sample format of 14496-15 §5.3.4.2 -- written from the specification, never
// from the library under test.  It is the oracle for C12 and a record source for C07/C10.
//
//	aligned(8) class AVCDecoderConfigurationRecord {
//	    unsigned int(8) configurationVersion = 1;
//	    unsigned int(8) AVCProfileIndication;
//	    unsigned int(8) profile_compatibility;
//	    unsigned int(8) AVCLevelIndication;
//	    bit(6) reserved = '111111'b;
//	    unsigned int(2) lengthSizeMinusOne;
//	    bit(3) reserved = '111'b;
//	    unsigned int(5) numOfSequenceParameterSets;
//	    for (i=0; i< numOfSequenceParameterSets; i++) {
//	        unsigned int(16) sequenceParameterSetLength;
//	        bit(8*sequenceParameterSetLength) sequenceParameterSetNALUnit;
//	    }
//	    unsigned int(8) numOfPictureParameterSets;
//	    for (i=0; i< numOfPictureParameterSets; i++) {
//	        unsigned int(16) pictureParameterSetLength;
//	        bit(8*pictureParameterSetLength) pictureParameterSetNALUnit;
//	    }
//	    // later editions only, if profile_idc is 100, 110, 122 or 144:
//	    bit(6) reserved = '111111'b;  unsigned int(2) chroma_format;
//	    bit(5) reserved = '11111'b;   unsigned int(3) bit_depth_luma_minus8;
//	    bit(5) reserved = '11111'b;   unsigned int(3) bit_depth_chroma_minus8;
//	    unsigned int(8) numOfSequenceParameterSetExt;
//	    for (...) { unsigned int(16) sequenceParameterSetExtLength; bit(8*len) sequenceParameterSetExtNALUnit; }
//	}
package refavc

import (
	"bytes"
	"errors"
	"fmt"
)

// ---- NAL unit header: forbidden_zero_bit(1) nal_ref_idc(2) nal_unit_type(5) ----

type NALHeader struct {
	Forbidden bool
	RefIDC    int // 2 bits
	Type      int // 5 bits
}

func (h NALHeader) Byte() byte {
	var b byte
	if h.Forbidden {
		b = 0x80
	}
	return b | byte(h.RefIDC&3)<<5 | byte(h.Type&0x1f)
}

func ParseNALHeader(b byte) NALHeader {
	return NALHeader{Forbidden: b&0x80 != 0, RefIDC: int(b >> 5 & 3), Type: int(b & 0x1f)}
}

// ---- record ----

// Ext is the High-profile tail of later editions.
type Ext struct {
	ChromaFormat   int // 2 bits
	BitDepthLuma8  int // 3 bits
	BitDepthChroma int // 3 bits
	SPSExt         [][]byte
}

// Record holds the base fields; NAL units are whole byte strings (header byte included).
type Record struct {
	Version       int
	Profile       int
	Compatibility int
	Level         int
	LengthSize    int // 1..4 (lengthSizeMinusOne + 1)
	SPS           [][]byte
	PPS           [][]byte
	Ext           *Ext // nil: not present
}

// HasExtProfile reports the profile_idc values for which later editions append the extension.
func HasExtProfile(profile int) bool {
	return profile == 100 || profile == 110 || profile == 122 || profile == 144
}

func putSets(dst []byte, sets [][]byte) ([]byte, error) {
	for _, s := range sets {
		if len(s) > 0xffff {
			return dst, fmt.Errorf("refavc: parameter set of %d bytes does not fit 16 bits", len(s))
		}
		dst = append(dst, byte(len(s)>>8), byte(len(s)))
		dst = append(dst, s...)
	}
	return dst, nil
}

// WriteBase appends the record up to and including the picture parameter sets.
func (r *Record) WriteBase(dst []byte) ([]byte, error) {
	if r.LengthSize < 1 || r.LengthSize > 4 {
		return dst, fmt.Errorf("refavc: length size %d", r.LengthSize)
	}
	if len(r.SPS) > 31 || len(r.PPS) > 255 {
		return dst, fmt.Errorf("refavc: %d SPS / %d PPS do not fit the counters", len(r.SPS), len(r.PPS))
	}
	dst = append(dst, byte(r.Version), byte(r.Profile), byte(r.Compatibility), byte(r.Level))
	dst = append(dst, 0xfc|byte(r.LengthSize-1)) // '111111' + lengthSizeMinusOne
	dst = append(dst, 0xe0|byte(len(r.SPS)))     // '111' + numOfSequenceParameterSets
	var err error
	if dst, err = putSets(dst, r.SPS); err != nil {
		return dst, err
	}
	dst = append(dst, byte(len(r.PPS)))
	return putSets(dst, r.PPS)
}

// Write appends the base record and, when r.Ext is set, the extension.
func (r *Record) Write(dst []byte) ([]byte, error) {
	dst, err := r.WriteBase(dst)
	if err != nil || r.Ext == nil {
		return dst, err
	}
	e := r.Ext
	if len(e.SPSExt) > 255 {
		return dst, errors.New("refavc: too many SPS extensions")
	}
	dst = append(dst, 0xfc|byte(e.ChromaFormat&3), 0xf8|byte(e.BitDepthLuma8&7), 0xf8|byte(e.BitDepthChroma&7), byte(len(e.SPSExt)))
	return putSets(dst, e.SPSExt)
}

var ErrShort = errors.New("refavc: truncated")

func getSets(b []byte, n int) (sets [][]byte, rest []byte, err error) {
	for i := 0; i < n; i++ {
		if len(b) < 2 {
			return nil, nil, ErrShort
		}
		l := int(b[0])<<8 | int(b[1])
		b = b[2:]
		if len(b) < l {
			return nil, nil, ErrShort
		}
		sets = append(sets, b[:l:l])
		b = b[l:]
	}
	return sets, b, nil
}

// Reserved reports the reserved bits of bytes 4 and 5 as found (6 and 3 bits).
type Reserved struct {
	Byte4 int // 0x3f when conformant
	Byte5 int // 0x07 when conformant
}

// Parse reads a record; trailing bytes after the picture parameter sets are parsed as the extension when
// the profile has one and at least four bytes follow.  baseLen is the number of bytes of the base record.
func Parse(data []byte) (r *Record, res Reserved, baseLen int, err error) {
	if len(data) < 7 {
		return nil, res, 0, ErrShort
	}
	r = &Record{Version: int(data[0]), Profile: int(data[1]), Compatibility: int(data[2]), Level: int(data[3])}
	res.Byte4 = int(data[4] >> 2)
	r.LengthSize = int(data[4]&3) + 1
	res.Byte5 = int(data[5] >> 5)
	nsps := int(data[5] & 0x1f)
	b := data[6:]
	if r.SPS, b, err = getSets(b, nsps); err != nil {
		return nil, res, 0, err
	}
	if len(b) < 1 {
		return nil, res, 0, ErrShort
	}
	npps := int(b[0])
	if r.PPS, b, err = getSets(b[1:], npps); err != nil {
		return nil, res, 0, err
	}
	baseLen = len(data) - len(b)
	if HasExtProfile(r.Profile) && len(b) >= 4 {
		e := &Ext{ChromaFormat: int(b[0] & 3), BitDepthLuma8: int(b[1] & 7), BitDepthChroma: int(b[2] & 7)}
		if e.SPSExt, _, err = getSets(b[4:], int(b[3])); err != nil {
			return nil, res, 0, err
		}
		r.Ext = e
	}
	return r, res, baseLen, nil
}

// EqualBase compares the base fields.
func EqualBase(a, b *Record) bool {
	if a.Version != b.Version || a.Profile != b.Profile || a.Compatibility != b.Compatibility || a.Level != b.Level ||
		a.LengthSize != b.LengthSize || len(a.SPS) != len(b.SPS) || len(a.PPS) != len(b.PPS) {
		return false
	}
	for i := range a.SPS {
		if !bytes.Equal(a.SPS[i], b.SPS[i]) {
			return false
		}
	}
	for i := range a.PPS {
		if !bytes.Equal(a.PPS[i], b.PPS[i]) {
			return false
		}
	}
	return true
}

// ---- sample: { NALUnitLength (lengthSize bytes, big-endian), NAL unit }* ----

// MaxNAL is the largest NAL unit a length field of the given size can announce.
func MaxNAL(lengthSize int) uint64 {
	return 1<<(8*uint(lengthSize)) - 1
}

func WriteSample(dst []byte, lengthSize int, nals [][]byte) ([]byte, error) {
	if lengthSize < 1 || lengthSize > 4 {
		return dst, fmt.Errorf("refavc: length size %d", lengthSize)
	}
	for _, n := range nals {
		if uint64(len(n)) > MaxNAL(lengthSize) {
			return dst, fmt.Errorf("refavc: NAL unit of %d bytes does not fit %d length bytes", len(n), lengthSize)
		}
		for i := lengthSize - 1; i >= 0; i-- {
			dst = append(dst, byte(uint64(len(n))>>(8*uint(i))))
		}
		dst = append(dst, n...)
	}
	return dst, nil
}

func ParseSample(data []byte, lengthSize int) (nals [][]byte, err error) {
	if lengthSize < 1 || lengthSize > 4 {
		return nil, fmt.Errorf("refavc: length size %d", lengthSize)
	}
	for b := data; len(b) > 0; {
		if len(b) < lengthSize {
			return nil, ErrShort
		}
		var l uint64
		for i := 0; i < lengthSize; i++ {
			l = l<<8 | uint64(b[i])
		}
		b = b[lengthSize:]
		if uint64(len(b)) < l {
			return nil, ErrShort
		}
		nals = append(nals, b[:l:l])
		b = b[l:]
	}
	return nals, nil
}
