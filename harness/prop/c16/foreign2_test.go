package c16

import (
	"bytes"
	"crypto/ecdsa"
	"crypto/rsa"
	"math/big"
	"strings"
	"testing"

	"github.com/ossrs/go-oryx-lib/https/jose"
	"verifharness/lib/mon"
	"verifharness/lib/refjose"
	"verifharness/lib/vkeys"
)

// The whole algorithm matrix from an independent producer (refjose.SignCompact / refjose.Encrypt, standard-library
// primitives only): what a conformant third party signs or encrypts must verify / decrypt here to the original payload,
// and must not with another key.  A producer/consumer pair of the library that is wrong in the same way on both sides
// (a key-wrap constant, the AL field of the CBC-HMAC tag, the R||S layout, a KDF counter, an OAEP hash) passes every
// self round trip; it cannot pass this.

var foreignSigAlgs = []string{"HS256", "HS384", "HS512", "RS256", "RS384", "RS512", "PS256", "PS384", "PS512", "ES256", "ES384", "ES512"}

func TestVerif_C16_ForeignMatrix(t *testing.T) {
	m := mon.New("C16", "foreignmatrix")
	defer m.Finish(t)
	m.Rule("foreignmatrix: (a) JWS: 12 signature algs x keys (HMAC 16..64 bytes, RSA 2048 incl. e=3, P-256/384/521 incl. keys with leading-zero coordinates) x payload sizes " +
		"{0,1,15,16,17,255,4096}, produced by the independent signer; Verify with the right key returns the payload, with another key fails. " +
		"(b) JWE: the 14 key-management algs x 6 content encryptions x zip off/on x payload sizes, compact and flattened JSON (with and without aad), produced by the " +
		"independent encrypter (RFC 3394 key wrap, RFC 7518 5.2.2 CBC-HMAC, 4.7 GCM key wrap, 4.6 Concat KDF written out in the harness); Decrypt with the right key " +
		"returns the payload (and the aad), with another key fails; distinct = alg x enc x zip x serialization x size class")
	n := m.N(4000, 400000)
	m.Require("evaluations", int64(n))
	m.Require("jws_verified_ok", int64(n/3))
	m.Require("jwe_decrypted_ok", int64(n/3))
	m.Require("jwe_large_compressible_payloads", int64(n/40))
	for _, a := range foreignSigAlgs {
		m.Require("jws_ok_"+a, 10)
	}
	kms := []string{"dir", "A128KW", "A192KW", "A256KW", "A128GCMKW", "A192GCMKW", "A256GCMKW", "RSA1_5", "RSA-OAEP", "RSA-OAEP-256", "ECDH-ES", "ECDH-ES+A128KW", "ECDH-ES+A192KW", "ECDH-ES+A256KW"}
	encs := []string{"A128GCM", "A192GCM", "A256GCM", "A128CBC-HS256", "A192CBC-HS384", "A256CBC-HS512"}
	for _, a := range kms {
		m.Require("jwe_ok_"+a, 10)
	}
	for _, e := range encs {
		m.Require("jwe_ok_"+e, 10)
	}
	sizes := []int{0, 1, 15, 16, 17, 31, 32, 33, 255, 4096}
	rsaNames := []string{"rsa2048-a", "rsa2048-b", "rsa2048-e3"}
	ecByBits := map[string][]string{"256": vkeys.ECNames("p256"), "384": vkeys.ECNames("p384"), "512": vkeys.ECNames("p521")}
	mon.Parallel(n, func(w, i int) {
		r := m.Rand("foreignmatrix", i)
		m.Case()
		payload := r.Shaped(sizes[r.Intn(len(sizes))])
		if i%2 == 0 {
			// ---- JWS
			alg := foreignSigAlgs[(i/2)%len(foreignSigAlgs)]
			var signKey, verifyKey, otherKey interface{}
			keyName := ""
			switch alg[:2] {
			case "HS":
				k := r.Bytes(r.Pick(16, 32, 48, 64, 100))
				o := append([]byte(nil), k...)
				o[r.Intn(len(o))] ^= 1 << uint(r.Intn(8))
				signKey, verifyKey, otherKey, keyName = k, k, o, "hmac"
			case "RS", "PS":
				keyName = rsaNames[r.Intn(len(rsaNames))]
				k := vkeys.RSA(keyName)
				on := "rsa2048-a"
				if keyName == on {
					on = "rsa2048-b"
				}
				signKey, verifyKey, otherKey = k, &k.PublicKey, &vkeys.RSA(on).PublicKey
			case "ES":
				names := ecByBits[alg[2:]]
				keyName = names[r.Intn(len(names))]
				k := vkeys.EC(keyName)
				on := names[0]
				if on == keyName {
					on = names[1]
				}
				signKey, verifyKey, otherKey = k, &k.PublicKey, &vkeys.EC(on).PublicKey
			}
			var s string
			var err error
			form := "compact"
			switch r.Intn(4) {
			case 0:
				// JSON serialization with the header split as other producers split it: "alg" only in the unprotected header and no
				// protected header at all (RFC 7520 4.7), or next to a protected header that carries other members
				form = "json-alg-unprotected"
				var prot map[string]interface{}
				if r.Bool() {
					prot, form = map[string]interface{}{"typ": "JWT"}, "json-alg-unprotected+protected-typ"
				}
				s, err = refjose.SignJSON(alg, signKey, payload, r, prot, map[string]interface{}{"kid": "k-" + keyName}, false)
			case 1:
				form = "json-alg-protected+unprotected-kid"
				s, err = refjose.SignJSON(alg, signKey, payload, r, nil, map[string]interface{}{"kid": "k-" + keyName}, true)
			default:
				s, err = refjose.SignCompact(alg, signKey, payload, r, nil)
			}
			if err != nil {
				m.Inconclusive("independent signer failed: " + err.Error())
				return
			}
			m.Count("jws_form_"+form, 1)
			m.Classf("jws/%s/%s/%s/len%d", alg, keyName, form, len(payload))
			rep := map[string]interface{}{"case": i, "alg": alg, "key": keyName, "form": form, "payload_len": len(payload), "serialized": clip(s)}
			m.Guard("jose.foreign.jws", nil, func() {
				obj, err := jose.ParseSigned(s)
				if err != nil {
					m.Violationf("c16:foreign-object-rejected:parse:jws:"+alg, rep, "a conformant %s JWS does not parse: %v", alg, err)
					return
				}
				got, err := obj.Verify(verifyKey)
				if err != nil {
					m.Violationf("c16:foreign-object-rejected:verify:"+alg, rep, "a conformant %s JWS (independent signer) does not verify with the right key: %v", alg, err)
					return
				}
				if !bytes.Equal(got, payload) {
					m.Violationf("c16:foreign-object-payload-differs:jws:"+alg, rep, "verified payload differs")
					return
				}
				m.Count("jws_verified_ok", 1)
				m.Count("jws_ok_"+alg, 1)
				if _, err := obj.Verify(otherKey); err == nil {
					m.Violationf("c16:wrong-key-accepted:foreign:jws:"+alg, rep, "verifies with a different key")
				}
			})
			return
		}
		// ---- JWE
		alg := kms[(i/2)%len(kms)]
		enc := encs[(i/2/len(kms))%len(encs)]
		o := refjose.EncryptOpts{Rnd: r, Zip: r.Chance(1, 3), CEK: r.Bytes(refjose.ContentKeyLen(enc)), KWIV: r.Bytes(12)}
		if strings.HasSuffix(enc, "GCM") {
			o.IV = r.Bytes(12)
		} else {
			o.IV = r.Bytes(16)
		}
		if r.Chance(1, 12) {
			// a large payload that deflates far better than 10:1 (a log, a zeroed image): inflating it is where a consumer's
			// buffers and limits are
			payload = bytes.Repeat([]byte("verif "), r.Pick(70000, 200000, 1<<20)/6)
			if r.Chance(1, 3) {
				payload = make([]byte, r.Pick(65536, 65537, 700000))
			}
			o.Zip = r.Chance(3, 4)
			m.Count("jwe_large_compressible_payloads", 1)
		}
		withAAD := r.Chance(1, 4)
		if withAAD {
			o.AAD = r.Shaped(r.Pick(1, 2, 20, 300)) // never empty: whether an empty "aad" member counts as present is not something the RFC settles
		}
		var encKey, decKey, otherKey interface{}
		keyName := ""
		switch {
		case alg == "dir":
			k := r.Bytes(refjose.ContentKeyLen(enc))
			ok := append([]byte(nil), k...)
			span := len(ok)
			if strings.Contains(enc, "CBC") {
				// RFC 7518 5.2: the key is MAC_KEY || ENC_KEY and the tag does not depend on ENC_KEY; a key that differs only in the
				// ENC_KEY half passes the tag check and leaves valid-looking padding about once in 256 tries.  That is the algorithm,
				// not the library (the first version of this part flipped any bit and raised that alarm on the unchanged tree,
				// quick tier seed 9): the other key differs in the MAC half.
				span /= 2
			}
			ok[r.Intn(span)] ^= 1 << uint(r.Intn(8))
			encKey, decKey, otherKey, keyName = k, k, ok, "oct"
		case strings.HasSuffix(alg, "KW") && alg[0] == 'A':
			k := r.Bytes(map[string]int{"A128": 16, "A192": 24, "A256": 32}[alg[:4]])
			ok := append([]byte(nil), k...)
			ok[r.Intn(len(ok))] ^= 1 << uint(r.Intn(8))
			encKey, decKey, otherKey, keyName = k, k, ok, "oct"
		case strings.HasPrefix(alg, "RSA"):
			keyName = rsaNames[r.Intn(len(rsaNames))]
			k := vkeys.RSA(keyName)
			on := "rsa2048-a"
			if keyName == on {
				on = "rsa2048-b"
			}
			encKey, decKey, otherKey = &k.PublicKey, k, vkeys.RSA(on)
		default:
			bits := []string{"256", "384", "512"}[r.Intn(3)]
			names := ecByBits[bits]
			keyName = names[r.Intn(len(names))]
			k := vkeys.EC(keyName)
			on := names[0]
			if on == keyName {
				on = names[1]
			}
			encKey, decKey, otherKey = &k.PublicKey, k, vkeys.EC(on)
			eph := new(big.Int).SetBytes(r.Bytes(32))
			eph.Mod(eph, new(big.Int).Sub(k.Curve.Params().N, big.NewInt(2)))
			eph.Add(eph, big.NewInt(1))
			o.EphD = eph
		}
		compact, flat, err := refjose.Encrypt(alg, enc, encKey, payload, o)
		if err != nil {
			m.Inconclusive("independent encrypter failed: " + err.Error())
			return
		}
		ser, s := "json", flat
		if compact != "" && r.Bool() {
			ser, s = "compact", compact
		}
		m.Classf("jwe/%s/%s/zip%v/%s/aad%v/len%d", alg, enc, o.Zip, ser, withAAD, lenBucket(len(payload)))
		rep := map[string]interface{}{"case": i, "alg": alg, "enc": enc, "zip": o.Zip, "key": keyName, "payload_len": len(payload), "aad": withAAD, "serialized": clip(s)}
		m.Guard("jose.foreign.jwe", nil, func() {
			obj, err := jose.ParseEncrypted(s)
			if err != nil {
				m.Violationf("c16:foreign-object-rejected:parse:jwe:"+alg+":"+enc, rep, "a conformant %s/%s JWE does not parse: %v", alg, enc, err)
				return
			}
			got, err := obj.Decrypt(decKey)
			if err != nil {
				m.Violationf("c16:foreign-object-rejected:decrypt:"+alg+":"+enc, rep, "a conformant %s/%s JWE (independent producer, zip=%v, %s) does not decrypt with the right key: %v", alg, enc, o.Zip, ser, err)
				return
			}
			if !bytes.Equal(got, payload) {
				m.Violationf("c16:foreign-object-payload-differs:jwe:"+alg+":"+enc, rep, "decrypted payload differs (%d vs %d bytes)", len(got), len(payload))
				return
			}
			if withAAD && !bytes.Equal(obj.GetAuthData(), o.AAD) {
				m.Violationf("c16:foreign-object-aad-differs", rep, "authenticated data returned differs from what was sent")
				return
			}
			if len(payload) > 4096 {
				// the same large payload through the library's own encrypter (compression on), serialized, parsed, decrypted
				e, err := jose.NewEncrypter(jose.KeyAlgorithm(alg), jose.ContentEncryption(enc), encKey)
				if err != nil {
					m.Violationf("c16:roundtrip-fails:large:new-encrypter", rep, "NewEncrypter(%s,%s): %v", alg, enc, err)
					return
				}
				if o.Zip {
					e.SetCompression(jose.DEFLATE)
				}
				own, err := e.Encrypt(payload)
				if err != nil {
					m.Violationf("c16:roundtrip-fails:large:encrypt", rep, "Encrypt of %d bytes: %v", len(payload), err)
					return
				}
				ownS := own.FullSerialize()
				if cs, err := own.CompactSerialize(); err == nil && r.Bool() {
					ownS = cs
				}
				back, err := jose.ParseEncrypted(ownS)
				if err != nil {
					m.Violationf("c16:roundtrip-fails:large:parse", rep, "own %d-byte object does not parse: %v", len(ownS), err)
					return
				}
				got2, err := back.Decrypt(decKey)
				if err != nil || !bytes.Equal(got2, payload) {
					m.Violationf("c16:roundtrip-fails:large:decrypt", rep, "own object of a %d-byte payload (zip=%v): err=%v, %d bytes back", len(payload), o.Zip, err, len(got2))
					return
				}
				m.Count("large_payloads_through_own_encrypter", 1)
			}
			m.Count("jwe_decrypted_ok", 1)
			m.Count("jwe_ok_"+alg, 1)
			m.Count("jwe_ok_"+enc, 1)
			if _, err := obj.Decrypt(otherKey); err == nil {
				m.Violationf("c16:wrong-key-accepted:foreign:jwe:"+alg, rep, "decrypts with a different key")
			}
		})
	})
}

var _ = ecdsa.Sign
var _ = rsa.SignPSS

func lenBucket(n int) int {
	if n <= 4096 {
		return n
	}
	return 1 << 20
}
