CHECK = {
    "level": "fault_enumeration",
    "engine": "io-faults",
    "technique": "fault enumeration at run time: every cut offset and every read/write call index (read faults both permanent and transient: one failing call after which the stream continues) of generated RTMP sessions, handshake calls and FLV files on harness-owned faulting transports, expected prefixes from independent reference parsers; exhaustive nesting enumeration to depth 6/8 plus chains of 15..300 layers for the errors package",
    "level_text": "Held for every fault position enumerated: for each generated RTMP session (library-written and reference-chunked with interleaving), each handshake call and each FLV file, the transport was cut at EVERY byte offset (sampled with all structure boundaries +-2 above 8 KiB), failed with a sentinel at EVERY read call index under several segmentations and at EVERY write call index with/without a short write; the real code had to return exactly the items wholly transferred (completion offsets from the reference parsers), then a non-nil error whose errors.Cause is identical to the transport's error, and written bytes had to be a prefix of the fault-free serialisation. The errors package is checked for every nesting of its four wrappers up to depth 6 (quick) / 8 (thorough) over four kinds of root. Exhaustive per session in positions; sessions themselves are sampled.",
    "level_note": "Trusts the reference RTMP de-chunker and the FLV layout for completion offsets. Only the first failing operation is judged (later operations on a failed transport are outside the statement).",
    "parts": [
        {"name": "rtmpread", "pkg": "rtmp", "run": "^TestVerif_C08_RtmpRead$", "timeout": {"quick": 900, "thorough": 7200}},
        {"name": "rtmpwrite", "pkg": "rtmp", "run": "^TestVerif_C08_RtmpWrite$", "timeout": {"quick": 900, "thorough": 7200}},
        {"name": "handshake", "pkg": "rtmp", "run": "^TestVerif_C08_Handshake$", "timeout": {"quick": 600, "thorough": 3600}},
        {"name": "flvread", "pkg": "verifharness/prop/c08", "run": "^TestVerif_C08_FlvRead$", "timeout": {"quick": 900, "thorough": 7200}},
        {"name": "flvwrite", "pkg": "verifharness/prop/c08", "run": "^TestVerif_C08_FlvWrite$", "timeout": {"quick": 900, "thorough": 7200}},
        {"name": "errors", "pkg": "verifharness/prop/c08", "run": "^TestVerif_C08_Errors$", "timeout": {"quick": 600, "thorough": 3600}},
    ],
    "assumptions": [
        "a cut stream may surface as io.EOF or io.ErrUnexpectedEOF; identity is compared through errors.Cause",
        "an FLV tag counts as completely transferred when its header, body and trailing PreviousTagSize were delivered",
    ],
}
