package c16

import (
	"crypto/ecdsa"
	"crypto/rsa"
	"encoding/hex"
	"fmt"
	"sort"
	"strings"
	"sync"

	"github.com/ossrs/go-oryx-lib/https/jose"
	"verifharness/lib/mon"
	"verifharness/lib/vkeys"
	"verifharness/lib/vrand"
)

// -------------------------------------------------------------------------------------------
// key sets: round 0 = the fixed keys of testdata/keys; round r>0 = keys derived from the PRNG
// (thorough tier only), same names and same selection rules (lz* variants are searched).

type keyset struct {
	round int
	rsa   map[string]*rsa.PrivateKey   // "a", "b", "e3"
	ec    map[string]*ecdsa.PrivateKey // "p256-a" ... "p521-lzd"
	oct   map[string][]byte            // "oct16-a" ... "oct64-b"
}

var curves = []string{"p256", "p384", "p521"}

func fixedKeys() *keyset {
	ks := &keyset{rsa: map[string]*rsa.PrivateKey{}, ec: map[string]*ecdsa.PrivateKey{}, oct: map[string][]byte{}}
	for _, n := range []string{"a", "b", "e3"} {
		ks.rsa[n] = vkeys.RSA("rsa2048-" + n)
	}
	for _, n := range vkeys.ECNames("") {
		ks.ec[n] = vkeys.EC(n)
	}
	for _, n := range vkeys.OctNames() {
		ks.oct[n] = vkeys.Oct(n)
	}
	return ks
}

var ksCache sync.Map

// keysFor returns the key set of a round (cached per process).
func keysFor(m *mon.M, round int) *keyset {
	if v, ok := ksCache.Load(round); ok {
		return v.(*keyset)
	}
	var ks *keyset
	if round == 0 {
		ks = fixedKeys()
	} else {
		ks = &keyset{round: round, rsa: map[string]*rsa.PrivateKey{}, ec: map[string]*ecdsa.PrivateKey{}, oct: map[string][]byte{}}
		var mu sync.Mutex
		var wg sync.WaitGroup
		for _, spec := range []struct {
			n string
			e int
		}{{"a", 65537}, {"b", 65537}, {"e3", 3}} {
			wg.Add(1)
			go func(n string, e int) {
				defer wg.Done()
				// streams are labelled independently of the part so that all parts see the same keys
				k := vkeys.GenRSA(vrand.For("C16/keys/rsa-"+n, round), 2048, e)
				mu.Lock()
				ks.rsa[n] = k
				mu.Unlock()
			}(spec.n, spec.e)
		}
		for _, c := range curves {
			for _, v := range vkeys.ECVariants {
				wg.Add(1)
				go func(c, v string) {
					defer wg.Done()
					k, _ := vkeys.SearchEC(c, v, vrand.For("C16/keys/ec-"+c+"-"+v, round))
					mu.Lock()
					ks.ec[c+"-"+v] = k
					mu.Unlock()
				}(c, v)
			}
		}
		for _, n := range []int{16, 24, 32, 48, 64} {
			for _, v := range []string{"a", "b"} {
				name := fmt.Sprintf("oct%d-%s", n, v)
				ks.oct[name] = vrand.For("C16/keys/"+name, round).Bytes(n)
			}
		}
		wg.Wait()
	}
	v, _ := ksCache.LoadOrStore(round, ks)
	return v.(*keyset)
}

func (ks *keyset) octN(n int, v string) []byte {
	k := ks.oct[fmt.Sprintf("oct%d-%s", n, v)]
	if k == nil {
		panic(fmt.Sprintf("no oct%d-%s", n, v))
	}
	return append([]byte{}, k...)
}

// otherEC names a different key on the same curve.
func otherEC(name string) string {
	c := name[:4]
	if strings.HasSuffix(name, "-a") {
		return c + "-b"
	}
	return c + "-a"
}

func otherVariant(v string) string {
	if v == "a" {
		return "b"
	}
	return "a"
}

// decKey resolves the name of a private/symmetric key ("rsa-a", "p256-lzx", "oct16-a") in a key set.
func (ks *keyset) byName(name string) interface{} {
	switch {
	case strings.HasPrefix(name, "rsa-"):
		if k := ks.rsa[strings.TrimPrefix(name, "rsa-")]; k != nil {
			return k
		}
	case strings.HasPrefix(name, "oct"):
		if k := ks.oct[name]; k != nil {
			return append([]byte{}, k...)
		}
	default:
		if k := ks.ec[name]; k != nil {
			return k
		}
	}
	panic("c16: no key " + name)
}

func publicOf(k interface{}) interface{} {
	switch k := k.(type) {
	case *rsa.PrivateKey:
		return &k.PublicKey
	case *ecdsa.PrivateKey:
		return &k.PublicKey
	}
	return k
}

// wrapKey presents a key to the library either raw or inside a *jose.JsonWebKey (both are accepted forms).
func wrapKey(k interface{}, wrap bool, kid string) interface{} {
	if !wrap {
		return k
	}
	return &jose.JsonWebKey{Key: k, KeyID: kid}
}

// -------------------------------------------------------------------------------------------
// payloads

var payloadSizes = []int{0, 1, 15, 16, 17, 31, 32, 33, 255, 4096}

// payload returns n bytes: PRNG bytes, or (compressible=true) a short PRNG motif repeated with sparse noise.
func payload(m *mon.M, label string, idx, n int, compressible bool) []byte {
	r := m.Rand(label, idx)
	if !compressible {
		return r.Bytes(n)
	}
	motif := r.Bytes(7)
	out := make([]byte, n)
	for i := range out {
		out[i] = motif[i%len(motif)]
		if r.Intn(41) == 0 {
			out[i] = byte(r.Intn(256))
		}
	}
	return out
}

// -------------------------------------------------------------------------------------------
// failure collector: violations are grouped so that the number of distinct signatures stays
// small.  A failure carries ordered dimensions (alg, enc, zip, len, ser, ...).  At Flush, within
// each (kind, stage) group, a dimension enters the signature only if the failing values are a
// strict subset (at most 3 values) of the values that were exercised: a failure confined to
// len=0 is reported as "...:len=0", one that spans every algorithm carries no "alg=".

type dim struct{ k, v string }

type failure struct {
	kind, stage string
	dims        []dim
	detail      string
	replay      map[string]interface{}
	weight      int
}

type collector struct {
	mu       sync.Mutex
	m        *mon.M
	fails    []failure
	universe map[string]map[string]map[string]bool // kind -> dim -> values seen
}

func newCollector(m *mon.M) *collector {
	return &collector{m: m, universe: map[string]map[string]map[string]bool{}}
}

func (c *collector) seen(kind string, dims []dim) {
	c.mu.Lock()
	u := c.universe[kind]
	if u == nil {
		u = map[string]map[string]bool{}
		c.universe[kind] = u
	}
	for _, d := range dims {
		if u[d.k] == nil {
			u[d.k] = map[string]bool{}
		}
		u[d.k][d.v] = true
	}
	c.mu.Unlock()
}

func (c *collector) fail(kind, stage string, dims []dim, weight int, replay map[string]interface{}, format string, a ...interface{}) {
	c.mu.Lock()
	c.fails = append(c.fails, failure{kind: kind, stage: stage, dims: append([]dim{}, dims...),
		detail: fmt.Sprintf(format, a...), replay: replay, weight: weight})
	c.mu.Unlock()
}

func dimsString(dims []dim) string {
	var s []string
	for _, d := range dims {
		s = append(s, d.k+"="+d.v)
	}
	return strings.Join(s, " ")
}

// bucket separates, before the scopes are computed, the one input class the design round already
// suspected (empty payload without compression) from everything else, so that a second defect in
// the same stage gets a signature of its own instead of widening the first one.
func bucket(dims []dim) string {
	l, z := "", ""
	for _, d := range dims {
		switch d.k {
		case "len":
			l = d.v
		case "zip":
			z = d.v
		}
	}
	if l == "0" && z == "none" {
		return "len0"
	}
	return ""
}

func (c *collector) flush() {
	c.mu.Lock()
	defer c.mu.Unlock()
	groups := map[string][]failure{}
	var order []string
	for _, f := range c.fails {
		g := f.kind + "\x00" + f.stage + "\x00" + bucket(f.dims)
		if _, ok := groups[g]; !ok {
			order = append(order, g)
		}
		groups[g] = append(groups[g], f)
	}
	sort.Strings(order)
	for _, g := range order {
		fs := groups[g]
		sort.SliceStable(fs, func(i, j int) bool {
			if fs[i].weight != fs[j].weight {
				return fs[i].weight < fs[j].weight
			}
			return dimsString(fs[i].dims) < dimsString(fs[j].dims)
		})
		kind, stage := fs[0].kind, fs[0].stage
		var scope []string
		var names []string
		vals := map[string]map[string]bool{}
		for _, f := range fs {
			for _, d := range f.dims {
				if vals[d.k] == nil {
					vals[d.k] = map[string]bool{}
					names = append(names, d.k)
				}
				vals[d.k][d.v] = true
			}
		}
		for _, n := range names {
			fv, uv := vals[n], c.universe[kind][n]
			if len(fv) < len(uv) && len(fv) <= 3 {
				var vs []string
				for v := range fv {
					vs = append(vs, v)
				}
				sort.Strings(vs)
				scope = append(scope, n+"="+strings.Join(vs, "|"))
			}
		}
		sig := "c16:" + kind + ":" + stage
		if len(scope) > 0 {
			sig += ":" + strings.Join(scope, ",")
		}
		for i, f := range fs {
			rep := f.replay
			if i == 0 {
				if rep == nil {
					rep = map[string]interface{}{}
				}
				rep["dims"] = dimsString(f.dims)
				rep["failures_in_group"] = len(fs)
				rep["sig"] = sig // a replay that reproduces the failure reports it under the same signature
			}
			c.m.Violation(sig, "["+dimsString(f.dims)+"] "+f.detail, rep)
		}
	}
	c.fails = nil
}

func hexOf(b []byte) string {
	if len(b) > 512 {
		return hex.EncodeToString(b[:512]) + fmt.Sprintf("...(%d bytes)", len(b))
	}
	return hex.EncodeToString(b)
}

func clip(s string) string {
	if len(s) > 12000 {
		return s[:12000] + fmt.Sprintf("...(%d chars)", len(s))
	}
	return s
}

// replayFor tells whether a replay file is being replayed and whether it is addressed to this part.
// Failures recorded by this monitor name their part; panics recorded by mon.Guard carry only the
// entry point and the input, they go to the part that owns that entry point.
func replayFor(m *mon.M, part string) (mine bool, replaying bool) {
	if p, ok := m.ReplayField("part").(string); ok {
		return p == part, true
	}
	if e, ok := m.ReplayField("entry").(string); ok {
		jwe := strings.Contains(e, "Encrypt")
		return (jwe && part == "tamper") || (!jwe && part == "sign"), true
	}
	return false, false
}

// bitsOf lists the bit positions to flip in a field of n bytes: all of them, or (sampled) the first and
// last 16 bits plus `extra` PRNG-chosen ones.
func bitsOf(m *mon.M, label string, idx, n int, all bool, extra int) []int {
	total := n * 8
	if all || total <= 32+extra {
		out := make([]int, total)
		for i := range out {
			out[i] = i
		}
		return out
	}
	seen := map[int]bool{}
	var out []int
	add := func(i int) {
		if !seen[i] {
			seen[i] = true
			out = append(out, i)
		}
	}
	for i := 0; i < 16; i++ {
		add(i)
		add(total - 1 - i)
	}
	r := m.Rand(label, idx)
	for len(out) < 32+extra {
		add(r.Intn(total))
	}
	sort.Ints(out)
	return out
}
