// Package hostile drives decoder entry points with untrusted bytes for property C07:
// random bytes, grammar-derived valid encodings, mutations of those; monitors: recovered
// panics (classified by message class and innermost library frame), the tick budget
// ("does not return") and the growth law (super-linear work) when the build is
// instrumented by cmd/instrument, process-fatal reports via mon.LastInput + check.py.
package hostile

import (
	"encoding/hex"
	"fmt"
	"os"
	"runtime"
	"sort"
	"strings"
	"sync/atomic"
	"time"

	"verifharness/lib/mon"
	"verifharness/lib/steps"
	"verifharness/lib/vrand"
)

// Family is a scalable adversarial input family for the growth law: Gen(n) returns an input of about n bytes.
type Family struct {
	Name string
	Gen  func(n int) []byte
}

// Entry is one decoder entry point.
type Entry struct {
	Name     string
	F        func(data []byte) string      // drives the real API to its end; returns a short outcome class ("ok", "err", ...)
	Seed     func(r *vrand.Rand) []byte    // one grammar-derived (valid or nearly valid) encoding
	Weight   int                           // percentage of the tier's per-entry case count (default 100)
	Families []Family
	MaxRand  int // cap for random-bytes lengths (default 65536)
}

var lenClasses = []int{0, 1, 2, 3, 4, 5, 7, 8, 9, 15, 16, 17, 31, 64, 127, 128, 255, 256, 1000, 4096, 16384, 65535, 65536}

// Mutate applies 1..4 mutations to a copy of seed; other is a second seed for splices.
func Mutate(r *vrand.Rand, seed, other []byte) ([]byte, string) {
	b := append([]byte(nil), seed...)
	var names []string
	for k := r.Range(1, 4); k > 0; k-- {
		var name string
		b, name = mutateOnce(r, b, other)
		names = append(names, name)
	}
	if len(b) > 1<<17 {
		b = b[:1<<17]
	}
	return b, strings.Join(names, "+")
}

func mutateOnce(r *vrand.Rand, b, other []byte) ([]byte, string) {
	n := len(b)
	if n == 0 {
		return r.Bytes(r.Range(1, 8)), "fill"
	}
	switch r.Intn(14) {
	case 0:
		i := r.Intn(n)
		b[i] ^= 1 << uint(r.Intn(8))
		return b, "bitflip"
	case 1:
		i := r.Intn(n)
		b[i] = byte(r.Pick(0, 0xff, 0x7f, 0x80, 1, r.Intn(256)))
		return b, "setbyte"
	case 2:
		return b[:r.Intn(n)], "truncate"
	case 3:
		k := r.Pick(0, 1, 2, 3, n-1, n/2, n-2, n-3)
		if k < 0 {
			k = 0
		}
		return b[:k%(n+1)], "truncate-edge"
	case 4, 5:
		// overwrite a length-looking window with a boundary value
		w := r.Pick(1, 2, 3, 4, 8)
		if n < w {
			return b, "noop"
		}
		i := r.Intn(n - w + 1)
		v := r.PickU64(0, 1, 0xffffffffffffffff, 0x7fffffffffffffff, 0x8000000000000000, uint64(n), uint64(n+1), uint64(n-1), uint64(n-i), uint64(n-i-w), uint64(n-i-w+1), uint64(r.Intn(300)))
		for k := 0; k < w; k++ {
			b[i+k] = byte(v >> uint(8*(w-1-k)))
		}
		if r.Chance(1, 6) { // little-endian variant
			for k := 0; k < w/2; k++ {
				b[i+k], b[i+w-1-k] = b[i+w-1-k], b[i+k]
			}
		}
		return b, fmt.Sprintf("len%d", w)
	case 6:
		i := r.Intn(n + 1)
		ins := r.Bytes(r.Range(1, 9))
		return append(b[:i:i], append(ins, b[i:]...)...), "insert"
	case 7:
		i := r.Intn(n)
		j := i + r.Range(1, 16)
		if j > n {
			j = n
		}
		return append(b[:i:i], b[j:]...), "delete"
	case 8:
		i := r.Intn(n)
		j := i + r.Range(1, 64)
		if j > n {
			j = n
		}
		frag := append([]byte(nil), b[i:j]...)
		reps := r.Range(1, 20)
		out := append([]byte(nil), b[:j]...)
		for k := 0; k < reps; k++ {
			out = append(out, frag...)
		}
		return append(out, b[j:]...), "dup-fragment"
	case 9:
		if len(other) == 0 {
			return b, "noop"
		}
		i, j := r.Intn(n+1), r.Intn(len(other)+1)
		return append(b[:i:i], other[j:]...), "splice"
	case 10:
		return append(b, b...), "double"
	case 11:
		return append(b, r.Bytes(r.Range(1, 16))...), "append-garbage"
	case 12:
		// swap two regions
		i, j := r.Intn(n), r.Intn(n)
		b[i], b[j] = b[j], b[i]
		return b, "swap"
	default:
		i := r.Intn(n)
		for k := i; k < n && k < i+r.Range(1, 8); k++ {
			b[k] = 0
		}
		return b, "zero-run"
	}
}

// Options of a run.
type Options struct {
	PerEntryQuick, PerEntryThorough int
}

type outcome struct {
	panicked bool
	sig      string
	msg      string
	ticks    int64
	overrun  bool
	class    string
}

func runOne(e *Entry, data []byte, ticks bool) (o outcome) {
	defer func() {
		if ticks {
			o.ticks, o.overrun = steps.End()
		}
		if r := recover(); r != nil {
			if r == steps.Overrun {
				o.overrun = true
				return
			}
			o.panicked = true
			o.msg = fmt.Sprint(r)
			if o.overrun {
				return // a secondary panic after the budget abort
			}
			o.sig = "panic:" + e.Name + ":" + mon.PanicClass(r) + "@" + mon.LibFrame()
		}
	}()
	if ticks {
		steps.Begin(steps.Budget(len(data)))
	}
	currentEntry.Store(e.Name)
	o.class = e.F(data)
	return
}

// Ticks reports whether this process should run in tick mode (instrumented build).
func Ticks() bool { return os.Getenv("VERIF_TICKS") == "1" }

func report(m *mon.M, e *Entry, data []byte, kind string, o outcome, worker int) {
	rep := map[string]interface{}{"entry": e.Name, "input_kind": kind, "input_len": len(data)}
	in := data
	if len(in) > 2048 {
		in = in[:2048]
		rep["truncated"] = true
	}
	rep["input_hex"] = hex.EncodeToString(in)
	if o.panicked {
		m.Violation(o.sig, o.msg, rep)
	}
	if o.overrun {
		rep["ticks"] = o.ticks
		rep["budget"] = steps.Budget(len(data))
		m.Violation("c07:tick-budget-exceeded:"+e.Name, fmt.Sprintf("%d ticks for a %d-byte input exceed the budget B(n)=20000*(n+4096): the call does not return in linear time", o.ticks, len(data)), rep)
	}
}

var currentEntry atomic.Value // name of the entry most recently started (exact in tick mode, indicative in parallel mode)

// memoryWatchdog ends the process with a "fatal error:" line (which check.py turns into a violation carrying the
// last inputs) when the heap passes a bound no linear-time decoder of <= 128 KiB inputs can need: a decoder that
// allocates exponentially would otherwise take the machine down before any verdict is written.
func memoryWatchdog(limit uint64) {
	go func() {
		var ms runtime.MemStats
		for {
			time.Sleep(100 * time.Millisecond)
			runtime.ReadMemStats(&ms)
			if ms.HeapAlloc > limit {
				e, _ := currentEntry.Load().(string)
				fmt.Printf("\nfatal error: verif memory watchdog: heap %d MiB (> %d MiB) while decoding, entry %q: allocation out of all proportion to the input size\n", ms.HeapAlloc>>20, limit>>20, e)
				os.Exit(86)
			}
		}
	}()
}

// Run executes the workload for every entry.
func Run(m *mon.M, entries []Entry, opt Options) {
	memoryWatchdog(6 << 30)
	ticks := Ticks()
	per := m.N(opt.PerEntryQuick, opt.PerEntryThorough)
	if ticks {
		// single-threaded: the tick counter is global
		for ei := range entries {
			e := &entries[ei]
			n := per * weight(e) / 100
			for i := 0; i < n; i++ {
				caseOf(m, e, ei, i, 0, true)
			}
			growth(m, e)
		}
		if !steps.Instrumented() {
			m.Inconclusive("tick mode requested but no instrumented code ran (overlay missing?)")
		}
		return
	}
	type job struct{ ei, lo, hi int }
	var jobs []job
	for ei := range entries {
		n := per * weight(&entries[ei]) / 100
		for lo := 0; lo < n; lo += 500 {
			hi := lo + 500
			if hi > n {
				hi = n
			}
			jobs = append(jobs, job{ei, lo, hi})
		}
	}
	mon.Parallel(len(jobs), func(w, j int) {
		jb := jobs[j]
		for i := jb.lo; i < jb.hi; i++ {
			caseOf(m, &entries[jb.ei], jb.ei, i, w, false)
		}
	})
}

func weight(e *Entry) int {
	if e.Weight <= 0 {
		return 100
	}
	return e.Weight
}

func caseOf(m *mon.M, e *Entry, ei, i, worker int, ticks bool) {
	r := m.Rand("hostile/"+e.Name, i)
	var data []byte
	kind := ""
	maxRand := e.MaxRand
	if maxRand == 0 {
		maxRand = 65536
	}
	switch k := i % 8; {
	case k == 0:
		n := lenClasses[r.Intn(len(lenClasses))]
		if n > maxRand {
			n = maxRand
		}
		if r.Chance(1, 3) {
			n = r.Intn(64)
		}
		data = r.Bytes(n)
		if r.Chance(1, 4) && len(data) > 0 {
			// low-entropy bytes reach deeper than uniform noise
			for k := range data {
				data[k] = byte(r.Pick(0, 0, 0, 1, 2, 3, 5, 8, 9, 10, 0xff, 0x80, int(data[k])))
			}
		}
		kind = "random"
	case k == 1 && e.Seed != nil:
		data = e.Seed(r)
		kind = "valid"
	case e.Seed != nil:
		s1, s2 := e.Seed(r), e.Seed(r)
		var mk string
		data, mk = Mutate(r, s1, s2)
		kind = "mutated"
		_ = mk
	default:
		data = r.Bytes(r.Intn(300))
		kind = "random"
	}
	m.LastInput(worker, e.Name, data)
	o := runOne(e, data, ticks)
	m.Case()
	m.Classf("%s/%s/%s/len%d", e.Name, kind, o.class, bucket(len(data)))
	m.Count("inputs:"+e.Name, 1)
	if o.panicked || o.overrun {
		report(m, e, data, kind, o, worker)
	}
	if m.WantSample() && kind == "mutated" {
		in := data
		if len(in) > 64 {
			in = in[:64]
		}
		m.Sample(map[string]interface{}{"entry": e.Name, "kind": kind, "len": len(data), "head_hex": hex.EncodeToString(in), "outcome": o.class})
	}
}

func bucket(n int) int {
	switch {
	case n < 8:
		return n
	case n < 64:
		return 64
	case n < 1024:
		return 1024
	case n < 16384:
		return 16384
	}
	return 65536
}

var growthSizes = []int{4096, 8192, 16384, 32768, 65536}

// growth measures ticks for each family at doubling sizes and applies the growth law:
// violation iff t(64K)/t(32K) > 3 and t(32K)/t(16K) > 3 (linear 2, n log n ~2.1, quadratic 4).
func growth(m *mon.M, e *Entry) {
	table := map[string][]int64{}
	for _, f := range e.Families {
		var ts, allocs []int64
		var lens []int
		abort := false
		for _, n := range growthSizes {
			data := f.Gen(n)
			m.LastInput(0, e.Name+"/"+f.Name, data)
			var m0, m1 runtime.MemStats
			runtime.ReadMemStats(&m0)
			o := runOne(e, data, true)
			runtime.ReadMemStats(&m1)
			allocs = append(allocs, int64(m1.TotalAlloc-m0.TotalAlloc))
			m.Case()
			m.Classf("%s/family:%s/%d/%s", e.Name, f.Name, n, o.class)
			ts = append(ts, o.ticks)
			lens = append(lens, len(data))
			if o.panicked {
				report(m, e, data, "family:"+f.Name, o, 0)
			}
			if o.overrun {
				report(m, e, data, "family:"+f.Name, o, 0)
				abort = true
				break
			}
		}
		table[f.Name] = ts
		table[f.Name+" (bytes allocated)"] = allocs
		m.Count("growth_families_measured", 1)
		if abort || len(ts) < 5 {
			continue
		}
		// bytes allocated are a lower bound on the work done (also inside standard-library callees, which ticks
		// do not see): the same growth law, for allocations above 1 MiB
		if allocs[4] > 1<<20 && ratio(allocs[4], allocs[3]) > 3 && ratio(allocs[3], allocs[2]) > 3 {
			m.Violation("c07:super-linear-allocation:"+e.Name+":"+f.Name,
				fmt.Sprintf("bytes allocated %v for input sizes %v: quadrupling per doubling, so time cannot be linear", allocs, lens),
				map[string]interface{}{"entry": e.Name, "family": f.Name, "allocated": allocs, "sizes": lens})
		}
		r1 := ratio(ts[4], ts[3])
		r2 := ratio(ts[3], ts[2])
		if r1 > 3 && r2 > 3 {
			m.Violation("c07:super-linear-growth:"+e.Name+":"+f.Name,
				fmt.Sprintf("ticks %v for input sizes %v: ratios %.2f and %.2f (linear 2, quadratic 4)", ts, lens, r2, r1),
				map[string]interface{}{"entry": e.Name, "family": f.Name, "ticks": ts, "sizes": lens})
		}
	}
	if len(table) > 0 {
		keys := make([]string, 0, len(table))
		for k := range table {
			keys = append(keys, k)
		}
		sort.Strings(keys)
		out := map[string]interface{}{}
		for _, k := range keys {
			out[k] = table[k]
		}
		m.Note("ticks:"+e.Name, out)
	}
}

func ratio(a, b int64) float64 {
	if b <= 0 {
		return 0
	}
	return float64(a) / float64(b)
}
