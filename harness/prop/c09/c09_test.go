// C09 — FLV files written are read back identically and follow the FLV layout (black-box).
//
// For every generated (flags, tag sequence):
//
//	L = bytes produced by the library muxer          R = bytes produced by refflv (independent writer)
//	(1) L == R byte for byte                          (the layout clause of the statement)
//	(2) refflv.Parse(L) succeeds and yields the tags  (independent parser; sees PreviousTagSize, stream id…)
//	(3) library demuxer over L, segmented reader  -> the same tags, in order, then no further tag
//	(4) library demuxer over R, another segmentation -> the same tags
package c09

import (
	"bytes"
	"fmt"
	"io"
	"sort"
	"strings"
	"testing"

	"github.com/ossrs/go-oryx-lib/flv"
	"verifharness/lib/detviol"
	"verifharness/lib/mon"
	"verifharness/lib/refflv"
	"verifharness/lib/transport"
	"verifharness/lib/vrand"
)

var sizePool = []int{0, 1, 255, 256, 65535, 65536, refflv.MaxBody}
var tsPool = []uint32{0, 1<<24 - 1, 1 << 24, 1<<24 + 1, 1 << 31, 1<<32 - 1}

func sizeClass(n int) string {
	for _, s := range sizePool {
		if n == s {
			return fmt.Sprintf("size_%d", s)
		}
	}
	return "size_other"
}

func tsClass(ts uint32) string {
	for _, s := range tsPool {
		if ts == s {
			return fmt.Sprintf("ts_%x", s)
		}
	}
	return "ts_other"
}

func typeClass(t byte) string {
	switch t {
	case 8, 9, 18:
		return fmt.Sprintf("type_%d", t)
	}
	return "type_other"
}

// genFile builds case i.  big: the file contains one body of 2^24-1 bytes.
func genFile(r *vrand.Rand, i int, big bool) *refflv.File {
	f := &refflv.File{HasVideo: i&1 != 0, HasAudio: i&2 != 0}
	n := r.Pick(0, 1, 1, 2, 3, 4, 6, 12)
	bigAt := -1
	if big {
		n = r.Range(1, 3)
		bigAt = r.Intn(n)
	}
	for k := 0; k < n; k++ {
		var t refflv.Tag
		switch r.Intn(4) {
		case 0:
			t.Type = refflv.TagAudio
		case 1:
			t.Type = refflv.TagVideo
		case 2:
			t.Type = refflv.TagScript
		default:
			t.Type = byte(r.Intn(256))
		}
		if r.Chance(1, 4) {
			t.Timestamp = r.Uint32()
			if r.Bool() {
				t.Timestamp >>= uint(r.Intn(32)) // spread over magnitudes
			}
		} else {
			t.Timestamp = tsPool[r.Intn(len(tsPool))]
		}
		var size int
		switch c := r.Intn(20); {
		case k == bigAt:
			size = refflv.MaxBody
		case c < 6:
			size = sizePool[c] // 0,1,255,256,65535,65536
		case c < 8:
			size = sizePool[c-6] // 0,1 once more: empty and tiny bodies are the common boundary
		case c < 10:
			size = sizePool[c-6] // 255,256 once more
		case c == 10:
			size = r.Range(257, 70000)
		default:
			size = r.Range(2, 300)
		}
		t.Body = r.Shaped(size) // opaque to FLV: half of the bodies look like tag headers, start codes, sync words
		f.Tags = append(f.Tags, t)
	}
	return f
}

func describe(f *refflv.File) string {
	var sb strings.Builder
	fmt.Fprintf(&sb, "video=%v audio=%v tags=[", f.HasVideo, f.HasAudio)
	for k, t := range f.Tags {
		if k >= 40 {
			fmt.Fprintf(&sb, " ... %d more", len(f.Tags)-k)
			break
		}
		if k > 0 {
			sb.WriteString(" ")
		}
		fmt.Fprintf(&sb, "{type %d ts %#x size %d}", t.Type, t.Timestamp, len(t.Body))
	}
	sb.WriteString("]")
	return sb.String()
}

// headerCuts returns read boundaries that fall inside the file header, the tag headers and
// the PreviousTagSize fields of this layout: all of them, or a PRNG-chosen subset.
func headerCuts(r *vrand.Rand, f *refflv.File) []int {
	sizes := make([]int, len(f.Tags))
	for k, t := range f.Tags {
		sizes[k] = len(t.Body)
	}
	all := r.Bool()
	var cuts []int
	for _, fd := range refflv.Layout(sizes) {
		if fd.Name == "body" {
			// a cut or two inside the body as well, so that a header read starts mid-buffer
			if fd.Len > 1 && r.Bool() {
				cuts = append(cuts, fd.Off+r.Range(1, fd.Len-1))
			}
			continue
		}
		for o := fd.Off; o < fd.Off+fd.Len; o++ {
			if all || r.Chance(1, 3) {
				cuts = append(cuts, o+1)
			}
		}
	}
	return cuts
}

func TestVerif_C09_Files(t *testing.T) {
	m := mon.New("C09", "files")
	defer m.Finish(t)
	m.Rule("files: case i has header flags (video=i&1, audio=i&2) and 0..12 tags; type from {8,9,18,random byte}; timestamp from " +
		"{0,2^24-1,2^24,2^24+1,2^31,2^32-1} or random (all magnitudes); body size from {0,1,255,256,65535,65536}, random 2..300, random 257..70000, " +
		"and 2^24-1 in a fixed few files per tier; PRNG bodies. Each file is muxed by the library and written by refflv, compared byte for byte, " +
		"parsed by refflv, and both files are demuxed by the library through a segmenting reader (whole | 1 byte per Read | random 1..7 | cut list " +
		"with boundaries inside file header, tag headers and PreviousTagSize; optionally last bytes delivered together with io.EOF). " +
		"distinct = observed flags x tag-count bucket x segmentation modes x set of size classes x {timestamps below 2^24, with extension byte}")
	n := m.N(6000, 600000)
	nbig := m.N(2, 60)
	m.Require("evaluations", int64(n))
	m.Require("ext_timestamp_tags", 200)
	m.Require("tags_demuxed", int64(n))
	for _, s := range sizePool {
		min := int64(40)
		if s == refflv.MaxBody {
			min = int64(2 * nbig) // each big file is demuxed twice
		}
		m.Require(sizeClass(s), min)
	}
	for _, s := range tsPool {
		m.Require(tsClass(s), 40)
	}
	for _, c := range []string{"ts_other", "size_other", "type_8", "type_9", "type_18", "type_other",
		"seg_whole", "seg_1byte", "seg_randsmall", "seg_cuts", "seg_eofwithdata", "empty_files"} {
		m.Require(c, 20)
	}
	for fl := 0; fl < 4; fl++ {
		m.Require(fmt.Sprintf("flags_%d_observed", fl), 100)
	}

	only := -1
	if v, ok := m.ReplayField("case").(float64); ok {
		only = int(v)
	}
	bigEvery := n / nbig
	vc := detviol.New(m)
	defer vc.Flush()
	mon.Parallel(n, func(w, i int) {
		if only >= 0 && i != only {
			return
		}
		r := m.Rand("file", i)
		big := i%bigEvery == bigEvery/4
		f := genFile(r, i, big)
		checkFile(m, vc, r, f, i, big)
	})
}

// Every body size from 0 to 1100 bytes for each of the three defined tag types, two tags of that size in a row followed by
// a tag of another size (so that a wrong PreviousTagSize or a coalesced write shows in what follows): sizes are otherwise
// drawn from pools and ranges, and a threshold at, say, 1010 bytes would fall between them.
func TestVerif_C09_SizeSweep(t *testing.T) {
	m := mon.New("C09", "sizesweep")
	defer m.Finish(t)
	m.Rule("sizesweep: for every body size 0..1100 and every tag type {8, 9, 18}: a file [tag(size), tag(size), tag(size+7 mod 1101), tag(3)] through the oracle of part " +
		"files (byte identity with the independent writer, independent parse, library demux of both files); thorough: sizes up to 9000; distinct = as part files")
	max := m.N(1100, 9000)
	m.Require("evaluations", int64(3*(max+1)))
	vc := detviol.New(m)
	defer vc.Flush()
	mon.Parallel(3*(max+1), func(w, i int) {
		r := m.Rand("sizesweep", i)
		size, typ := i/3, []byte{refflv.TagAudio, refflv.TagVideo, refflv.TagScript}[i%3]
		f := &refflv.File{HasVideo: i%2 == 0, HasAudio: i%4 < 2}
		for k, n := range []int{size, size, (size + 7) % (max + 1), 3} {
			f.Tags = append(f.Tags, refflv.Tag{Type: typ, Timestamp: uint32(40 * k), Body: r.Shaped(n)})
		}
		checkFile(m, vc, r, f, 2000000+i, false)
	})
}

// Long files: a recording of hours has tens of thousands of tags; muxer and demuxer state after 2^16 tags, timestamps
// running through 2^24 and up to 2^32-1.
func TestVerif_C09_LongFile(t *testing.T) {
	m := mon.New("C09", "longfile")
	defer m.Finish(t)
	m.Rule("longfile: 2 (quick) / 8 (thorough) files of 70 000 tags (audio/video/script interleaved, bodies 1..300 bytes and a few of 0, 65535, 65536 bytes, " +
		"timestamps advancing by 0..40 ms with jumps across 2^24 and to 2^32-1), through the same oracle as part files (byte identity with the independent writer, " +
		"independent parse, library demux of both files under a segmentation, bodies re-examined at the end); distinct = as part files")
	n := m.N(2, 8)
	m.Require("evaluations", int64(n))
	m.Require("tags_demuxed", int64(n*70000*2))
	vc := detviol.New(m)
	defer vc.Flush()
	mon.Parallel(n, func(w, i int) {
		r := m.Rand("longfile", i)
		f := &refflv.File{HasVideo: true, HasAudio: i%2 == 0}
		ts := uint32(0)
		for k := 0; k < 70000; k++ {
			tg := refflv.Tag{Type: byte(r.Pick(refflv.TagAudio, refflv.TagVideo, refflv.TagVideo, refflv.TagScript))}
			switch k {
			case 23000:
				ts = 1<<24 - 20
			case 46000:
				ts = 1<<31 - 20
			case 69000:
				ts = 1<<32 - 20000
			default:
				if ts < 1<<32-50 {
					ts += uint32(r.Intn(41))
				}
			}
			tg.Timestamp = ts
			size := r.Range(1, 300)
			if k%9973 == 0 {
				size = r.Pick(0, 65535, 65536)
			}
			tg.Body = r.Shaped(size)
			f.Tags = append(f.Tags, tg)
		}
		checkFile(m, vc, r, f, 1000000+i, false)
	})
}

func checkFile(m *mon.M, vc *detviol.Collector, r *vrand.Rand, f *refflv.File, i int, big bool) {
	m.Case()
	rep := map[string]interface{}{"case": i, "file": describe(f)}
	if len(f.Tags) == 0 {
		m.Count("empty_files", 1)
	}
	m.Guard("flv.file", nil, func() {
		// --- library muxer
		var lbuf bytes.Buffer
		mx, err := flv.NewMuxer(&lbuf)
		if err != nil {
			vc.Violationf(i, "c09:mux-error:new", rep, "NewMuxer: %v", err)
			return
		}
		if err = mx.WriteHeader(f.HasVideo, f.HasAudio); err != nil {
			vc.Violationf(i, "c09:mux-error:header", rep, "WriteHeader: %v", err)
			return
		}
		for k, tg := range f.Tags {
			// the body is handed over as a window of a larger buffer whose spare capacity holds a canary: the muxer
			// may read the window, nothing of the caller's memory may change (adjacent frames live there in a real caller)
			body, canary := tg.Body, []byte(nil)
			if len(tg.Body) <= 1<<20 {
				buf := make([]byte, len(tg.Body)+16)
				copy(buf, tg.Body)
				canary = buf[len(tg.Body):]
				for j := range canary {
					canary[j] = 0xA5 ^ byte(j)
				}
				body = buf[:len(tg.Body)]
			}
			if err = mx.WriteTag(flv.TagType(tg.Type), tg.Timestamp, body); err != nil {
				vc.Violationf(i, "c09:mux-error:tag", rep, "WriteTag #%d: %v", k, err)
				return
			}
			if !bytes.Equal(body, tg.Body) {
				vc.Violationf(i, "c09:muxer-changed-callers-body", rep, "WriteTag #%d changed the bytes of the body it was given", k)
			}
			for j := range canary {
				if canary[j] != 0xA5^byte(j) {
					vc.Violationf(i, "c09:muxer-wrote-behind-callers-body", rep, "WriteTag #%d (size %d) wrote into the caller's buffer behind the body: spare capacity now %x", k, len(tg.Body), canary)
					break
				}
			}
			if canary != nil {
				m.Count("muxer_inputs_with_canary_intact_checked", 1)
			}
		}
		if err = mx.Close(); err != nil {
			vc.Violationf(i, "c09:mux-error:close", rep, "Close: %v", err)
		}
		L := lbuf.Bytes()
		R := f.Bytes()
		if m.WantSample() {
			m.Sample(map[string]interface{}{"case": i, "file": describe(f), "muxed_len": len(L), "muxed_head": mon.Hex(L)})
		}

		// (1) byte identity with the independent writer
		if !bytes.Equal(L, R) {
			sizes := make([]int, len(f.Tags))
			for k, tg := range f.Tags {
				sizes[k] = len(tg.Body)
			}
			off := 0
			for off < len(L) && off < len(R) && L[off] == R[off] {
				off++
			}
			fd := refflv.FieldAt(refflv.Layout(sizes), off)
			lo, hi := off-8, off+16
			if lo < 0 {
				lo = 0
			}
			clip := func(b []byte) string {
				h := hi
				if h > len(b) {
					h = len(b)
				}
				if lo >= h {
					return ""
				}
				return fmt.Sprintf("%x", b[lo:h])
			}
			vc.Violationf(i, "c09:muxer-bytes-differ:"+fd.Name, rep,
				"muxer output (%d bytes) differs from the FLV v1 layout (%d bytes) at offset %d = field %s of tag %d; bytes [%d..): muxer %s, layout %s",
				len(L), len(R), off, fd.Name, fd.Tag, lo, clip(L), clip(R))
		} else {
			m.Count("muxer_bytes_identical", 1)
		}

		// (2) the independent parser reads the muxer's bytes to the same tags
		pf, err := refflv.Parse(L)
		if err != nil {
			code := "?"
			if pe, ok := err.(*refflv.ParseError); ok {
				code = pe.Code
			}
			vc.Violationf(i, "c09:muxer-output-rejected:"+code, rep, "independent parser rejects the muxer's bytes: %v", err)
		} else if what, detail := diffFiles(pf, f); what != "" {
			vc.Violationf(i, "c09:muxer-output-parsed-differs:"+what, rep, "independent parser reads the muxer's bytes differently: %s", detail)
		} else {
			m.Count("muxer_output_parsed_ok", 1)
		}

		// (3),(4) the library demuxer over both files, each under its own segmentation
		const oneByteLimit = 300000
		s1 := transport.PickSegReader(L, r, headerCuts(r, f), oneByteLimit)
		s2 := transport.PickSegReader(R, r, headerCuts(r, f), oneByteLimit)
		o1 := demux(m, vc, i, s1, f, "libfile", rep)
		demux(m, vc, i, s2, f, "reffile", rep)
		if len(R) <= 1<<20 {
			demuxFrom(m, vc, i, bytes.NewReader(R), nil, f, "reffile-seekable", rep)
		}
		m.Classf("flags%s/n%s/seg:%s+%s/%s", o1.flags, bucket(len(f.Tags)), s1.Mode, s2.Mode, o1.classes())
	})
}

func bucket(n int) string {
	switch {
	case n <= 2:
		return fmt.Sprint(n)
	case n <= 4:
		return "3-4"
	}
	return "5+"
}

func diffFiles(got, want *refflv.File) (what, detail string) {
	if got.HasVideo != want.HasVideo || got.HasAudio != want.HasAudio {
		return "flags", fmt.Sprintf("video/audio %v/%v, want %v/%v", got.HasVideo, got.HasAudio, want.HasVideo, want.HasAudio)
	}
	if len(got.Tags) != len(want.Tags) {
		return "ntags", fmt.Sprintf("%d tags, want %d", len(got.Tags), len(want.Tags))
	}
	for k := range want.Tags {
		g, w := got.Tags[k], want.Tags[k]
		switch {
		case g.Type != w.Type:
			return "type", fmt.Sprintf("tag %d: type %d, want %d", k, g.Type, w.Type)
		case g.Timestamp != w.Timestamp:
			return "timestamp", fmt.Sprintf("tag %d: timestamp %#x, want %#x", k, g.Timestamp, w.Timestamp)
		case len(g.Body) != len(w.Body):
			return "size", fmt.Sprintf("tag %d: size %d, want %d", k, len(g.Body), len(w.Body))
		case !bytes.Equal(g.Body, w.Body):
			return "body", fmt.Sprintf("tag %d: body differs", k)
		}
	}
	return "", ""
}

type observed struct {
	flags string
	sizes map[string]bool
	tss   map[string]bool
}

func (o *observed) classes() string {
	var ks []string
	for k := range o.sizes {
		ks = append(ks, k[strings.IndexByte(k, '_')+1:])
	}
	sort.Strings(ks)
	ts := ""
	if o.tss["low"] {
		ts += "low24"
	}
	if o.tss["ext"] {
		ts += "+ext"
	}
	return "sz{" + strings.Join(ks, ",") + "}/ts{" + ts + "}"
}

// demux reads the stream with the library demuxer and compares with want.  All counters
// are taken from what the demuxer returned, not from the generator.
func demux(m *mon.M, vc *detviol.Collector, i int, s *transport.SegReader, want *refflv.File, src string, rep map[string]interface{}) *observed {
	return demuxFrom(m, vc, i, s, s, want, src, rep)
}

// demuxFrom reads rd; s (may be nil) is the segmenting reader behind it, for the statistics.
func demuxFrom(m *mon.M, vc *detviol.Collector, i int, rd io.Reader, s *transport.SegReader, want *refflv.File, src string, rep map[string]interface{}) *observed {
	o := &observed{flags: "?", sizes: map[string]bool{}, tss: map[string]bool{}}
	seg := "a bytes.Reader (Seek/ReadAt/WriteTo/ReadByte available)"
	if s != nil {
		seg = s.Describe()
	}
	rp := map[string]interface{}{"source": src, "segmentation": seg}
	for k, v := range rep {
		rp[k] = v
	}
	d, err := flv.NewDemuxer(rd)
	if err != nil {
		vc.Violationf(i, "c09:demux-error:new:"+src, rp, "NewDemuxer: %v", err)
		return o
	}
	defer d.Close()
	ver, hv, ha, err := d.ReadHeader()
	if err != nil {
		vc.Violationf(i, "c09:demux-error:header:"+src, rp, "ReadHeader (%s): %v", seg, err)
		return o
	}
	fl := 0
	if hv {
		fl |= 1
	}
	if ha {
		fl |= 2
	}
	o.flags = fmt.Sprint(fl)
	m.Count(fmt.Sprintf("flags_%d_observed", fl), 1)
	if ver != 1 {
		vc.Violationf(i, "c09:demux-version-differs:"+src, rp, "version %d read from a version 1 file", ver)
	}
	if hv != want.HasVideo || ha != want.HasAudio {
		vc.Violationf(i, "c09:demux-flags-differ:"+src, rp, "read video=%v audio=%v, written video=%v audio=%v", hv, ha, want.HasVideo, want.HasAudio)
	}
	// a caller may keep the bodies it was given (a demuxer feeding a queue does): re-examined after all later reads
	var keptBodies [][]byte
	defer func() {
		for k, b := range keptBodies {
			if !bytes.Equal(b, want.Tags[k].Body) {
				vc.Violationf(i, "c09:demux-earlier-body-overwritten:"+src, rp, "tag %d's body was returned correctly, but after the later reads the same slice holds other bytes (equal prefix %d of %d)", k, commonPrefix(b, want.Tags[k].Body), len(b))
				break
			}
		}
		m.Count("bodies_rechecked_after_later_reads", int64(len(keptBodies)))
	}()
	for k, w := range want.Tags {
		tt, size, ts, err := d.ReadTagHeader()
		if err != nil {
			vc.Violationf(i, "c09:demux-error:tag-header:"+src, rp, "tag %d of %d, ReadTagHeader (%s): %v", k, len(want.Tags), seg, err)
			return o
		}
		ext := ""
		if w.Timestamp >= 1<<24 {
			ext = ":ext"
		}
		if byte(tt) != w.Type {
			vc.Violationf(i, "c09:demux-type-differs:"+src, rp, "tag %d: type %d, written %d", k, tt, w.Type)
		}
		if ts != w.Timestamp {
			vc.Violationf(i, "c09:demux-timestamp-differs"+ext+":"+src, rp, "tag %d: timestamp %#x, written %#x", k, ts, w.Timestamp)
		}
		if int(size) != len(w.Body) {
			vc.Violationf(i, "c09:demux-size-differs:"+src, rp, "tag %d: size %d, written %d", k, size, len(w.Body))
		}
		body, err := d.ReadTag(size)
		if err != nil {
			vc.Violationf(i, "c09:demux-error:body:"+src, rp, "tag %d (size %d), ReadTag (%s): %v", k, size, seg, err)
			return o
		}
		if !bytes.Equal(body, w.Body) {
			vc.Violationf(i, "c09:demux-body-differs:"+src, rp, "tag %d: %d body bytes returned, %d written, equal prefix %d", k, len(body), len(w.Body), commonPrefix(body, w.Body))
		}
		keptBodies = append(keptBodies, body)
		// observations
		m.Count("tags_demuxed", 1)
		m.Count(sizeClass(len(body)), 1)
		m.Count(tsClass(ts), 1)
		m.Count(typeClass(byte(tt)), 1)
		if ts >= 1<<24 {
			m.Count("ext_timestamp_tags", 1)
		}
		o.sizes[sizeClass(len(body))] = true
		if ts >= 1<<24 {
			o.tss["ext"] = true
		} else {
			o.tss["low"] = true
		}
	}
	// the sequence ends here: a further tag would be one that was never written
	if tt, size, ts, err := d.ReadTagHeader(); err == nil {
		vc.Violationf(i, "c09:demux-extra-tag:"+src, rp, "after the last written tag the demuxer returned another tag header (type %d size %d ts %#x)", tt, size, ts)
	} else if err == io.EOF {
		m.Count("end_reported_as_io_EOF", 1)
	} else {
		m.Count("end_reported_as_other_error", 1)
	}
	if s == nil {
		m.Count("files_demuxed_from_a_seekable_reader", 1)
		return o
	}
	if s.Offset() != refflvLen(want) {
		m.Count("demuxer_did_not_consume_whole_file", 1) // the last PreviousTagSize may legally be left unread: observation only
	}
	m.Count("seg_"+s.Mode.String(), 1)
	if s.EOFWithData {
		m.Count("seg_eofwithdata", 1)
	}
	m.Count("reads_delivered", int64(s.Reads))
	return o
}

func refflvLen(f *refflv.File) int {
	n := refflv.PreambleLen
	for _, t := range f.Tags {
		n += refflv.TagHeaderLen + len(t.Body) + 4
	}
	return n
}

func commonPrefix(a, b []byte) int {
	n := 0
	for n < len(a) && n < len(b) && a[n] == b[n] {
		n++
	}
	return n
}
