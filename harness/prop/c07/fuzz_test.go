package c07

import (
	"crypto/sha1"
	"encoding/hex"
	"encoding/json"
	"fmt"
	"os"
	"path/filepath"
	"testing"

	"verifharness/lib/hostile"
	"verifharness/lib/mon"
	"verifharness/lib/vrand"
)

// Native coverage-guided fuzzing (thorough tier).  The fuzz function recovers panics itself
// and records them as violation files in $VERIF_OUT, so the engine never writes a crasher
// into a package directory; check.py collects fuzzviol.*.json.
func fuzzEntry(f *testing.F, name string) {
	var e *hostile.Entry
	all := append(entries(), joseEntries()...)
	for i := range all {
		if all[i].Name == name {
			e = &all[i]
		}
	}
	if e == nil {
		f.Fatalf("no entry %s", name)
	}
	for i := 0; i < 60; i++ {
		r := vrand.For("fuzzseed/"+name, i)
		if e.Seed != nil {
			f.Add(e.Seed(r))
		}
	}
	f.Add([]byte{})
	out := os.Getenv("VERIF_OUT")
	f.Fuzz(func(t *testing.T, data []byte) {
		if len(data) > 1<<16 {
			return
		}
		defer func() {
			if r := recover(); r != nil {
				sig := "panic:" + name + ":" + mon.PanicClass(r) + "@" + mon.LibFrame()
				h := sha1.Sum([]byte(sig))
				v := map[string]interface{}{"sig": sig, "detail": fmt.Sprint(r), "replay": map[string]interface{}{"entry": name, "input_hex": hex.EncodeToString(data), "found_by": "native fuzzing"}}
				b, _ := json.Marshal(v)
				if out != "" {
					tmp := filepath.Join(out, fmt.Sprintf("fuzzviol.%x.json.tmp%d", h[:6], os.Getpid()))
					if os.WriteFile(tmp, b, 0o644) == nil {
						os.Rename(tmp, filepath.Join(out, fmt.Sprintf("fuzzviol.%x.json", h[:6])))
					}
				}
			}
		}()
		e.F(data)
	})
}

func FuzzC07_Amf0(f *testing.F)        { fuzzEntry(f, "amf0.Discovery+Unmarshal") }
func FuzzC07_FlvDemux(f *testing.F)    { fuzzEntry(f, "flv.demuxer") }
func FuzzC07_FlvAudio(f *testing.F)    { fuzzEntry(f, "flv.audio.Decode") }
func FuzzC07_FlvVideo(f *testing.F)    { fuzzEntry(f, "flv.video.Decode") }
func FuzzC07_Adts(f *testing.F)        { fuzzEntry(f, "aac.adts.Decode-loop") }
func FuzzC07_AvcRecord(f *testing.F)   { fuzzEntry(f, "avc.record.Unmarshal") }
func FuzzC07_AvcSample(f *testing.F)   { fuzzEntry(f, "avc.sample.Unmarshal") }
func FuzzC07_JsonPlus(f *testing.F)    { fuzzEntry(f, "json.JsonPlusReader") }
func FuzzC07_OcspResp(f *testing.F)    { fuzzEntry(f, "ocsp.ParseResponse") }
func FuzzC07_JoseVerify(f *testing.F)  { fuzzEntry(f, "jose.ParseSigned+Verify") }
func FuzzC07_JoseDecrypt(f *testing.F) { fuzzEntry(f, "jose.ParseEncrypted+Decrypt") }
func FuzzC07_JoseJWK(f *testing.F)     { fuzzEntry(f, "jose.JWK+JWKSet") }
