// Package vrand is the harness's only source of randomness: a small splittable
// PRNG (splitmix64 seeding xoshiro256**) whose streams are fully determined by
// VERIF_SEED and a textual label, so every case of every monitor is replayable.
package vrand

import (
	"hash/fnv"
	"math"
	"os"
	"strconv"
)

type Rand struct {
	s [4]uint64
}

func splitmix(x *uint64) uint64 {
	*x += 0x9e3779b97f4a7c15
	z := *x
	z = (z ^ (z >> 30)) * 0xbf58476d1ce4e5b9
	z = (z ^ (z >> 27)) * 0x94d049bb133111eb
	return z ^ (z >> 31)
}

// New returns a generator determined by seed.
func New(seed uint64) *Rand {
	r := &Rand{}
	x := seed
	for i := range r.s {
		r.s[i] = splitmix(&x)
	}
	return r
}

// Seed returns VERIF_SEED (default 1).
func Seed() uint64 {
	if s := os.Getenv("VERIF_SEED"); s != "" {
		if v, err := strconv.ParseInt(s, 10, 64); err == nil {
			return uint64(v)
		}
		if v, err := strconv.ParseUint(s, 10, 64); err == nil {
			return v
		}
	}
	return 1
}

// For returns the stream for (VERIF_SEED, label, index).
func For(label string, index int) *Rand {
	h := fnv.New64a()
	h.Write([]byte(label))
	x := Seed() ^ (h.Sum64() * 0x9e3779b97f4a7c15) ^ (uint64(index)+1)*0xd1342543de82ef95
	return New(x)
}

// Split derives an independent child stream.
func (r *Rand) Split() *Rand { return New(r.Uint64()) }

func rotl(x uint64, k uint) uint64 { return (x << k) | (x >> (64 - k)) }

func (r *Rand) Uint64() uint64 {
	s := &r.s
	res := rotl(s[1]*5, 7) * 9
	t := s[1] << 17
	s[2] ^= s[0]
	s[3] ^= s[1]
	s[1] ^= s[2]
	s[0] ^= s[3]
	s[2] ^= t
	s[3] = rotl(s[3], 45)
	return res
}

func (r *Rand) Uint32() uint32 { return uint32(r.Uint64() >> 32) }

// Intn returns a value in [0,n). n<=0 yields 0.
func (r *Rand) Intn(n int) int {
	if n <= 0 {
		return 0
	}
	return int(r.Uint64() % uint64(n))
}

// Range returns a value in [lo,hi] inclusive.
func (r *Rand) Range(lo, hi int) int {
	if hi <= lo {
		return lo
	}
	return lo + r.Intn(hi-lo+1)
}

func (r *Rand) Bool() bool { return r.Uint64()&1 == 1 }

// Chance is true with probability num/den.
func (r *Rand) Chance(num, den int) bool { return r.Intn(den) < num }

func (r *Rand) Float64() float64 { return float64(r.Uint64()>>11) / (1 << 53) }

// Bytes returns n PRNG bytes.
func (r *Rand) Bytes(n int) []byte {
	b := make([]byte, n)
	r.Fill(b)
	return b
}

// Read makes a Rand an io.Reader of PRNG bytes (for crypto APIs that take a random source).
func (r *Rand) Read(p []byte) (int, error) { r.Fill(p); return len(p), nil }

func (r *Rand) Fill(b []byte) {
	i := 0
	for ; i+8 <= len(b); i += 8 {
		v := r.Uint64()
		b[i], b[i+1], b[i+2], b[i+3] = byte(v), byte(v>>8), byte(v>>16), byte(v>>24)
		b[i+4], b[i+5], b[i+6], b[i+7] = byte(v>>32), byte(v>>40), byte(v>>48), byte(v>>56)
	}
	if i < len(b) {
		v := r.Uint64()
		for ; i < len(b); i++ {
			b[i] = byte(v)
			v >>= 8
		}
	}
}

// shapes are byte sequences that mean something to one of the formats the library speaks.  A payload is opaque to
// every carrier (RTMP message, FLV tag, NAL unit, WebSocket message): code that "recognizes" content in it is wrong.
var shapes = [][]byte{
	{0, 0, 0, 1}, {0, 0, 1}, {0, 0, 3}, {0, 0, 0, 0}, {0xff, 0xff, 0xff, 0xff}, // Annex-B, emulation prevention, extremes
	{0xff, 0xf1}, {0xff, 0xf9}, {0xff, 0xf0}, // ADTS sync
	[]byte("FLV\x01\x05\x00\x00\x00\x09"), {0x17, 0, 0, 0, 0}, {0xaf, 0}, {0xaf, 1}, {0x09, 0, 0, 0x10}, // FLV
	{0x03}, {0xc3}, {0x43}, {0x83}, {0x02, 0, 0, 0, 0, 0, 4, 1, 0, 0, 0, 0}, {0xff, 0xff, 0xff}, // RTMP chunk headers
	{0, 0, 9}, {2, 0, 7, 'c', 'o', 'n', 'n', 'e', 'c', 't'}, {2, 0, 7, '_', 'r', 'e', 's', 'u', 'l', 't'}, {8, 0, 0, 0, 0}, // AMF0
	{1, 0x64, 0, 0x1f, 0xff, 0xe1}, {0x12, 0x10}, // avcC, ASC
	{0x81, 0x00}, {0x88, 0x02, 0x03, 0xe8}, {0x89, 0x00}, {0, 0, 0xff, 0xff}, // WebSocket frames, deflate tail
	[]byte("//"), []byte("/*"), []byte("*/"), []byte("\\\""), // JSON+ markers
}

// Shaped returns n bytes: half of the time PRNG bytes, otherwise bytes that look like protocol data — a constant fill,
// a short repeated pattern, or PRNG bytes with shapes at the start, at the end and/or sprinkled inside.
func (r *Rand) Shaped(n int) []byte {
	b := make([]byte, n)
	if n == 0 {
		return b
	}
	switch r.Intn(8) {
	case 0:
		return b // zeros
	case 1:
		for i := range b {
			b[i] = 0xff
		}
		return b
	case 2:
		pat := shapes[r.Intn(len(shapes))]
		for i := range b {
			b[i] = pat[i%len(pat)]
		}
		return b
	case 3:
		r.Fill(b)
		copy(b, shapes[r.Intn(len(shapes))])
		if r.Bool() {
			sh := shapes[r.Intn(len(shapes))]
			if len(sh) <= n {
				copy(b[n-len(sh):], sh)
			}
		}
		return b
	case 4:
		r.Fill(b)
		for k := 1 + r.Intn(4); k > 0; k-- {
			copy(b[r.Intn(n):], shapes[r.Intn(len(shapes))])
		}
		return b
	}
	r.Fill(b)
	return b
}

// Pick returns one of the ints.
func (r *Rand) Pick(vs ...int) int { return vs[r.Intn(len(vs))] }

// PickU64 returns one of the values.
func (r *Rand) PickU64(vs ...uint64) uint64 { return vs[r.Intn(len(vs))] }

// Perm returns a permutation of 0..n-1.
func (r *Rand) Perm(n int) []int {
	p := make([]int, n)
	for i := range p {
		p[i] = i
	}
	for i := n - 1; i > 0; i-- {
		j := r.Intn(i + 1)
		p[i], p[j] = p[j], p[i]
	}
	return p
}

// FloatBits returns a float64 from an interesting bit-pattern pool.
func (r *Rand) FloatBits() float64 {
	switch r.Intn(12) {
	case 0:
		return 0
	case 1:
		return math.Copysign(0, -1)
	case 2:
		return math.Inf(1)
	case 3:
		return math.Inf(-1)
	case 4: // quiet NaN with payload
		return math.Float64frombits(0x7ff8000000000000 | r.Uint64()&0x7ffffffffffff)
	case 5: // signalling NaN with payload (non-zero mantissa, quiet bit clear)
		return math.Float64frombits(0x7ff0000000000000 | (r.Uint64()&0x7ffffffffffff | 1) | uint64(r.Intn(2))<<63)
	case 6: // subnormal
		return math.Float64frombits(r.Uint64() & 0xfffffffffffff)
	case 7:
		return float64(r.Intn(1000))
	case 8:
		return float64(int64(r.Uint64()>>20)) / 8
	default:
		return math.Float64frombits(r.Uint64())
	}
}
