package refws

import (
	"encoding/binary"
	"fmt"
	"unicode/utf8"
)

// TermKind is how reading ends.
type TermKind int

const (
	TermCut           TermKind = iota // the stream ended (at a frame boundary or inside a frame/message): an error, never a short message
	TermProtocolError                 // a rule of the C14 list was broken: reading fails, Close(1002) is sent
	TermCloseReceived                 // a valid Close frame arrived
	TermLimit                         // the message's payload on the wire exceeds the read limit
	TermTopBit                        // a 64-bit length with the top bit set: any failure, close code not specified
	TermUnasserted                    // a situation the statement does not decide; the model stops, nothing is asserted from here on
)

func (k TermKind) String() string {
	return [...]string{"cut", "protocol-error", "close-received", "limit", "topbit", "unasserted"}[k]
}

// Delivered is one message handed to the application.
type Delivered struct {
	Type                  byte
	Payload               []byte
	WireLen               uint64
	Compressed            bool
	FirstFrame, LastFrame int
}

// RecvConfig configures the model.
type RecvConfig struct {
	Role        Role                              // role of the RECEIVING endpoint (a server expects masked frames)
	Limit       int64                             // read limit on a message's wire payload; 0 = unlimited
	Compression bool                              // permessage-deflate negotiated
	InflateFn   func(wire []byte) ([]byte, error) // optional replacement for Inflate (e.g. a memoising wrapper)
}

// Result is what a conformant receiver does with the stream.
type Result struct {
	Messages  []Delivered // delivered before the terminal event, in order
	Pongs     [][]byte    // payloads of the pongs that must be sent (one per ping processed), in order
	Term      TermKind
	Also      []TermKind // other terminal kinds that are equally acceptable (two rules meet in one frame, or a cut inside the offending frame)
	CloseCode int        // TermCloseReceived: the status (1005 for an empty payload, -1: not decided)
	Reason    string     // rule that ended the trace
	TermFrame int        // index of the frame that ended it; len(frames) when the stream simply ended
	CleanEOF  bool       // TermCut at a frame boundary with no message open
	Notes     []string   // observation-only remarks
}

// Accepts reports whether k is an acceptable terminal kind.
func (r *Result) Accepts(k TermKind) bool {
	if r.Term == k {
		return true
	}
	for _, a := range r.Also {
		if a == k {
			return true
		}
	}
	return false
}

// MustSendClose1002 is true when a protocol violation is the only acceptable outcome.
func (r *Result) MustSendClose1002() bool { return r.Term == TermProtocolError && len(r.Also) == 0 }

type verdict struct {
	kind      TermKind // TermCut is used as "frame is fine"
	ok        bool
	also      []TermKind
	reason    string
	closeCode int
	unass     string
}

// judge applies the rules of the C14 statement to one frame given the message state.
func judge(cfg RecvConfig, open bool, openWire uint64, f *Frame) verdict {
	if f.TopBit() {
		return verdict{kind: TermTopBit, reason: "length-top-bit"}
	}
	op := f.Opcode & 0xf
	var reasons []string
	unass := ""
	if f.Rsv2 {
		reasons = append(reasons, "rsv2")
	}
	if f.Rsv3 {
		reasons = append(reasons, "rsv3")
	}
	if f.Rsv1 {
		switch {
		case !cfg.Compression:
			reasons = append(reasons, "rsv1-not-negotiated")
		case op == OpText || op == OpBinary:
			// compressed message
		default:
			unass = "rsv1-on-control-or-continuation" // RFC 7692 §6.1 fails it; the statement does not list it
		}
	}
	if IsReserved(op) {
		reasons = append(reasons, "reserved-opcode")
	} else if IsControl(op) {
		if !f.Fin {
			reasons = append(reasons, "control-fragmented")
		}
		if f.DeclaredLen() > 125 {
			reasons = append(reasons, "control-too-long")
		}
	} else if op == OpCont {
		if !open {
			reasons = append(reasons, "continuation-without-message")
		}
	} else if open {
		reasons = append(reasons, "data-frame-inside-message")
	}
	if f.Masked != (cfg.Role == RoleServer) {
		if f.Masked {
			reasons = append(reasons, "masked-frame-to-client")
		} else {
			reasons = append(reasons, "unmasked-frame-to-server")
		}
	}
	overLimit := false
	if cfg.Limit > 0 && !IsControl(op) && !IsReserved(op) {
		overLimit = f.DeclaredLen() > uint64(cfg.Limit) || (open && op == OpCont && openWire+f.DeclaredLen() > uint64(cfg.Limit))
		if len(reasons) > 0 && open && openWire+f.DeclaredLen() > uint64(cfg.Limit) {
			overLimit = true
		}
	}
	closeCode := 0
	var also []TermKind
	if op == OpClose && len(reasons) == 0 && f.DeclaredLen() == uint64(len(f.Payload)) {
		switch n := len(f.Payload); {
		case n == 0:
			closeCode = 1005
		case n == 1:
			// not in the statement's list: either a protocol error or a close
			return verdict{kind: TermCloseReceived, closeCode: -1, also: []TermKind{TermProtocolError}, reason: "close-payload-1byte"}
		default:
			closeCode = int(binary.BigEndian.Uint16(f.Payload))
			switch CloseCodeClass(closeCode) {
			case CodeInvalid:
				reasons = append(reasons, "close-code-invalid")
			case CodeUnspecified:
				also = append(also, TermProtocolError)
			}
			if !utf8.Valid(f.Payload[2:]) {
				reasons = append(reasons, "close-reason-not-utf8")
			}
		}
	}
	if len(reasons) > 0 {
		v := verdict{kind: TermProtocolError, reason: reasons[0]}
		for _, r := range reasons[1:] {
			v.reason += "+" + r
		}
		if overLimit {
			v.also = []TermKind{TermLimit}
		}
		return v
	}
	if unass != "" {
		return verdict{kind: TermUnasserted, reason: unass}
	}
	if f.NonMinimal() {
		// §5.2 requires the minimal form of the sender; the statement's list has no such receiver rule
		return verdict{kind: TermUnasserted, reason: "nonminimal-length"}
	}
	if f.DeclaredLen() != uint64(len(f.Payload)) {
		return verdict{kind: TermUnasserted, reason: "declared-length-differs"}
	}
	if overLimit {
		return verdict{kind: TermLimit, reason: "read-limit"}
	}
	if op == OpClose {
		return verdict{kind: TermCloseReceived, closeCode: closeCode, also: also, reason: "close"}
	}
	return verdict{ok: true}
}

// Receive runs the model over the frames as serialised by Gen.  cut < 0: the
// whole stream arrives, then the connection ends; otherwise only the first cut
// bytes arrive.
func Receive(cfg RecvConfig, frames []Frame, cut int) *Result {
	res := &Result{CloseCode: 0}
	total := 0
	for i := range frames {
		total += frames[i].WireLen()
	}
	if cut < 0 || cut > total {
		cut = total
	}
	var (
		open     bool
		openType byte
		openComp bool
		openData []byte
		openWire uint64
		openFrom int
	)
	pos := 0
	for i := range frames {
		f := &frames[i]
		start := pos
		end := start + f.WireLen()
		pos = end
		if cut <= start {
			res.Term, res.TermFrame, res.CleanEOF, res.Reason = TermCut, i, !open, "end-of-stream"
			return res
		}
		v := judge(cfg, open, openWire, f)
		res.TermFrame = i
		if v.kind == TermTopBit {
			// whatever else is wrong with it, and wherever the stream stops after its first byte: any failure
			res.Term, res.Reason = TermTopBit, v.reason
			return res
		}
		if end > cut {
			// the frame arrived only in part
			res.Term, res.Reason = TermCut, "cut-inside-frame"
			if !v.ok {
				switch v.kind {
				case TermProtocolError, TermLimit:
					res.Also = append(res.Also, v.kind)
					res.Also = append(res.Also, v.also...)
				case TermUnasserted:
					res.Term, res.Reason = TermUnasserted, v.reason
				case TermCloseReceived:
					// a Close is only valid once whole; a receiver may already have rejected it
					for _, a := range v.also {
						res.Also = append(res.Also, a)
					}
				}
			}
			return res
		}
		if !v.ok {
			res.Term, res.Also, res.Reason, res.CloseCode = v.kind, v.also, v.reason, v.closeCode
			return res
		}
		op := f.Opcode & 0xf
		switch {
		case op == OpPing:
			res.Pongs = append(res.Pongs, append([]byte{}, f.Payload...))
		case op == OpPong:
		default:
			if op != OpCont {
				open, openType, openComp, openData, openWire, openFrom = true, op, f.Rsv1, nil, 0, i
			}
			openData = append(openData, f.Payload...)
			openWire += uint64(len(f.Payload))
			if f.Fin {
				d := Delivered{Type: openType, Payload: openData, WireLen: openWire, Compressed: openComp, FirstFrame: openFrom, LastFrame: i}
				if d.Payload == nil {
					d.Payload = []byte{}
				}
				if openComp {
					inflate := cfg.InflateFn
					if inflate == nil {
						inflate = Inflate
					}
					out, err := inflate(openData)
					if err != nil {
						res.Term, res.Reason = TermUnasserted, fmt.Sprintf("compressed payload does not inflate: %v", err)
						return res
					}
					d.Payload = out
				}
				res.Messages = append(res.Messages, d)
				open, openData, openWire = false, nil, 0
			}
		}
	}
	res.Term, res.TermFrame, res.CleanEOF, res.Reason = TermCut, len(frames), !open, "end-of-stream"
	return res
}
