CHECK = {
    "level": "exploration",
    "engine": "adts",
    "technique": "runtime monitors with exhaustive sub-sweeps: all 65536 two-byte AudioSpecificConfigs and all field triples against the statement's accepted set; library Encode->Decode over the full accepted configuration grid x boundary/random frame lengths and 1..6-frame concatenations; frames written by an independent ISO 13818-7 ADTS writer (MPEG-2/4 id, with/without CRC) decoded alone, followed by a frame and in streams; ISO frequency table and conversion helpers over every 8-bit value",
    "level_text": "Held on the executions observed. Exhaustive over the 65536 two-byte configs, the 8192 field triples, the 420 accepted configurations x 11 boundary raw lengths, the reference-frame grid profile x index x channels x id x protection x boundary lengths, and the 256 values of every conversion helper; sampled (PRNG, fixed case counts per tier) over payload bytes, the other raw lengths in 1..8184, the ignored header bits and multi-frame streams. Not a proof for payload contents or stream compositions that were not generated.",
    "level_note": "Trusts the harness's reference ADTS writer/bit extractor and frequency table (written from ISO 13818-7 section 6.2 as quoted in DESIGN.md section 6; self-checked writer-against-reader on every generated frame) and Go's runtime. Reference frames carry one raw data block (number_of_raw_data_blocks_in_frame = 0), layer 0; the CRC value is computed over the header and the first 192 payload bits or random, since random payloads are not parseable syntactic elements and the statement does not ask the decoder to verify it. HE/HEv2 are taken to carry ADTS profile LC (implicit signalling). Conformance of the library encoder's own header bits is recorded (reference parse agrees/disagrees counters), not asserted, because the statement demands only the round trip for the encoder.",
    "parts": [
        {"name": "encseq", "pkg": "verifharness/prop/c11", "run": "^TestVerif_C11_EncoderSequences$", "timeout": {"quick": 600, "thorough": 3600}},
        {"name": "asc", "pkg": "verifharness/prop/c11", "run": "^TestVerif_C11_ASC$",
         "timeout": {"quick": 600, "thorough": 1800}},
        {"name": "encdec", "pkg": "verifharness/prop/c11", "run": "^TestVerif_C11_EncDec$",
         "timeout": {"quick": 600, "thorough": 3600}},
        {"name": "refframes", "pkg": "verifharness/prop/c11", "run": "^TestVerif_C11_RefFrames$",
         "timeout": {"quick": 600, "thorough": 3600}},
        {"name": "tables", "pkg": "verifharness/prop/c11", "run": "^TestVerif_C11_Tables$",
         "timeout": {"quick": 600, "thorough": 600}},
    ],
    "assumptions": [
        "the encoder is configured through SetASC with reference-written two-byte configs; the decoder is a fresh ADTS object (single frames) or one object per stream",
        "reported configuration after Decode is read through ASC(): Object (and Object.ToProfile()), SampleRate, Channels",
        "with the CRC present an ISO writer can frame at most 8182 raw bytes (13-bit aac_frame_length), so the 8183/8184 lengths exist only in the no-CRC grid",
        "helper panics for SampleRateIndex values above 15 are reported under C11 (iv) as requested by the design; such values cannot come out of a 4-bit header field, only from a caller-built value (the library's own constant SampleRateIndexForbidden = 17 is one)",
    ],
}
