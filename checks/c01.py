CHECK = {
    "level": "exploration",
    "engine": "rtmp-session",
    "technique": "runtime sequence-equality monitor over generated two-endpoint RTMP sessions on harness-owned segmenting transports (incl. long sessions on one chunk stream and on all 62 addressable chunk streams); race detector for the concurrent variant",
    "level_text": "Held on the sessions observed: hundreds (quick) to tens of thousands (thorough) of generated sessions between two real Protocol endpoints after the library handshake, with Set Chunk Size announced at PRNG positions by either side, boundary payload lengths relative to the chunk size in effect, boundary timestamps, reads segmented down to 1 byte, immediate and batched reading, relay to a third endpoint, the first chunks of either side queued behind S2/C2 before the peer has read its handshake bytes, a quarter of the messages written through one reused message object, payloads that look like protocol data, every message object handed out by the reader kept and re-examined at the end of the session (aliasing), and a concurrent 4-goroutine variant under -race. Class counters show which (type x timestamp x length x chunk-size x segmentation) combinations were actually read back. Not a proof.",
    "level_note": "In-package test (sets the unexported stream id / chunk stream id); chunk stream ids 2..63 (the writer's range); payloads capped at 70 KB (1 MiB in 1/15 sessions, one 2^24-1 payload in quick); timestamps < 2^31; chunk sizes in [1, 2^31-1].",
    "parts": [
        {"name": "session", "pkg": "rtmp", "run": "^TestVerif_C01_Session$", "timeout": {"quick": 900, "thorough": 5400}},
        {"name": "longsession", "pkg": "rtmp", "run": "^TestVerif_C01_LongSession$", "timeout": {"quick": 900, "thorough": 5400}},
        {"name": "concurrent", "pkg": "rtmp", "run": "^TestVerif_C01_Concurrent$", "race": True, "timeout": {"quick": 900, "thorough": 5400}},
        {"name": "wireclasses", "pkg": "rtmp", "run": "^TestVerif_C01_WireClasses$", "timeout": {"quick": 600, "thorough": 3600}},
    ],
    "assumptions": [
        "messages are constructed in-package with chunk stream ids 2..63 (what NewStreamMessage/packets use); the public API cannot set other ids",
        "Set Chunk Size is announced through WritePacket(SetChunkSize), and relayed as a raw type-1 message through WriteMessage",
    ],
}
