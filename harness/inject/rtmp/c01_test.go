// C01 — RTMP session: every message written is read back identically (in-package).
package rtmp

import (
	"bytes"
	"encoding/binary"
	"fmt"
	"math/rand"
	"sync"
	"testing"

	"verifharness/lib/mon"
	"verifharness/lib/refrtmp"
	"verifharness/lib/vnet"
	"verifharness/lib/vrand"
)

// verifHandshake drives the simple handshake through the library API in both roles over the
// segmented transports and checks the byte counts and echoes.
//
// afterS2 / afterC2 (may be nil) run right after the server wrote S0+S1+S2 resp. the client wrote C2, i.e. before the
// peer has read its handshake bytes: whatever they write (the first chunks of the session, as a client that
// pipelines connect() behind C2 does) must still be in the queue, untouched, when the handshake is over.
func verifHandshake(m *mon.M, r *vrand.Rand, ca, cb *vnet.Duplex, ab, ba *vnet.Queue, rep interface{}, afterS2, afterC2 func() bool) bool {
	hc := NewHandshake(rand.New(rand.NewSource(int64(r.Uint64() >> 1))))
	hs := NewHandshake(rand.New(rand.NewSource(int64(r.Uint64() >> 1))))
	fail := func(step string, err error) bool {
		m.Violationf("c01:handshake-"+step, rep, "handshake step %s: %v", step, err)
		return false
	}
	if err := hc.WriteC0S0(ca); err != nil {
		return fail("write-c0", err)
	}
	if err := hc.WriteC1S1(ca); err != nil {
		return fail("write-c1", err)
	}
	if ab.Written != 1+1536 {
		return fail("c0c1-bytes", fmt.Errorf("client wrote %d bytes for C0+C1", ab.Written))
	}
	c0, err := hs.ReadC0S0(cb)
	if err != nil || len(c0) != 1 || c0[0] != 3 {
		return fail("read-c0", fmt.Errorf("c0=%x err=%v", c0, err))
	}
	c1, err := hs.ReadC1S1(cb)
	if err != nil || len(c1) != 1536 {
		return fail("read-c1", fmt.Errorf("len=%d err=%v", len(c1), err))
	}
	if err := hs.WriteC0S0(cb); err != nil {
		return fail("write-s0", err)
	}
	if err := hs.WriteC1S1(cb); err != nil {
		return fail("write-s1", err)
	}
	if err := hs.WriteC2S2(cb, c1); err != nil {
		return fail("write-s2", err)
	}
	if ba.Written != 1+1536+1536 {
		return fail("s0s1s2-bytes", fmt.Errorf("server wrote %d bytes", ba.Written))
	}
	if afterS2 != nil && !afterS2() {
		return false
	}
	earlyBA := ba.Written - (1 + 1536 + 1536)
	s0, err := hc.ReadC0S0(ca)
	if err != nil || len(s0) != 1 || s0[0] != 3 {
		return fail("read-s0", fmt.Errorf("s0=%x err=%v", s0, err))
	}
	s1, err := hc.ReadC1S1(ca)
	if err != nil || len(s1) != 1536 {
		return fail("read-s1", fmt.Errorf("len=%d err=%v", len(s1), err))
	}
	s2, err := hc.ReadC2S2(ca)
	if err != nil || !bytes.Equal(s2, c1) {
		return fail("read-s2", fmt.Errorf("s2 is not the echo of c1 (err=%v)", err))
	}
	if err := hc.WriteC2S2(ca, s1); err != nil {
		return fail("write-c2", err)
	}
	if ab.Written != 1+1536+1536 {
		return fail("c0c1c2-bytes", fmt.Errorf("client wrote %d bytes", ab.Written))
	}
	if afterC2 != nil && !afterC2() {
		return false
	}
	earlyAB := ab.Written - (1 + 1536 + 1536)
	c2, err := hs.ReadC2S2(cb)
	if err != nil || !bytes.Equal(c2, s1) {
		return fail("read-c2", fmt.Errorf("c2 is not the echo of s1 (err=%v)", err))
	}
	if int64(ab.Len()) != earlyAB || int64(ba.Len()) != earlyBA {
		return fail("consumed-session-bytes", fmt.Errorf("after the handshake %d/%d bytes are left in the queues, %d/%d bytes of session data were written behind C2/S2", ab.Len(), ba.Len(), earlyAB, earlyBA))
	}
	if earlyAB+earlyBA > 0 {
		m.Count("handshakes_with_pipelined_session_data", 1)
	}
	if ab.EmptyReads+ba.EmptyReads != 0 {
		return fail("overread", fmt.Errorf("handshake read past what was written"))
	}
	m.Count("handshakes", 1)
	return true
}

type verifDir struct {
	w, rd       *Protocol
	q           *vnet.Queue
	chunk       uint32 // chunk size in effect for this direction (as announced by the writer)
	pending     []verifMsg
	delivered   int
	lastWritten *Message
}

// One deterministic, single-threaded session.
func verifC01Session(m *mon.M, i int, big bool) {
	r := m.Rand("session", i)
	segAB, segBA := vnet.PickSeg(r), vnet.PickSeg(r)
	ca, cb, ab, ba := vnet.Pair(segAB, segBA)
	cap := 70000
	if big {
		cap = 1<<24 - 1
	} else if r.Chance(1, 15) {
		cap = 1 << 20
	}
	nops := r.Range(1, 12)
	relay := r.Chance(1, 4)
	rep := map[string]interface{}{"case": i, "segAB": segAB.Name(), "segBA": segBA.Name(), "ops": nops, "relay": relay}
	m.Case()
	var trace []string
	m.Guard("rtmp.session", nil, func() {
		pa, pb := NewProtocol(ca), NewProtocol(cb)
		dirs := [2]*verifDir{{w: pa, rd: pb, q: ab, chunk: 128}, {w: pb, rd: pa, q: ba, chunk: 128}}
		// every message object handed out by ReadMessage is kept, with what it must contain, until the session ends
		type kept struct {
			got  *Message
			want verifMsg
			di   int
			seq  int
		}
		var retained []kept
		var writeOp func(di, op int) bool
		early := func(di int) func() bool {
			if !r.Chance(1, 3) {
				return nil
			}
			return func() bool {
				for k := r.Range(1, 2); k > 0; k-- {
					if !writeOp(di, -1) {
						return false
					}
				}
				return true
			}
		}
		// optional relay of direction 0: B re-writes what it read to a third endpoint C
		var relayW, relayR *Protocol
		var relayQ *vnet.Queue
		if relay {
			rc, rcc, q, _ := vnet.Pair(vnet.PickSeg(r), vnet.SegWhole())
			relayW, relayR, relayQ = NewProtocol(rc), NewProtocol(rcc), q
		}
		drain := func(d *verifDir, di int) bool {
			for len(d.pending) > 0 {
				want := d.pending[0]
				d.pending = d.pending[1:]
				got, err := d.rd.ReadMessage()
				if err != nil {
					m.Violationf("c01:read-error", rep, "dir %d message #%d %v: ReadMessage failed: %v; trace=%v", di, d.delivered, want, err, trace)
					return false
				}
				g := verifFromLib(got)
				if ok, why := verifSame(want, g); !ok {
					sig := "c01:message-differs"
					if want.Cid >= 64 {
						sig += ":cid>=64"
					}
					m.Violationf(sig, rep, "dir %d message #%d: wrote %v read %v: %s; trace=%v", di, d.delivered, want, g, why, trace)
					return false
				}
				retained = append(retained, kept{got, want, di, d.delivered})
				d.delivered++
				m.Case() // one evaluation per message read back (plus one per session)
				m.Count("messages_read_back", 1)
				m.Classf("t%d/ts:%s/len:%s/cs:%d/seg:%s", classType(want.Type), verifTsClass(want.Timestamp), verifLenClass(len(want.Payload), d.chunk), csClass(d.chunk), d.q.Seg.Name())
				if relay && di == 0 {
					// relay: hand the very message object that was read to another connection's writer
					if err := relayW.WriteMessage(got); err != nil {
						m.Violationf("c01:relay-write-error", rep, "%v", err)
						return false
					}
					g2, err := relayR.ReadMessage()
					if err != nil {
						m.Violationf("c01:relay-read-error", rep, "relayed %v: %v; trace=%v", want, err, trace)
						return false
					}
					if ok, why := verifSame(want, verifFromLib(g2)); !ok {
						m.Violationf("c01:relay-message-differs", rep, "relayed %v read %v: %s; trace=%v", want, verifFromLib(g2), why, trace)
						return false
					}
					m.Count("messages_relayed", 1)
				}
			}
			return true
		}
		writeOp = func(di, op int) bool {
			d := dirs[di]
			if r.Chance(1, 4) || (op == 0 && r.Chance(1, 3)) {
				// Set Chunk Size announced by the writer of this direction
				v := verifGenChunkSize(r)
				b := make([]byte, 4)
				binary.BigEndian.PutUint32(b, v)
				scsCid := uint32(2)
				if r.Chance(1, 3) {
					// the announcement as a relay or a hand-written sender makes it: a type-1 message through WriteMessage, on the
					// control chunk stream or another one, its body the 4 bytes or a few more (the size is the first four)
					b = append(b, r.Bytes(r.Pick(0, 0, 1, 4))...)
					if r.Bool() {
						scsCid = uint32(r.Range(3, 63))
					}
					if err := d.w.WriteMessage(verifToLib(verifMsg{Type: 1, Cid: scsCid, Payload: b})); err != nil {
						m.Violationf("c01:write-error", rep, "WriteMessage(Set Chunk Size %d, %d-byte body, cid %d): %v", v, len(b), scsCid, err)
						return false
					}
					m.Count("set_chunk_size_through_WriteMessage", 1)
				} else {
					pkt := NewSetChunkSize()
					pkt.ChunkSize = v
					if err := d.w.WritePacket(pkt, 0); err != nil {
						m.Violationf("c01:write-error", rep, "WritePacket(SetChunkSize %d): %v", v, err)
						return false
					}
				}
				d.pending = append(d.pending, verifMsg{Type: 1, StreamID: 0, Timestamp: 0, Cid: scsCid, Payload: b})
				trace = append(trace, fmt.Sprintf("d%d:SCS(%d)", di, v))
				d.chunk = v
				m.Count("set_chunk_size_announced", 1)
				m.Classf("scs:%d/first:%v", csClass(v), op == 0)
			} else {
				vm := verifGenMessage(r, d.chunk, cap)
				if big && op == 0 {
					vm.Type = 9
					vm.Payload = r.Bytes(1<<24 - 1)
				}
				lm := verifToLib(vm)
				if r.Chance(1, 5) && vm.StreamID <= 0x7fffffff {
					// the public constructor: stream id set through NewStreamMessage, its fixed chunk stream
					lm = NewStreamMessage(int(vm.StreamID))
					lm.MessageType, lm.Timestamp, lm.Payload = MessageType(vm.Type), vm.Timestamp, vm.Payload
					m.Count("messages_built_with_NewStreamMessage", 1)
				}
				if prev := d.lastWritten; prev != nil && !big && r.Chance(1, 4) {
					// one message object reused for the next frame, as an application with a per-connection scratch
					// message does: fields are set one by one; half of the time the new payload has the old one's length
					if r.Bool() && (vm.Type < 1 || vm.Type > 6) {
						vm.Payload = r.Shaped(len(prev.Payload))
					}
					prev.MessageType, prev.streamID, prev.Timestamp, prev.betterCid, prev.Payload = MessageType(vm.Type), vm.StreamID, vm.Timestamp, chunkID(vm.Cid), vm.Payload
					lm = prev
					m.Count("messages_written_through_a_reused_object", 1)
				}
				d.lastWritten = lm
				if err := d.w.WriteMessage(lm); err != nil {
					m.Violationf("c01:write-error", rep, "WriteMessage(%v): %v", vm, err)
					return false
				}
				d.pending = append(d.pending, vm)
				trace = append(trace, fmt.Sprintf("d%d:%v@cs%d", di, vm, d.chunk))
			}
			return true
		}
		// the handshake, with (PRNG) the first chunks of either side already queued behind S2 / C2
		if !verifHandshake(m, r, ca, cb, ab, ba, rep, early(1), early(0)) {
			return
		}
		for op := 0; op < nops; op++ {
			di := r.Intn(2)
			d := dirs[di]
			if !writeOp(di, op) {
				return
			}
			// history dimension: read immediately, or let messages pile up and read in a batch
			if r.Chance(2, 3) {
				if !drain(d, di) {
					return
				}
			}
		}
		for di, d := range dirs {
			if !drain(d, di) {
				return
			}
			if d.q.Len() != 0 {
				m.Violationf("c01:surplus-bytes", rep, "dir %d: %d bytes left unread after all messages were read; trace=%v", di, d.q.Len(), trace)
			}
			if d.q.EmptyReads != 0 {
				m.Violationf("c01:reader-needs-more-bytes", rep, "dir %d: reader asked for bytes that were never written; trace=%v", di, trace)
			}
		}
		// an application may keep what ReadMessage returned (a GOP cache does): later reads must not have changed it
		for _, k := range retained {
			if ok, why := verifSame(k.want, verifFromLib(k.got)); !ok {
				m.Violationf("c01:earlier-message-overwritten", rep, "dir %d message #%d was read back correctly, but after later reads the same *Message holds %v: %s; trace=%v", k.di, k.seq, verifFromLib(k.got), why, trace)
				break
			}
		}
		m.Count("messages_rechecked_at_session_end", int64(len(retained)))
		if relayQ != nil && relayQ.Len() != 0 {
			m.Violationf("c01:surplus-bytes:relay", rep, "%d relay bytes left", relayQ.Len())
		}
		if m.WantSample() {
			m.Sample(map[string]interface{}{"case": i, "segAB": segAB.Name(), "segBA": segBA.Name(), "trace": trace})
		}
	})
}

func classType(t uint8) int {
	switch {
	case t <= 6, t == 8, t == 9, t == 15, t == 17, t == 18, t == 20, t == 22:
		return int(t)
	}
	return 255
}

func csClass(c uint32) int {
	switch {
	case c == 1:
		return 1
	case c < 128:
		return 64
	case c == 128:
		return 128
	case c <= 4096:
		return 4096
	case c <= 65536:
		return 65536
	case c <= 1<<24:
		return 1 << 24
	}
	return 1 << 31
}

func TestVerif_C01_Session(t *testing.T) {
	m := mon.New("C01", "session")
	defer m.Finish(t)
	m.Rule("session: two library endpoints after the simple handshake (library API, both roles); PRNG op lists of <=12 messages per session, " +
		"either direction, Set Chunk Size announcements at PRNG positions (incl. first, back-to-back), reads immediate or batched, read " +
		"segmentation whole/1-byte/random; a quarter of the sessions relay every message read to a third endpoint; distinct = message type x " +
		"timestamp class x length class relative to the chunk size in effect x chunk-size class x segmentation, counted on messages read back")
	n := m.N(2500, 400000)
	nbig := m.N(1, 12)
	m.Require("messages_read_back", int64(n*2))
	m.Require("set_chunk_size_announced", int64(n/4))
	m.Require("handshakes", int64(n))
	m.Require("handshakes_with_pipelined_session_data", int64(n/8))
	m.Require("messages_written_through_a_reused_object", int64(n/4))
	m.Require("messages_rechecked_at_session_end", int64(n*2))
	m.Require("messages_relayed", int64(n/8))
	mon.Parallel(n+nbig, func(w, i int) { verifC01Session(m, i, i >= n) })
}

// Long sessions: what a connection that stays up for hours sees — per-connection and per-chunk-stream state after tens of
// thousands of messages (counters that wrap at 2^8/2^16, tables that fill, accumulated deltas), and (thorough) more than
// 2^32 bytes through one connection.
func TestVerif_C01_LongSession(t *testing.T) {
	m := mon.New("C01", "longsession")
	defer m.Finish(t)
	m.Rule("longsession: single connections carrying 70 000 (quick, 8 sessions) / 300 000 (thorough, 16 sessions) small messages in one direction on 1-5 chunk streams (every fourth session: on all 62 chunk streams 2..63), " +
		"timestamps advancing through 2^24 and 2^31-1, a Set Chunk Size every few thousand messages, around message 2^8 and 2^16 a chunk size far from the default (4096 / 17) and payloads above 128 bytes, read back in batches of 1..500; thorough adds one session " +
		"moving more than 2^32 payload bytes (16 MiB messages at chunk size 2^24); distinct = message type x length class x chunk-size class per 10 000 messages")
	nsess := m.N(8, 16)
	per := m.N(70000, 300000)
	m.Require("messages_read_back", int64(nsess*per))
	mon.Parallel(nsess, func(w, i int) {
		r := m.Rand("long", i)
		seg := vnet.PickSeg(r)
		if seg.Name() == "1byte" {
			seg = vnet.SegRandom(r.Split(), 4096)
		}
		ca, cb, ab, _ := vnet.Pair(seg, vnet.SegWhole())
		pa, pb := NewProtocol(ca), NewProtocol(cb)
		rep := map[string]interface{}{"case": i, "seg": seg.Name()}
		m.Case()
		m.Guard("rtmp.longsession", nil, func() {
			ncs := r.Range(1, 5)
			if i%2 == 0 {
				ncs = 1 // every second session on a single chunk stream: its per-stream state sees all 70 000 messages
			}
			if i%4 == 1 {
				ncs = 62 // every fourth session spreads its messages over ALL chunk streams the writer can address (2..63)
				m.Count("sessions_using_all_62_chunk_streams", 1)
			}
			cids := make([]uint32, ncs)
			for k := range cids {
				cids[k] = uint32(r.Range(2, 63))
			}
			if ncs == 62 {
				for k, c := range r.Perm(62) {
					cids[k] = uint32(2 + c)
				}
			}
			ts := make([]uint64, ncs)
			chunk := uint32(128)
			var pending []verifMsg
			drain := func(at int) bool {
				for k, want := range pending {
					got, err := pb.ReadMessage()
					if err != nil {
						m.Violationf("c01:read-error:long-session", rep, "message %d of the session (%v): %v", at-len(pending)+k, want, err)
						return false
					}
					if ok, why := verifSame(want, verifFromLib(got)); !ok {
						m.Violationf("c01:message-differs:long-session", rep, "message %d of the session: wrote %v read %v: %s", at-len(pending)+k, want, verifFromLib(got), why)
						return false
					}
					m.Count("messages_read_back", 1)
				}
				m.Cases(len(pending))
				pending = pending[:0]
				return true
			}
			batch := r.Range(1, 500)
			for n := 0; n < per; n++ {
				// near the counts where 8- and 16-bit counters wrap the configuration is made sensitive on purpose: a chunk size
				// far from the default (large or small, alternating by session pair) and payloads of several chunks / above 128 bytes
				nearWrap := (n >= 256-48 && n <= 256+48) || (n >= 65536-48 && n <= 65536+48)
				if (n > 0 && n%r.Range(2000, 9000) == 0) || n == 256-48 || n == 65536-48 {
					v := verifGenChunkSize(r)
					if nearWrap {
						v = uint32([]int{4096, 17}[i/2%2]) // (single-stream sessions are the even ones: both sizes occur among them)
					}
					pkt := NewSetChunkSize()
					pkt.ChunkSize = v
					if err := pa.WritePacket(pkt, 0); err != nil {
						m.Violationf("c01:write-error:long-session", rep, "SetChunkSize: %v", err)
						return
					}
					b := make([]byte, 4)
					binary.BigEndian.PutUint32(b, v)
					pending = append(pending, verifMsg{Type: 1, Cid: 2, Payload: b})
					chunk = v
				}
				k := r.Intn(ncs)
				// timestamps advance; a few sessions jump across 2^24 and towards 2^31-1
				switch {
				case n == per/3:
					ts[k] = 0xFFFFF0
				case n == 2*per/3:
					ts[k] = 0x7FFFFF00
				default:
					ts[k] += uint64(r.Intn(40))
				}
				if ts[k] > 0x7FFFFFFF {
					ts[k] = 0x7FFFFFFF
				}
				plen := r.Pick(1, 2, 7, 40, 127, 128, 129, 300) // payloads of at least one byte: the statement's domain (DESIGN 4.1)
				if nearWrap {
					plen = r.Pick(129, 300, 600)
				}
				vm := verifMsg{Type: uint8(r.Pick(8, 9, 18, 20, 15)), StreamID: uint32(r.Pick(0, 1, 1, 7)), Timestamp: ts[k], Cid: cids[k], Payload: r.Shaped(plen)}
				if err := pa.WriteMessage(verifToLib(vm)); err != nil {
					m.Violationf("c01:write-error:long-session", rep, "message %d: %v", n, err)
					return
				}
				pending = append(pending, vm)
				if len(pending) >= batch {
					if !drain(n + 1) {
						return
					}
					batch = r.Range(1, 500)
				}
				if n%10000 == 0 {
					m.Classf("long/%dk/t%d/len:%s/cs:%d", n/10000, vm.Type, verifLenClass(len(vm.Payload), chunk), csClass(chunk))
				}
			}
			if !drain(per) {
				return
			}
			if ab.Len() != 0 || ab.EmptyReads != 0 {
				m.Violationf("c01:surplus-bytes:long-session", rep, "%d bytes left, %d reads past the written data", ab.Len(), ab.EmptyReads)
			}
			m.Count("long_sessions_completed", 1)
		})
	})
	if !m.Quick() {
		// more than 2^32 payload bytes through one connection
		m.Guard("rtmp.longsession.4GiB", nil, func() {
			r := m.Rand("long4g", 0)
			ca, cb, ab, _ := vnet.Pair(vnet.SegWhole(), vnet.SegWhole())
			pa, pb := NewProtocol(ca), NewProtocol(cb)
			pkt := NewSetChunkSize()
			pkt.ChunkSize = 1 << 24
			pa.WritePacket(pkt, 0)
			if _, err := pb.ReadMessage(); err != nil {
				m.Violationf("c01:read-error:long-session", nil, "SetChunkSize: %v", err)
				return
			}
			payload := r.Bytes(1<<24 - 1)
			var total uint64
			for n := 0; total < 1<<32+1<<26; n++ {
				payload[n%len(payload)] ^= byte(n + 1)
				vm := verifMsg{Type: 9, StreamID: 1, Timestamp: uint64(n * 40), Cid: 6, Payload: payload}
				if err := pa.WriteMessage(verifToLib(vm)); err != nil {
					m.Violationf("c01:write-error:long-session", nil, "after %d bytes: %v", total, err)
					return
				}
				got, err := pb.ReadMessage()
				if err != nil {
					m.Violationf("c01:read-error:long-session:4GiB", nil, "after %d payload bytes: %v", total, err)
					return
				}
				if ok, why := verifSame(vm, verifFromLib(got)); !ok {
					m.Violationf("c01:message-differs:long-session:4GiB", nil, "after %d payload bytes: %s", total, why)
					return
				}
				total += uint64(len(payload))
				m.Case()
				ab.Written = 0
			}
			m.Count("sessions_beyond_4GiB", 1)
			m.Note("bytes_through_one_connection", total)
		})
	}
}

// Concurrent variant: both directions at once on blocking pipes, under the race detector.
func TestVerif_C01_Concurrent(t *testing.T) {
	m := mon.New("C01", "concurrent")
	defer m.Finish(t)
	m.Rule("concurrent: both endpoints write and read at the same time (4 goroutines, blocking segmented pipes), each direction an " +
		"independent PRNG message list with Set Chunk Size announcements; run under the race detector; distinct as in session")
	n := m.N(60, 20000)
	m.Require("messages_read_back", int64(n*4))
	mon.Parallel(n, func(w, i int) {
		r := m.Rand("conc", i)
		m.Case()
		ab, ba := vnet.NewBlockingPipe(vnet.PickSeg(r)), vnet.NewBlockingPipe(vnet.PickSeg(r))
		pa := NewProtocol(vnet.RW{Reader: ba, Writer: ab})
		pb := NewProtocol(vnet.RW{Reader: ab, Writer: ba})
		type plan struct {
			msgs  []verifMsg
			scs   []uint32 // 0 = plain message, else announce this size before message k
			chunk []uint32
		}
		mk := func(r *vrand.Rand) plan {
			var p plan
			c := uint32(128)
			for k := 0; k < r.Range(3, 12); k++ {
				v := uint32(0)
				if r.Chance(1, 4) {
					v = verifGenChunkSize(r)
					c = v
				}
				p.scs = append(p.scs, v)
				p.msgs = append(p.msgs, verifGenMessage(r, c, 20000))
				p.chunk = append(p.chunk, c)
			}
			return p
		}
		plans := [2]plan{mk(r.Split()), mk(r.Split())}
		rep := map[string]interface{}{"case": i}
		var wg sync.WaitGroup
		run := func(w, rd *Protocol, p plan, di int, out *vnet.BlockingPipe) {
			m.Go(&wg, "rtmp.concurrent.writer", func() {
				defer out.Close()
				for k, vm := range p.msgs {
					if p.scs[k] != 0 {
						pkt := NewSetChunkSize()
						pkt.ChunkSize = p.scs[k]
						if err := w.WritePacket(pkt, 0); err != nil {
							m.Violationf("c01:write-error:concurrent", rep, "%v", err)
							return
						}
					}
					if err := w.WriteMessage(verifToLib(vm)); err != nil {
						m.Violationf("c01:write-error:concurrent", rep, "%v", err)
						return
					}
				}
			})
			m.Go(&wg, "rtmp.concurrent.reader", func() {
				for k, want := range p.msgs {
					if p.scs[k] != 0 {
						got, err := rd.ReadMessage()
						if err != nil || got.MessageType != 1 || len(got.Payload) != 4 || binary.BigEndian.Uint32(got.Payload) != p.scs[k] {
							m.Violationf("c01:message-differs:concurrent", rep, "dir %d: expected Set Chunk Size %d, got %v err=%v", di, p.scs[k], got, err)
							return
						}
					}
					got, err := rd.ReadMessage()
					if err != nil {
						m.Violationf("c01:read-error:concurrent", rep, "dir %d message %d: %v", di, k, err)
						return
					}
					if ok, why := verifSame(want, verifFromLib(got)); !ok {
						m.Violationf("c01:message-differs:concurrent", rep, "dir %d message %d: wrote %v read %v: %s", di, k, want, verifFromLib(got), why)
						return
					}
					m.Case()
					m.Count("messages_read_back", 1)
					m.Classf("t%d/ts:%s/len:%s/cs:%d", classType(want.Type), verifTsClass(want.Timestamp), verifLenClass(len(want.Payload), p.chunk[k]), csClass(p.chunk[k]))
				}
				if _, err := rd.ReadMessage(); err == nil {
					m.Violationf("c01:surplus-message:concurrent", rep, "dir %d: a message beyond those written", di)
				}
			})
		}
		m.Guard("rtmp.concurrent", nil, func() {
			run(pa, pb, plans[0], 0, ab)
			run(pb, pa, plans[1], 1, ba)
			wg.Wait()
		})
	})
}

// Classification only: the bytes the library writer produces, parsed by the reference
// de-chunker, to report which wire features C01 exercised (it does not vote).
func TestVerif_C01_WireClasses(t *testing.T) {
	m := mon.New("C01", "wireclasses")
	defer m.Finish(t)
	m.Rule("wireclasses: the writer's bytes for PRNG messages parsed by the independent de-chunker to count wire features exercised " +
		"(extended timestamps in type-3 chunks, chunks per message); the reference parser must read back the same messages")
	n := m.N(300, 5000)
	mon.Parallel(n, func(w, i int) {
		r := m.Rand("wire", i)
		m.Case()
		q := vnet.NewQueue(vnet.SegWhole())
		q.KeepLog = true
		p := NewProtocol(vnet.RW{Reader: bytes.NewReader(nil), Writer: q})
		var want []verifMsg
		c := uint32(128)
		for k := 0; k < r.Range(1, 6); k++ {
			if r.Chance(1, 4) {
				c = verifGenChunkSize(r)
				pkt := NewSetChunkSize()
				pkt.ChunkSize = c
				p.WritePacket(pkt, 0)
				b := make([]byte, 4)
				binary.BigEndian.PutUint32(b, c)
				want = append(want, verifMsg{Type: 1, Cid: 2, Payload: b})
			}
			vm := verifGenMessage(r, c, 5000)
			p.WriteMessage(verifToLib(vm))
			want = append(want, vm)
		}
		d := refrtmp.NewDechunker()
		msgs, _, err := d.All(q.Log)
		if err != nil || len(msgs) != len(want) {
			m.Count("reference_disagrees(observation only)", 1) // the statement is about the two library endpoints
			return
		}
		for k := range msgs {
			if ok, why := verifSame(want[k], verifFromRef(msgs[k])); !ok {
				_ = why
				m.Count("reference_disagrees(observation only)", 1)
				return
			}
			m.Classf("ts:%s/chunks:%d", verifTsClass(want[k].Timestamp), chunksClass(len(want[k].Payload), c))
		}
		m.Count("messages_parsed_by_reference", int64(len(msgs)))
	})
	m.Require("messages_parsed_by_reference", int64(n))
}

func chunksClass(n int, c uint32) int {
	k := (n + int(c) - 1) / int(c)
	switch {
	case k <= 1:
		return 1
	case k == 2:
		return 2
	case k < 10:
		return 9
	}
	return 10
}
