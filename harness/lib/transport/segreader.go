// Package transport holds the harness's test transports.  This file: SegReader, an
// io.Reader that delivers a byte stream in a chosen segmentation, for every property whose
// statement says "whatever the reader's segmentation".
package transport

import (
	"bytes"
	"fmt"
	"io"
	"sort"

	"verifharness/lib/vrand"
)

// SegMode says how a SegReader cuts the stream into Read results.
type SegMode int

const (
	SegWhole       SegMode = iota // as much as the caller's buffer takes
	SegOneByte                    // exactly 1 byte per Read
	SegRandomSmall                // 1..MaxSmall bytes per Read, PRNG-chosen
	SegCuts                       // a Read never crosses an offset of the cut list; between cuts: whole
)

func (m SegMode) String() string {
	switch m {
	case SegWhole:
		return "whole"
	case SegOneByte:
		return "1byte"
	case SegRandomSmall:
		return "randsmall"
	case SegCuts:
		return "cuts"
	}
	return fmt.Sprintf("mode%d", int(m))
}

// SegReader wraps a reader.  All its behaviours are legal for an io.Reader: short reads,
// and (optionally) returning the final bytes together with io.EOF.  It never returns (0, nil).
type SegReader struct {
	Mode SegMode
	// MaxSmall bounds a SegRandomSmall read (default 7).
	MaxSmall int
	// EOFWithData: the Read that delivers the last byte also returns io.EOF (needs Len known,
	// i.e. a reader built with NewSegReader over a byte slice).
	EOFWithData bool

	src   io.Reader
	total int // -1 if unknown
	off   int // bytes delivered so far
	rnd   *vrand.Rand
	cuts  []int // sorted absolute stream offsets
	ci    int   // first cut > off
	// observations
	Reads    int // Read calls that delivered at least one byte
	MaxChunk int // largest delivery
	err      error
}

// NewSegReader reads data in the given mode.  rnd is needed by SegRandomSmall only.
func NewSegReader(data []byte, mode SegMode, rnd *vrand.Rand) *SegReader {
	return &SegReader{Mode: mode, MaxSmall: 7, src: bytes.NewReader(data), total: len(data), rnd: rnd}
}

// NewCutReader reads data such that no Read result crosses one of the absolute offsets in
// cuts (offsets outside (0,len) are ignored; order and duplicates do not matter).
func NewCutReader(data []byte, cuts []int) *SegReader {
	s := NewSegReader(data, SegCuts, nil)
	s.SetCuts(cuts)
	return s
}

// WrapSegReader applies a segmentation to any reader (length unknown: EOFWithData has no effect).
func WrapSegReader(src io.Reader, mode SegMode, rnd *vrand.Rand) *SegReader {
	return &SegReader{Mode: mode, MaxSmall: 7, src: src, total: -1, rnd: rnd}
}

// SetCuts installs the cut list (used by SegCuts; harmless in the other modes, where the
// cuts are honoured in addition to the mode's own limit).
func (s *SegReader) SetCuts(cuts []int) {
	c := append([]int(nil), cuts...)
	sort.Ints(c)
	out := c[:0]
	for _, v := range c {
		if v <= 0 || (len(out) > 0 && out[len(out)-1] == v) {
			continue
		}
		out = append(out, v)
	}
	s.cuts = out
	s.ci = 0
}

// PickSegReader chooses a mode with the PRNG: whole, 1-byte, random small, or the given cut
// list (only if cuts is non-empty); with probability 1/4 the last bytes come with io.EOF.
// oneByteLimit > 0 forbids the 1-byte and random-small modes for streams longer than that
// (they fall back to cuts, or whole), to keep multi-megabyte streams cheap.
func PickSegReader(data []byte, rnd *vrand.Rand, cuts []int, oneByteLimit int) *SegReader {
	mode := SegMode(rnd.Intn(4))
	if mode == SegCuts && len(cuts) == 0 {
		mode = SegRandomSmall
	}
	if oneByteLimit > 0 && len(data) > oneByteLimit && (mode == SegOneByte || mode == SegRandomSmall) {
		if len(cuts) > 0 {
			mode = SegCuts
		} else {
			mode = SegWhole
		}
	}
	s := NewSegReader(data, mode, rnd.Split())
	if mode == SegCuts {
		s.SetCuts(cuts)
	}
	s.EOFWithData = rnd.Chance(1, 4)
	return s
}

func (s *SegReader) Read(p []byte) (int, error) {
	if s.err != nil {
		return 0, s.err
	}
	if len(p) == 0 {
		return 0, nil
	}
	n := len(p)
	switch s.Mode {
	case SegOneByte:
		n = 1
	case SegRandomSmall:
		max := s.MaxSmall
		if max < 1 {
			max = 7
		}
		k := 1
		if s.rnd != nil {
			k = s.rnd.Range(1, max)
		}
		if k < n {
			n = k
		}
	}
	for s.ci < len(s.cuts) && s.cuts[s.ci] <= s.off {
		s.ci++
	}
	if s.ci < len(s.cuts) && s.off+n > s.cuts[s.ci] {
		n = s.cuts[s.ci] - s.off
	}
	got, err := s.src.Read(p[:n])
	if got > 0 {
		s.off += got
		s.Reads++
		if got > s.MaxChunk {
			s.MaxChunk = got
		}
	}
	if err != nil {
		s.err = err
		if got > 0 && err == io.EOF && !s.EOFWithData {
			return got, nil // EOF is reported by the next call
		}
		return got, err
	}
	if s.EOFWithData && s.total >= 0 && s.off == s.total && got > 0 {
		s.err = io.EOF
		return got, io.EOF
	}
	return got, nil
}

// Offset is the number of bytes delivered so far.
func (s *SegReader) Offset() int { return s.off }

// Describe is a replayable description of the segmentation.
func (s *SegReader) Describe() string {
	d := s.Mode.String()
	if s.Mode == SegCuts {
		if len(s.cuts) <= 24 {
			d += fmt.Sprint(s.cuts)
		} else {
			d += fmt.Sprintf("%v…(%d cuts)", s.cuts[:24], len(s.cuts))
		}
	}
	if s.EOFWithData {
		d += "+eofwithdata"
	}
	return d
}
