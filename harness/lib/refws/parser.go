package refws

import (
	"encoding/binary"
	"fmt"
	"unicode/utf8"
)

// ParsedFrame is one whole frame found on the wire.
type ParsedFrame struct {
	Index            int
	Start, End       int64 // [Start,End) in the fed stream
	Fin              bool
	Rsv1, Rsv2, Rsv3 bool
	Opcode           byte
	Masked           bool
	Key              [4]byte
	Form             LenForm
	Length           uint64
	Payload          []byte // unmasked
	AfterClose       bool   // begins after the first Close frame
}

type EventKind int

const (
	EvMessage EventKind = iota // a complete data message, reported at its final frame
	EvControl                  // a control frame, in wire position
)

// Event is what a receiver would see, in wire order.
type Event struct {
	Kind        EventKind
	Opcode      byte   // message: OpText/OpBinary; control: OpClose/OpPing/OpPong
	Payload     []byte // message: re-assembled (inflated if Compressed); control: payload
	Compressed  bool   // RSV1 on the first frame
	WireLen     uint64 // sum of the data frames' payload lengths
	FirstFrame  int
	LastFrame   int
	NFrames     int    // data frames of the message
	CloseCode   int    // Close: status code, 1005 if the payload is empty
	CloseReason string // Close: reason
	AfterClose  bool
}

// ParseError is the first rule the stream breaks.  Code is stable:
//
//	rsv2-set rsv3-set rsv1-not-negotiated rsv1-on-control rsv1-on-continuation
//	reserved-opcode control-fragmented control-too-long
//	continuation-without-message data-frame-inside-message
//	unmasked-client-frame masked-server-frame nonminimal-length length-top-bit
//	close-payload-1byte close-code-invalid close-reason-not-utf8 inflate-failed
//	truncated-frame unfinished-message      (only from Finish)
type ParseError struct {
	Code   string
	Offset int64 // start of the offending frame
	Frame  int   // its index
	Detail string
}

func (e *ParseError) Error() string {
	return fmt.Sprintf("refws: %s at frame %d (offset %d): %s", e.Code, e.Frame, e.Offset, e.Detail)
}

// Parser validates the byte stream written by one endpoint.  Feed it any
// segmentation of the stream; the first error is sticky (later bytes are only
// counted).  Not safe for concurrent use.
type Parser struct {
	sender      Role
	compression bool

	// AllowAfterClose: when false (default) frames after a Close frame are still parsed and
	// recorded with AfterClose=true; the caller decides what that means (see BytesAfterClose).
	consumed int64 // bytes of whole frames
	buf      []byte
	hdrOK    bool // header-level rules of the pending frame already checked
	frames   []ParsedFrame
	events   []Event
	err      *ParseError
	ignored  int64

	open        bool
	openType    byte
	openComp    bool
	openData    []byte
	openWire    uint64
	openFirst   int
	openFrames  int
	closeIdx    int
	closeEnd    int64
	fed         int64
	KeepPayload bool // keep ParsedFrame.Payload (default true via NewParser)
}

// NewParser returns a parser for frames sent by an endpoint of the given role;
// compression tells whether permessage-deflate was negotiated.
func NewParser(sender Role, compression bool) *Parser {
	return &Parser{sender: sender, compression: compression, closeIdx: -1, KeepPayload: true}
}

// ParseLog parses a complete transport log.
func ParseLog(sender Role, compression bool, log []byte) *Parser {
	p := NewParser(sender, compression)
	p.Feed(log)
	return p
}

// Write makes Parser an io.Writer (never fails; see Err).
func (p *Parser) Write(b []byte) (int, error) { p.Feed(b); return len(b), nil }

// Feed consumes the next bytes of the stream and returns the sticky error, if any.
func (p *Parser) Feed(b []byte) *ParseError {
	p.fed += int64(len(b))
	if p.err != nil {
		p.ignored += int64(len(b))
		return p.err
	}
	if len(p.buf) == 0 {
		p.buf = append(make([]byte, 0, len(b)), b...) // always a private copy: payloads are unmasked in place
	} else {
		p.buf = append(p.buf, b...)
	}
	for p.err == nil && p.step() {
	}
	if p.err != nil {
		p.ignored += int64(len(p.buf))
		p.buf = nil
	}
	return p.err
}

func (p *Parser) fail(code, format string, a ...interface{}) bool {
	p.err = &ParseError{Code: code, Offset: p.consumed, Frame: len(p.frames), Detail: fmt.Sprintf(format, a...)}
	return false
}

// step parses one frame from p.buf if it is whole; reports whether it did.
func (p *Parser) step() bool {
	b := p.buf
	if len(b) < 2 {
		return false
	}
	b0, b1 := b[0], b[1]
	fin := b0&0x80 != 0
	op := b0 & 0x0f
	masked := b1&0x80 != 0
	l7 := b1 & 0x7f
	if !p.hdrOK {
		if b0&0x20 != 0 {
			return p.fail("rsv2-set", "first byte %#02x", b0)
		}
		if b0&0x10 != 0 {
			return p.fail("rsv3-set", "first byte %#02x", b0)
		}
		if IsReserved(op) {
			return p.fail("reserved-opcode", "opcode %#x", op)
		}
		if b0&0x40 != 0 {
			switch {
			case IsControl(op):
				return p.fail("rsv1-on-control", "RSV1 on %s frame", opName(op))
			case op == OpCont:
				return p.fail("rsv1-on-continuation", "RSV1 on a continuation frame")
			case !p.compression:
				return p.fail("rsv1-not-negotiated", "RSV1 set but permessage-deflate was not negotiated")
			}
		}
		if IsControl(op) {
			if !fin {
				return p.fail("control-fragmented", "%s frame without FIN", opName(op))
			}
			if l7 > 125 {
				return p.fail("control-too-long", "%s frame with 7-bit length field %d", opName(op), l7)
			}
		} else if op == OpCont {
			if !p.open {
				return p.fail("continuation-without-message", "continuation frame, no fragmented message open")
			}
		} else if p.open {
			return p.fail("data-frame-inside-message", "%s frame while a fragmented %s message is open", opName(op), opName(p.openType))
		}
		if p.sender == RoleClient && !masked {
			return p.fail("unmasked-client-frame", "%s frame from the client without MASK", opName(op))
		}
		if p.sender == RoleServer && masked {
			return p.fail("masked-server-frame", "%s frame from the server with MASK", opName(op))
		}
		p.hdrOK = true
	}
	hdr := 2
	var n uint64
	form := Form7
	switch l7 {
	case 126:
		if len(b) < 4 {
			return false
		}
		n = uint64(binary.BigEndian.Uint16(b[2:]))
		hdr, form = 4, Form16
		if n < 126 {
			return p.fail("nonminimal-length", "16-bit form for length %d", n)
		}
	case 127:
		if len(b) < 10 {
			return false
		}
		n = binary.BigEndian.Uint64(b[2:])
		hdr, form = 10, Form64
		if n>>63 != 0 {
			return p.fail("length-top-bit", "64-bit length %#x has its most significant bit set", n)
		}
		if n < 65536 {
			return p.fail("nonminimal-length", "64-bit form for length %d", n)
		}
	default:
		n = uint64(l7)
	}
	var key [4]byte
	if masked {
		if len(b) < hdr+4 {
			return false
		}
		copy(key[:], b[hdr:])
		hdr += 4
	}
	if uint64(len(b)-hdr) < n {
		return false
	}
	end := hdr + int(n)
	// p.buf is the parser's own copy of the stream and consumed bytes are never written again,
	// so the payload is unmasked in place and frames/events may alias it (no per-frame copy).
	payload := b[hdr:end:end]
	if masked {
		MaskRef(key, 0, payload)
	}
	idx := len(p.frames)
	fr := ParsedFrame{Index: idx, Start: p.consumed, End: p.consumed + int64(end), Fin: fin, Rsv1: b0&0x40 != 0,
		Opcode: op, Masked: masked, Key: key, Form: form, Length: n, AfterClose: p.closeIdx >= 0}
	if p.KeepPayload {
		fr.Payload = payload
	}
	// semantic layer (errors are attributed to this frame: consumed not yet advanced)
	if IsControl(op) {
		ev := Event{Kind: EvControl, Opcode: op, Payload: payload, WireLen: n, FirstFrame: idx, LastFrame: idx, AfterClose: fr.AfterClose}
		if op == OpClose {
			ev.CloseCode = 1005
			switch {
			case n == 1:
				return p.fail("close-payload-1byte", "Close payload of one byte")
			case n >= 2:
				ev.CloseCode = int(binary.BigEndian.Uint16(payload))
				if CloseCodeClass(ev.CloseCode) == CodeInvalid {
					return p.fail("close-code-invalid", "Close status %d must not appear on the wire", ev.CloseCode)
				}
				if !utf8.Valid(payload[2:]) {
					return p.fail("close-reason-not-utf8", "Close reason is not UTF-8")
				}
				ev.CloseReason = string(payload[2:])
			}
		}
		p.events = append(p.events, ev)
	} else {
		if op != OpCont {
			p.open, p.openType, p.openComp = true, op, fr.Rsv1
			p.openData, p.openWire, p.openFirst, p.openFrames = nil, 0, idx, 0
		}
		if p.openData == nil && fin {
			p.openData = payload // single-frame message: no copy
		} else {
			p.openData = append(p.openData, payload...)
		}
		p.openWire += n
		p.openFrames++
		if fin {
			ev := Event{Kind: EvMessage, Opcode: p.openType, Payload: p.openData, Compressed: p.openComp, WireLen: p.openWire,
				FirstFrame: p.openFirst, LastFrame: idx, NFrames: p.openFrames, AfterClose: fr.AfterClose}
			if ev.Payload == nil {
				ev.Payload = []byte{}
			}
			if p.openComp {
				out, err := Inflate(p.openData)
				if err != nil {
					return p.fail("inflate-failed", "message of %d compressed bytes (frames %d..%d): %v", p.openWire, p.openFirst, idx, err)
				}
				ev.Payload = out
			}
			p.events = append(p.events, ev)
			p.open, p.openData = false, nil
		}
	}
	p.frames = append(p.frames, fr)
	p.consumed += int64(end)
	if op == OpClose && p.closeIdx < 0 {
		p.closeIdx, p.closeEnd = idx, p.consumed
	}
	p.buf = p.buf[end:]
	if len(p.buf) == 0 {
		p.buf = nil
	}
	p.hdrOK = false
	return true
}

// Err is the first error found so far (nil: everything fed so far is a sequence of valid frames plus Pending() bytes).
func (p *Parser) Err() *ParseError { return p.err }

// Finish is Err plus end-of-stream rules: no partial frame, no unfinished fragmented message.
func (p *Parser) Finish() *ParseError {
	if p.err != nil {
		return p.err
	}
	if len(p.buf) > 0 {
		return &ParseError{Code: "truncated-frame", Offset: p.consumed, Frame: len(p.frames), Detail: fmt.Sprintf("%d bytes of an incomplete frame at end of stream", len(p.buf))}
	}
	if p.open {
		return &ParseError{Code: "unfinished-message", Offset: p.consumed, Frame: len(p.frames), Detail: "stream ends inside a fragmented message"}
	}
	return nil
}

// Frames are the whole frames parsed so far, in order.
func (p *Parser) Frames() []ParsedFrame { return p.frames }

// Events are complete messages and control frames in wire order.
func (p *Parser) Events() []Event { return p.events }

// Messages are the data messages among Events.
func (p *Parser) Messages() []Event {
	var out []Event
	for _, e := range p.events {
		if e.Kind == EvMessage {
			out = append(out, e)
		}
	}
	return out
}

// Controls returns the control events with the given opcode.
func (p *Parser) Controls(op byte) []Event {
	var out []Event
	for _, e := range p.events {
		if e.Kind == EvControl && e.Opcode == op {
			out = append(out, e)
		}
	}
	return out
}

// Pending is the number of bytes of a not yet complete frame.
func (p *Parser) Pending() int { return len(p.buf) }

// Consumed is the number of bytes that belong to whole valid frames.
func (p *Parser) Consumed() int64 { return p.consumed }

// Fed is the total number of bytes given to Feed.
func (p *Parser) Fed() int64 { return p.fed }

// InMessage reports an open fragmented message.
func (p *Parser) InMessage() bool { return p.open }

// CloseIndex is the frame index of the first Close frame, -1 if none yet.
func (p *Parser) CloseIndex() int { return p.closeIdx }

// BytesAfterClose is the number of bytes fed after the end of the first Close frame (0 if none).
func (p *Parser) BytesAfterClose() int64 {
	if p.closeIdx < 0 {
		return 0
	}
	return p.fed - p.closeEnd
}

// FramesAfterClose are the whole frames that begin after the first Close frame.
func (p *Parser) FramesAfterClose() []ParsedFrame {
	if p.closeIdx < 0 {
		return nil
	}
	return p.frames[p.closeIdx+1:]
}
