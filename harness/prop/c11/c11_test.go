// C11 — ADTS framing and AudioSpecificConfig round-trip and match the ISO layout (black-box).
//
// Oracles: refadts (ISO 13818-7 §6.2 writer / bit extractor, ISO frequency table, two-byte
// AudioSpecificConfig layout) and the property statement's accepted set.  Nothing here is derived
// from what the library does.
package c11

import (
	"bytes"
	"fmt"
	"testing"

	"github.com/ossrs/go-oryx-lib/aac"
	"verifharness/lib/mon"
	"verifharness/lib/refadts"
	"verifharness/lib/vrand"
)

// the boundary raw-frame lengths of the design: around the 3 bytes the 13-bit length straddles
var boundaryLens = []int{1, 2, 7, 8, 2040, 2041, 2042, 4088, 4089, 8183, 8184}

var objectTypes = []int{refadts.AOTMain, refadts.AOTLC, refadts.AOTSSR, refadts.AOTSBR, refadts.AOTPS}

type config struct{ obj, sfi, ch int }

func allConfigs() []config {
	var cs []config
	for _, o := range objectTypes {
		for s := 1; s <= 12; s++ {
			for c := 1; c <= 7; c++ {
				cs = append(cs, config{o, s, c})
			}
		}
	}
	return cs
}

func (c config) String() string { return fmt.Sprintf("obj%d/sfi%d/ch%d", c.obj, c.sfi, c.ch) }

func lenClass(n int) string {
	for _, b := range boundaryLens {
		if n == b {
			return fmt.Sprint(n)
		}
	}
	switch {
	case n < 256:
		return "<256"
	case n < 2048:
		return "<2048"
	case n < 4096:
		return "<4096"
	}
	return "<=8184"
}

func payload(r *vrand.Rand, n int) []byte {
	switch r.Intn(8) {
	case 0: // every byte pair looks like a sync word
		return bytes.Repeat([]byte{0xff}, n)
	case 1:
		return make([]byte, n)
	case 2: // embedded fake headers
		b := r.Bytes(n)
		for i := 0; i+1 < n; i += 1 + r.Intn(64) {
			b[i], b[i+1] = 0xff, 0xf0|byte(r.Intn(16))
		}
		return b
	}
	return r.Bytes(n)
}

func startsWithSync(b []byte) bool { return len(b) >= 2 && b[0] == 0xff && b[1]&0xf0 == 0xf0 }

// ---------------------------------------------------------------------------------------------
// (i) all 65 536 two-byte AudioSpecificConfigs, and all field triples through the value side.

func TestVerif_C11_ASC(t *testing.T) {
	m := mon.New("C11", "asc")
	defer m.Finish(t)
	m.Exhaustive(true)
	m.Rule("asc: every two-byte value 0x0000..0xffff through AudioSpecificConfig.UnmarshalBinary and ADTS.SetASC (accepted set from the statement: " +
		"object {1,2,3,5,29} x index 1..12 x channels 1..7; the 3 trailing bits are free), accepted ones re-marshalled and compared on the 13 defined bits; " +
		"plus every field triple object 0..31 x index 0..15 x channels 0..15 built as a struct value and marshalled; " +
		"distinct = accepted (object,index,channels) triple, or for rejected inputs which of the three fields is out of the set")
	m.Require("evaluations", 65536+32*16*16)
	m.Require("accepted_inputs", 420*8)
	m.Require("rejected_inputs", 65536-420*8)
	m.Require("class:acc/", 420)
	mon.Parallel(65536, func(w, i int) {
		b0, b1 := byte(i>>8), byte(i)
		in := []byte{b0, b1}
		want := refadts.ParseASC(b0, b1)
		acc := refadts.Accepted(want)
		m.Case()
		rep := map[string]interface{}{"input_hex": mon.Hex(in), "object": want.ObjectType, "index": want.SamplingIndex, "channels": want.Channels}
		// which field puts a rejected input outside the set (scope of a finding)
		scope := ""
		if !acc {
			if _, ok := refadts.ADTSProfile(want.ObjectType); !ok {
				scope += ":object"
			}
			if want.SamplingIndex < 1 || want.SamplingIndex > 12 {
				scope += ":index"
			}
			if want.Channels < 1 || want.Channels > 7 {
				scope += ":channels"
			}
			m.Class("rej" + scope)
			m.Count("rejected_inputs", 1)
		} else {
			m.Classf("acc/obj%d/sfi%d/ch%d", want.ObjectType, want.SamplingIndex, want.Channels)
			m.Count("accepted_inputs", 1)
		}
		m.Guard("aac.AudioSpecificConfig.UnmarshalBinary", in, func() {
			var asc aac.AudioSpecificConfig
			err := asc.UnmarshalBinary(in)
			switch {
			case acc && err != nil:
				m.Violationf("c11:asc-accepted-config-rejected", rep, "%s is in the accepted set but UnmarshalBinary failed: %v", mon.Hex(in), firstLine(err))
				return
			case !acc && err == nil:
				m.Violationf("c11:asc-invalid-config-accepted"+scope, rep, "%s (object %d index %d channels %d) is outside the accepted set but was accepted",
					mon.Hex(in), want.ObjectType, want.SamplingIndex, want.Channels)
				return
			case !acc:
				return
			}
			if int(asc.Object) != want.ObjectType {
				m.Violationf("c11:asc-field-wrong:object", rep, "object %d, layout says %d", asc.Object, want.ObjectType)
			}
			if int(asc.SampleRate) != want.SamplingIndex {
				m.Violationf("c11:asc-field-wrong:index", rep, "sampling index %d, layout says %d", asc.SampleRate, want.SamplingIndex)
			}
			if int(asc.Channels) != want.Channels {
				m.Violationf("c11:asc-field-wrong:channels", rep, "channels %d, layout says %d", asc.Channels, want.Channels)
			}
			out, err := asc.MarshalBinary()
			if err != nil {
				m.Violationf("c11:asc-remarshal-error", rep, "marshal after unmarshal of %s failed: %v", mon.Hex(in), firstLine(err))
				return
			}
			if m.WantSample() {
				m.Sample(map[string]interface{}{"asc_in": mon.Hex(in), "object": int(asc.Object), "index": int(asc.SampleRate), "channels": int(asc.Channels), "asc_out": mon.Hex(out)})
			}
			if len(out) != 2 || (uint16(out[0])<<8|uint16(out[1]))&refadts.ASCDefinedMask != uint16(i)&refadts.ASCDefinedMask {
				m.Violationf("c11:asc-remarshal-differs", rep, "unmarshal(%s) marshals to %s (compared on the 13 defined bits)", mon.Hex(in), mon.Hex(out))
			}
		})
		// the same decision through the ADTS object
		m.Guard("aac.ADTS.SetASC", in, func() {
			a, err := aac.NewADTS()
			if err != nil {
				m.Violationf("c11:new-adts-error", rep, "NewADTS: %v", err)
				return
			}
			err = a.SetASC(in)
			if acc && err != nil {
				m.Violationf("c11:setasc-accepted-config-rejected", rep, "SetASC(%s) failed: %v", mon.Hex(in), firstLine(err))
			} else if !acc && err == nil {
				m.Violationf("c11:setasc-invalid-config-accepted"+scope, rep, "SetASC(%s) accepted a config outside the set", mon.Hex(in))
			} else if acc {
				g := a.ASC()
				if g == nil || int(g.Object) != want.ObjectType || int(g.SampleRate) != want.SamplingIndex || int(g.Channels) != want.Channels {
					m.Violationf("c11:setasc-field-wrong", rep, "ASC() after SetASC(%s) = %+v", mon.Hex(in), g)
				}
			}
		})
	})
	// value side: every field triple, marshalled
	mon.Parallel(32*16*16, func(w, i int) {
		want := refadts.ASC{ObjectType: i >> 8, SamplingIndex: i >> 4 & 15, Channels: i & 15}
		acc := refadts.Accepted(want)
		m.Case()
		rep := map[string]interface{}{"object": want.ObjectType, "index": want.SamplingIndex, "channels": want.Channels}
		m.Guard("aac.AudioSpecificConfig.MarshalBinary", nil, func() {
			v := aac.AudioSpecificConfig{Object: aac.ObjectType(want.ObjectType), SampleRate: aac.SampleRateIndex(want.SamplingIndex), Channels: aac.Channels(want.Channels)}
			out, err := v.MarshalBinary()
			if acc {
				m.Count("value_accepted", 1)
				wb := want.Bytes()
				if err != nil {
					m.Violationf("c11:asc-marshal-accepted-value-rejected", rep, "marshal of %+v failed: %v", want, firstLine(err))
				} else if len(out) != 2 || (out[0] != wb[0] || out[1]&0xf8 != wb[1]&0xf8) {
					m.Violationf("c11:asc-marshal-bits-wrong", rep, "%+v marshals to %s, layout says %s", want, mon.Hex(out), mon.Hex(wb[:]))
				}
			} else {
				m.Count("value_rejected", 1)
				if err == nil {
					m.Violationf("c11:asc-marshal-invalid-value-accepted", rep, "%+v is outside the accepted set but marshals to %s", want, mon.Hex(out))
				}
			}
		})
	})
}

// ---------------------------------------------------------------------------------------------
// (ii) library Encode -> library Decode over the whole accepted grid, and concatenations.

func newADTS(m *mon.M) aac.ADTS {
	a, err := aac.NewADTS()
	if err != nil || a == nil {
		m.Violationf("c11:new-adts-error", nil, "NewADTS: %v", err)
		return nil
	}
	return a
}

// encodeLib writes one raw frame with the library's encoder configured through the reference ASC bytes.
func encodeLib(m *mon.M, c config, tail int, raw []byte, rep map[string]interface{}) []byte {
	enc := newADTS(m)
	if enc == nil {
		return nil
	}
	ab := refadts.ASC{ObjectType: c.obj, SamplingIndex: c.sfi, Channels: c.ch, Tail: tail}.Bytes()
	if err := enc.SetASC(ab[:]); err != nil {
		m.Violationf("c11:setasc-accepted-config-rejected", rep, "SetASC(%s) failed: %v", mon.Hex(ab[:]), firstLine(err))
		return nil
	}
	frame, err := enc.Encode(raw)
	if err != nil {
		m.Violationf("c11:encode-error", rep, "Encode of %d raw bytes with %v failed: %v", len(raw), c, firstLine(err))
		return nil
	}
	return frame
}

// checkReported compares what the decoder reports after Decode with the configuration's ADTS fields.
func checkReported(m *mon.M, dec aac.ADTS, wantProfile, sfi, ch int, sig string, rep map[string]interface{}) {
	g := dec.ASC()
	if g == nil {
		m.Violationf("c11:no-config-reported"+sig, rep, "ASC() is nil after a successful Decode")
		return
	}
	// ADTS profile p is audio object type p+1 (Main 1, LC 2, SSR 3)
	if int(g.Object.ToProfile()) != wantProfile || int(g.Object) != wantProfile+1 {
		m.Violationf("c11:reported-profile-wrong"+sig, rep, "reports object %d / profile %d, the configuration's ADTS profile is %d", g.Object, g.Object.ToProfile(), wantProfile)
	}
	if int(g.SampleRate) != sfi {
		m.Violationf("c11:reported-index-wrong"+sig, rep, "reports sampling index %d, configuration has %d", g.SampleRate, sfi)
	}
	if int(g.Channels) != ch {
		m.Violationf("c11:reported-channels-wrong"+sig, rep, "reports channels %d, configuration has %d", g.Channels, ch)
	}
}

// compareRaw classifies a raw-block mismatch so that different defects get different signatures.
func compareRaw(m *mon.M, got, want []byte, what, scope string, rep map[string]interface{}) bool {
	if bytes.Equal(got, want) {
		return true
	}
	switch {
	case len(got) > len(want) && bytes.Equal(got[:len(want)], want):
		m.Violationf("c11:raw-block-too-long"+scope, rep, "%s: decoded %d bytes, the raw data block has %d (the first %d are right, %d extra)", what, len(got), len(want), len(want), len(got)-len(want))
	case len(got) > len(want):
		m.Violationf("c11:raw-block-too-long-and-shifted"+scope, rep, "%s: decoded %d bytes, the raw data block has %d, content differs", what, len(got), len(want))
	case len(got) < len(want):
		m.Violationf("c11:raw-block-too-short"+scope, rep, "%s: decoded %d bytes, the raw data block has %d", what, len(got), len(want))
	default:
		m.Violationf("c11:raw-block-differs"+scope, rep, "%s: decoded %d bytes of different content: %s vs %s", what, len(got), mon.Hex(got), mon.Hex(want))
	}
	return false
}

func TestVerif_C11_EncDec(t *testing.T) {
	m := mon.New("C11", "encdec")
	defer m.Finish(t)
	cfgs := allConfigs()
	perCfgRandom := m.N(5, 150)
	streams := m.N(4000, 1000000)
	m.Rule(fmt.Sprintf("encdec: all 420 accepted configurations (set through reference-written ASC bytes, random trailing 3 bits) x raw lengths {1,2,7,8,2040,2041,2042,4088,4089,8183,8184} "+
		"+ %d random lengths in 1..8184 each, payloads random / all-ff / zero / with embedded fake sync words: library Encode, fresh-decoder Decode; then %d streams of 1..6 library-encoded frames "+
		"(same or mixed configuration) decoded one frame at a time by feeding the remainder back; distinct = (profile,index,channels,length class) read from the encoder's header by the reference bit extractor, "+
		"and stream depth x mixed", perCfgRandom, streams))
	grid := len(cfgs) * (len(boundaryLens) + perCfgRandom)
	m.Require("evaluations", int64(grid+streams))
	m.Require("single_frames_decoded", int64(grid))
	m.Require("stream_frames_decoded", int64(streams))
	m.Require("class:one/", int64(3*12*7*len(boundaryLens)))
	for d := 1; d <= 6; d++ {
		m.Require(fmt.Sprintf("class:stream/depth%d", d), 1)
	}
	perCfg := len(boundaryLens) + perCfgRandom
	mon.Parallel(grid, func(w, i int) {
		c := cfgs[i/perCfg]
		k := i % perCfg
		r := m.Rand("one", i)
		n := 0
		if k < len(boundaryLens) {
			n = boundaryLens[k]
		} else {
			n = r.Range(1, 8184)
		}
		raw := payload(r, n)
		m.Case()
		rep := map[string]interface{}{"case": i, "object": c.obj, "index": c.sfi, "channels": c.ch, "raw_len": n, "raw_hex": mon.Hex(raw)}
		wantProfile, _ := refadts.ADTSProfile(c.obj)
		m.Guard("aac.ADTS.Encode+Decode", nil, func() {
			frame := encodeLib(m, c, r.Intn(8), raw, rep)
			if frame == nil {
				return
			}
			rep["frame_head_hex"] = mon.Hex(frame[:min(len(frame), 9)])
			// what was exercised, read from the bytes (evidence only: the statement demands the round trip,
			// conformance of the encoder's own header is not asserted here)
			if h, rraw, rrest, err := refadts.Parse(frame); err == nil {
				m.Classf("one/p%d/sfi%d/ch%d/len%s", h.Profile, h.SamplingIndex, h.Channels, lenClass(len(rraw)))
				if !bytes.Equal(rraw, raw) || len(rrest) != 0 || h.Profile != wantProfile || h.SamplingIndex != c.sfi || h.Channels != c.ch {
					m.Count("encoder_header_reference_disagrees", 1)
				} else {
					m.Count("encoder_header_reference_agrees", 1)
				}
				if m.WantSample() {
					m.Sample(map[string]interface{}{"config": c.String(), "raw_len": n, "frame": mon.Hex(frame), "header_as_read_by_reference": fmt.Sprintf("%+v", h)})
				}
			} else {
				m.Classf("one/unparsed/%s/len%s", c, lenClass(n))
				m.Count("encoder_header_reference_disagrees", 1)
			}
			dec := newADTS(m)
			if dec == nil {
				return
			}
			got, left, err := dec.Decode(frame)
			if err != nil {
				m.Violationf("c11:own-frame-rejected", rep, "Decode(Encode(raw %d bytes, %v)) failed: %v", n, c, firstLine(err))
				return
			}
			m.Count("single_frames_decoded", 1)
			compareRaw(m, got, raw, "Decode(Encode(raw))", ":own", rep)
			if len(left) != 0 {
				m.Violationf("c11:remainder-not-empty", rep, "%d bytes left over after decoding a single encoded frame", len(left))
			}
			checkReported(m, dec, wantProfile, c.sfi, c.ch, "", rep)
		})
	})

	// concatenations
	mon.Parallel(streams, func(w, i int) {
		r := m.Rand("stream", i)
		depth := 1 + i%6
		mixed := r.Bool()
		base := cfgs[r.Intn(len(cfgs))]
		m.Case()
		m.Classf("stream/depth%d/mixed%v", depth, mixed)
		type fr struct {
			c   config
			raw []byte
			off int
		}
		var frames []fr
		var stream []byte
		rep := map[string]interface{}{"case": i, "depth": depth}
		m.Guard("aac.ADTS.Decode(stream)", nil, func() {
			desc := ""
			for k := 0; k < depth; k++ {
				c := base
				if mixed {
					c = cfgs[r.Intn(len(cfgs))]
				}
				n := 0
				switch r.Intn(4) {
				case 0:
					n = boundaryLens[r.Intn(len(boundaryLens))]
				case 1:
					n = r.Range(1, 64)
				default:
					n = r.Range(1, 8184)
				}
				raw := payload(r, n)
				f := encodeLib(m, c, r.Intn(8), raw, rep)
				if f == nil {
					return
				}
				frames = append(frames, fr{c, raw, len(stream)})
				stream = append(stream, f...)
				desc += fmt.Sprintf("%v:%d ", c, n)
			}
			rep["frames"] = desc
			dec := newADTS(m)
			if dec == nil {
				return
			}
			rest := stream
			var keptRaw [][]byte
			for k, f := range frames {
				next := len(stream)
				if k+1 < len(frames) {
					next = frames[k+1].off
				}
				rep["frame_index"] = k
				got, left, err := dec.Decode(rest)
				if err != nil {
					m.Violationf("c11:stream-frame-rejected", rep, "frame %d of %d rejected: %v", k, depth, firstLine(err))
					return
				}
				m.Count("stream_frames_decoded", 1)
				ok := compareRaw(m, got, f.raw, fmt.Sprintf("frame %d of %d", k, depth), ":own-stream", rep)
				wp, _ := refadts.ADTSProfile(f.c.obj)
				checkReported(m, dec, wp, f.c.sfi, f.c.ch, ":stream", rep)
				if !bytes.Equal(left, stream[next:]) {
					m.Violationf("c11:remainder-not-at-next-sync:own-stream", rep, "after frame %d of %d the remainder has %d bytes (starts with sync word: %v), the next frame starts %d bytes before the end",
						k, depth, len(left), startsWithSync(left), len(stream)-next)
					return
				}
				if len(left) > 0 && !startsWithSync(left) {
					m.Violationf("c11:remainder-not-at-next-sync:own-stream", rep, "remainder after frame %d does not start with a sync word", k)
					return
				}
				if !ok {
					return
				}
				keptRaw = append(keptRaw, got)
				rest = left
			}
			// what Decode returned for the earlier frames must still be what it was, after the later Decode calls on the same decoder
			for k, g := range keptRaw {
				if !bytes.Equal(g, frames[k].raw) {
					m.Violationf("c11:earlier-raw-block-overwritten:own-stream", rep, "the raw block returned for frame %d of %d was changed by a later Decode on the same decoder", k, depth)
					break
				}
			}
			m.Count("raw_blocks_rechecked_after_later_decodes", int64(len(keptRaw)))
			m.Count("streams_completed", 1)
		})
	})
}

// ---------------------------------------------------------------------------------------------
// (iii) frames written by the independent ISO writer.

func randomHeader(r *vrand.Rand, profile, sfi, ch int, mpeg2, noCRC bool) refadts.Header {
	h := refadts.Header{MPEG2: mpeg2, ProtectionAbsent: noCRC, Profile: profile, SamplingIndex: sfi, Channels: ch,
		Private: r.Bool(), Original: r.Bool(), Home: r.Bool(), CopyrightBit: r.Bool(), CopyrightStart: r.Bool(), CRC: uint16(r.Uint32())}
	switch r.Intn(3) {
	case 0:
		h.Fullness = 0x7ff // variable bit rate
	case 1:
		h.Fullness = 0
	default:
		h.Fullness = r.Intn(0x800)
	}
	return h
}

func scopeOf(h refadts.Header) string {
	if h.ProtectionAbsent {
		return ":nocrc"
	}
	return ":crc"
}

func idName(mpeg2 bool) string {
	if mpeg2 {
		return "mpeg2"
	}
	return "mpeg4"
}

// rawLensFor returns the boundary lengths an ISO writer can frame: with the CRC two bytes fewer fit the 13-bit field.
func rawLensFor(noCRC bool) []int {
	if noCRC {
		return boundaryLens
	}
	// the statement's lengths that fit, plus the lengths that put aac_frame_length on the same values as the no-CRC grid (…2047/2048, 4095/4096, 8190/8191)
	return []int{1, 2, 5, 6, 7, 8, 2038, 2039, 2040, 2041, 2042, 4086, 4087, 4088, 4089, 8181, 8182}
}

func TestVerif_C11_RefFrames(t *testing.T) {
	m := mon.New("C11", "refframes")
	defer m.Finish(t)
	type gridCase struct {
		profile, sfi, ch int
		mpeg2, noCRC     bool
		n                int
	}
	var grid []gridCase
	for p := 0; p <= 2; p++ {
		for s := 1; s <= 12; s++ {
			for c := 1; c <= 7; c++ {
				for id := 0; id < 2; id++ {
					for prot := 0; prot < 2; prot++ {
						for _, n := range rawLensFor(prot == 1) {
							grid = append(grid, gridCase{p, s, c, id == 1, prot == 1, n})
						}
					}
				}
			}
		}
	}
	streams := m.N(4000, 1000000)
	m.Rule(fmt.Sprintf("refframes: frames written by refadts (ISO 13818-7 §6.2, one raw data block, layer 0) for profile {Main,LC,SSR} x index 1..12 x channels 1..7 x id {MPEG-2,MPEG-4} x "+
		"{CRC, no CRC} x raw lengths {1,2,7,8,2040,2041,2042,4088,4089,8183,8184} (with CRC: the lengths around the same aac_frame_length values, at most 8182) with random private/original/home/"+
		"copyright/buffer-fullness bits and CRC (computed or random), each decoded alone and followed by a second frame; then %d streams of 1..6 reference frames with mixed headers, each frame "+
		"decoded at its true offset; distinct = (id, protection, profile, index, channels, length class) as written", streams))
	m.Require("evaluations", int64(len(grid)+streams))
	nCRC := 0
	for _, g := range grid {
		if !g.noCRC {
			nCRC++
		}
	}
	m.Require("frames_crc", int64(nCRC))
	m.Require("frames_nocrc", int64(len(grid)-nCRC))
	m.Require("frames_mpeg2", int64(len(grid)/2))
	m.Require("frames_mpeg4", int64(len(grid)/2))
	m.Require("class:ref/", int64(len(grid)))

	// one frame of the grid, alone and followed by another frame
	checkFrame := func(r *vrand.Rand, h refadts.Header, raw []byte, rep map[string]interface{}, label string) {
		scope := scopeOf(h)
		frame, err := refadts.WriteFrame(nil, h, raw, r.Bool())
		if err != nil {
			panic(err) // generator bug, not a library failure
		}
		// self-check of the reference: the extractor reads back what the writer wrote
		if ph, praw, prest, perr := refadts.Parse(frame); perr != nil || !bytes.Equal(praw, raw) || len(prest) != 0 || ph.FrameLength != len(frame) ||
			ph.Profile != h.Profile || ph.SamplingIndex != h.SamplingIndex || ph.Channels != h.Channels || ph.MPEG2 != h.MPEG2 || ph.ProtectionAbsent != h.ProtectionAbsent {
			panic(fmt.Sprintf("refadts self-check failed: %v %+v", perr, ph))
		}
		m.Count("frames"+map[bool]string{true: "_nocrc", false: "_crc"}[h.ProtectionAbsent], 1)
		m.Count("frames_"+idName(h.MPEG2), 1)
		rep["header_hex"] = mon.Hex(frame[:h.HeaderSize()])
		rep["id"] = idName(h.MPEG2)
		rep["crc_present"] = !h.ProtectionAbsent
		rep["raw_len"] = len(raw)
		if len(frame) <= 64 {
			rep["input_hex"] = mon.Hex(frame)
		}
		if m.WantSample() {
			m.Sample(map[string]interface{}{"written": fmt.Sprintf("%+v", h), "raw_len": len(raw), "frame": mon.Hex(frame)})
		}
		// (a) alone
		m.Guard("aac.ADTS.Decode", frame, func() {
			dec := newADTS(m)
			if dec == nil {
				return
			}
			got, left, err := dec.Decode(frame)
			if err != nil {
				m.Violationf("c11:ref-frame-rejected"+scope, rep, "%s: a conformant %s frame (%d header bytes, %d raw) is rejected: %v", label, idName(h.MPEG2), h.HeaderSize(), len(raw), firstLine(err))
				return
			}
			m.Count("ref_frames_decoded", 1)
			compareRaw(m, got, raw, label+" alone", scope, rep)
			if len(left) != 0 {
				m.Violationf("c11:remainder-not-empty"+scope, rep, "%s: %d bytes left over after a single frame", label, len(left))
			}
			g := dec.ASC() // reported fields for reference frames: recorded, not demanded by the statement
			if g != nil && int(g.Object.ToProfile()) == h.Profile && int(g.SampleRate) == h.SamplingIndex && int(g.Channels) == h.Channels {
				m.Count("ref_reported_config_matches", 1)
			} else {
				m.Count("ref_reported_config_differs", 1)
			}
		})
		// (b) followed by another (no-CRC, MPEG-4) reference frame
		raw2 := payload(r, r.Range(1, 40))
		h2 := randomHeader(r, r.Intn(3), r.Range(1, 12), r.Range(1, 7), false, true)
		two, _ := refadts.WriteFrame(append([]byte(nil), frame...), h2, raw2, true)
		m.Guard("aac.ADTS.Decode(frame+next)", two, func() {
			dec := newADTS(m)
			if dec == nil {
				return
			}
			got, left, err := dec.Decode(two)
			if err != nil {
				m.Violationf("c11:ref-frame-rejected-in-stream"+scope, rep, "%s followed by a second frame: rejected: %v", label, firstLine(err))
				return
			}
			compareRaw(m, got, raw, label+" followed by a frame", scope, rep)
			if !bytes.Equal(left, two[len(frame):]) {
				m.Violationf("c11:remainder-not-at-next-sync"+scope, rep, "%s: remainder has %d bytes and starts with %s; the next sync word is %d bytes before the end",
					label, len(left), mon.Hex(left[:min(len(left), 4)]), len(two)-len(frame))
				return
			}
			got2, left2, err := dec.Decode(left)
			if err != nil || !bytes.Equal(got2, raw2) || len(left2) != 0 {
				m.Violationf("c11:second-frame-wrong:nocrc", rep, "%s: the following frame decodes wrongly (err=%v, %d bytes vs %d, %d left)", label, err, len(got2), len(raw2), len(left2))
			}
		})
	}

	mon.Parallel(len(grid), func(w, i int) {
		g := grid[i]
		r := m.Rand("grid", i)
		m.Case()
		m.Classf("ref/%s/crc%v/p%d/sfi%d/ch%d/len%d", idName(g.mpeg2), !g.noCRC, g.profile, g.sfi, g.ch, g.n)
		h := randomHeader(r, g.profile, g.sfi, g.ch, g.mpeg2, g.noCRC)
		rep := map[string]interface{}{"case": i, "profile": g.profile, "index": g.sfi, "channels": g.ch}
		checkFrame(r, h, payload(r, g.n), rep, "reference frame")
	})

	// streams of reference frames, each frame decoded at its true offset
	mon.Parallel(streams, func(w, i int) {
		r := m.Rand("refstream", i)
		depth := 1 + i%6
		m.Case()
		m.Classf("refstream/depth%d", depth)
		type fr struct {
			h        refadts.Header
			raw      []byte
			off, end int
		}
		var frames []fr
		var stream []byte
		for k := 0; k < depth; k++ {
			h := randomHeader(r, r.Intn(3), r.Range(1, 12), r.Range(1, 7), r.Bool(), r.Bool())
			max := refadts.MaxFrameLength - h.HeaderSize()
			n := 0
			switch r.Intn(3) {
			case 0:
				n = r.Range(1, 32)
			case 1:
				n = r.Range(max-8, max)
			default:
				n = r.Range(1, max)
			}
			raw := payload(r, n)
			off := len(stream)
			var err error
			if stream, err = refadts.WriteFrame(stream, h, raw, r.Bool()); err != nil {
				panic(err)
			}
			frames = append(frames, fr{h, raw, off, len(stream)})
		}
		dec := newADTS(m)
		if dec == nil {
			return
		}
		for k, f := range frames {
			scope := scopeOf(f.h)
			rep := map[string]interface{}{"case": i, "depth": depth, "frame_index": k, "id": idName(f.h.MPEG2), "crc_present": !f.h.ProtectionAbsent,
				"header_hex": mon.Hex(stream[f.off : f.off+f.h.HeaderSize()]), "raw_len": len(f.raw), "last_in_stream": k == depth-1}
			m.Count("frames"+map[bool]string{true: "_nocrc", false: "_crc"}[f.h.ProtectionAbsent], 1)
			m.Count("frames_"+idName(f.h.MPEG2), 1)
			m.Guard("aac.ADTS.Decode(refstream)", nil, func() {
				got, left, err := dec.Decode(stream[f.off:])
				if err != nil {
					sig := "c11:ref-frame-rejected-in-stream"
					if k == depth-1 {
						sig = "c11:ref-frame-rejected"
					}
					m.Violationf(sig+scope, rep, "stream frame %d/%d (%s, crc %v) rejected: %v", k, depth, idName(f.h.MPEG2), !f.h.ProtectionAbsent, firstLine(err))
					return
				}
				m.Count("ref_frames_decoded", 1)
				compareRaw(m, got, f.raw, fmt.Sprintf("stream frame %d/%d", k, depth), scope, rep)
				if !bytes.Equal(left, stream[f.end:]) {
					m.Violationf("c11:remainder-not-at-next-sync"+scope, rep, "stream frame %d/%d: remainder has %d bytes (sync word first: %v); the next frame starts %d bytes before the end",
						k, depth, len(left), startsWithSync(left), len(stream)-f.end)
				}
			})
		}
	})
}

// ---------------------------------------------------------------------------------------------
// (iv) the frequency table and the conversion helpers over every 8-bit value.

func TestVerif_C11_Tables(t *testing.T) {
	m := mon.New("C11", "tables")
	defer m.Finish(t)
	m.Exhaustive(true)
	m.Rule("tables: every value 0..255 of SampleRateIndex / ObjectType / Profile / Channels through ToHz, ToProfile, ToObjectType and String; indices 0..12 must give the ISO table " +
		"frequency, the accepted object types the ADTS profile of 13818-7/14496-3 and profiles 0..2 the object type profile+1; no helper may panic for any value; distinct = helper x value class")
	m.Require("evaluations", 256*7)
	m.Require("iso_frequencies_checked", 13)
	for v := 0; v < 256; v++ {
		in := []byte{byte(v)}
		rep := map[string]interface{}{"value": v}
		vclass := "defined"
		if v > 12 && v <= 15 {
			vclass = "reserved-4bit"
		} else if v > 15 {
			vclass = "above-4bit"
		}
		m.Case()
		m.Classf("ToHz/%s", vclass)
		m.Guard("aac.SampleRateIndex.ToHz", in, func() {
			hz := aac.SampleRateIndex(v).ToHz()
			if want, ok := refadts.Frequency(v); ok {
				m.Count("iso_frequencies_checked", 1)
				if hz != want {
					m.Violationf("c11:frequency-not-iso", rep, "index %d converts to %d Hz, the ISO table says %d", v, hz, want)
				}
				if m.WantSample() {
					m.Sample(map[string]interface{}{"index": v, "hz": hz})
				}
			}
		})
		m.Case()
		m.Classf("SampleRateIndex.String/%s", vclass)
		m.Guard("aac.SampleRateIndex.String", in, func() { _ = aac.SampleRateIndex(v).String() })
		m.Case()
		m.Class("ObjectType.ToProfile")
		m.Guard("aac.ObjectType.ToProfile", in, func() {
			p := aac.ObjectType(v).ToProfile()
			if want, ok := refadts.ADTSProfile(v); ok && int(p) != want {
				m.Violationf("c11:profile-mapping-wrong", rep, "object type %d maps to ADTS profile %d, expected %d", v, p, want)
			}
		})
		m.Case()
		m.Class("ObjectType.String")
		m.Guard("aac.ObjectType.String", in, func() { _ = aac.ObjectType(v).String() })
		m.Case()
		m.Class("Profile.ToObjectType")
		m.Guard("aac.Profile.ToObjectType", in, func() {
			o := aac.Profile(v).ToObjectType()
			if v <= 2 && int(o) != v+1 {
				m.Violationf("c11:profile-mapping-wrong", rep, "ADTS profile %d maps to object type %d, expected %d", v, o, v+1)
			}
		})
		m.Case()
		m.Class("Profile.String")
		m.Guard("aac.Profile.String", in, func() { _ = aac.Profile(v).String() })
		m.Case()
		m.Class("Channels.String")
		m.Guard("aac.Channels.String", in, func() { _ = aac.Channels(v).String() })
	}
}

func firstLine(err error) string {
	if err == nil {
		return "<nil>"
	}
	s := err.Error()
	for i := 0; i < len(s); i++ {
		if s[i] == '\n' {
			s = s[:i]
			break
		}
	}
	if len(s) > 160 {
		s = s[:160]
	}
	return s
}
