// C04 — RTMP request/response matching with concurrent reader and writer (in-package,
// race detector, schedules driven from inside the transport, porcupine history check).
package rtmp

import (
	"unsafe"
	"fmt"
	"reflect"
	"sort"
	"strings"
	"sync"
	"sync/atomic"
	"testing"
	"time"

	"github.com/anishathalye/porcupine"
	"github.com/ossrs/go-oryx-lib/amf0"
	"verifharness/lib/mon"
	"verifharness/lib/refrtmp"
	"verifharness/lib/vnet"
	"verifharness/lib/vrand"
)

type verifEv struct {
	t    int64
	kind string // call, handed, delivered, decoded, returned
	tid  float64
	seq  int // response sequence number (delivered/decoded)
	res  string
}

type verifResp struct {
	tid   float64
	seq   int
	kind  string // answer, duplicate, unsolicited
	forRq int
}

// verifC04Run is one endpoint with a writer goroutine and a reader goroutine.
type verifC04Run struct {
	m     *mon.M
	clock int64
	mu    sync.Mutex
	evs   []verifEv

	toReader *vnet.BlockingPipe
	peer     *Protocol // only used to chunk the responses the harness sends
	peerQ    *vnet.Queue

	fifoMu  sync.Mutex
	fifo    []verifResp          // responses in the order they were put into the reader's pipe
	decoded map[int]chan string  // seq -> result, closed over by waiters
	seq     int
	dech    *refrtmp.Dechunker // parses what the endpoint writes, to know when a request is completely handed over
	inbuf   []byte
	onReq   func(tid float64) // schedule hook: called inside Write when a whole request has been handed to the transport
	amf3    func(tid float64) bool // answers for which this returns true travel as AMF3 command messages (type 17: one 0x00 byte, then the AMF0 body), as peers that negotiated objectEncoding 3 send them
}

func (x *verifC04Run) log(kind string, tid float64, seq int, res string) int64 {
	t := atomic.AddInt64(&x.clock, 1)
	x.mu.Lock()
	x.evs = append(x.evs, verifEv{t, kind, tid, seq, res})
	x.mu.Unlock()
	return t
}

// Write is the transport under the endpoint's writer: it sees every flushed request.
func (x *verifC04Run) Write(p []byte) (int, error) {
	x.inbuf = append(x.inbuf, p...)
	for {
		n, msg, err := x.dech.Next(x.inbuf)
		if err != nil {
			break
		}
		x.inbuf = x.inbuf[n:]
		if msg != nil && msg.Type == 20 {
			// name, tid
			var name amf0.String
			var tid amf0.Number
			if name.UnmarshalBinary(msg.Payload) == nil && tid.UnmarshalBinary(msg.Payload[name.Size():]) == nil {
				x.log("handed", float64(tid), 0, string(name))
				if x.onReq != nil {
					x.onReq(float64(tid))
				}
			}
		}
	}
	return len(p), nil
}

// deliver chunks a _result for tid with the peer protocol and pushes it into the reader's pipe.
func (x *verifC04Run) deliver(tid float64, reqName string, kind string) (seq int, ch chan string) {
	var pkt Packet
	if reqName == "connect" {
		p := NewConnectAppResPacket(amf0.Number(tid))
		p.CommandObject.Set("fmsVer", amf0.NewString("FMS/3,5,3,888"))
		p.Args = amf0.NewObject()
		p.Args.Set("code", amf0.NewString("NetConnection.Connect.Success"))
		pkt = p
	} else {
		p := NewCreateStreamResPacket(amf0.Number(tid))
		p.StreamID = amf0.Number(1)
		pkt = p
	}
	x.fifoMu.Lock()
	defer x.fifoMu.Unlock()
	x.seq++
	seq = x.seq
	ch = make(chan string, 1)
	x.decoded[seq] = ch
	x.peerQ.Log = x.peerQ.Log[:0]
	if x.amf3 != nil && x.amf3(tid) {
		body, _ := pkt.MarshalBinary()
		am := NewMessage()
		am.MessageType = MessageTypeAMF3Command
		am.Payload = append([]byte{0}, body...)
		am.betterCid = pkt.BetterCid()
		x.peer.WriteMessage(am)
		x.m.Count("answers_sent_as_amf3_command_messages", 1)
	} else {
		x.peer.WritePacket(pkt, 0)
	}
	x.fifo = append(x.fifo, verifResp{tid: tid, seq: seq, kind: kind})
	x.log("delivered", tid, seq, kind)
	x.toReader.Write(append([]byte(nil), x.peerQ.Log...))
	return
}

// peerControl lets the peer announce its acknowledgement window and bandwidth first, as servers do right after the
// handshake.  An endpoint that reacts to them (acknowledgements) must not do so from the reader goroutine through the
// writer goroutine's stream.
func (x *verifC04Run) peerControl(r *vrand.Rand) {
	was := NewWindowAcknowledgementSize()
	was.AckSize = uint32(r.Pick(1, 64, 300, 2500000))
	spb := NewSetPeerBandwidth()
	spb.Bandwidth = uint32(r.Pick(64, 2500000))
	x.fifoMu.Lock()
	defer x.fifoMu.Unlock()
	x.peerQ.Log = x.peerQ.Log[:0]
	x.peer.WritePacket(was, 0)
	if r.Bool() {
		x.peer.WritePacket(spb, 0)
	}
	x.toReader.Write(append([]byte(nil), x.peerQ.Log...))
	x.m.Count("runs_where_the_peer_announced_its_ack_window", 1)
}

func (x *verifC04Run) readerLoop(p *Protocol, done chan struct{}) {
	defer close(done)
	for {
		msg, err := p.ReadMessage()
		if err != nil {
			return
		}
		pkt, derr := p.DecodeMessage(msg)
		if msg.MessageType != MessageTypeAMF0Command && msg.MessageType != MessageTypeAMF3Command {
			continue // protocol control from the peer (window size, bandwidth): decoded, not a response
		}
		x.fifoMu.Lock()
		head := x.fifo[0]
		x.fifo = x.fifo[1:]
		ch := x.decoded[head.seq]
		x.fifoMu.Unlock()
		res := ""
		if derr != nil {
			res = "error: " + derr.Error()
			if len(res) > 90 {
				res = res[:90]
			}
		} else {
			res = reflect.TypeOf(pkt).String()
		}
		x.log("decoded", head.tid, head.seq, res)
		ch <- res
	}
}

// verifC04TableLock finds the mutex guarding the outstanding-request table by name (input.ltransactions); nil if this tree has
// none of that name and type — the probe is then skipped, nothing else depends on it.
func verifC04TableLock(p *Protocol) *sync.Mutex {
	in := reflect.ValueOf(p).Elem().FieldByName("input")
	if !in.IsValid() || in.Kind() != reflect.Struct {
		return nil
	}
	f := in.FieldByName("ltransactions")
	if !f.IsValid() || f.Type() != reflect.TypeOf(sync.Mutex{}) || !f.CanAddr() {
		return nil
	}
	return (*sync.Mutex)(unsafe.Pointer(f.UnsafeAddr()))
}

func verifWait(m *mon.M, ch chan string, what string) (string, bool) {
	select {
	case r := <-ch:
		return r, true
	case <-time.After(20 * time.Second): // watchdog only: its firing is inconclusive, never a verdict
		m.Inconclusive("watchdog: " + what + " did not complete within 20s")
		return "", false
	}
}

type verifOpIn struct {
	send bool
	tid  float64
}

func TestVerif_C04_Schedules(t *testing.T) {
	m := mon.New("C04", "schedules")
	defer m.Finish(t)
	m.Rule("schedules: one endpoint, a writer goroutine sending connect/createStream requests and a reader goroutine decoding responses; the " +
		"harness transport answers each request from inside Write under a per-request schedule: alpha = response delivered and fully decoded by the " +
		"reader before Write returns, beta = delivered before Write returns, gamma = after WritePacket returned, delta = plus duplicates and unsolicited " +
		"responses; tids from a small pool, re-used after completion; oracle = happens-before assertion + porcupine (per-tid set model) + exactly-once; " +
		"distinct = per-request event-order signature x schedule")
	n := m.N(1200, 200000)
	m.Require("evaluations", int64(n))
	m.Require("alpha_decoded_inside_write", int64(n))
	m.Require("porcupine_ok_histories", int64(n*9/10))
	m.Require("runs_with_large_requests", int64(n/6))
	mon.Parallel(n, func(w, i int) {
		r := m.Rand("sched", i)
		m.Case()
		x := &verifC04Run{m: m, decoded: map[int]chan string{}, dech: refrtmp.NewDechunker()}
		x.toReader = vnet.NewBlockingPipe(vnet.PickSeg(r))
		x.peerQ = vnet.NewQueue(vnet.SegWhole())
		x.peerQ.KeepLog = true
		x.peer = NewProtocol(vnet.RW{Reader: x.peerQ, Writer: x.peerQ})
		ep := NewProtocol(vnet.RW{Reader: x.toReader, Writer: x})
		done := make(chan struct{})
		var wg sync.WaitGroup
		if r.Chance(1, 2) {
			x.peerControl(r)
		}
		m.Go(&wg, "rtmp.c04.reader", func() { x.readerLoop(ep, done) })

		nreq := r.Range(1, 20)
		rep := map[string]interface{}{"case": i}
		var scheds []string
		// a third of the runs raise the output chunk size first and send large requests, so that a request
		// reaches the transport in several Write calls (bufio spills) before the writer's final flush
		bigReq := 0
		if r.Chance(1, 3) {
			scs := NewSetChunkSize()
			scs.ChunkSize = uint32(r.Pick(4096, 8192, 20000, 60000, 70000))
			if err := ep.WritePacket(scs, 0); err != nil {
				m.Violationf("c04:write-error", rep, "%v", err)
			}
			bigReq = r.Pick(3000, 5000, 9000, 20000, 60000)
			scheds = append(scheds, fmt.Sprintf("chunk=%d,bigreq=%d", scs.ChunkSize, bigReq))
			m.Count("runs_with_large_requests", 1)
		}
		outstanding := map[float64]chan string{} // tid -> pending decode of its answer (beta/gamma)
		expectType := map[string]string{"connect": "*rtmp.ConnectAppResPacket", "createStream": "*rtmp.CreateStreamResPacket"}
		bad := false
		checkAnswer := func(tid float64, name, res, sched string) {
			if res != expectType[name] {
				sig := "c04:response-after-handover-not-matched"
				if !strings.HasPrefix(res, "error") {
					sig = "c04:response-decoded-as-wrong-type"
				}
				m.Violationf(sig+":"+sched, rep, "schedule %s: response for %s tid=%v that was delivered after the request had been handed to the transport was answered with %q; schedules=%v", sched, name, tid, res, scheds)
				bad = true
			} else {
				m.Count("answers_matched", 1)
			}
		}
		m.Guard("rtmp.c04.writer", nil, func() {
			for k := 0; k < nreq && !bad; k++ {
				name := "createStream"
				tid := float64(r.Range(2, 5))
				if k == 0 && r.Bool() {
					name, tid = "connect", 1
				}
				// never re-use a tid whose answer has not been decoded yet (the statement gives no meaning to that)
				if ch, ok := outstanding[tid]; ok {
					res, ok2 := verifWait(m, ch, "pending answer")
					if !ok2 {
						return
					}
					delete(outstanding, tid)
					checkAnswer(tid, "createStream", res, "late")
				}
				sched := []string{"alpha", "beta", "gamma", "delta"}[r.Intn(4)]
				scheds = append(scheds, fmt.Sprintf("%s(%s,%v)", sched, name, tid))
				var inWrite chan string
				var alphaRes string
				alphaOK := true
				x.onReq = nil
				switch sched {
				case "alpha", "delta":
					x.onReq = func(t float64) {
						// we are inside the transport's Write, on the writer's goroutine, inside its WritePacket: if the table's lock is
						// held now and stays held, the writer holds it across its transport write — the reader then cannot match an answer
						// until the write returns, and with a transport that only takes more bytes once the answer has been consumed, never
						// The probe is made only when the reader is known to be idle: every answer delivered so far has been decoded (the
						// reader takes an answer off x.fifo after DecodeMessage has returned), so it sits in ReadMessage on an empty pipe and
						// cannot be the one holding the lock — no timing is involved.  (A first version probed at any time and retried 400
						// times; with the machine overloaded the reader was descheduled inside its own short critical section for longer
						// than that, and the thorough tier raised this alarm on the unchanged tree.)
						x.fifoMu.Lock()
						readerIdle := len(x.fifo) == 0
						x.fifoMu.Unlock()
						if mu := verifC04TableLock(ep); mu != nil && readerIdle {
							if !mu.TryLock() {
								m.Violationf("c04:table-lock-held-across-transport-write", rep, "while the writer is inside the transport's Write for %s tid=%v (and the reader idle) the transaction table's lock is held: an answer arriving now cannot be matched before the write returns", name, t)
								bad = true
								return
							}
							mu.Unlock()
							m.Count("table_lock_probed_free_inside_transport_write", 1)
						}
						_, ch := x.deliver(t, name, "answer")
						alphaRes, alphaOK = verifWait(m, ch, "alpha decode inside Write")
						m.Count("alpha_decoded_inside_write", 1)
					}
				case "beta":
					x.onReq = func(t float64) { _, inWrite = x.deliver(t, name, "answer") }
				}
				var pkt Packet
				if name == "connect" {
					pkt = NewConnectAppPacket()
				} else {
					p := NewCreateStreamPacket()
					p.TransactionID = amf0.Number(tid)
					if bigReq > 0 {
						o := amf0.NewObject()
						o.Set("filler", amf0.NewString(strings.Repeat("x", bigReq%60000)))
						if bigReq >= 60000 {
							o.Set("filler2", amf0.NewString(strings.Repeat("y", 30000)))
						}
						p.CommandObject = o
					}
					pkt = p
				}
				x.log("call", tid, 0, name)
				err := ep.WritePacket(pkt, 0)
				x.log("returned", tid, 0, name)
				x.onReq = nil
				if err != nil {
					m.Violationf("c04:write-error", rep, "%v", err)
					return
				}
				if !alphaOK {
					return
				}
				switch sched {
				case "alpha":
					checkAnswer(tid, name, alphaRes, sched)
				case "beta":
					if r.Bool() {
						res, ok := verifWait(m, inWrite, "beta decode")
						if !ok {
							return
						}
						checkAnswer(tid, name, res, sched)
					} else {
						outstanding[tid] = inWrite
					}
				case "gamma":
					_, ch := x.deliver(tid, name, "answer")
					if r.Bool() {
						res, ok := verifWait(m, ch, "gamma decode")
						if !ok {
							return
						}
						checkAnswer(tid, name, res, sched)
					} else {
						outstanding[tid] = ch
					}
				case "delta":
					checkAnswer(tid, name, alphaRes, sched)
					// a duplicate of the answer, and an unsolicited response: both must be refused
					for _, kind := range []string{"duplicate", "unsolicited"} {
						t2 := tid
						if kind == "unsolicited" {
							t2 = float64(r.Range(100, 200))
						}
						_, ch := x.deliver(t2, name, kind)
						res, ok := verifWait(m, ch, kind+" decode")
						if !ok {
							return
						}
						if !strings.HasPrefix(res, "error") {
							m.Violationf("c04:"+kind+"-response-accepted", rep, "%s response tid=%v decoded as %s; schedules=%v", kind, t2, res, scheds)
							bad = true
						} else {
							m.Count(kind+"_refused", 1)
						}
					}
				}
			}
			for tid, ch := range outstanding {
				res, ok := verifWait(m, ch, "final pending answer")
				if !ok {
					return
				}
				nm := "createStream"
				if tid == 1 {
					nm = "connect"
				}
				checkAnswer(tid, nm, res, "late")
			}
		})
		x.toReader.Close()
		select {
		case <-done:
		case <-time.After(20 * time.Second):
			m.Inconclusive("watchdog: reader goroutine did not finish")
		}
		wg.Wait()
		verifC04History(m, x, rep, scheds)
	})
}

// verifC04History builds the porcupine history from the event log and records the
// interleaving signatures that were actually observed.
func verifC04History(m *mon.M, x *verifC04Run, rep map[string]interface{}, scheds []string) {
	x.mu.Lock()
	evs := append([]verifEv(nil), x.evs...)
	x.mu.Unlock()
	sort.Slice(evs, func(a, b int) bool { return evs[a].t < evs[b].t })
	var ops []porcupine.Operation
	// sends: [call, handed]; receives: [delivered, decoded]
	type open struct {
		t   int64
		idx int
	}
	var callT, handT []verifEv
	deliv := map[int]verifEv{}
	for _, e := range evs {
		switch e.kind {
		case "call":
			callT = append(callT, e)
		case "handed":
			handT = append(handT, e)
		case "delivered":
			deliv[e.seq] = e
		case "decoded":
			d, ok := deliv[e.seq]
			if !ok {
				continue
			}
			ops = append(ops, porcupine.Operation{ClientId: 1, Input: verifOpIn{false, e.tid}, Call: d.t, Output: !strings.HasPrefix(e.res, "error"), Return: e.t})
		}
	}
	if len(callT) != len(handT) {
		if len(handT) < len(callT) {
			m.Violationf("c04:request-never-reached-transport", rep, "%d WritePacket calls, %d requests seen by the transport", len(callT), len(handT))
		}
		return
	}
	for k := range callT {
		ops = append(ops, porcupine.Operation{ClientId: 0, Input: verifOpIn{true, callT[k].tid}, Call: callT[k].t, Output: true, Return: handT[k].t})
	}
	model := porcupine.Model{
		Partition: func(history []porcupine.Operation) [][]porcupine.Operation {
			by := map[float64][]porcupine.Operation{}
			var keys []float64
			for _, o := range history {
				t := o.Input.(verifOpIn).tid
				if _, ok := by[t]; !ok {
					keys = append(keys, t)
				}
				by[t] = append(by[t], o)
			}
			sort.Float64s(keys)
			var out [][]porcupine.Operation
			for _, k := range keys {
				out = append(out, by[k])
			}
			return out
		},
		Init: func() interface{} { return false },
		Step: func(state, input, output interface{}) (bool, interface{}) {
			in := input.(verifOpIn)
			if in.send {
				return true, true // the request is outstanding from some point inside [call, handed]
			}
			if output.(bool) {
				return state.(bool), false // a matched response needs an outstanding request and consumes it
			}
			return !state.(bool), state // a refused response is only right when nothing is outstanding
		},
		DescribeOperation: func(input, output interface{}) string {
			in := input.(verifOpIn)
			if in.send {
				return fmt.Sprintf("send(%v)", in.tid)
			}
			return fmt.Sprintf("recv(%v)->%v", in.tid, output)
		},
	}
	res, _ := porcupine.CheckOperationsVerbose(model, ops, 30*time.Second)
	switch res {
	case porcupine.Ok:
		m.Count("porcupine_ok_histories", 1)
	case porcupine.Illegal:
		var sb strings.Builder
		for _, e := range evs {
			fmt.Fprintf(&sb, "%d:%s(%v,%d,%s) ", e.t, e.kind, e.tid, e.seq, e.res)
		}
		m.Violationf("c04:history-not-linearizable", rep, "no linearization of {send:[call,handed], recv:[delivered,decoded]} under the outstanding-set model; schedules=%v; events: %s", scheds, sb.String())
	default:
		m.Inconclusive("porcupine timeout")
	}
	m.Count("history_operations", int64(len(ops)))
	// interleaving signature per request: order of handed / delivered / decoded / returned
	byTid := map[float64][]string{}
	var cur float64
	for _, e := range evs {
		switch e.kind {
		case "call":
			cur = e.tid
			byTid[cur] = nil
			_ = cur
		}
	}
	sig := ""
	for _, e := range evs {
		c := map[string]string{"call": "c", "handed": "h", "delivered": "d", "decoded": "D", "returned": "r"}[e.kind]
		if e.kind == "decoded" && strings.HasPrefix(e.res, "error") {
			c = "E"
		}
		sig += c
		if e.kind == "returned" {
			m.Class("order:" + sig)
			sig = ""
		}
	}
	if sig != "" {
		m.Class("tail:" + sig)
	}
	if m.WantSample() {
		var sb []string
		for _, e := range evs {
			sb = append(sb, fmt.Sprintf("%d:%s(tid=%v)", e.t, e.kind, e.tid))
		}
		m.Sample(map[string]interface{}{"schedules": scheds, "events": sb})
	}
}

// Free-running stress: no gating, just many requests with the peer answering as fast as it can,
// for the race detector and for exactly-once accounting.
func TestVerif_C04_Stress(t *testing.T) {
	m := mon.New("C04", "stress")
	defer m.Finish(t)
	m.Rule("stress: free-running writer and reader goroutines, the transport answers every request immediately from inside Write without waiting; " +
		"every answer must be matched exactly once; in every second run every third answer travels as an AMF3 command message (type 17); " +
		"pipeline: 65/100/257/600/1025 requests (one connect, then createStreams) are all handed to the transport before any answer, then all answers arrive oldest first, " +
		"newest first or in PRNG order (a third of the runs with every second answer as AMF3) and each must decode as its response type; " +
		"run under the race detector; distinct = (requests, matched) bucket | (pipeline depth, answer order, amf3)")
	n := m.N(100, 20000)
	m.Require("answers_matched", int64(n*10))
	mon.Parallel(n, func(w, i int) {
		r := m.Rand("stress", i)
		m.Case()
		x := &verifC04Run{m: m, decoded: map[int]chan string{}, dech: refrtmp.NewDechunker()}
		x.toReader = vnet.NewBlockingPipe(vnet.PickSeg(r))
		x.peerQ = vnet.NewQueue(vnet.SegWhole())
		x.peerQ.KeepLog = true
		x.peer = NewProtocol(vnet.RW{Reader: x.peerQ, Writer: x.peerQ})
		ep := NewProtocol(vnet.RW{Reader: x.toReader, Writer: x})
		done := make(chan struct{})
		var wg sync.WaitGroup
		if r.Chance(1, 2) {
			x.peerControl(r)
		}
		m.Go(&wg, "rtmp.c04.reader", func() { x.readerLoop(ep, done) })
		var chans []chan string
		var mu sync.Mutex
		x.onReq = func(t float64) {
			_, ch := x.deliver(t, "createStream", "answer")
			mu.Lock()
			chans = append(chans, ch)
			mu.Unlock()
		}
		nreq := r.Range(10, 60)
		rep := map[string]interface{}{"case": i}
		if i%2 == 1 {
			x.amf3 = func(t float64) bool { return int(t)%3 == 0 }
			rep["every_third_answer_as_amf3"] = true
		}
		m.Guard("rtmp.c04.stress", nil, func() {
			for k := 0; k < nreq; k++ {
				p := NewCreateStreamPacket()
				p.TransactionID = amf0.Number(1000 + k) // unique tids: every answer has exactly one request
				if err := ep.WritePacket(p, 0); err != nil {
					m.Violationf("c04:write-error", rep, "%v", err)
					return
				}
			}
			mu.Lock()
			cs := append([]chan string(nil), chans...)
			mu.Unlock()
			matched := 0
			for _, ch := range cs {
				res, ok := verifWait(m, ch, "stress decode")
				if !ok {
					return
				}
				if res == "*rtmp.CreateStreamResPacket" {
					matched++
					m.Count("answers_matched", 1)
				} else {
					m.Violationf("c04:response-after-handover-not-matched:stress", rep, "answer decoded as %q", res)
				}
			}
			if len(cs) != nreq {
				m.Violationf("c04:request-never-reached-transport", rep, "%d requests, %d seen", nreq, len(cs))
			}
			m.Classf("req%d/matched%d", nreq/10*10, matched/10*10)
		})
		x.toReader.Close()
		<-done
		wg.Wait()
	})
	// deep pipeline: the writer hands N requests to the transport before the peer answers any of them (a client that queues its
	// commands, a peer that is slow); then all N answers arrive, oldest first, newest first or in PRNG order.  Every one of them
	// arrives after its request was handed over, so every one must be matched.  No clock: the answers are pushed after the last
	// WritePacket has returned.
	depths := []int{65, 100, 257, 600, 1025}
	np := m.N(20, 1500)
	m.Require("pipelined_answers_matched", int64(np*65))
	m.Require("answers_sent_as_amf3_command_messages", int64(n))
	mon.Parallel(np, func(w, i int) {
		r := m.Rand("pipeline", i)
		m.Case()
		x := &verifC04Run{m: m, decoded: map[int]chan string{}, dech: refrtmp.NewDechunker()}
		x.toReader = vnet.NewBlockingPipe(vnet.PickSeg(r))
		x.peerQ = vnet.NewQueue(vnet.SegWhole())
		x.peerQ.KeepLog = true
		x.peer = NewProtocol(vnet.RW{Reader: x.peerQ, Writer: x.peerQ})
		ep := NewProtocol(vnet.RW{Reader: x.toReader, Writer: x})
		done := make(chan struct{})
		var wg sync.WaitGroup
		m.Go(&wg, "rtmp.c04.reader", func() { x.readerLoop(ep, done) })
		var handed []float64
		x.onReq = func(t float64) { handed = append(handed, t) } // on the writer's goroutine, read after its last write
		if i%3 == 2 {
			x.amf3 = func(t float64) bool { return int(t)%2 == 0 }
		}
		nreq := depths[i%len(depths)]
		order := []string{"oldest-first", "newest-first", "prng"}[(i/len(depths))%3]
		rep := map[string]interface{}{"case": i, "scenario": "pipeline", "outstanding": nreq, "answer_order": order}
		m.Guard("rtmp.c04.pipeline", nil, func() {
			for k := 0; k < nreq; k++ {
				var p Packet
				if k == 0 {
					cp := NewConnectAppPacket()
					cp.TransactionID = amf0.Number(1)
					p = cp
				} else {
					cs := NewCreateStreamPacket()
					cs.TransactionID = amf0.Number(1 + k)
					p = cs
				}
				if err := ep.WritePacket(p, 0); err != nil {
					m.Violationf("c04:write-error", rep, "%v", err)
					return
				}
			}
			if len(handed) != nreq {
				m.Violationf("c04:request-never-reached-transport", rep, "%d requests, %d seen", nreq, len(handed))
				return
			}
			idx := make([]int, nreq)
			for k := range idx {
				idx[k] = k
			}
			switch order {
			case "newest-first":
				for a, b := 0, nreq-1; a < b; a, b = a+1, b-1 {
					idx[a], idx[b] = idx[b], idx[a]
				}
			case "prng":
				idx = r.Perm(nreq)
			}
			type pend struct {
				tid  float64
				want string
				ch   chan string
			}
			var ps []pend
			for _, k := range idx {
				name, want := "createStream", "*rtmp.CreateStreamResPacket"
				if handed[k] == 1 {
					name, want = "connect", "*rtmp.ConnectAppResPacket"
				}
				_, ch := x.deliver(handed[k], name, "answer")
				ps = append(ps, pend{handed[k], want, ch})
			}
			matched := 0
			for _, q := range ps {
				res, ok := verifWait(m, q.ch, "pipeline decode")
				if !ok {
					return
				}
				if res == q.want {
					matched++
					m.Count("pipelined_answers_matched", 1)
				} else {
					rep["tid"] = q.tid
					m.Violationf("c04:response-after-handover-not-matched:pipeline", rep, "with %d requests outstanding, the answer for tid %v (answers %s) was decoded as %q, want %s", nreq, q.tid, order, res, q.want)
					return
				}
			}
			m.Classf("pipeline/n%d/%s/amf3=%v", nreq, order, x.amf3 != nil)
		})
		x.toReader.Close()
		<-done
		wg.Wait()
	})
}
