// C07 — untrusted bytes never crash or stall a decoder: WebSocket frame reader (in-package).
package websocket

import (
	"bytes"
	"io"
	"io/ioutil"
	"net"
	"sync"
	"testing"
	"time"

	"verifharness/lib/hostile"
	"verifharness/lib/mon"
	"verifharness/lib/refws"
	"verifharness/lib/vrand"
)

type verifC07Conn struct {
	r io.Reader
}

func (c *verifC07Conn) Read(p []byte) (int, error)         { return c.r.Read(p) }
func (c *verifC07Conn) Write(p []byte) (int, error)        { return len(p), nil }
func (c *verifC07Conn) Close() error                       { return nil }
func (c *verifC07Conn) LocalAddr() net.Addr                { return nil }
func (c *verifC07Conn) RemoteAddr() net.Addr               { return nil }
func (c *verifC07Conn) SetDeadline(t time.Time) error      { return nil }
func (c *verifC07Conn) SetReadDeadline(t time.Time) error  { return nil }
func (c *verifC07Conn) SetWriteDeadline(t time.Time) error { return nil }

type verifC07Cfg struct {
	server   bool
	compress bool
	limit    int64
}

func (c verifC07Cfg) name() string {
	s := "ws.read/client"
	if c.server {
		s = "ws.read/server"
	}
	if c.compress {
		s += "/deflate"
	}
	if c.limit > 0 {
		s += "/limit"
	}
	return s
}

// read messages until the first error; every message is drained
func verifC07Reader(cfg verifC07Cfg) func(data []byte) string {
	return func(data []byte) string {
		c := newConn(&verifC07Conn{r: bytes.NewReader(data)}, cfg.server, 1024, 1024)
		if cfg.compress {
			c.newDecompressionReader = decompressNoContextTakeover
			c.newCompressionWriter = compressNoContextTakeover
		}
		if cfg.limit > 0 {
			c.SetReadLimit(cfg.limit)
		}
		n := 0
		for {
			_, r, err := c.NextReader()
			if err != nil {
				break
			}
			io.Copy(ioutil.Discard, r)
			n++
			if n > len(data)+1 {
				panic("verif: more messages than input bytes (no progress)")
			}
		}
		if n == 0 {
			return "msgs0"
		}
		return "msgs+"
	}
}

// a fixed pool of compressed payloads: a flate writer costs >1 MB of allocation, far too slow per case under -race
var verifC07Pool [][]byte
var verifC07PoolOnce sync.Once

func verifC07Deflated(i int) []byte {
	verifC07PoolOnce.Do(func() {
		r := vrand.New(77)
		for k := 0; k < 64; k++ {
			n := []int{0, 1, 5, 125, 126, 300, 1000, 5000}[k%8]
			b := r.Bytes(n)
			if k%3 == 0 {
				for j := range b {
					b[j] = byte('a' + j%3)
				}
			}
			verifC07Pool = append(verifC07Pool, refws.Deflate(b, 1+k%9))
		}
	})
	return append([]byte(nil), verifC07Pool[i%len(verifC07Pool)]...)
}

func verifC07Frames(r *vrand.Rand, masked, deflate bool) []byte {
	var fr []refws.Frame
	open := false
	for k := 0; k < r.Range(1, 8); k++ {
		f := refws.Frame{Masked: masked, Fin: r.Chance(2, 3)}
		if r.Chance(1, 12) {
			f.Masked = !masked
		}
		r.Fill(f.Key[:])
		switch r.Intn(8) {
		case 0:
			f.Opcode, f.Fin = 9, true
			f.Payload = r.Bytes(r.Pick(0, 5, 125))
		case 1:
			f.Opcode, f.Fin = 10, true
			f.Payload = r.Bytes(r.Pick(0, 5))
		case 2:
			f.Opcode, f.Fin = 8, true
			f.Payload = append([]byte{byte(r.Pick(3, 3, 3, 0, 0x13)), byte(r.Pick(0xe8, 0xe9, 0xed, 0, 0xe7))}, []byte("bye")...)
			if r.Chance(1, 4) {
				f.Payload = r.Bytes(r.Pick(0, 1, 2, 10))
			}
		default:
			if open {
				f.Opcode = 0
			} else {
				f.Opcode = byte(r.Pick(1, 2))
			}
			open = !f.Fin
			n := r.Pick(0, 1, 125, 126, 300, 1000, 70000)
			if n == 70000 && !r.Chance(1, 10) {
				n = 200
			}
			f.Payload = r.Bytes(n)
			if deflate && f.Opcode != 0 && r.Bool() {
				f.Rsv1 = true
				f.Payload = verifC07Deflated(r.Intn(64))
			}
		}
		if r.Chance(1, 15) {
			f.Rsv2 = r.Bool()
			f.Rsv3 = r.Bool()
			f.Opcode = byte(r.Intn(16))
		}
		if r.Chance(1, 15) {
			f.HasDeclared = true
			f.Declared = r.PickU64(0, 1, 126, 65536, 1<<63, 1<<63+5, ^uint64(0)-255, ^uint64(0), uint64(len(f.Payload)+1))
			// a (possibly non-minimal) form that can hold the declared length
			forms := []refws.LenForm{refws.Form64}
			if f.Declared <= 65535 {
				forms = append(forms, refws.Form16)
			}
			if f.Declared <= 125 {
				forms = append(forms, refws.Form7)
			}
			f.Form = forms[r.Intn(len(forms))]
		}
		fr = append(fr, f)
	}
	wire, _ := refws.Gen(fr)
	return wire
}

func TestVerif_C07_Ws(t *testing.T) {
	part := "ws"
	if hostile.Ticks() {
		part = "wsticks"
	}
	m := mon.New("C07", part)
	defer m.Finish(t)
	m.Rule("websocket entries: the frame reader (NextReader + drain, until the first error) in both roles, with and without negotiated " +
		"compression, with and without a read limit; inputs as in the hostile part with reference-generated frame sequences (incl. wrong " +
		"masking, reserved bits/opcodes, non-minimal and top-bit lengths, compressed payloads) as grammar seeds; families: many empty frames, " +
		"many fragments, many pings, many tiny compressed messages")
	var es []hostile.Entry
	rep := func(unit []byte, n int) []byte {
		b := make([]byte, 0, n+len(unit))
		for len(b) < n {
			b = append(b, unit...)
		}
		return b
	}
	for _, cfg := range []verifC07Cfg{{true, false, 0}, {false, false, 0}, {true, true, 0}, {false, true, 0}, {true, false, 100}, {false, true, 100}} {
		cfg := cfg
		masked := cfg.server // a server reads client (masked) frames
		mk := func(f refws.Frame) []byte {
			f.Masked = masked
			f.Key = [4]byte{1, 2, 3, 4}
			return f.AppendWire(nil)
		}
		fams := []hostile.Family{
			{Name: "many-empty-messages", Gen: func(n int) []byte { return rep(mk(refws.Frame{Fin: true, Opcode: 2}), n) }},
			{Name: "many-empty-fragments", Gen: func(n int) []byte {
				return append(mk(refws.Frame{Opcode: 2}), rep(mk(refws.Frame{Opcode: 0}), n)...)
			}},
			{Name: "many-1byte-fragments", Gen: func(n int) []byte {
				return append(mk(refws.Frame{Opcode: 1, Payload: []byte("a")}), rep(mk(refws.Frame{Opcode: 0, Payload: []byte("a")}), n)...)
			}},
			{Name: "many-pings", Gen: func(n int) []byte { return rep(mk(refws.Frame{Fin: true, Opcode: 9, Payload: []byte("p")}), n) }},
			{Name: "many-pongs-inside-message", Gen: func(n int) []byte {
				return append(mk(refws.Frame{Opcode: 2, Payload: []byte("x")}), rep(mk(refws.Frame{Fin: true, Opcode: 10}), n)...)
			}},
		}
		if cfg.compress {
			fams = append(fams, hostile.Family{Name: "many-compressed-messages", Gen: func(n int) []byte {
				return rep(mk(refws.Frame{Fin: true, Rsv1: true, Opcode: 1, Payload: refws.Deflate([]byte("hello"), 1)}), n)
			}})
		}
		es = append(es, hostile.Entry{Name: cfg.name(), F: verifC07Reader(cfg), Weight: 50, Families: fams,
			Seed: func(r *vrand.Rand) []byte { return verifC07Frames(r, masked, cfg.compress) }})
	}
	per := 20000
	if hostile.Ticks() {
		per = 3000
	}
	hostile.Run(m, es, hostile.Options{PerEntryQuick: per, PerEntryThorough: per * 50})
	for _, e := range es {
		m.Require("inputs:"+e.Name, 100)
	}
}
