package c11

import (
	"bytes"
	"testing"

	"github.com/ossrs/go-oryx-lib/aac"
	"verifharness/lib/mon"
	"verifharness/lib/refadts"
)

// One encoder INSTANCE encoding a sequence of frames (as a muxer does): state kept between
// frames (a cached header, a reused buffer) must not leak from one frame into the next.
func TestVerif_C11_EncoderSequences(t *testing.T) {
	m := mon.New("C11", "encseq")
	defer m.Finish(t)
	m.Rule("encseq: one ADTS encoder instance encodes 2..8 frames in a row with raw lengths drawn from {1,2,120,255,256,2040,2041,2047,2048,3000,4088,4089,8183,8184,random} " +
		"(so that consecutive frames differ in the high bits of the 13-bit length), SetASC called again between frames in a third of the sequences (same or other " +
		"accepted configuration), in a quarter of the remaining steps the configuration is changed by DECODING a reference-written frame of another configuration on the same instance or through the ASC() pointer (expected = what ASC() then reports); every frame is decoded by a fresh decoder AND parsed by the reference bit extractor: raw block equal, nothing left over, " +
		"profile/index/channels of the configuration in effect; frames returned earlier must not be changed by later Encode calls; distinct = (length class of previous frame, of this frame, reconfigured)")
	n := m.N(6000, 600000)
	m.Require("evaluations", int64(n))
	m.Require("frames_checked", int64(n*2))
	m.Require("reconfigured_by_decoding_a_frame", int64(n/20))
	m.Require("reconfigured_through_the_ASC_pointer", int64(n/20))
	cfgs := allConfigs()
	lens := []int{1, 2, 120, 255, 256, 2040, 2041, 2047, 2048, 3000, 4088, 4089, 8183, 8184}
	mon.Parallel(n, func(w, i int) {
		r := m.Rand("encseq", i)
		m.Case()
		c := cfgs[r.Intn(len(cfgs))]
		enc := newADTS(m)
		if enc == nil {
			return
		}
		rep := map[string]interface{}{"case": i}
		set := func() bool {
			ab := refadts.ASC{ObjectType: c.obj, SamplingIndex: c.sfi, Channels: c.ch, Tail: r.Intn(8)}.Bytes()
			if err := enc.SetASC(ab[:]); err != nil {
				m.Violationf("c11:setasc-accepted-config-rejected", rep, "SetASC(%s): %v", mon.Hex(ab[:]), firstLine(err))
				return false
			}
			return true
		}
		m.Guard("aac.ADTS.Encode-sequence", nil, func() {
			if !set() {
				return
			}
			type sent struct {
				frame, copy, raw []byte
				c                config
			}
			var all []sent
			prevLen := 0
			var trace []int
			for k := 0; k < r.Range(2, 8); k++ {
				reconf := false
				if k > 0 && r.Chance(1, 3) {
					if r.Bool() {
						c = cfgs[r.Intn(len(cfgs))]
					}
					if !set() {
						return
					}
					reconf = true
				}
				if k > 0 && !reconf && r.Chance(1, 4) {
					// the configuration also changes when the same instance DECODES a frame of another stream ("user can get the
					// asc after decode ok"), or when the caller edits the configuration ASC() exposes: the next frame must report
					// what ASC() reports at that moment — the instance's own statement of its configuration
					if r.Bool() {
						c2 := cfgs[r.Intn(len(cfgs))]
						p2, _ := refadts.ADTSProfile(c2.obj)
						h := refadts.Header{MPEG2: r.Bool(), ProtectionAbsent: true, Profile: p2, SamplingIndex: c2.sfi, Channels: c2.ch}
						in, werr := refadts.WriteFrame(nil, h, payload(r, r.Range(1, 40)), false)
						if werr == nil {
							if _, _, err := enc.Decode(in); err == nil {
								a := enc.ASC()
								c = config{int(a.Object), int(a.SampleRate), int(a.Channels)}
								reconf = true
								m.Count("reconfigured_by_decoding_a_frame", 1)
							}
						}
					} else {
						c2 := cfgs[r.Intn(len(cfgs))]
						a := enc.ASC()
						a.SampleRate, a.Channels = aac.SampleRateIndex(c2.sfi), aac.Channels(c2.ch)
						c = config{int(a.Object), c2.sfi, c2.ch}
						reconf = true
						m.Count("reconfigured_through_the_ASC_pointer", 1)
					}
				}
				nraw := lens[r.Intn(len(lens))]
				if r.Chance(1, 5) {
					nraw = r.Range(1, 8184)
				}
				raw := payload(r, nraw)
				trace = append(trace, nraw)
				rep["raw_lengths"] = trace
				frame, err := enc.Encode(raw)
				if err != nil {
					m.Violationf("c11:encode-error:sequence", rep, "frame %d (%d raw bytes) on a used encoder: %v", k, nraw, firstLine(err))
					return
				}
				all = append(all, sent{frame, append([]byte(nil), frame...), raw, c})
				m.Classf("seq/prev%s/this%s/reconf%v", lenClass(prevLen), lenClass(nraw), reconf)
				prevLen = nraw
			}
			for k, s := range all {
				if !bytes.Equal(s.frame, s.copy) {
					m.Violationf("c11:earlier-frame-overwritten:sequence", rep, "frame %d returned by Encode was modified by a later Encode call", k)
					return
				}
				dec := newADTS(m)
				got, left, err := dec.Decode(s.frame)
				if err != nil {
					m.Violationf("c11:own-frame-rejected:sequence", rep, "frame %d of the sequence (raw %d bytes, %v): %v", k, len(s.raw), s.c, firstLine(err))
					return
				}
				if !compareRaw(m, got, s.raw, "frame of a sequence", ":own-sequence", rep) {
					return
				}
				if len(left) != 0 {
					m.Violationf("c11:remainder-not-empty:sequence", rep, "frame %d leaves %d bytes", k, len(left))
					return
				}
				wantProfile, _ := refadts.ADTSProfile(s.c.obj)
				checkReported(m, dec, wantProfile, s.c.sfi, s.c.ch, ":sequence", rep)
				if h, rraw, rrest, err := refadts.Parse(s.frame); err != nil || !bytes.Equal(rraw, s.raw) || len(rrest) != 0 || h.FrameLength != len(s.frame) {
					m.Count("encoder_header_reference_disagrees", 1)
				}
				m.Count("frames_checked", 1)
			}
		})
	})
}

// A long stream: one encoder and one decoder over 70 000 frames (an hour of audio is ~170 000): state after 2^16
// frames, reconfigurations far into the stream, the remainder handed back tens of thousands of times.
func TestVerif_C11_LongStream(t *testing.T) {
	m := mon.New("C11", "longstream")
	defer m.Finish(t)
	m.Rule("longstream: 2 (quick) / 8 (thorough) streams of 70 000 frames from ONE encoder instance (raw 1..60 bytes, every 997th frame 2041..8184 bytes, SetASC to another " +
		"accepted configuration every ~9000 frames), concatenated and decoded by ONE decoder instance frame by frame from the remainder; raw blocks equal, remainder at the " +
		"next sync word, reported configuration = the one in effect; the raw blocks returned are re-examined at the end; distinct = 10 000-frame block x configuration")
	n := m.N(2, 8)
	const frames = 70000
	m.Require("evaluations", int64(n))
	m.Require("stream_frames_decoded", int64(n*frames))
	cfgs := allConfigs()
	mon.Parallel(n, func(w, i int) {
		r := m.Rand("longstream", i)
		m.Case()
		rep := map[string]interface{}{"case": i}
		m.Guard("aac.ADTS.long-stream", nil, func() {
			enc := newADTS(m)
			if enc == nil {
				return
			}
			c := cfgs[r.Intn(len(cfgs))]
			set := func() bool {
				ab := refadts.ASC{ObjectType: c.obj, SamplingIndex: c.sfi, Channels: c.ch, Tail: r.Intn(8)}.Bytes()
				if err := enc.SetASC(ab[:]); err != nil {
					m.Violationf("c11:setasc-accepted-config-rejected", rep, "SetASC(%s): %v", mon.Hex(ab[:]), firstLine(err))
					return false
				}
				return true
			}
			if !set() {
				return
			}
			type fr struct {
				c   config
				raw []byte
				off int
			}
			all := make([]fr, 0, frames)
			var stream []byte
			for k := 0; k < frames; k++ {
				if k > 0 && k%9001 == 0 {
					c = cfgs[r.Intn(len(cfgs))]
					if !set() {
						return
					}
				}
				nraw := r.Range(1, 60)
				if k%997 == 0 {
					nraw = r.Pick(2041, 2048, 4089, 8183, 8184)
				}
				raw := payload(r, nraw)
				f, err := enc.Encode(raw)
				if err != nil {
					m.Violationf("c11:encode-error:long-stream", rep, "frame %d: %v", k, firstLine(err))
					return
				}
				all = append(all, fr{c, raw, len(stream)})
				stream = append(stream, f...)
			}
			dec := newADTS(m)
			rest := stream
			kept := make([][]byte, 0, frames)
			for k, f := range all {
				rep["frame_index"] = k
				got, left, err := dec.Decode(rest)
				if err != nil {
					m.Violationf("c11:stream-frame-rejected:long-stream", rep, "frame %d of %d rejected: %v", k, frames, firstLine(err))
					return
				}
				m.Count("stream_frames_decoded", 1)
				if !compareRaw(m, got, f.raw, "frame of a long stream", ":long-stream", rep) {
					return
				}
				next := len(stream)
				if k+1 < len(all) {
					next = all[k+1].off
				}
				if !bytes.Equal(left, stream[next:]) {
					m.Violationf("c11:remainder-not-at-next-sync:long-stream", rep, "after frame %d the remainder has %d bytes, the next frame starts %d bytes before the end", k, len(left), len(stream)-next)
					return
				}
				if k%1000 == 0 {
					wp, _ := refadts.ADTSProfile(f.c.obj)
					checkReported(m, dec, wp, f.c.sfi, f.c.ch, ":long-stream", rep)
				}
				if k%10000 == 0 {
					m.Classf("long/%dk/obj%d/sfi%d/ch%d", k/1000, f.c.obj, f.c.sfi, f.c.ch)
				}
				kept = append(kept, got)
				rest = left
			}
			for k, g := range kept {
				if !bytes.Equal(g, all[k].raw) {
					m.Violationf("c11:earlier-raw-block-overwritten:long-stream", rep, "the raw block returned for frame %d was changed by later Decode calls", k)
					break
				}
			}
		})
	})
}
