#!/usr/bin/env python3
"""tools/seedindex.py: regenerate seeded/INDEX.md from seeded/*/meta.json."""
import glob, json, os, re
here = os.path.join(os.path.dirname(os.path.abspath(__file__)), "..", "seeded")
rows = []
for d in sorted(glob.glob(os.path.join(here, "*", ""))):
    m = json.load(open(os.path.join(d, "meta.json")))
    cr = m.get("check_result") or []
    verdict = "; ".join("%s — %s" % (c["verdict"], ", ".join(re.findall(r"sig: ([^']+)", c.get("signatures") or ""))[:110]) for c in cr) or "?"
    clip = lambda s: re.sub(r"\s+", " ", str(s)).replace("|", "/")[:120]
    rows.append("| %s | %s | %s | %s | %s |" % (os.path.basename(d.rstrip("/")), m.get("property"), clip(m.get("what")), clip(m.get("needs")), verdict))
with open(os.path.join(here, "INDEX.md"), "w") as fh:
    fh.write("# Seeded changes (each verified: compiles, pinned suite passes, demo fails with / passes without)\n\n")
    fh.write("%d changes. Rounds: ids without prefix = round 1, rN* = round N (r2 .. r9).\n\n" % len(rows))
    fh.write("| id | property | change | needs | check verdict |\n|---|---|---|---|---|\n")
    fh.write("\n".join(rows) + "\n")
print(len(rows), "rows")
