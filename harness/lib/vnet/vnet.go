// Package vnet holds the transports owned by the harness: byte queues whose reads are
// segmented by a policy (down to one byte, or cut at chosen absolute offsets), fault
// injection by read/write call index or byte offset, blocking pipes for concurrent
// sessions, and write-side recorders.  Nothing here imports the library.
package vnet

import (
	"errors"
	"io"
	"sync"

	"verifharness/lib/vrand"
)

// Seg decides how many bytes a Read may return: given the absolute stream offset, the bytes
// available and the caller's buffer size, it returns 1..min(avail,want).
type Seg interface {
	Next(off int64, avail, want int) int
	Name() string
}

type segWhole struct{}

func (segWhole) Next(off int64, avail, want int) int { return min(avail, want) }
func (segWhole) Name() string                        { return "whole" }

type segOne struct{}

func (segOne) Next(off int64, avail, want int) int { return 1 }
func (segOne) Name() string                        { return "1byte" }

type segRandom struct {
	r   *vrand.Rand
	max int
}

func (s segRandom) Next(off int64, avail, want int) int {
	return min(min(avail, want), 1+s.r.Intn(s.max))
}
func (s segRandom) Name() string { return "random" }

// segCuts ends a read at every listed absolute offset (sorted ascending).
type segCuts struct {
	cuts []int64
	i    int
}

func (s *segCuts) Next(off int64, avail, want int) int {
	n := min(avail, want)
	for s.i < len(s.cuts) && s.cuts[s.i] <= off {
		s.i++
	}
	if s.i < len(s.cuts) && s.cuts[s.i] < off+int64(n) {
		n = int(s.cuts[s.i] - off)
	}
	return n
}
func (s *segCuts) Name() string { return "cuts" }

func SegWhole() Seg                          { return segWhole{} }
func SegOne() Seg                            { return segOne{} }
func SegRandom(r *vrand.Rand, max int) Seg   { return segRandom{r, max} }
func SegCuts(cuts []int64) Seg               { return &segCuts{cuts: cuts} }

// PickSeg chooses a segmentation policy from the PRNG.
func PickSeg(r *vrand.Rand) Seg {
	switch r.Intn(5) {
	case 0:
		return SegWhole()
	case 1:
		return SegOne()
	case 2:
		return SegRandom(r.Split(), 3)
	case 3:
		return SegRandom(r.Split(), 17)
	default:
		return SegRandom(r.Split(), 4096)
	}
}

var ErrEmpty = errors.New("vnet: read on an empty queue (the reader wants more bytes than were written)")

// Queue is a single-threaded byte FIFO: Write appends, Read delivers per the Seg policy.
// A Read on an empty queue returns ErrEmpty (or EOF once Close()d) and is counted.
type Queue struct {
	buf        []byte
	off        int64 // absolute offset of buf[0]
	Seg        Seg
	closed     bool
	EmptyReads int
	Reads      int
	Writes     int
	Written    int64
	Log        []byte // everything ever written, if KeepLog
	KeepLog    bool
	// Fault injection (0 = off): fail the k-th Read / Write call (1-based) with the error.
	FailReadAt  int
	FailWriteAt int
	FailErr     error
	ShortWrite  int // with FailWriteAt: accept this many bytes of the failing write first
}

func NewQueue(seg Seg) *Queue { return &Queue{Seg: seg} }

func (q *Queue) Len() int { return len(q.buf) }

func (q *Queue) Close() { q.closed = true }

func (q *Queue) Read(p []byte) (int, error) {
	q.Reads++
	if q.FailReadAt > 0 && q.Reads == q.FailReadAt {
		return 0, q.FailErr
	}
	if len(p) == 0 {
		return 0, nil
	}
	if len(q.buf) == 0 {
		if q.closed {
			return 0, io.EOF
		}
		q.EmptyReads++
		return 0, ErrEmpty
	}
	n := q.Seg.Next(q.off, len(q.buf), len(p))
	if n < 1 {
		n = 1
	}
	copy(p, q.buf[:n])
	q.buf = q.buf[n:]
	q.off += int64(n)
	return n, nil
}

func (q *Queue) Write(p []byte) (int, error) {
	q.Writes++
	if q.FailWriteAt > 0 && q.Writes == q.FailWriteAt {
		n := min(q.ShortWrite, len(p))
		q.append(p[:n])
		return n, q.FailErr
	}
	q.append(p)
	return len(p), nil
}

func (q *Queue) append(p []byte) {
	q.buf = append(q.buf, p...)
	q.Written += int64(len(p))
	if q.KeepLog {
		q.Log = append(q.Log, p...)
	}
}

// Duplex joins two queues into the io.ReadWriter one endpoint sees.
type Duplex struct {
	In  *Queue
	Out *Queue
}

func (d *Duplex) Read(p []byte) (int, error)  { return d.In.Read(p) }
func (d *Duplex) Write(p []byte) (int, error) { return d.Out.Write(p) }

// Pair returns the two ends of an in-memory connection (a writes what b reads).
func Pair(segAB, segBA Seg) (a, b *Duplex, ab, ba *Queue) {
	ab, ba = NewQueue(segAB), NewQueue(segBA)
	return &Duplex{In: ba, Out: ab}, &Duplex{In: ab, Out: ba}, ab, ba
}

// CutReader delivers data[:cut] under a Seg policy and then fails with Err (io.EOF by default).
type CutReader struct {
	Data  []byte
	Cut   int
	Seg   Seg
	Err   error
	off   int
	Reads int
	// FailAtCall > 0: the k-th Read call fails with Err regardless of position (nothing delivered by that call).
	FailAtCall int
	// DataWithErr: the failing call (or the call that reaches Cut) delivers its bytes TOGETHER with the error
	// (n > 0, err != nil), as io.Reader allows and real transports do.
	DataWithErr bool
	// Transient: only the FailAtCall-th call fails (a timeout, an interrupted call); later calls go on delivering the data.
	Transient bool
}

func (c *CutReader) Read(p []byte) (int, error) {
	c.Reads++
	e := c.Err
	if e == nil {
		e = io.EOF
	}
	failNow := c.FailAtCall > 0 && (c.Reads == c.FailAtCall || (c.Reads > c.FailAtCall && !c.Transient))
	if failNow && !(c.DataWithErr && c.Reads == c.FailAtCall) {
		return 0, e
	}
	if c.off >= c.Cut {
		return 0, e
	}
	if len(p) == 0 {
		return 0, nil
	}
	n := c.Seg.Next(int64(c.off), c.Cut-c.off, len(p))
	if n < 1 {
		n = 1
	}
	copy(p, c.Data[c.off:c.off+n])
	c.off += n
	if c.DataWithErr && (failNow || c.off >= c.Cut) {
		return n, e // the last bytes and the error in the same call
	}
	return n, nil
}

func (c *CutReader) Offset() int { return c.off }

// RW glues an io.Reader and io.Writer.
type RW struct {
	io.Reader
	io.Writer
}

// Discard counts written bytes.
type Recorder struct {
	mu   sync.Mutex
	Data []byte
	N    int
}

func (r *Recorder) Write(p []byte) (int, error) {
	r.mu.Lock()
	r.Data = append(r.Data, p...)
	r.N++
	r.mu.Unlock()
	return len(p), nil
}

// BlockingPipe is a goroutine-safe byte pipe with segmentation on the read side.
type BlockingPipe struct {
	mu     sync.Mutex
	cond   *sync.Cond
	buf    []byte
	off    int64
	seg    Seg
	closed bool
	err    error
}

func NewBlockingPipe(seg Seg) *BlockingPipe {
	p := &BlockingPipe{seg: seg}
	p.cond = sync.NewCond(&p.mu)
	return p
}

func (p *BlockingPipe) Write(b []byte) (int, error) {
	p.mu.Lock()
	defer p.mu.Unlock()
	if p.closed {
		return 0, io.ErrClosedPipe
	}
	p.buf = append(p.buf, b...)
	p.cond.Broadcast()
	return len(b), nil
}

func (p *BlockingPipe) Read(b []byte) (int, error) {
	p.mu.Lock()
	defer p.mu.Unlock()
	for len(p.buf) == 0 {
		if p.closed {
			if p.err != nil {
				return 0, p.err
			}
			return 0, io.EOF
		}
		p.cond.Wait()
	}
	if len(b) == 0 {
		return 0, nil
	}
	n := p.seg.Next(p.off, len(p.buf), len(b))
	if n < 1 {
		n = 1
	}
	copy(b, p.buf[:n])
	p.buf = p.buf[n:]
	p.off += int64(n)
	return n, nil
}

func (p *BlockingPipe) CloseWithError(err error) {
	p.mu.Lock()
	p.closed = true
	p.err = err
	p.cond.Broadcast()
	p.mu.Unlock()
}

func (p *BlockingPipe) Close() error { p.CloseWithError(nil); return nil }
