package c05

import (
	"bytes"
	"testing"

	"github.com/ossrs/go-oryx-lib/amf0"
	"verifharness/lib/amfx"
	"verifharness/lib/mon"
	"verifharness/lib/refamf0"
	"verifharness/lib/vrand"
)

// Trees built top-down and mutated after they were attached, with Size()/MarshalBinary() called on
// ancestors in between (as an application filling in a command object does): the size reported by any
// container must follow every later change below it.
func TestVerif_C05_Incremental(t *testing.T) {
	m := mon.New("C05", "incremental")
	defer m.Finish(t)
	m.Rule("incremental: containers are attached to their parent EMPTY and filled afterwards (recursively, depth<=5), a property of an attached child " +
		"is replaced by a larger/smaller value, and after every single mutation Size() and len(MarshalBinary()) are read on a PRNG-chosen ancestor and on " +
		"the root; oracle: they are equal at every step, and the final bytes decode (reference decoder, library layout) to the abstract tree built in " +
		"parallel; distinct = (depth of the mutated container, kind, operation, which ancestor was read)")
	n := m.N(8000, 400000)
	m.Require("evaluations", int64(n))
	m.Require("mutations_below_a_sized_ancestor", int64(n*3))
	mon.Parallel(n, func(w, i int) {
		r := m.Rand("inc", i)
		m.Case()
		rep := map[string]interface{}{"case": i}
		m.Guard("amf0.incremental", nil, func() {
			type node struct {
				lib   amf0.Amf0
				set   func(string, amf0.Amf0)
				abs   *refamf0.Value
				depth int
				anc   []amf0.Amf0 // ancestors, root first
			}
			mkContainer := func(r *vrand.Rand) (amf0.Amf0, func(string, amf0.Amf0), *refamf0.Value) {
				switch r.Intn(3) {
				case 0:
					o := amf0.NewObject()
					return o, func(k string, v amf0.Amf0) { o.Set(k, v) }, &refamf0.Value{Kind: refamf0.Object}
				case 1:
					o := amf0.NewEcmaArray()
					return o, func(k string, v amf0.Amf0) { o.Set(k, v) }, &refamf0.Value{Kind: refamf0.Ecma}
				}
				o := amf0.NewObject()
				return o, func(k string, v amf0.Amf0) { o.Set(k, v) }, &refamf0.Value{Kind: refamf0.Object}
			}
			rootLib, rootSet, rootAbs := mkContainer(r)
			nodes := []*node{{rootLib, rootSet, rootAbs, 0, nil}}
			steps := r.Range(3, 30)
			kept := map[amf0.Amf0][2][]byte{}
			check := func(what string, nd *node) bool {
				// read sizes on a PRNG-chosen ancestor first (this is what would fill a cache), then on the root
				targets := []amf0.Amf0{rootLib}
				if len(nd.anc) > 0 {
					targets = append([]amf0.Amf0{nd.anc[r.Intn(len(nd.anc))]}, targets...)
				}
				for ti, tg := range targets {
					b, err := tg.MarshalBinary()
					if err != nil {
						m.Violationf("c05:marshal-error:incremental", rep, "%v", err)
						return false
					}
					// the bytes returned for this container the last time are the caller's: marshalling it again, after it was
					// changed, must not have touched them (a per-object encode buffer would)
					if k, ok := kept[tg]; ok && !bytes.Equal(k[0], k[1]) {
						m.Violationf("c05:marshalled-bytes-changed-by-a-later-marshal:incremental", rep, "the %d bytes MarshalBinary returned earlier for this container changed when it was marshalled again after %s", len(k[1]), what)
						return false
					}
					kept[tg] = [2][]byte{b, append([]byte(nil), b...)}
					if tg.Size() != len(b) {
						m.Violationf("c05:size-ne-marshal-len:incremental", rep, "after %s at depth %d: Size()=%d but MarshalBinary gives %d bytes (container read #%d of %d)", what, nd.depth, tg.Size(), len(b), ti, len(targets))
						return false
					}
				}
				return true
			}
			rootLib.Size() // a size read before anything is attached
			for s := 0; s < steps; s++ {
				nd := nodes[r.Intn(len(nodes))]
				key := []string{"a", "b", "c", "d", "code", "level", ""}[r.Intn(7)]
				op := r.Intn(3)
				if nd.depth >= 5 && op == 0 {
					op = 1
				}
				var val amf0.Amf0
				var av *refamf0.Value
				what := ""
				switch op {
				case 0: // attach an EMPTY container, to be filled later
					l, set, a := mkContainer(r)
					val, av = l, a
					nodes = append(nodes, &node{l, set, a, nd.depth + 1, append(append([]amf0.Amf0(nil), nd.anc...), nd.lib)})
					what = "attach-empty-container"
				case 1: // scalar
					t := refamf0.Gen(r, refamf0.GenOpts{MaxDepth: 0, MaxWidth: 1, BigStrings: r.Chance(1, 8)})
					val, av = amfx.Build(t), t
					what = "set-scalar"
				default: // a small ready-made subtree
					t := refamf0.Gen(r, refamf0.GenOpts{MaxDepth: 2, MaxWidth: 3, EmptyKeys: true})
					amfx.ZeroEcmaCounts(t)
					val, av = amfx.Build(t), t
					what = "set-subtree"
				}
				nd.set(key, val)
				// mirror Set's replace-or-append semantics in the abstract tree
				replaced := false
				for k := range nd.abs.Props {
					if nd.abs.Props[k].Key == key {
						// a replaced container is no longer part of the tree: drop it from the mutable nodes
						old := nd.abs.Props[k].Val
						for q := 0; q < len(nodes); q++ {
							if nodes[q].abs == old {
								nodes = append(nodes[:q], nodes[q+1:]...)
								q--
							}
						}
						nd.abs.Props[k].Val = av
						replaced = true
					}
				}
				if !replaced {
					nd.abs.Props = append(nd.abs.Props, refamf0.Prop{Key: key, Val: av})
				}
				if nd.depth > 0 {
					m.Count("mutations_below_a_sized_ancestor", 1)
				}
				m.Classf("d%d/%s/replaced%v/anc%d", nd.depth, what, replaced, len(nd.anc))
				if !check(what, nd) {
					return
				}
			}
			b, _ := rootLib.MarshalBinary()
			got, used, err := refamf0.DecodeKeyedStrict(b)
			if err != nil || used != len(b) || !refamf0.Equal(got, rootAbs, false) {
				d := ""
				if got != nil {
					d = got.Describe()
				}
				m.Violationf("c05:decoded-tree-differs:incremental", rep, "final bytes decode to %s (err=%v), built %s", d, err, rootAbs.Describe())
			}
			if m.WantSample() {
				m.Sample(map[string]interface{}{"steps": steps, "final_tree": rootAbs.Describe(), "bytes": len(b)})
			}
		})
	})
}

// The same question for trees that were DECODED (the command object a server received) and are then edited in place below the
// root — through a nested container reached with Get, or through the pointer to a decoded scalar — without the ancestors being
// touched: whatever the decoder remembered about the bytes it consumed, Size() of every ancestor equals what it marshals to now.
func TestVerif_C05_DecodedThenEdited(t *testing.T) {
	m := mon.New("C05", "decodededit")
	defer m.Finish(t)
	m.Rule("decodededit: a PRNG tree (objects and ECMA arrays, depth<=4, unique keys) is encoded by the reference encoder and decoded by the library; " +
		"then 1..12 in-place edits are made at PRNG-chosen nested containers (Set of a new key, replacement of a key by a longer/shorter value, attach of a subtree) " +
		"or decoded scalars (*String/*Number/*Boolean written through the pointer Get returned); after every edit Size() and len(MarshalBinary()) are read on every " +
		"container on the path from the root to the edited node; oracle: equal at every step, and the final bytes decode (reference decoder) to the abstract tree " +
		"edited in parallel; distinct = (depth of the edit, kind of edit, container kind)")
	n := m.N(6000, 300000)
	m.Require("evaluations", int64(n))
	m.Require("edits_below_a_decoded_ancestor", int64(n*2))
	m.Require("scalar_edits_through_decoded_pointer", int64(n/4))
	mon.Parallel(n, func(w, i int) {
		r := m.Rand("decedit", i)
		m.Case()
		rep := map[string]interface{}{"case": i}
		m.Guard("amf0.decodededit", nil, func() {
			sub := refamf0.Gen(r, refamf0.GenOpts{MaxDepth: 4, MaxWidth: 4})
			root := &refamf0.Value{Kind: refamf0.Object, Props: []refamf0.Prop{
				{Key: "cmd", Val: &refamf0.Value{Kind: refamf0.Object, Props: []refamf0.Prop{{Key: "app", Val: &refamf0.Value{Kind: refamf0.String, Str: "live"}}, {Key: "t", Val: sub}}}},
				{Key: "n", Val: &refamf0.Value{Kind: refamf0.Number, Num: float64(i)}}}}
			if r.Bool() {
				root.Kind = refamf0.Ecma
				root.Count = 2
			}
			wire := refamf0.Encode(nil, root)
			rep["wire_hex_prefix"] = hexPrefix(wire, 64)
			lib, err := decodeLib(wire)
			if err != nil {
				m.Violationf("c05:decode-error:decodededit", rep, "%v", err)
				return
			}
			if lib.Size() != len(wire) {
				m.Violationf("c05:size-ne-consumed:decodededit", rep, "Size()=%d after decoding %d bytes", lib.Size(), len(wire))
				return
			}
			type getter interface {
				Get(string) amf0.Amf0
			}
			type path struct {
				abs  *refamf0.Value
				libs []amf0.Amf0 // root .. this container
			}
			// containers of the decoded tree, found by walking the abstract tree and following the same keys with Get
			var conts []path
			var walk func(a *refamf0.Value, l amf0.Amf0, anc []amf0.Amf0)
			walk = func(a *refamf0.Value, l amf0.Amf0, anc []amf0.Amf0) {
				g, ok := l.(getter)
				if !ok {
					return
				}
				here := append(append([]amf0.Amf0(nil), anc...), l)
				conts = append(conts, path{a, here})
				for _, p := range a.Props {
					if p.Val.Kind == refamf0.Object || p.Val.Kind == refamf0.Ecma {
						if c := g.Get(p.Key); c != nil {
							walk(p.Val, c, here)
						}
					}
				}
			}
			walk(root, lib, nil)
			edits := r.Range(1, 12)
			for e := 0; e < edits; e++ {
				pt := conts[r.Intn(len(conts))]
				depth := len(pt.libs) - 1
				cont := pt.libs[depth]
				g := cont.(getter)
				what := ""
				switch op := r.Intn(4); {
				case op == 0 && len(pt.abs.Props) > 0: // write through the pointer to a decoded scalar
					k := r.Intn(len(pt.abs.Props))
					pr := &pt.abs.Props[k]
					switch v := g.Get(pr.Key).(type) {
					case *amf0.String:
						ns := genEditString(r)
						*v = amf0.String(ns)
						pr.Val = &refamf0.Value{Kind: refamf0.String, Str: ns}
						what = "write-decoded-string"
						m.Count("scalar_edits_through_decoded_pointer", 1)
					case *amf0.Number:
						*v = amf0.Number(float64(e) + 0.5)
						pr.Val = &refamf0.Value{Kind: refamf0.Number, Num: float64(e) + 0.5}
						what = "write-decoded-number"
						m.Count("scalar_edits_through_decoded_pointer", 1)
					case *amf0.Boolean:
						*v = !*v
						pr.Val = &refamf0.Value{Kind: refamf0.Boolean, Bool: bool(*v)}
						what = "write-decoded-boolean"
						m.Count("scalar_edits_through_decoded_pointer", 1)
					default:
						continue
					}
				default:
					key := []string{"a", "b", "tcUrl", "objectEncoding", "app", "t"}[r.Intn(6)]
					var tr *refamf0.Value
					if r.Bool() {
						tr = &refamf0.Value{Kind: refamf0.String, Str: genEditString(r)}
						what = "set-string"
					} else {
						tr = refamf0.Gen(r, refamf0.GenOpts{MaxDepth: 2, MaxWidth: 3})
						amfx.ZeroEcmaCounts(tr)
						what = "set-subtree"
					}
					val := amfx.Build(tr)
					switch c := cont.(type) {
					case *amf0.Object:
						c.Set(key, val)
					case *amf0.EcmaArray:
						c.Set(key, val)
					default:
						continue
					}
					replaced := false
					for k := range pt.abs.Props {
						if pt.abs.Props[k].Key == key {
							old := pt.abs.Props[k].Val
							for q := 0; q < len(conts); q++ { // containers below a replaced value are gone
								if within(old, conts[q].abs) {
									conts = append(conts[:q], conts[q+1:]...)
									q--
								}
							}
							pt.abs.Props[k].Val = tr
							replaced = true
						}
					}
					if !replaced {
						pt.abs.Props = append(pt.abs.Props, refamf0.Prop{Key: key, Val: tr})
					}
				}
				if depth > 0 {
					m.Count("edits_below_a_decoded_ancestor", 1)
				}
				m.Classf("d%d/%s/%T", depth, what, cont)
				// innermost first, the root last
				for q := len(pt.libs) - 1; q >= 0; q-- {
					b, err := pt.libs[q].MarshalBinary()
					if err != nil {
						m.Violationf("c05:marshal-error:decodededit", rep, "%v", err)
						return
					}
					if sz := pt.libs[q].Size(); sz != len(b) {
						m.Violationf("c05:size-ne-marshal-len:decoded-then-edited", rep, "after %s at depth %d of a decoded tree: Size()=%d on the container at depth %d but it marshals to %d bytes", what, depth, sz, q, len(b))
						return
					}
				}
			}
			b, _ := lib.MarshalBinary()
			got, used, err := refamf0.DecodeKeyedStrict(b)
			if err != nil || used != len(b) || !refamf0.Equal(got, root, false) {
				d := ""
				if got != nil {
					d = got.Describe()
				}
				m.Violationf("c05:decoded-tree-differs:decodededit", rep, "final bytes decode to %s (err=%v), edited tree is %s", d, err, root.Describe())
			}
			if m.WantSample() {
				m.Sample(map[string]interface{}{"edits": edits, "final_tree": root.Describe(), "bytes": len(b)})
			}
		})
	})
}

func within(top, x *refamf0.Value) bool {
	if top == x {
		return true
	}
	for _, p := range top.Props {
		if within(p.Val, x) {
			return true
		}
	}
	return false
}

func genEditString(r *vrand.Rand) string {
	n := r.Pick(0, 1, 7, 40, 300)
	b := make([]byte, n)
	for k := range b {
		b[k] = byte('a' + r.Intn(26))
	}
	return string(b)
}

func hexPrefix(b []byte, n int) string {
	if len(b) > n {
		b = b[:n]
	}
	const hx = "0123456789abcdef"
	o := make([]byte, 0, 2*len(b))
	for _, c := range b {
		o = append(o, hx[c>>4], hx[c&15])
	}
	return string(o)
}
