package refws

import (
	"bytes"
	"compress/flate"
	"errors"
	"fmt"
	"io"
	"sync"
)

var inflaters = sync.Pool{New: func() interface{} { return flate.NewReader(bytes.NewReader(nil)) }}

// Inflate is the receiver side of RFC 7692 §7.2.2: append 00 00 ff ff to the
// message payload and inflate.  Go's flate reader wants a final block, so an
// empty final stored block (01 00 00 ff ff) is appended as well.  Each message
// is an independent stream (no context takeover, the only mode the library
// negotiates).
func Inflate(wire []byte) ([]byte, error) {
	src := &tailReader{a: wire, b: inflateTail}
	fr := inflaters.Get().(io.ReadCloser) // src is an io.ByteReader: flate consumes exactly what it decodes
	fr.(flate.Resetter).Reset(src, nil)
	var out bytes.Buffer
	out.Grow(2*len(wire) + 64)
	_, err := out.ReadFrom(fr)
	inflaters.Put(fr)
	res := out.Bytes()
	if res == nil {
		res = []byte{}
	}
	if err != nil {
		return res, err
	}
	if left := src.left(); left > len(inflateTail) {
		return res, fmt.Errorf("deflate stream ended %d bytes before the end of the message payload", left-len(inflateTail))
	}
	return res, nil
}

var inflateTail = []byte("\x00\x00\xff\xff\x01\x00\x00\xff\xff")

// tailReader reads a then b without copying them together.
type tailReader struct {
	a, b []byte
	i    int
}

func (t *tailReader) left() int { return len(t.a) + len(t.b) - t.i }

func (t *tailReader) ReadByte() (byte, error) {
	switch {
	case t.i < len(t.a):
		t.i++
		return t.a[t.i-1], nil
	case t.i < len(t.a)+len(t.b):
		t.i++
		return t.b[t.i-1-len(t.a)], nil
	}
	return 0, io.EOF
}

func (t *tailReader) Read(p []byte) (int, error) {
	n := 0
	if t.i < len(t.a) {
		n = copy(p, t.a[t.i:])
	} else if t.i < len(t.a)+len(t.b) {
		n = copy(p, t.b[t.i-len(t.a):])
	} else {
		return 0, io.EOF
	}
	t.i += n
	return n, nil
}

// Deflate is the sender side of RFC 7692 §7.2.1 using compress/flate: compress,
// sync-flush, strip the trailing 00 00 ff ff.
func Deflate(plain []byte, level int) []byte {
	var b bytes.Buffer
	fw, err := flate.NewWriter(&b, level)
	if err != nil {
		panic(err)
	}
	fw.Write(plain)
	fw.Flush()
	out := b.Bytes()
	if len(out) < 4 || !bytes.Equal(out[len(out)-4:], []byte{0, 0, 0xff, 0xff}) {
		panic("refws: flate.Flush did not end in 00 00 ff ff")
	}
	return out[:len(out)-4]
}

// DeflateExact builds a permessage-deflate payload of exactly n bytes (n >= 1)
// and returns it with the message it inflates to.  n >= 6: stored blocks
// (RFC 1951 §3.2.4: header byte 00, LEN, NLEN, data) followed by the header
// byte of the stripped empty stored block; n < 6: tiny fixed-Huffman streams.
// fill provides the plain bytes (may be nil => a counter pattern).
func DeflateExact(n int, fill func([]byte)) (wire, plain []byte, err error) {
	if n < 1 {
		return nil, nil, errors.New("no permessage-deflate payload has length 0")
	}
	if n < 6 {
		switch n {
		case 1:
			return []byte{0x00}, []byte{}, nil // the empty message (RFC 7692 §7.2.3.6)
		case 2:
			return []byte{0x02, 0x00}, []byte{}, nil // empty fixed-Huffman block + stored header bits
		}
		for l := 1; l <= 8; l++ {
			p := []byte("abcdefgh")[:l]
			for _, lvl := range []int{1, 9, flate.HuffmanOnly} {
				if w := Deflate(p, lvl); len(w) == n {
					return w, append([]byte{}, p...), nil
				}
			}
		}
		return nil, nil, fmt.Errorf("no %d-byte stream found", n)
	}
	k := 1
	for n-1-5*k > 65535*k {
		k++
	}
	total := n - 1 - 5*k
	plain = make([]byte, total)
	if fill != nil {
		fill(plain)
	} else {
		for i := range plain {
			plain[i] = byte(i*7 + i>>8)
		}
	}
	wire = make([]byte, 0, n)
	rest := plain
	for j := 0; j < k; j++ {
		d := len(rest)
		if d > 65535 {
			d = 65535
		}
		if j < k-1 && len(rest)-d > 65535*(k-1-j) {
			return nil, nil, errors.New("refws: block split failed")
		}
		wire = append(wire, 0x00, byte(d), byte(d>>8), byte(^d), byte(^d>>8))
		wire = append(wire, rest[:d]...)
		rest = rest[d:]
	}
	wire = append(wire, 0x00)
	if len(wire) != n || len(rest) != 0 {
		return nil, nil, fmt.Errorf("refws: built %d bytes, wanted %d", len(wire), n)
	}
	return wire, plain, nil
}
