package refjose

import (
	"crypto/aes"
	"crypto/cipher"
	"crypto/ecdsa"
	"crypto/elliptic"
	"crypto/sha256"
	"encoding/binary"
	"encoding/json"
	"fmt"
	"math/big"
)

// An independent producer of ECDH-ES (direct key agreement) JWE objects, written from RFC 7518 §4.6
// (Concat KDF of NIST SP 800-56A with SHA-256; Z is the fixed-width x coordinate) and RFC 7516 §5.1:
// what a conformant third party would send, including the optional PartyUInfo/PartyVInfo ("apu"/"apv")
// that this library's own encrypter never emits.

func lp(b []byte) []byte {
	out := make([]byte, 4+len(b))
	binary.BigEndian.PutUint32(out, uint32(len(b)))
	copy(out[4:], b)
	return out
}

// ConcatKDFSHA256 derives keyLen bytes.
func ConcatKDFSHA256(z []byte, algID string, apu, apv []byte, keyLen int) []byte {
	other := append([]byte{}, lp([]byte(algID))...)
	other = append(other, lp(apu)...)
	other = append(other, lp(apv)...)
	var bits [4]byte
	binary.BigEndian.PutUint32(bits[:], uint32(keyLen*8))
	other = append(other, bits[:]...)
	var out []byte
	for counter := uint32(1); len(out) < keyLen; counter++ {
		h := sha256.New()
		var c [4]byte
		binary.BigEndian.PutUint32(c[:], counter)
		h.Write(c[:])
		h.Write(z)
		h.Write(other)
		out = h.Sum(out)
	}
	return out[:keyLen]
}

// ForeignECDHES encrypts plaintext to recipient with alg ECDH-ES and enc A128GCM/A192GCM/A256GCM.
// ephD is the ephemeral private scalar (caller-chosen for determinism), iv 12 bytes.
// It returns the compact and the flattened JSON serialization and whether Z had a leading zero byte.
func ForeignECDHES(recipient *ecdsa.PublicKey, enc string, apu, apv []byte, withParty bool, ephD *big.Int, iv, plaintext []byte) (compact, flat string, zLeadingZero bool, err error) {
	keyLen := map[string]int{"A128GCM": 16, "A192GCM": 24, "A256GCM": 32}[enc]
	if keyLen == 0 {
		return "", "", false, fmt.Errorf("unsupported enc %s", enc)
	}
	curve := recipient.Curve
	crv, size, err := curveName(curve)
	if err != nil {
		return "", "", false, err
	}
	ex, ey := curve.ScalarBaseMult(ephD.Bytes())
	zx, _ := curve.ScalarMult(recipient.X, recipient.Y, ephD.Bytes())
	z := fixed(zx, size) // fixed-width field element, leading zeros preserved (SEC 1 / SP 800-56A)
	zLeadingZero = z[0] == 0
	var u, v []byte
	if withParty {
		u, v = apu, apv
	}
	cek := ConcatKDFSHA256(z, enc, u, v, keyLen)
	hdr := map[string]interface{}{
		"alg": "ECDH-ES", "enc": enc,
		"epk": map[string]string{"kty": "EC", "crv": crv, "x": B64(fixed(ex, size)), "y": B64(fixed(ey, size))},
	}
	if withParty {
		hdr["apu"] = B64(apu)
		hdr["apv"] = B64(apv)
	}
	hb, _ := json.Marshal(hdr)
	prot := B64(hb)
	blk, err := aes.NewCipher(cek)
	if err != nil {
		return "", "", false, err
	}
	g, err := cipher.NewGCM(blk)
	if err != nil {
		return "", "", false, err
	}
	sealed := g.Seal(nil, iv, plaintext, []byte(prot))
	ct, tag := sealed[:len(sealed)-16], sealed[len(sealed)-16:]
	compact = prot + ".." + B64(iv) + "." + B64(ct) + "." + B64(tag)
	fb, _ := json.Marshal(map[string]string{"protected": prot, "iv": B64(iv), "ciphertext": B64(ct), "tag": B64(tag)})
	return compact, string(fb), zLeadingZero, nil
}

var _ = elliptic.P256
