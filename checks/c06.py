CHECK = {
    "level": "exploration",
    "engine": "amf0-refcodec",
    "technique": "differential runtime monitoring against an independent AMF0 encoder/decoder written from the specification, both directions, plus exhaustive 256-marker sweep; two-model rule for the listed strict-array deviation",
    "level_text": "Held on the executions observed: the library's Marshal output for generated trees is read by a specification decoder, specification encodings (incl. onMetaData shapes with ECMA count != pairs) are read by the library and compared through accessors/Size()/re-marshal, and all 256 marker bytes x 6 body kinds x 3 positions are swept exhaustively. Evidence counts shapes and markers actually exercised. Not a proof.",
    "level_note": "Trusts the harness's reference codec (written from amf0_spec_121207, DESIGN.md §6) and the public accessors; depth<=6, width<=12.",
    "parts": [
        {"name": "lib2ref", "pkg": "verifharness/prop/c06", "run": "^TestVerif_C06_LibToRef$", "timeout": {"quick": 600, "thorough": 3600}},
        {"name": "ref2lib", "pkg": "verifharness/prop/c06", "run": "^TestVerif_C06_RefToLib$", "timeout": {"quick": 600, "thorough": 3600}},
        {"name": "markers", "pkg": "verifharness/prop/c06", "run": "^TestVerif_C06_Markers$", "timeout": {"quick": 600, "thorough": 3600}},
    ],
    "assumptions": [
        "the reference codec implements amf0_spec_121207 for the supported markers 00 01 02 03 05 06 08 0A",
        "ECMA count is a hint: pairs run to the end marker (specification §2.10)",
    ],
}
