package transport

import (
	"bytes"
	"io"
	"testing"

	"verifharness/lib/vrand"
)

func TestSegReaderModes(t *testing.T) {
	data := vrand.New(1).Bytes(5000)
	for mode := SegWhole; mode <= SegCuts; mode++ {
		for _, eof := range []bool{false, true} {
			s := NewSegReader(data, mode, vrand.New(2))
			s.EOFWithData = eof
			cuts := []int{1, 2, 3, 13, 14, 4999, 6000, -1, 13}
			if mode == SegCuts {
				s.SetCuts(cuts)
			}
			var got []byte
			buf := make([]byte, 700)
			var bounds []int
			for {
				n, err := s.Read(buf)
				if n == 0 && err == nil {
					t.Fatal("(0,nil)")
				}
				got = append(got, buf[:n]...)
				bounds = append(bounds, len(got))
				if mode == SegOneByte && n > 1 {
					t.Fatal("1byte mode delivered", n)
				}
				if mode == SegRandomSmall && n > 7 {
					t.Fatal("randsmall delivered", n)
				}
				if err == io.EOF {
					if eof && n == 0 && len(data) > 0 {
						t.Fatal("EOFWithData: EOF came alone")
					}
					if !eof && n != 0 {
						t.Fatal("EOF came with data")
					}
					break
				}
				if err != nil {
					t.Fatal(err)
				}
			}
			if !bytes.Equal(got, data) {
				t.Fatal("data differs", mode)
			}
			if mode == SegCuts {
				// every cut inside the stream must be a read boundary
				for _, c := range []int{1, 2, 3, 13, 14, 4999} {
					found := false
					for _, b := range bounds {
						found = found || b == c
					}
					if !found {
						t.Fatal("cut not honoured", c, bounds)
					}
				}
			}
			if n, err := s.Read(buf); n != 0 || err != io.EOF {
				t.Fatal("after EOF", n, err)
			}
		}
	}
	// through io.CopyN / io.ReadFull, as decoders use it
	s := PickSegReader(data, vrand.New(3), []int{5, 6, 7}, 0)
	var b bytes.Buffer
	if _, err := io.CopyN(&b, s, 5000); err != nil || !bytes.Equal(b.Bytes(), data) {
		t.Fatal(err)
	}
}
