// C13 — broadcast: one PreparedMessage sent for the first time by many goroutines at once, each on its own
// connection.  A prepared message exists to be shared between connections; its per-(role, compression, level)
// wire image is built lazily by whichever sender comes first.  Every connection's wire must be whole frames
// carrying exactly the prepared payload, whatever the other senders are doing.
package websocket

import (
	"bytes"
	"fmt"
	"net"
	"sync"
	"testing"
	"time"

	"verifharness/lib/mon"
	"verifharness/lib/refws"
)

type verifC13bConn struct {
	mu   sync.Mutex
	wire []byte
	n    int
}

func (c *verifC13bConn) Write(p []byte) (int, error) {
	c.mu.Lock()
	c.wire = append(c.wire, p...)
	c.n++
	c.mu.Unlock()
	return len(p), nil
}
func (c *verifC13bConn) Read(p []byte) (int, error)         { select {} }
func (c *verifC13bConn) Close() error                       { return nil }
func (c *verifC13bConn) LocalAddr() net.Addr                { return verifAddr{} }
func (c *verifC13bConn) RemoteAddr() net.Addr               { return verifAddr{} }
func (c *verifC13bConn) SetDeadline(t time.Time) error      { return nil }
func (c *verifC13bConn) SetReadDeadline(t time.Time) error  { return nil }
func (c *verifC13bConn) SetWriteDeadline(t time.Time) error { return nil }

func TestVerif_C13_Broadcast(t *testing.T) {
	m := mon.New("C13", "broadcast")
	defer m.Finish(t)
	m.Rule("broadcast: one PreparedMessage (text/binary; sizes 0, 1, 125, 4095..4097, 3 and 40 write buffers, 1 MiB; compressible or PRNG bytes) written " +
		"once by each of 2..12 goroutines released together, every goroutine on its own connection; connections differ in role, compression on/off and " +
		"level, so that several wire images are built lazily and concurrently; each connection's wire is parsed by the independent RFC 6455/7692 parser " +
		"and must be exactly one message with the prepared type and payload, role-correct; -race build; distinct = size class x senders x images")
	n := m.N(160, 6000)
	m.Require("evaluations", int64(n))
	m.Require("connections_checked", int64(n*3))
	m.Require("rounds_with_a_multi_frame_image", int64(n/4))
	sizes := []int{0, 1, 125, 4095, 4096, 4097, 3 * 4096, 40 * 4096, 1 << 20}
	for i := 0; i < n; i++ {
		r := m.Rand("broadcast", i)
		size := sizes[i%len(sizes)]
		if size == 1<<20 && m.Quick() && i%(4*len(sizes)) != len(sizes)-1 {
			size = 5*4096 + r.Intn(4096)
		}
		typ := TextMessage
		var payload []byte
		if r.Bool() {
			typ = BinaryMessage
			payload = r.Shaped(size)
		} else {
			payload = bytes.Repeat([]byte("broadcast "), size/10+1)[:size]
		}
		senders := r.Range(2, 12)
		rep := map[string]interface{}{"case": i, "size": size, "type": typ, "senders": senders}
		m.Case()
		pm, err := NewPreparedMessage(typ, payload)
		if err != nil {
			m.Violationf("c13:prepared-error", rep, "NewPreparedMessage: %v", err)
			continue
		}
		type conn struct {
			c      *Conn
			tr     *verifC13bConn
			server bool
			comp   bool
			level  int
			err    error
		}
		conns := make([]*conn, senders)
		images := map[string]bool{}
		// few distinct configurations per round, so that several goroutines meet on the same lazily built image
		cfgs := make([][3]int, 1+r.Intn(3))
		for k := range cfgs {
			cfgs[k] = [3]int{r.Intn(2), r.Intn(2), r.Pick(-2, -1, 1, 6, 9)}
		}
		for k := range conns {
			cfg := cfgs[r.Intn(len(cfgs))]
			x := &conn{tr: &verifC13bConn{}, server: cfg[0] == 1, comp: cfg[1] == 1, level: cfg[2]}
			x.c = newConn(x.tr, x.server, 256, r.Pick(256, 1024, 4096))
			if x.comp {
				x.c.newCompressionWriter, x.c.newDecompressionReader = compressNoContextTakeover, decompressNoContextTakeover
				x.c.SetCompressionLevel(x.level)
			}
			conns[k] = x
			images[fmt.Sprintf("%v/%v/%d", x.server, x.comp, x.level*b2iC13(x.comp))] = true
		}
		start := make(chan struct{})
		var wg sync.WaitGroup
		for _, x := range conns {
			x := x
			m.Go(&wg, "ws.c13.broadcast", func() {
				<-start
				x.err = x.c.WritePreparedMessage(pm)
			})
		}
		close(start)
		wg.Wait()
		multi := false
		for k, x := range conns {
			rep["conn"] = fmt.Sprintf("#%d server=%v compression=%v level=%d", k, x.server, x.comp, x.level)
			if x.err != nil {
				m.Violationf("c13:write-error:Prepared:broadcast", rep, "WritePreparedMessage: %v", x.err)
				continue
			}
			role := refws.RoleClient
			if x.server {
				role = refws.RoleServer
			}
			ps := refws.ParseLog(role, x.comp, x.tr.wire)
			if e := ps.Err(); e != nil {
				m.Violationf("c13:broadcast-wire-invalid:"+e.Code, rep, "connection %d: wire of %d bytes is not RFC 6455 frames: %s %s", k, len(x.tr.wire), e.Code, e.Detail)
				continue
			}
			if e := ps.Finish(); e != nil {
				m.Violationf("c13:broadcast-wire-incomplete:"+e.Code, rep, "connection %d: wire of %d bytes ends early: %s %s (a prefix of the prepared frames?)", k, len(x.tr.wire), e.Code, e.Detail)
				continue
			}
			msgs := ps.Messages()
			if len(msgs) != 1 || len(ps.Events()) != 1 {
				m.Violationf("c13:broadcast-message-count", rep, "connection %d carries %d messages / %d events, one prepared message was written", k, len(msgs), len(ps.Events()))
				continue
			}
			if int(msgs[0].Opcode) != typ || !bytes.Equal(msgs[0].Payload, payload) {
				m.Violationf("c13:broadcast-message-differs", rep, "connection %d: type %d, %d payload bytes; prepared type %d, %d bytes", k, msgs[0].Opcode, len(msgs[0].Payload), typ, len(payload))
				continue
			}
			if msgs[0].NFrames > 1 {
				multi = true
			}
			m.Count("connections_checked", 1)
		}
		if multi {
			m.Count("rounds_with_a_multi_frame_image", 1)
		}
		m.Classf("size:%d/senders:%d/images:%d", size, senders, len(images))
	}
}

func b2iC13(b bool) int {
	if b {
		return 1
	}
	return 0
}
