#!/bin/bash
# tools/r9seeds.sh <seed>...: every round-9 kept change against its property's quick check at the given seeds, properties in parallel
here=$(cd "$(dirname "$0")/.." && pwd)
for p in $(ls -d $here/seeded/*-r9* | xargs -n1 basename | cut -d- -f1 | sort -u); do
  (
    for s in "$@"; do
      for d in $here/seeded/$p-r9*/; do
        VERIF_SEED=$s python3 $here/tools/mutant.py check $d 2>&1 | grep -E "CAUGHT|MISSED|INCONCLUSIVE" | sed "s|^|seed=$s $(basename $d) |" | cut -c1-160
      done
    done
  ) &
done
wait
echo R9SEEDS-DONE
